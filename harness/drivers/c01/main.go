// C01 driver: replays TLC-generated framing behaviours (spec/Framing.tla: a packet sequence plus the
// transport's chunking decisions) on the real stream.StreamProcessor: every packet is written with the
// real WritePacket into a buffer, the bytes are served to a second real StreamProcessor through a
// chunk-controlled io.Reader, or through a real transport of the adapters (transports.go): a WebSocket pair
// (message-transport behaviours of the model: the peer's message partition, remainders kept by wsServerConn /
// wsClientConn; also the real writer writing straight onto the wrapper), loopback QUIC and KCP connections;
// every ReadPacket result is recorded for the judge (spec/FramingTrace.tla).
package main

import (
	"bytes"
	"compress/gzip"
	"context"
	"encoding/json"
	"errors"
	"fmt"
	"hash/fnv"
	"io"
	"math/rand"
	"net"
	"reflect"
	"strings"
	"sync"
	"sync/atomic"
	"time"

	corelog "tunnox-core/internal/core/log"
	"tunnox-core/internal/packet"
	"tunnox-core/internal/protocol/adapter"
	"tunnox-core/internal/stream"
	"tunnox-core/verifharness/fw"
)

const maxBody = 16 * 1024 * 1024

// ---- behaviour formats -------------------------------------------------------------------

type absPkt struct {
	K   string `json:"k"` // HB | CMD | PAY
	Z   bool   `json:"z"`
	Len int    `json:"len"` // abstract body length class
	C   string `json:"c"`   // body content class ("any": picked here, seeded)
	Fl  string `json:"fl"`  // flag bit the caller presets in PacketType: "" / none | enc (0x80) | zpre (0x40 without compression)
}

func (p absPkt) flagged() bool { return p.Fl != "" && p.Fl != "none" }

type absRead struct {
	F string `json:"f"` // T | L | B
	N int    `json:"n"` // bytes handed over by this Read (0 = empty read)
}
type absBeh struct {
	Pkts  []absPkt  `json:"pkts"`
	Reads []absRead `json:"reads"`
}
type concPkt struct {
	absPkt
	Rate    int64  `json:"rate"`    // rateLimitBytesPerSecond handed to WritePacket (0 = none)
	Type    byte   `json:"type"`    // concrete packet type code
	Size    int    `json:"size"`    // concrete body size (payload bytes / CommandBody bytes)
	Content string `json:"content"` // concrete body content class (payload kinds)
}
type concBeh struct {
	Transport string    `json:"transport"` // reader | ws-c2s | ws-s2c | ws-c2s-w | ws-s2c-w | quic | kcp (transports.go)
	Pkts      []concPkt `json:"pkts"`
	Reads     []absRead `json:"reads"`
	Map       string    `json:"map"` // how abstract body cuts are placed in the real body: prop | head | tail
	Salt      int64     `json:"salt"`
}

var payTypes = []byte{byte(packet.Handshake), byte(packet.HandshakeResp), byte(packet.TunnelOpen), byte(packet.TunnelOpenAck),
	byte(packet.TunnelData), byte(packet.TunnelClose), byte(packet.DataStreamEOF)}
var cmdTypes = []byte{byte(packet.JsonCommand), byte(packet.CommandResp)}

// abstract length class -> concrete sizes
var sizes = map[int][]int{0: {0}, 1: {1}, 2: {2, 5, 4096, 32767}, 3: {3, 4097, 32768, 32769, 70001}}

func hashOf(b []byte) int64 {
	h := fnv.New64a()
	h.Write(b)
	return int64(h.Sum64() >> 1)
}

// body content classes of payload packets: what a tunnel may carry must come back identical whether or
// not compression is on - all zeros, incompressible random bytes, random bytes behind a gzip magic
// (1f 8b 08), a complete gzip stream (e.g. a .gz file), bytes that look like a packet header of this protocol.
var contents = []string{"zeros", "random", "gzmagic", "gzstream", "hdrlike", "period"}

func concretise(a absBeh, r *rand.Rand, transport string) concBeh {
	c := concBeh{Transport: transport, Reads: a.Reads, Map: []string{"prop", "head", "tail"}[r.Intn(3)], Salt: r.Int63()}
	sameSize := r.Intn(2) == 0 // packets of one abstract length share one concrete size (same buffer-pool bucket)
	rated := r.Intn(8) == 0    // WritePacket is called with a rate limit (bodies then go out in 1 KiB writes)
	chosen := map[int]int{}
	for _, p := range a.Pkts {
		cp := concPkt{absPkt: p}
		switch p.K {
		case "HB":
			cp.Type = byte(packet.Heartbeat)
		case "CMD":
			cp.Type = cmdTypes[r.Intn(len(cmdTypes))]
		default:
			cp.Type = payTypes[r.Intn(len(payTypes))]
		}
		ss := sizes[p.Len]
		if ss == nil {
			ss = sizes[3]
		}
		cp.Size = ss[r.Intn(len(ss))]
		if v, ok := chosen[p.Len]; ok && sameSize {
			cp.Size = v
		}
		chosen[p.Len] = cp.Size
		if p.K != "HB" && cp.Size > 0 && cp.Size <= 70001 && rated {
			cp.Rate = 64 << 20 // the writer's rate-limited body path (1 KiB writes); fast enough not to wait noticeably
		}
		if p.K == "PAY" && p.Len > 0 {
			cp.Content = p.C
			if cp.Content == "" || cp.Content == "any" {
				cp.Content = contents[r.Intn(len(contents))]
			}
		}
		c.Pkts = append(c.Pkts, cp)
	}
	return c
}

// ---- concrete packets --------------------------------------------------------------------

const textAlphabet = "abc XYZ 0123456789 \"quoted\" <tag> & \\ / \t\n é ü 漢字   "

func filler(r *rand.Rand, n int, compressible bool) []byte {
	b := make([]byte, n)
	if compressible {
		pat := []byte("tunnox-core framing 0123456789 ")
		for i := range b {
			b[i] = pat[i%len(pat)]
		}
		for i := 0; i < n; i += 997 {
			b[i] = byte(r.Intn(256))
		}
		return b
	}
	r.Read(b)
	if n > 0 {
		b[0] = 0x00
		b[n-1] = 0xff
	}
	return b
}

func text(r *rand.Rand, n int) string {
	rs := []rune(textAlphabet)
	var buf bytes.Buffer
	for buf.Len() < n {
		c := string(rs[r.Intn(len(rs))])
		if buf.Len()+len(c) > n {
			c = "x"
		}
		buf.WriteString(c)
	}
	return buf.String()
}

func build(p concPkt, r *rand.Rand) *packet.TransferPacket {
	t := &packet.TransferPacket{PacketType: packet.Type(p.Type)}
	switch p.Fl {
	case "enc":
		t.PacketType |= packet.Encrypted
	case "zpre":
		t.PacketType |= packet.Compressed
	}
	switch p.K {
	case "HB":
	case "CMD":
		t.CommandPacket = &packet.CommandPacket{CommandType: packet.CommandType(10 + r.Intn(100)), CommandId: fmt.Sprintf("cmd-%d", r.Intn(1e6)),
			Token: "tok", SenderId: "s-1", ReceiverId: "r-2", CommandBody: text(r, p.Size)}
	default:
		if p.Size > 0 {
			t.Payload = body(r, p.Size, p.Content, p.Z)
		}
	}
	return t
}

var hdrLike = [][]byte{{0x22, 0, 0, 0, 5}, {0x03}, {0x43, 0x03}, {0x62, 0, 0, 0, 0}, {0x10, 0, 0, 0, 2, '{', '}'}, {0x23, 0xff, 0xff, 0xff, 0xff}, {0x01, 0, 0x10, 0, 0}}

// body builds n bytes of the given content class (best effort for tiny n: the prefix is cut).
func body(r *rand.Rand, n int, class string, z bool) []byte {
	switch class {
	case "zeros":
		return make([]byte, n)
	case "gzmagic", "hdrlike":
		b := make([]byte, n)
		r.Read(b)
		pre := []byte{0x1f, 0x8b, 0x08}
		if class == "hdrlike" {
			pre = hdrLike[r.Intn(len(hdrLike))]
		}
		copy(b, pre)
		return b
	case "gzstream": // a complete gzip member of exactly n bytes (stored blocks of random data; n >= 24), else its prefix
		var buf bytes.Buffer
		w, _ := gzip.NewWriterLevel(&buf, gzip.NoCompression)
		if n >= 24 {
			in := make([]byte, n)
			r.Read(in)
			lo, hi := 0, n // largest input whose stored encoding fits into n bytes
			for lo < hi {
				mid := (lo + hi + 1) / 2
				if 18+mid+5*(mid/65535+1) <= n {
					lo = mid
				} else {
					hi = mid - 1
				}
			}
			w.Write(in[:lo])
		}
		w.Close()
		b := buf.Bytes()
		if len(b) < n { // a few bytes short of n: trailing padding after the member
			b = append(b, make([]byte, n-len(b))...)
		}
		return b[:n]
	case "random":
		b := make([]byte, n)
		r.Read(b)
		return b
	case "period": // very short period: deflate reaches its maximum ratio (~1030:1), like zeros
		return bytes.Repeat([]byte("abc"), n/3+1)[:n]
	}
	return filler(r, n, z && n > 1<<20) // no class given (driver-made size cases)
}

func sizeClass(n int) string {
	switch {
	case n == 0:
		return "0"
	case n == 1:
		return "1"
	case n < 4096:
		return "small"
	case n < 32767:
		return "4K"
	case n <= 32769:
		return "32K"
	case n < maxBody:
		return "64K+"
	default:
		return "MAX"
	}
}

// ---- chunk plan --------------------------------------------------------------------------

// perPacket splits the abstract read history into the reads that belong to each packet.
func perPacket(b concBeh) [][]absRead {
	out := make([][]absRead, len(b.Pkts))
	i := -1
	var needL, needB int
	for _, rd := range b.Reads {
		switch {
		case rd.F == "M": // a message boundary chosen by the transport, not a read
		case rd.F == "T" && rd.N == 0: // empty read before a type byte: belongs to the next packet
			if i+1 < len(out) {
				out[i+1] = append(out[i+1], rd)
			}
		case rd.F == "T":
			i++
			if i >= len(out) {
				return out
			}
			out[i] = append(out[i], rd)
			needL, needB = 0, 0
			if b.Pkts[i].K != "HB" {
				needL = 4
				needB = b.Pkts[i].Len
				if b.Pkts[i].Z {
					needB++
				}
			}
		default:
			if i >= 0 && i < len(out) {
				out[i] = append(out[i], rd)
				if rd.F == "L" {
					needL -= rd.N
				} else {
					needB -= rd.N
				}
			}
		}
	}
	return out
}

func cutOf(isMsg bool, rs []absRead) string {
	if isMsg {
		return "msg+" + cutClass(rs)
	}
	return cutClass(rs)
}

// msgBehaviour: the transport is a MESSAGE transport (spec: Chunking = "msg"): the history carries the sizes of the
// messages ("M" records) the peer sent; a Read gets min(asked, rest of the current message), the wrapper buffers the rest.
func msgBehaviour(b concBeh) bool {
	for _, rd := range b.Reads {
		if rd.F == "M" {
			return true
		}
	}
	return false
}

// msgChunks maps the abstract message sizes onto the real encoding: sizes[i] = real encoded size of packet i.
func msgChunks(b concBeh, sizes []int) []int {
	// abstract layout of packet i: 1 type byte, 4 length bytes (not for heartbeats), wl body bytes
	realOff := func(i, a int) int { // abstract offset a inside packet i -> real offset inside packet i
		p, n := b.Pkts[i], sizes[i]
		wl := p.Len
		if p.Z {
			wl++
		}
		switch {
		case a <= 0:
			return 0
		case a <= 5 && n >= 5 || a <= 1:
			if a > n {
				return n
			}
			return a
		}
		rb := n - 5
		c := a - 5
		if c >= wl || rb <= 1 {
			return n
		}
		x := c * rb / wl
		if x < 1 {
			x = 1
		}
		return 5 + x
	}
	absSize := func(i int) int {
		p := b.Pkts[i]
		if p.K == "HB" {
			return 1
		}
		wl := p.Len
		if p.Z {
			wl++
		}
		return 5 + wl
	}
	var starts []int
	tot := 0
	for _, n := range sizes {
		starts = append(starts, tot)
		tot += n
	}
	var chunks []int
	apos, last := 0, 0
	for _, rd := range b.Reads {
		if rd.F != "M" {
			continue
		}
		if rd.N == 0 { // an empty message (the wrapper answers it with an empty read)
			chunks = append(chunks, 0)
			continue
		}
		apos += rd.N
		// locate apos
		i, rest := 0, apos
		for i < len(b.Pkts) && rest >= absSize(i) {
			rest -= absSize(i)
			i++
		}
		r := tot
		if i < len(b.Pkts) {
			r = starts[i] + realOff(i, rest)
		}
		if r > last {
			chunks = append(chunks, r-last)
			last = r
		}
	}
	if last < tot {
		chunks = append(chunks, tot-last)
	}
	return chunks
}

func cutClass(rs []absRead) string {
	var typeStall, lenShort, lenStall, bodyCut, bodyStall bool
	lenGot, bodyReads := 0, 0
	for _, r := range rs {
		switch r.F {
		case "T":
			if r.N == 0 {
				typeStall = true
			}
		case "L":
			if r.N == 0 {
				lenStall = true
			} else {
				if lenGot == 0 && r.N < 4 {
					lenShort = true
				}
				lenGot += r.N
			}
		case "B":
			if r.N == 0 {
				bodyStall = true
			} else {
				bodyReads++
			}
		}
	}
	bodyCut = bodyReads > 1
	switch {
	case typeStall:
		return "type-stall"
	case lenShort:
		return "len"
	case lenStall:
		return "len-stall"
	case bodyCut:
		return "body"
	case bodyStall:
		return "body-stall"
	}
	return "none"
}

// planOp is a transport decision at a byte offset inside one packet's encoding.
type planOp struct {
	off   int
	stall bool // true: an empty read here; false: a chunk boundary here
}

// opsFor maps the abstract reads of one packet onto the real encoding of that packet (n bytes:
// type, optional 4-byte length, body): a short read becomes a chunk boundary behind the bytes it
// handed over, an empty read becomes an empty chunk at the current offset.
func opsFor(p concPkt, rs []absRead, n int, mapping string) (ops []planOp, exact bool) {
	exact = true // every abstract read corresponds to exactly one real Read call
	wl := p.Len
	if p.Z {
		wl++
	}
	realBody := n - 5
	off, lgot, bgot := 0, 0, 0
	place := func(c int) int { // abstract body offset c (0<c<wl) -> real body offset
		var x int
		switch mapping {
		case "head":
			x = c
		case "tail":
			x = realBody - (wl - c)
		default:
			x = c * realBody / wl
		}
		if x > realBody-1 {
			x = realBody - 1
		}
		if x < 1 {
			x = 1
		}
		return x
	}
	for _, r := range rs {
		switch r.F {
		case "T":
			if r.N == 0 {
				ops = append(ops, planOp{0, true})
			} else {
				off = 1
			}
		case "L":
			if n < 5 { // the writer put no length on the wire
				exact = false
				continue
			}
			if r.N == 0 {
				ops = append(ops, planOp{off, true})
				continue
			}
			lgot += r.N
			off = 1 + lgot
			if lgot < 4 {
				ops = append(ops, planOp{off, false})
			}
		case "B":
			if n < 5 || (realBody < 2 && wl > 1) {
				exact = false
				continue
			}
			if r.N == 0 {
				ops = append(ops, planOp{off, true})
				continue
			}
			bgot += r.N
			if bgot < wl {
				if o := 5 + place(bgot); o > off {
					off = o
					ops = append(ops, planOp{off, false})
				} else {
					exact = false
				}
			} else {
				off = n
			}
		}
	}
	if wl != realBody && (wl == 0 || realBody == 0) && n >= 5 { // e.g. a command packet: its JSON body is never empty
		exact = false
	}
	return ops, exact
}

// planner turns per-packet ops into the list of chunk sizes of the whole stream.
type planner struct {
	chunks []int
	cur    int
}

func (pl *planner) packet(ops []planOp, n int) {
	last := 0
	for _, o := range ops {
		if o.off < last {
			o.off = last
		}
		if o.off > n {
			o.off = n
		}
		pl.cur += o.off - last
		last = o.off
		if pl.cur > 0 {
			pl.chunks = append(pl.chunks, pl.cur)
			pl.cur = 0
		}
		if o.stall {
			pl.chunks = append(pl.chunks, 0)
		}
	}
	pl.cur += n - last
}
func (pl *planner) finish() []int {
	if pl.cur > 0 {
		pl.chunks = append(pl.chunks, pl.cur)
		pl.cur = 0
	}
	return pl.chunks
}

// chunkReader serves data in the given chunk sizes: a Read never crosses a chunk boundary (like a
// message transport with left-over buffering); a zero-size chunk is an empty read (0, nil).
type chunkReader struct {
	data   []byte
	pos    int
	chunks []int
	reads  int
}

func (c *chunkReader) remaining() int { return len(c.data) - c.pos }
func (c *chunkReader) Read(p []byte) (int, error) {
	c.reads++
	if len(p) == 0 {
		return 0, nil
	}
	for len(c.chunks) > 0 {
		if c.chunks[0] == 0 {
			c.chunks = c.chunks[1:]
			return 0, nil
		}
		n := c.chunks[0]
		if n > len(p) {
			n = len(p)
		}
		copy(p, c.data[c.pos:c.pos+n])
		c.pos += n
		c.chunks[0] -= n
		if c.chunks[0] == 0 {
			c.chunks = c.chunks[1:]
		}
		return n, nil
	}
	if c.pos < len(c.data) { // plan exhausted (should not happen): hand over the rest
		n := copy(p, c.data[c.pos:])
		c.pos += n
		return n, nil
	}
	return 0, io.EOF
}

// countingReader measures what a reader really pulled from a transport.
type countingReader struct {
	r        io.Reader
	n        int
	calls    int
	progress int64 // = n, readable from the watchdog (atomic)
}

func (c *countingReader) Read(p []byte) (int, error) {
	n, err := c.r.Read(p)
	c.n += n
	c.calls++
	if n > 0 {
		atomic.AddInt64(&c.progress, int64(n))
	}
	return n, err
}

// ---- websocket pair ----------------------------------------------------------------------

type wsEnv struct {
	mu   sync.Mutex
	ad   *adapter.WebSocketAdapter
	addr string
	err  error
}

var ws wsEnv

func (w *wsEnv) pair() (client, server io.ReadWriteCloser, err error) {
	w.mu.Lock()
	defer w.mu.Unlock()
	if w.ad == nil && w.err == nil {
		for attempt := 0; attempt < 5; attempt++ { // the adapter cannot report an ephemeral port: pick a free one and retry on a clash
			l, e := net.Listen("tcp", "127.0.0.1:0")
			if e != nil {
				w.err = e
				continue
			}
			addr := l.Addr().String()
			l.Close()
			ad := adapter.NewWebSocketAdapter(context.Background(), nil)
			if e := ad.Listen(addr); e != nil {
				w.err = e
				continue
			}
			w.ad, w.addr, w.err = ad, addr, nil
			break
		}
	}
	if w.err != nil {
		return nil, nil, w.err
	}
	client, err = w.ad.Dial(w.addr)
	if err != nil {
		return nil, nil, err
	}
	server, err = w.ad.Accept()
	if err != nil {
		client.Close()
		return nil, nil, err
	}
	return client, server, nil
}

// ---- drive -------------------------------------------------------------------------------

func drive(env *fw.Env, b fw.Behaviour) *fw.Trace {
	var beh concBeh
	if err := json.Unmarshal(b.Data, &beh); err != nil {
		return &fw.Trace{Status: fw.DriverError, Note: err.Error()}
	}
	r := rand.New(rand.NewSource(beh.Salt))
	ctx, cancel := context.WithCancel(context.Background())
	defer cancel()
	t := &fw.Trace{Status: fw.Realised}
	tr := beh.Transport

	pp := perPacket(beh)
	isMsg := msgBehaviour(beh)
	orig := make([]*packet.TransferPacket, len(beh.Pkts))
	for i, p := range beh.Pkts {
		orig[i] = build(p, r)
	}
	cutName := func(i int) string {
		c := cutOf(isMsg, pp[i])
		if direct(tr) {
			c = "writer-msgs"
		}
		if tr != "reader" {
			c += "@" + tr
		}
		return c
	}
	writeEvent := func(i int, n, wrote int, err error) fw.Event {
		p := beh.Pkts[i]
		cls := fmt.Sprintf("len=%s:%s:z=%v", sizeClass(p.Size), p.K, p.Z)
		if p.Content != "" {
			cls += ":c=" + p.Content
		}
		if p.Type == byte(packet.TunnelData) {
			cls += ":TunnelData"
		}
		fl := "none"
		if p.flagged() {
			fl = p.Fl
			cls += ":fl=" + fl
		}
		if p.Rate > 0 {
			cls += ":rate"
		}
		return fw.Event{"ev": "Write", "i": i + 1, "ok": err == nil, "cls": cls, "cut": cutName(i),
			"base": int(p.Type & 0x3F), "len": p.Size, "n": n, "wrote": wrote, "type": int(orig[i].PacketType), "fl": fl}
	}

	// 1. write with the real writer: into a buffer that is then cut into chunks / messages by the plan, or (direct
	//    transports) straight onto the sending WebSocket wrapper while the reader is already reading
	var wire bytes.Buffer
	var wsp *stream.StreamProcessor
	var chunks []int
	exact := true
	accepted := 0
	if !direct(tr) {
		wsp = stream.NewStreamProcessor(bytes.NewReader(nil), &wire, ctx)
		var pl planner
		var encSizes []int
		for i, p := range beh.Pkts {
			before := wire.Len()
			n, err := wsp.WritePacket(orig[i], p.Z, p.Rate)
			wrote := wire.Len() - before
			t.Events = append(t.Events, writeEvent(i, n, wrote, err))
			if err != nil {
				wire.Truncate(before)
				continue
			}
			encSizes = append(encSizes, wrote)
			ops, ex := opsFor(p, pp[i], wrote, beh.Map)
			exact = exact && ex
			pl.packet(ops, wrote)
		}
		accepted = len(encSizes)
		chunks = pl.finish()
		if isMsg {
			if len(encSizes) != len(beh.Pkts) {
				return &fw.Trace{Status: fw.Unrealisable, Note: "the writer refused a packet of a message-transport behaviour"}
			}
			chunks, exact = msgChunks(beh, encSizes), false
		}
		if datagram(tr) && wire.Len() == 0 { // nothing to send: the acceptor would never see the connection
			tr = "reader"
		}
	}

	// 2. read with the real reader through the chosen transport
	var src io.Reader
	var cleanup func()
	closeReadEnd := func() {}    // direct transports: close the connection end the reader reads from
	lateClose := func() {}       // transports whose sender cannot end the stream cleanly: closed by the driver once everything was read
	wdone := make(chan struct{}) // the sender has handed everything to the transport
	var werr error               // direct transports: the first WritePacket error
	var wevents []fw.Event       // direct transports: the Write events (made by the sender goroutine)
	var tee *teeWriter           // direct transports: counts what the writer has put on the connection
	total := func() int {        // bytes of the whole stream (direct transports: so far)
		if tee != nil {
			return int(atomic.LoadInt64(&tee.n))
		}
		return wire.Len()
	}
	senderDone := func() bool { // has the sender handed everything over? (margin 5 s: only asked when it should have)
		select {
		case <-wdone:
			return true
		case <-time.After(5 * time.Second):
			return false
		}
	}
	sendChunks := func(from io.Writer, skipEmpty bool) error {
		data := wire.Bytes()
		off := 0
		for _, c := range chunks {
			if c == 0 && skipEmpty {
				continue
			}
			if _, err := from.Write(data[off : off+c]); err != nil {
				return err
			}
			off += c
		}
		return nil
	}
	switch {
	case tr == "reader":
		src = &chunkReader{data: wire.Bytes(), chunks: chunks}
		close(wdone)
	case isWS(tr):
		client, server, err := ws.pair()
		if err != nil {
			return &fw.Trace{Status: fw.DriverError, Note: "websocket pair: " + err.Error()}
		}
		from, to := client, server
		if tr == "ws-s2c" || tr == "ws-s2c-w" {
			from, to = server, client
		}
		cleanup = func() { from.Close(); to.Close() }
		closeReadEnd = func() { to.Close() }
		if direct(tr) {
			tee = &teeWriter{rec: &wire, to: from}
			wsp = stream.NewStreamProcessor(bytes.NewReader(nil), tee, ctx)
			go func() { // the real writer, one WebSocket message per Write call of WritePacket, then a normal close
				defer close(wdone)
				for i, p := range beh.Pkts {
					before := total()
					n, err := wsp.WritePacket(orig[i], p.Z, p.Rate)
					wevents = append(wevents, writeEvent(i, n, total()-before, err))
					if err != nil {
						werr = err
						break
					}
					accepted++
				}
				from.Close()
			}()
		} else {
			go func() { // one message per chunk (an empty chunk is an empty message), then a normal close
				defer close(wdone)
				if sendChunks(from, false) == nil {
					from.Close()
				}
			}()
		}
		src = to
	case datagram(tr):
		client, server, err := dg.pair(tr, func(c io.ReadWriteCloser) {
			go func() { // one Write per chunk; the connection stays open until the reader is done
				defer close(wdone)
				sendChunks(c, true)
			}()
		})
		if errors.Is(err, errSlow) {
			return &fw.Trace{Status: fw.Inconclusive, Note: tr + ": " + err.Error()}
		}
		if err != nil {
			return &fw.Trace{Status: fw.DriverError, Note: tr + " pair: " + err.Error()}
		}
		var once sync.Once
		lateClose = func() { once.Do(func() { server.Close(); client.Close() }) }
		cleanup = lateClose
		src = server
	default:
		return &fw.Trace{Status: fw.DriverError, Note: "transport?"}
	}
	cnt := &countingReader{r: src}
	rsp := stream.NewStreamProcessor(cnt, io.Discard, ctx)

	type result struct {
		events []fw.Event
	}
	done := make(chan result, 1)
	go func() {
		var evs []fw.Event
		defer func() {
			if x := recover(); x != nil {
				evs = append(evs, fw.Event{"ev": "Err", "kind": "panic", "msg": fmt.Sprint(x), "consumed": 0})
				done <- result{evs}
			}
		}()
		idx := 0
		var held []*packet.TransferPacket  // every decoded packet stays with the caller until the whole sequence is read
		var snaps []*packet.TransferPacket // deep copies taken when each packet was returned
		same := func(o, pkt *packet.TransferPacket) bool {
			if o.CommandPacket != nil {
				return pkt.CommandPacket != nil && reflect.DeepEqual(*o.CommandPacket, *pkt.CommandPacket) && len(pkt.Payload) == 0
			}
			return pkt.CommandPacket == nil && bytes.Equal(o.Payload, pkt.Payload)
		}
		var endEv fw.Event
		for k := 0; k < len(beh.Pkts)+3; k++ {
			if datagram(tr) && idx >= accepted { // everything written has been read: end the stream from here
				senderDone()
				lateClose()
			}
			before := cnt.n
			pkt, ret, err := rsp.ReadPacket()
			consumed := cnt.n - before
			if err != nil {
				// the reader's end-of-stream report: the sender is done (it closes right after its last byte), every
				// byte of the stream had been read before this call and the call itself got nothing
				refusal := idx < len(beh.Pkts) && beh.Pkts[idx].flagged() && consumed > 0 // (an end report takes no bytes)
				if direct(tr) && !refusal {
					// the reader is at its end - or failed early while the writer is still blocked in a Write: closing
					// the reading end releases it, so that the length of the stream is known
					closeReadEnd()
					<-wdone
				}
				if before == total() && consumed == 0 {
					ev := fw.Event{"ev": "Eof", "rest": total() - cnt.n, "msg": err.Error()}
					if exact && tr == "reader" { // binding information (never judged): Read calls made vs. the model's reader
						ev["calls"], ev["modelCalls"] = cnt.calls, len(beh.Reads)+1
					}
					endEv = ev
				} else if idx < len(beh.Pkts) && beh.Pkts[idx].flagged() {
					// an error for a packet with a caller-preset flag: the reader may refuse it, the caller reads on
					evs = append(evs, fw.Event{"ev": "Rejected", "consumed": consumed, "msg": err.Error(), "at": before})
					held = append(held, nil)
					snaps = append(snaps, nil)
					idx++
					continue
				} else {
					endEv = fw.Event{"ev": "Err", "kind": "error", "msg": err.Error(), "consumed": consumed, "at": before}
				}
				break
			}
			ev := fw.Event{"ev": "Packet", "base": int(pkt.PacketType & 0x3F), "type": int(pkt.PacketType), "consumed": consumed, "ret": ret}
			if pkt.CommandPacket != nil {
				ev["len"] = len(pkt.CommandPacket.CommandBody)
			} else {
				ev["len"] = len(pkt.Payload)
			}
			ev["eq"] = idx < len(orig) && same(orig[idx], pkt)
			evs = append(evs, ev)
			held = append(held, pkt)
			snap := &packet.TransferPacket{Payload: append([]byte(nil), pkt.Payload...)} // what was handed out, as handed out
			if pkt.Payload == nil {
				snap.Payload = nil
			}
			if pkt.CommandPacket != nil {
				cp := *pkt.CommandPacket
				snap.CommandPacket = &cp
			}
			snaps = append(snaps, snap)
			idx++
		}
		// the sequence has been read: every packet handed out earlier must still be what was written
		for i, pkt := range held {
			if pkt == nil {
				continue
			}
			evs = append(evs, fw.Event{"ev": "Held", "i": i + 1, "eq": same(snaps[i], pkt)})
		}
		if endEv != nil {
			evs = append(evs, endEv)
		}
		done <- result{evs}
	}()
	// watchdog: the reader hangs if it has not taken a single byte from the transport for wd (all transports are
	// loss-free and the stream is finite, so a slow machine still shows progress), or is still not done after 6 * wd
	wd := 30 * time.Second
	if env.Tier == "thorough" {
		wd = 120 * time.Second
	}
	var res result
	timedOut := false
	started, lastMove, lastN := time.Now(), time.Now(), int64(-1)
	tick := time.NewTicker(500 * time.Millisecond)
	defer tick.Stop()
wait:
	for {
		select {
		case res = <-done:
			break wait
		case now := <-tick.C:
			if n := atomic.LoadInt64(&cnt.progress); n != lastN {
				lastN, lastMove = n, now
			}
			if now.Sub(lastMove) > wd || now.Sub(started) > 6*wd {
				timedOut = true
				break wait
			}
		}
	}
	if cleanup != nil {
		cleanup()
	}
	if direct(tr) { // the Write events were made by the sender goroutine; they open the trace
		select {
		case <-wdone:
		case <-time.After(10 * time.Second):
			return &fw.Trace{Status: fw.Inconclusive, Note: "the direct writer did not finish after the connection was closed"}
		}
		if werr != nil {
			return &fw.Trace{Status: fw.Unrealisable, Note: "direct transport: WritePacket failed on the live connection: " + werr.Error()}
		}
		t.Events = append(t.Events, wevents...)
	}
	if timedOut {
		t.Events = append(t.Events, fw.Event{"ev": "Err", "kind": "timeout", "msg": "ReadPacket loop did not finish", "consumed": 0})
	} else {
		t.Events = append(t.Events, res.events...)
	}
	wsp.Close()
	rsp.Close()
	return t
}

// ---- wiring ------------------------------------------------------------------------------

func subst(pk, ln, st int) map[string]string {
	return map[string]string{"PKTS": fmt.Sprint(pk), "LEN": fmt.Sprint(ln), "STALL": fmt.Sprint(st), "CONTENTS": `{"any"}`, "CHUNK": "all", "FLAGS": `{"none"}`}
}

// substContent: the content-class dimension in the model, chunking fixed to "everything asked for"
func substContent(pk, ln int) map[string]string {
	m := subst(pk, ln, 0)
	m["CONTENTS"], m["CHUNK"] = `{"zeros", "random", "gzmagic", "gzstream", "hdrlike", "period"}`, "max"
	return m
}

// substMsg: message transport with left-over buffering (WebSocket): the peer's message sizes are the transport's choice;
// st = empty messages the peer may send in between
func substMsg(pk, ln, st int) map[string]string {
	m := subst(pk, ln, st)
	m["CHUNK"] = "msg"
	return m
}

func msgSource(src string) bool { return strings.Contains(src, ":msg") }

const allFlags = `{"none", "enc", "zpre"}`

// substFlags: caller-preset flag bits as a packet dimension
func substFlags(pk, ln, st int, chunk string) map[string]string {
	m := subst(pk, ln, st)
	m["FLAGS"], m["CHUNK"] = allFlags, chunk
	return m
}

func extra(env *fw.Env) []json.RawMessage {
	// driver-made size cases the abstract classes do not reach: the limit itself (statement: "bodies from
	// empty up to the maximum body size"), uncompressed and compressed, with a cut inside the length field.
	mk := func(tr string, z bool, typ byte, size int, reads []absRead, salt int64) json.RawMessage {
		return fw.MustJSON(concBeh{Transport: tr, Map: "prop", Salt: salt, Reads: reads,
			Pkts: []concPkt{{absPkt: absPkt{K: "PAY", Z: z, Len: 2}, Type: typ, Size: size},
				{absPkt: absPkt{K: "HB"}, Type: byte(packet.Heartbeat)}}})
	}
	whole := []absRead{{"T", 1}, {"L", 4}, {"B", 2}, {"T", 1}}
	wholeZ := []absRead{{"T", 1}, {"L", 4}, {"B", 3}, {"T", 1}}
	cut := []absRead{{"T", 1}, {"L", 2}, {"L", 2}, {"B", 1}, {"B", 1}, {"T", 1}}
	out := []json.RawMessage{
		mk("reader", false, byte(packet.TunnelData), maxBody, whole, env.Seed+1),
		mk("reader", true, byte(packet.TunnelData), maxBody, wholeZ, env.Seed+2),
		mk("reader", false, byte(packet.TunnelData), maxBody-1, cut, env.Seed+3),
	}
	// same pool bucket / raw payload path: three uncompressed TunnelData packets of one size, then a heartbeat;
	// and every content class x compression x size as a two-packet sequence (whatever the sampling drew)
	one := func(n int) []absRead { return []absRead{{"T", 1}, {"L", 4}, {"B", n}} }
	salt := env.Seed * 7919
	for _, size := range []int{1, 100, 4096, 5000, 32768, 70001} {
		salt++
		b := concBeh{Transport: "reader", Map: "prop", Salt: salt}
		for i := 0; i < 3; i++ {
			b.Pkts = append(b.Pkts, concPkt{absPkt: absPkt{K: "PAY", Len: 2}, Type: byte(packet.TunnelData), Size: size, Content: contents[(i+size)%len(contents)]})
			b.Reads = append(b.Reads, one(2)...)
		}
		b.Pkts = append(b.Pkts, concPkt{absPkt: absPkt{K: "HB"}, Type: byte(packet.Heartbeat)})
		b.Reads = append(b.Reads, absRead{"T", 1})
		out = append(out, fw.MustJSON(b))
	}
	for _, c := range contents {
		for _, z := range []bool{false, true} {
			for _, size := range []int{3, 40, 300, 4096, 40000} {
				salt++
				b := concBeh{Transport: "reader", Map: "prop", Salt: salt}
				nb := 2
				if z {
					nb = 3
				}
				for i := 0; i < 2; i++ {
					b.Pkts = append(b.Pkts, concPkt{absPkt: absPkt{K: "PAY", Z: z, Len: 2}, Type: byte(packet.TunnelData), Size: size, Content: c})
					b.Reads = append(b.Reads, one(nb)...)
				}
				out = append(out, fw.MustJSON(b))
			}
		}
	}
	// a packet with a caller-preset flag in front of ordinary packets: whatever the reader does with it, it must
	// consume exactly its bytes (sizes 0, 1, 37, 5000; compression on/off; Encrypted and Compressed-but-raw)
	for _, fl := range []string{"enc", "zpre"} {
		for _, z := range []bool{false, true} {
			if fl == "zpre" && z {
				continue
			}
			for _, size := range []int{0, 1, 37, 5000} {
				for _, k := range []string{"PAY", "CMD"} {
					salt++
					ln, nb := 2, 2
					if size == 0 {
						ln, nb = 0, 0
					}
					if z {
						nb++
					}
					typ, c := byte(packet.TunnelData), "gzstream"
					if k == "CMD" {
						typ, c = byte(packet.JsonCommand), ""
					}
					if size == 0 {
						c = ""
					}
					b := concBeh{Transport: "reader", Map: "prop", Salt: salt}
					b.Pkts = append(b.Pkts, concPkt{absPkt: absPkt{K: k, Z: z, Len: ln, Fl: fl}, Type: typ, Size: size, Content: c})
					b.Reads = append(b.Reads, absRead{"T", 1}, absRead{"L", 4})
					if nb > 0 {
						b.Reads = append(b.Reads, absRead{"B", nb})
					}
					b.Pkts = append(b.Pkts, concPkt{absPkt: absPkt{K: "PAY", Len: 2}, Type: byte(packet.TunnelData), Size: 100, Content: "random"},
						concPkt{absPkt: absPkt{K: "HB", Fl: fl}, Type: byte(packet.Heartbeat)})
					b.Reads = append(b.Reads, absRead{"T", 1}, absRead{"L", 4}, absRead{"B", 2}, absRead{"T", 1})
					if fl == "zpre" {
						b.Pkts[2].Fl = ""
					}
					out = append(out, fw.MustJSON(b))
				}
			}
		}
	}
	// message transport, long histories on ONE connection (instances of the model's Chunking = "msg" behaviours that do
	// not depend on what the simulation drew): five packets, the peer's messages are whole packets / pairs of packets /
	// everything at once / whole packets shifted by 1..4 bytes - every message but the last leaves a remainder in the
	// wrapper, the remainders growing and shrinking; through both wrappers
	for _, tr := range []string{"ws-c2s", "ws-s2c"} {
		for shape := 0; shape < 6; shape++ {
			for _, big := range []bool{false, true} {
				salt++
				b := concBeh{Transport: tr, Map: "prop", Salt: salt}
				szs := []int{10, 40, 25, 300, 7}
				if big {
					szs = []int{5000, 100, 33000, 4096, 70001}
				}
				total := 0
				for i, n := range szs {
					b.Pkts = append(b.Pkts, concPkt{absPkt: absPkt{K: "PAY", Len: 2}, Type: payTypes[(i+shape)%len(payTypes)], Size: n, Content: contents[(i+shape)%len(contents)]})
					total += 7
				}
				var ms []int
				switch shape {
				case 0: // one message per packet
					ms = []int{7, 7, 7, 7, 7}
				case 1: // two packets per message
					ms = []int{14, 14, 7}
				case 2: // everything in one message
					ms = []int{total}
				default: // packet-sized messages shifted by shape-2 bytes (cuts inside the length field / at the body start)
					ms = []int{shape - 2, 7, 7, 7, 7, 7 - (shape - 2)}
				}
				for _, m := range ms {
					b.Reads = append(b.Reads, absRead{"M", m})
				}
				for range szs {
					b.Reads = append(b.Reads, absRead{"T", 1}, absRead{"L", 4}, absRead{"B", 2})
				}
				out = append(out, fw.MustJSON(b))
			}
		}
	}
	// large, extremely redundant bodies with compression on (deflate's maximum ratio): legal up to the limit
	type big struct {
		c    string
		size int
		z    bool
	}
	bigs := []big{{"zeros", 1<<20 + 1<<19, true}, {"zeros", 2 << 20, true}, {"period", 4 << 20, true}, {"zeros", maxBody, true}}
	if env.Tier == "thorough" {
		bigs = append(bigs, big{"period", 1<<20 + 1<<18, true}, big{"period", 2 << 20, true}, big{"zeros", 4 << 20, true}, big{"zeros", 8 << 20, true},
			big{"period", maxBody, true}, big{"zeros", maxBody - 1, true}, big{"zeros", 2 << 20, false}, big{"period", maxBody, false})
	}
	for i, g := range bigs {
		salt++
		nb := 2
		if g.z {
			nb = 3
		}
		b := concBeh{Transport: "reader", Map: "prop", Salt: salt,
			Pkts: []concPkt{{absPkt: absPkt{K: "PAY", Z: g.z, Len: 2}, Type: byte(packet.TunnelData), Size: g.size, Content: g.c},
				{absPkt: absPkt{K: "HB"}, Type: byte(packet.Heartbeat)}},
			Reads: []absRead{{"T", 1}, {"L", 4}, {"B", nb}, {"T", 1}}}
		if env.Tier == "thorough" && i%3 == 2 {
			b.Transport = "ws-c2s"
		}
		out = append(out, fw.MustJSON(b))
	}
	if env.Tier == "thorough" {
		out = append(out,
			mk("reader", false, byte(packet.Handshake), maxBody, cut, env.Seed+4),
			mk("ws-c2s", false, byte(packet.TunnelData), maxBody, cut, env.Seed+5),
			mk("ws-s2c", true, byte(packet.TunnelData), maxBody, wholeZ, env.Seed+6))
	}
	return out
}

func selfTest(env *fw.Env, acc []*fw.Trace) []*fw.Trace {
	var out []*fw.Trace
	id := 9000000
	clone := func(t *fw.Trace) *fw.Trace {
		c := &fw.Trace{Status: t.Status, Beh: t.Beh}
		id++
		c.Beh.ID = id
		for _, e := range t.Events {
			ne := fw.Event{}
			for k, v := range e {
				ne[k] = v
			}
			c.Events = append(c.Events, ne)
		}
		return c
	}
	picked := 0
	for _, t := range acc {
		last, end, heldAt := -1, -1, -1
		zpre := false
		for i, e := range t.Events {
			if e["fl"] == "zpre" { // the body of such a packet is deliberately not judged
				zpre = true
			}
			switch e["ev"] {
			case "Packet":
				last = i
			case "Eof":
				end = i
			case "Held":
				heldAt = i
			}
		}
		if last < 0 || end < 0 || heldAt < 0 || zpre || picked >= 6 {
			continue
		}
		picked++
		c := clone(t) // body differs
		c.Events[last]["eq"] = false
		out = append(out, c)
		c = clone(t) // one byte too many consumed
		c.Events[last]["consumed"] = c.Events[last]["consumed"].(int) + 1
		out = append(out, c)
		c = clone(t) // another type came back
		c.Events[last]["base"] = c.Events[last]["base"].(int) ^ 1
		out = append(out, c)
		c = clone(t) // a packet got lost
		c.Events = append(c.Events[:last], c.Events[last+1:]...)
		out = append(out, c)
		c = clone(t) // the reader failed at the end instead of reporting end of stream
		c.Events[end] = fw.Event{"ev": "Err", "kind": "error", "msg": "injected", "consumed": 0}
		out = append(out, c)
		c = clone(t) // no end report at all
		c.Events = append(c.Events[:end], c.Events[end+1:]...)
		out = append(out, c)
		c = clone(t) // a packet handed out earlier changed while later packets were read
		c.Events[heldAt]["eq"] = false
		out = append(out, c)
		for i, e := range t.Events { // a refused flagged packet was not consumed completely
			if e["ev"] == "Rejected" {
				c = clone(t)
				c.Events[i]["consumed"] = 1
				out = append(out, c)
				break
			}
		}
		c = clone(t) // a held-packet report is missing
		c.Events = append(c.Events[:heldAt], c.Events[heldAt+1:]...)
		out = append(out, c)
	}
	return out
}

// postDrive reports (informational, never a verdict) how many replays made exactly the Read calls the
// reference reader of spec/Framing.tla makes on the same chunking (binding of model and code).
func postDrive(env *fw.Env, traces []*fw.Trace) error {
	total, same := 0, 0
	for _, t := range traces {
		if t.Status != fw.Realised || len(t.Events) == 0 {
			continue
		}
		var last fw.Event
		for _, e := range t.Events {
			if e["ev"] == "Eof" {
				last = e
			}
		}
		mc, ok := last["modelCalls"].(int)
		if !ok {
			continue
		}
		total++
		if last["calls"] == mc {
			same++
		}
	}
	fmt.Printf("[bind] %d of %d comparable replays made exactly the Read calls of the model's reference reader\n", same, total)
	return nil
}

func main() {
	corelog.SetDefault(corelog.NewNopLogger())
	fw.Main(&fw.Property{
		ID:        "C01",
		DesignRef: "DESIGN.md §5 C01",
		ModelJobs: func(env *fw.Env) []fw.TLCJob {
			pk, ln, msgFlags := 2, 3, `{"none"}`
			if env.Tier == "thorough" {
				msgFlags = allFlags
				pk, ln = 3, 2 // with the flag dimension 3x3 is 4.2M states (10 min); 3x2 keeps thorough in minutes
			}
			with := func(m map[string]string, flags string) map[string]string { m["MCFLAGS"] = flags; return m }
			wsdev := func(name, devs string) fw.TLCJob {
				m := subst(2, 2, 1)
				m["DEVS"] = devs
				return fw.TLCJob{Name: "mc:ws-dev:" + name, Module: "Framing", Cfg: "Framing_mc_wsdev.cfg", Consts: m}
			}
			jobs := []fw.TLCJob{
				{Name: "mc:contract", Module: "Framing", Cfg: "Framing_mc.cfg", Consts: with(subst(pk, ln, 1), allFlags)},
				{Name: "mc:as-found", Module: "Framing", Cfg: "Framing_mc_dev.cfg", Consts: subst(pk, ln, 1)},
				// the WebSocket wrapper model: every partition of the stream into messages (incl. one empty message)
				{Name: "mc:msg-transport", Module: "Framing", Cfg: "Framing_mc.cfg", Consts: with(substMsg(2, 2, 1), msgFlags)},
			}
			if env.Tier == "thorough" { // the named wrapper deviations are the only routes to a violation on the message transport
				for i := range jobs { // 1.8 M states: a minute on a free machine, close to the default 10 min on a heavily loaded one
					jobs[i].Timeout = 25 * time.Minute
				}
				jobs = append(jobs, wsdev("stale", `{"wsStaleOffset"}`), wsdev("keepwhole", `{"wsKeepWhole"}`),
					wsdev("drop+emptyeof", `{"wsDropRemainder", "wsEmptyIsEof"}`))
			}
			return jobs
		},
		GenJobs: func(env *fw.Env) []fw.TLCJob {
			jobs := []fw.TLCJob{
				{Name: "gen:2x1", Module: "Framing", Cfg: "Framing_gen.cfg", Consts: subst(2, 1, 0), Workers: 8},
				{Name: "gen:1x3+stall", Module: "Framing", Cfg: "Framing_gen.cfg", Consts: subst(1, 3, 1), Workers: 8},
				{Name: "gen:content2x1", Module: "Framing", Cfg: "Framing_gen.cfg", Consts: substContent(2, 1), Workers: 4},
				// message transport (WebSocket wrappers): every partition of one packet into messages; the same with one
				// empty message anywhere; random long histories on one connection (many remainders, one after the other)
				// (quick: all 674 partitions without an empty message, a seeded fifth of the 2722 with one - see Expand)
				{Name: "gen:msg1x2+empty", Module: "Framing", Cfg: "Framing_gen.cfg", Consts: substMsg(1, 2, 1), Workers: 4},
				{Name: "sim:msg4x3", Module: "Framing", Cfg: "Framing_gen.cfg", Consts: substMsg(4, 3, 1), Workers: 4,
					Simulate: "num=200", Depth: 120, Seed: env.Seed + 7},
				{Name: "gen:flags2x1", Module: "Framing", Cfg: "Framing_gen.cfg", Consts: substFlags(2, 1, 0, "max"), Workers: 4},
				{Name: "sim:3x3+stall", Module: "Framing", Cfg: "Framing_gen.cfg", Consts: substFlags(3, 3, 1, "all"), Workers: 4,
					Simulate: "num=300", Depth: 80, Seed: env.Seed},
			}
			if env.Tier == "thorough" {
				jobs = append(jobs,
					fw.TLCJob{Name: "gen:2x2+stall", Module: "Framing", Cfg: "Framing_gen.cfg", Consts: subst(2, 2, 1), Workers: 12, Heap: "12g"},
					fw.TLCJob{Name: "gen:msg1x3+empty", Module: "Framing", Cfg: "Framing_gen.cfg", Consts: substMsg(1, 3, 1), Workers: 4},
					fw.TLCJob{Name: "sim:msg6x3", Module: "Framing", Cfg: "Framing_gen.cfg", Consts: substMsg(6, 3, 1), Workers: 4,
						Simulate: "num=1500", Depth: 200, Seed: env.Seed + 11},
					fw.TLCJob{Name: "sim:4x3+stall", Module: "Framing", Cfg: "Framing_gen.cfg", Consts: substFlags(4, 3, 1, "all"), Workers: 4,
						Simulate: "num=2000", Depth: 120, Seed: env.Seed + 1})
			}
			return jobs
		},
		MaxBeh: func(env *fw.Env) int {
			if env.Tier == "thorough" {
				return 90000
			}
			return 9000
		},
		MaxBehSrc: func(env *fw.Env, src string) int { // quick: the message-transport sources are driven completely
			if env.Tier == "thorough" { // only the huge stream enumeration is sampled; the message-transport sources are driven completely
				if src == "gen:2x2+stall" {
					return 40000
				}
				return 0
			}
			switch src {
			case "gen:2x1":
				return 3000
			case "gen:1x3+stall":
				return 1000
			case "gen:flags2x1":
				return 400
			}
			return 0
		},
		Expand: func(env *fw.Env, src string, raw json.RawMessage) []json.RawMessage {
			var a absBeh
			if err := json.Unmarshal(raw, &a); err != nil {
				panic(err)
			}
			r := rand.New(rand.NewSource(env.Seed*1000003 + hashOf(raw)))
			if msgSource(src) { // message transport: mostly through the real WebSocket wrappers, in every tier
				if env.Tier != "thorough" && src == "gen:msg1x2+empty" {
					for _, rd := range a.Reads {
						if rd.F == "M" && rd.N == 0 && r.Intn(5) != 0 {
							return nil
						}
					}
				}
				tr := []string{"ws-c2s", "ws-s2c", "ws-c2s", "ws-s2c", "reader"}[r.Intn(5)]
				return []json.RawMessage{fw.MustJSON(concretise(a, r, tr))}
			}
			// stream chunkings: the chunk-controlled reader; a share of them through the other real transports too
			// (the real writer straight onto a WebSocket wrapper, loopback QUIC and KCP connections of the adapters)
			others := []string{"ws-c2s-w", "ws-s2c-w", "quic", "kcp"}
			if env.Tier == "thorough" {
				out := []json.RawMessage{fw.MustJSON(concretise(a, r, "reader"))}
				if k := r.Intn(24); k < 6 {
					out = append(out, fw.MustJSON(concretise(a, r, append(others, "ws-c2s", "ws-s2c")[k])))
				}
				return out
			}
			if k := r.Intn(40); k < len(others) {
				return []json.RawMessage{fw.MustJSON(concretise(a, r, others[k]))}
			}
			return []json.RawMessage{fw.MustJSON(concretise(a, r, "reader"))}
		},
		ExtraBeh:    extra,
		Drive:       drive,
		PostDrive:   postDrive,
		Parallel:    12,
		JudgeModule: "FramingTrace",
		JudgeCfg:    "FramingTrace.cfg",
		SelfTest:    selfTest,
		NonTrivial: func(t *fw.Trace) bool {
			n := 0
			for _, e := range t.Events {
				if e["ev"] == "Packet" {
					n++
				}
			}
			return n >= 1
		},
		Rule: "every packet sequence (<=2 packets x HB/CMD/PAY x compression x abstract length 0..1, and 1 packet x length 0..3 with one empty read) x EVERY chunking of the reference reader's reads, enumerated by TLC from spec/Framing.tla, plus every partition of one packet into WebSocket messages (with and without an empty message) and seeded random 3-4 packet behaviours (stream and message transport); each concretised (seeded) to real packet types/sizes and replayed on the real StreamProcessor; non-trivial = at least one packet decoded",
		Assumptions: []string{
			"abstract cut positions are mapped into the real body proportionally / at the head / at the tail (seeded); cuts inside the 4-byte length are exact",
			"a writer-preset encrypted flag (0x80) is generated (fl=enc): the reader rejects that packet by design, and the judge demands only that it is consumed exactly and the packets after it still round-trip; JsonCommand/CommandResp always carry a CommandPacket (Appendix B)",
			"message-transport behaviours run mostly through the real WebSocket wrappers (both directions) in every tier; about a tenth of the stream behaviours run through the real writer writing straight onto a WebSocket wrapper and through loopback QUIC / KCP connections of the real adapters (client to server; their own segmentation is not controlled, the planned chunks are the Write sizes), the rest through the chunk-controlled reader",
			"WritePacket is given a rate limit (64 MiB/s: the 1 KiB-write body path, no noticeable waiting) in a seeded eighth of the behaviours",
			"a reader that has not taken a byte from the transport for 30 s (thorough 120 s) hangs (all transports are loss-free); an accept on a loopback transport that takes more than 20 s makes the behaviour inconclusive"},
		TrustedBase: []string{"TLC", "spec/FramingTrace.tla as the reading of C01", "byte/struct equality computed in Go (drivers/c01)", "gorilla/websocket as the peer of the real wsServerConn/wsClientConn", "quic-go and kcp-go under the real QUIC / KCP connection wrappers"},
	})
}
