// Real transports of the C01 driver besides the chunk-controlled reader: the WebSocket wrappers (one message per
// chunk, or the real packet writer writing straight onto the wrapper), and loopback QUIC / KCP connections of the
// real adapters (adapter.QuicStreamConn, the kcp connection wrapper).
package main

import (
	"context"
	"errors"
	"io"
	"net"
	"sync"
	"sync/atomic"
	"time"

	"tunnox-core/internal/protocol/adapter"
)

// isWS / direct / datagram classify the transport names of a concrete behaviour:
//
//	reader               chunk-controlled io.Reader (stands for any stream transport)
//	ws-c2s, ws-s2c       real WebSocket pair, one message per planned chunk, read through wsServerConn / wsClientConn
//	ws-c2s-w, ws-s2c-w   the same pair, but the real packet WRITER writes straight onto the sending wrapper: the
//	                     messages are the writer's own Write calls (what two tunnox-core processes exchange)
//	quic, kcp            loopback connection of the real QuicAdapter / KcpAdapter, client to server, one Write per chunk
func isWS(tr string) bool     { return len(tr) >= 6 && tr[:3] == "ws-" }
func direct(tr string) bool   { return tr == "ws-c2s-w" || tr == "ws-s2c-w" }
func datagram(tr string) bool { return tr == "quic" || tr == "kcp" }

// teeWriter is what the real packet writer writes to in the direct transports: every Write goes to the wire
// record (accounting: encoded sizes, total stream) and then, as one message, to the sending wrapper.
type teeWriter struct {
	rec io.Writer
	to  io.Writer
	n   int64 // bytes handed to the transport so far (atomic)
}

func (t *teeWriter) Write(p []byte) (int, error) {
	t.rec.Write(p)
	atomic.AddInt64(&t.n, int64(len(p)))
	return t.to.Write(p)
}

// dgEnv holds one listening QuicAdapter and one listening KcpAdapter for the whole run; connections are made
// per behaviour.  Both transports show a new connection to the acceptor only when its first bytes arrive, so
// pair() is serialised: dial, let the caller's sender start, accept.
type dgEnv struct {
	mu    sync.Mutex
	quic  *adapter.QuicAdapter
	qaddr string
	kcp   *adapter.KcpAdapter
	kaddr string
	qerr  error
	kerr  error
}

var dg dgEnv

func freeUDP() (string, error) {
	c, err := net.ListenPacket("udp", "127.0.0.1:0")
	if err != nil {
		return "", err
	}
	addr := c.LocalAddr().String()
	c.Close()
	return addr, nil
}

func (e *dgEnv) ensure(kind string) error {
	switch kind {
	case "quic":
		if e.quic != nil || e.qerr != nil {
			return e.qerr
		}
		for attempt := 0; attempt < 5; attempt++ {
			addr, err := freeUDP()
			if err != nil {
				e.qerr = err
				continue
			}
			ad := adapter.NewQuicAdapter(context.Background(), nil)
			if err := ad.Listen(addr); err != nil {
				e.qerr = err
				continue
			}
			e.quic, e.qaddr, e.qerr = ad, addr, nil
			break
		}
		return e.qerr
	default:
		if e.kcp != nil || e.kerr != nil {
			return e.kerr
		}
		for attempt := 0; attempt < 5; attempt++ {
			addr, err := freeUDP()
			if err != nil {
				e.kerr = err
				continue
			}
			ad := adapter.NewKcpAdapter(context.Background(), nil)
			if err := ad.Listen(addr); err != nil {
				e.kerr = err
				continue
			}
			e.kcp, e.kaddr, e.kerr = ad, addr, nil
			break
		}
		return e.kerr
	}
}

// errSlow: an accept did not come within the margin (loaded machine); behaviours on that transport are
// inconclusive from then on, never a verdict.
var errSlow = errors.New("accept timed out (timing margin)")

// pair dials a client connection, calls start(client) (which must begin sending: the acceptor only sees the
// connection then) and returns the accepted server side.
func (e *dgEnv) pair(kind string, start func(client io.ReadWriteCloser)) (client, server io.ReadWriteCloser, err error) {
	e.mu.Lock()
	defer e.mu.Unlock()
	if err = e.ensure(kind); err != nil {
		return nil, nil, err
	}
	if kind == "quic" {
		client, err = e.quic.Dial(e.qaddr)
	} else {
		client, err = e.kcp.Dial(e.kaddr)
	}
	if err != nil {
		return nil, nil, err
	}
	start(client)
	type acc struct {
		c   io.ReadWriteCloser
		err error
	}
	ch := make(chan acc, 1)
	go func() {
		var a acc
		if kind == "quic" {
			a.c, a.err = e.quic.Accept()
		} else {
			a.c, a.err = e.kcp.Accept()
		}
		ch <- a
	}()
	select {
	case a := <-ch:
		if a.err != nil {
			client.Close()
			return nil, nil, a.err
		}
		return client, a.c, nil
	case <-time.After(20 * time.Second):
		// the accept goroutine stays behind and would steal the next connection: this transport is unusable now
		client.Close()
		if kind == "quic" {
			e.qerr = errSlow
		} else {
			e.kerr = errSlow
		}
		return nil, nil, errSlow
	}
}
