package main

import (
	"bytes"
	"context"
	"fmt"
	"math/rand"
	"runtime"
	"strconv"
	"strings"
	"sync"
	"sync/atomic"
	"time"

	"github.com/alicebob/miniredis/v2"

	"tunnox-core/internal/broker"
	"tunnox-core/internal/verifhook"
	"tunnox-core/verifharness/fw"
)

const (
	realCap  = 100 // hard-wired channel capacity of both brokers
	nodeID   = "node-x01"
	callWait = 4 * time.Second // a call that should not block must finish within this (>= 3x anything observed under load)
	flowWait = 4 * time.Second // a delivery that must happen is waited for this long
)

type cfgT struct {
	Kind  string   `json:"kind"`
	Cap   int      `json:"cap"`
	Sync  bool     `json:"sync"`
	Fixed []string `json:"fixed"`
}

type stepT struct {
	A      string   `json:"a"`
	T      string   `json:"t,omitempty"`
	C      int      `json:"c,omitempty"`
	M      int      `json:"m,omitempty"`
	L      int      `json:"l,omitempty"`
	Res    string   `json:"res,omitempty"`
	To     int      `json:"to,omitempty"`
	Exit   bool     `json:"exit,omitempty"`
	Panic  bool     `json:"panic,omitempty"`
	Routed bool     `json:"routed,omitempty"`
	Lens   []int    `json:"lens,omitempty"`
	Sts    []string `json:"sts,omitempty"`
}

type stressT struct {
	Kind    string `json:"kind"`
	Variant int    `json:"variant"`
	Seed    int64  `json:"seed"`
}

type behT struct {
	Mode   string   `json:"mode"` // seq | sched | stress
	C      cfgT     `json:"c"`
	S      []stepT  `json:"s,omitempty"`
	Stress *stressT `json:"stress,omitempty"`
}

func cfgEvent(b *behT) fw.Event {
	switch b.Mode {
	case "seq":
		return fw.Event{"ev": "Cfg", "kind": b.C.Kind, "cap": b.C.Cap, "mode": "seq"}
	case "stress":
		return fw.Event{"ev": "Cfg", "kind": b.Stress.Kind, "cap": realCap, "mode": "conc"}
	}
	return fw.Event{"ev": "Cfg", "kind": b.C.Kind, "cap": realCap, "mode": "conc"}
}

// ---- the world: one real broker, its channels, the event log ---------------------------------

type chanInfo struct {
	ch      <-chan *broker.Message
	topic   string
	pending []*broker.Message // taken out by a probe, handed to the next Recv
	closed  bool              // a probe / recv saw it closed
}

type world struct {
	kind  string
	k     int // real messages per trace message
	b     broker.MessageBroker
	mr    *miniredis.Miniredis
	mu    sync.Mutex
	evs   []fw.Event
	ncall int
	chans []*chanInfo
	ctx   context.Context
	syncCh  <-chan *broker.Message // driver-private barrier subscription (redis, sequential replay)
	syncSeq int
	// closing: Close has been called (the server-side subscription state is no longer waited for)
	closing atomic.Bool
}

func newWorld(kind string, k int) (*world, error) {
	w := &world{kind: kind, k: k, ctx: context.Background()}
	switch kind {
	case "memory":
		w.b = broker.NewMemoryBroker(w.ctx, nodeID)
	case "redis":
		mr, err := miniredis.Run()
		if err != nil {
			return nil, err
		}
		w.mr = mr
		rb, err := broker.NewRedisBroker(w.ctx, &broker.RedisBrokerConfig{Addrs: []string{mr.Addr()}, PoolSize: 16}, nodeID)
		if err != nil {
			mr.Close()
			return nil, err
		}
		w.b = rb
	default:
		return nil, fmt.Errorf("kind %q", kind)
	}
	return w, nil
}

func (w *world) cleanup() {
	done := make(chan struct{})
	go func() {
		defer func() { recover(); close(done) }()
		w.b.Close()
	}()
	select {
	case <-done:
	case <-time.After(callWait):
	}
	if w.mr != nil {
		w.mr.Close()
	}
}

func (w *world) log(e fw.Event) {
	w.mu.Lock()
	w.evs = append(w.evs, e)
	w.mu.Unlock()
}

func (w *world) call(op, t string) int {
	w.mu.Lock()
	w.ncall++
	id := w.ncall
	w.evs = append(w.evs, fw.Event{"ev": "Call", "id": id, "op": op, "t": t})
	w.mu.Unlock()
	return id
}

func (w *world) ret(id int, op, t, res string, ci *chanInfo) int {
	w.mu.Lock()
	defer w.mu.Unlock()
	c := 0
	if ci != nil {
		w.chans = append(w.chans, ci)
		c = len(w.chans)
	}
	w.evs = append(w.evs, fw.Event{"ev": "Ret", "id": id, "op": op, "t": t, "res": res, "c": c})
	return c
}

func classify(err error) string {
	if err == nil {
		return "ok"
	}
	s := err.Error()
	switch {
	case strings.Contains(s, "broker is closed"):
		return "closed"
	case strings.Contains(s, "already subscribed"):
		return "exists"
	case strings.Contains(s, "no subscribers for topic"), strings.Contains(s, "not subscribed to topic"):
		return "nosub"
	}
	return "err"
}

func payload(id, i int) []byte { return []byte(fmt.Sprintf("x01:%d:%d", id, i)) }

func parsePayload(p []byte) (id, i int, ok bool) {
	parts := strings.Split(string(p), ":")
	if len(parts) != 3 || parts[0] != "x01" {
		return 0, 0, false
	}
	a, e1 := strconv.Atoi(parts[1])
	b, e2 := strconv.Atoi(parts[2])
	return a, b, e1 == nil && e2 == nil
}

// guarded runs fn, turning a panic of the called code into the result "panic".
func guarded(fn func() string) (res string) {
	defer func() {
		if r := recover(); r != nil {
			res = "panic"
		}
	}()
	return fn()
}

func (w *world) serverSubscribed(t string) bool {
	return w.mr.PubSubNumSub("tunnox:" + t)["tunnox:"+t] > 0
}

func waitFor(d time.Duration, cond func() bool) bool {
	deadline := time.Now().Add(d)
	for i := 0; ; i++ {
		if cond() {
			return true
		}
		if time.Now().After(deadline) {
			return false
		}
		if i < 50 {
			runtime.Gosched()
		} else {
			time.Sleep(200 * time.Microsecond)
		}
	}
}

// subscribe calls Subscribe; for redis it returns only once the server has registered the subscription
// (Subscribe itself only writes the SUBSCRIBE command), so that "published after Subscribe returned" means
// what it says.
func (w *world) subscribe(t string) (res string, c int) {
	id := w.call("Sub", t)
	var ch <-chan *broker.Message
	res = guarded(func() string {
		var err error
		ch, err = w.b.Subscribe(w.ctx, t)
		return classify(err)
	})
	var ci *chanInfo
	if res == "ok" {
		ci = &chanInfo{ch: ch, topic: t}
		if w.mr != nil {
			waitFor(flowWait, func() bool { return w.closing.Load() || w.serverSubscribed(t) })
		}
	}
	c = w.ret(id, "Sub", t, res, ci)
	return res, c
}

func (w *world) unsubscribe(t string) string {
	id := w.call("Unsub", t)
	res := guarded(func() string { return classify(w.b.Unsubscribe(w.ctx, t)) })
	if res == "ok" && w.mr != nil {
		waitFor(flowWait, func() bool { return w.closing.Load() || !w.serverSubscribed(t) })
	}
	w.ret(id, "Unsub", t, res, nil)
	return res
}

func (w *world) publish(t string) (int, string) {
	id := w.call("Pub", t)
	res := guarded(func() string {
		first := ""
		for i := 0; i < w.k; i++ {
			r := classify(w.b.Publish(w.ctx, t, payload(id, i)))
			if i == 0 {
				first = r
			} else if r != first {
				return "err" // the same call in the same state answered differently
			}
		}
		return first
	})
	w.ret(id, "Pub", t, res, nil)
	return id, res
}

func (w *world) ping() string {
	id := w.call("Ping", "-")
	res := guarded(func() string {
		switch b := w.b.(type) {
		case *broker.MemoryBroker:
			return classify(b.Ping(w.ctx))
		case *broker.RedisBroker:
			return classify(b.Ping(w.ctx))
		}
		return "err"
	})
	w.ret(id, "Ping", "-", res, nil)
	return res
}

func (w *world) closeBroker() string {
	w.closing.Store(true)
	id := w.call("Close", "-")
	res := guarded(func() string { return classify(w.b.Close()) })
	w.ret(id, "Close", "-", res, nil)
	return res
}

// takeOne takes one real message from channel c without blocking: (msg, "msg") | (nil, "closed") | (nil, "empty").
func (ci *chanInfo) takeOne() (*broker.Message, string) {
	if len(ci.pending) > 0 {
		m := ci.pending[0]
		ci.pending = ci.pending[1:]
		return m, "msg"
	}
	select {
	case m, ok := <-ci.ch:
		if !ok {
			ci.closed = true
			return nil, "closed"
		}
		return m, "msg"
	default:
		return nil, "empty"
	}
}

func (ci *chanInfo) length() int { return len(ci.pending) + len(ci.ch) }

// checkMsg validates one real message against what Publish was given.
func checkMsg(ci *chanInfo, m *broker.Message) (id, idx int, why string) {
	id, idx, ok := parsePayload(m.Payload)
	switch {
	case m == nil:
		return 0, 0, "nilMessage"
	case !ok:
		return 0, 0, "payload"
	case m.Topic != ci.topic:
		return id, idx, "topicField"
	case m.NodeID != nodeID:
		return id, idx, "nodeID"
	case m.Timestamp.IsZero():
		return id, idx, "timestamp"
	}
	return id, idx, ""
}

// recv asks channel c for one trace message (a batch of k real ones) and logs what came.
func (w *world) recv(c int) int {
	ci := w.chans[c-1]
	got, why := 0, ""
	for i := 0; i < w.k; i++ {
		m, st := ci.takeOne()
		if st != "msg" {
			if i == 0 {
				if st == "closed" {
					got = 0
				} else {
					got = -1
				}
			} else {
				got, why = -2, "tornBatch"
			}
			break
		}
		id, idx, bad := checkMsg(ci, m)
		if bad != "" {
			got, why = -2, bad
			break
		}
		if i == 0 {
			got = id
		}
		if id != got || idx != i {
			got, why = -2, "tornBatch"
			break
		}
	}
	e := fw.Event{"ev": "Recv", "c": c, "got": got}
	if got == -2 {
		e["why"] = why
	}
	w.log(e)
	return got
}

// probe logs the occupancy and state of every channel (quiescent broker).
func (w *world) probe() {
	for i, ci := range w.chans {
		n := ci.length()
		st := "unknown"
		if n == 0 {
			if ci.closed {
				st = "closed"
			} else {
				m, s := ci.takeOne()
				switch s {
				case "closed":
					st = "closed"
				case "empty":
					st = "open"
				default:
					ci.pending = append(ci.pending, m)
					n = ci.length()
				}
			}
		}
		w.log(fw.Event{"ev": "Probe", "c": i + 1, "n": n / w.k, "st": st})
	}
}

// drain takes everything every channel still yields (until closed or empty).
func (w *world) drain() {
	for c := range w.chans {
		for i := 0; i < realCap+3; i++ {
			if w.recv(c+1) <= 0 {
				break
			}
		}
	}
}

// waitLens waits until the real buffers hold what the model says they hold (redis delivers asynchronously).
func (w *world) waitLens(lens []int, cmap map[int]int) bool {
	return waitFor(flowWait, func() bool {
		for mc, want := range lens {
			rc, ok := cmap[mc+1]
			if !ok {
				continue
			}
			if w.chans[rc-1].length() < want*w.k {
				return false
			}
		}
		return true
	})
}

// barrier (redis): a marker published on a driver-private topic has come out of the receive loop, so
// everything published before it has been dispatched. The private subscription is made on first use
// and is not part of the trace.
func (w *world) barrier() {
	const syncTopic = "x01.sync"
	if w.syncCh == nil {
		var ch <-chan *broker.Message
		if guarded(func() string {
			var err error
			ch, err = w.b.Subscribe(w.ctx, syncTopic)
			return classify(err)
		}) != "ok" {
			return
		}
		w.syncCh = ch
		waitFor(flowWait, func() bool { return w.serverSubscribed(syncTopic) })
	}
	w.syncSeq++
	mark := fmt.Sprintf("sync:%d", w.syncSeq)
	if guarded(func() string { return classify(w.b.Publish(w.ctx, syncTopic, []byte(mark))) }) != "ok" {
		return
	}
	deadline := time.After(flowWait)
	for {
		select {
		case m, ok := <-w.syncCh:
			if !ok || (m != nil && string(m.Payload) == mark) {
				return
			}
		case <-deadline:
			return
		}
	}
}

// ---- sequential replay (quiescent after every call) ---------------------------------------------

func runSeq(b *behT) *fw.Trace {
	k := realCap / b.C.Cap
	w, err := newWorld(b.C.Kind, k)
	if err != nil {
		return &fw.Trace{Status: fw.DriverError, Note: err.Error()}
	}
	defer w.cleanup()
	w.log(cfgEvent(b))
	cmap := map[int]int{}      // model channel -> real channel
	ctopic := map[int]string{} // model channel -> topic
	var prev stepT
	status, note := fw.Realised, ""
	diverge := func(s stepT, why string) {
		status, note = fw.Diverged, fmt.Sprintf("step %s: %s", s.A, why)
	}
loop:
	for _, s := range b.S {
		switch s.A {
		case "Sub":
			res, c := w.subscribe(s.T)
			if (res == "ok") != (s.Res == "ok") {
				diverge(s, "model "+s.Res+", code "+res)
				w.probe()
				break loop
			}
			if res == "ok" {
				cmap[s.C] = c
				ctopic[s.C] = s.T
			}
		case "Unsub":
			w.unsubscribe(s.T)
		case "Pub":
			w.publish(s.T)
			if w.mr != nil && s.Res == "ok" {
				// redis delivers asynchronously. Where the model says the message was skipped because the
				// channel was full nothing observable tells when the receive loop is done with it: wait for a
				// marker on a private topic to come through the same connection (first in, first out).
				for mc, t := range ctopic {
					if t == s.T && mc <= len(s.Sts) && s.Sts[mc-1] == "open" && len(prev.Lens) >= mc && prev.Lens[mc-1] == s.Lens[mc-1] {
						w.barrier()
						break
					}
				}
			}
		case "Close":
			w.closeBroker()
		case "Ping":
			w.ping()
		case "Recv":
			rc, ok := cmap[s.C]
			if !ok {
				diverge(s, "no such channel")
				break loop
			}
			w.recv(rc)
		default:
			return &fw.Trace{Status: fw.DriverError, Note: "seq: unknown step " + s.A}
		}
		if w.mr != nil {
			w.waitLens(s.Lens, cmap)
		}
		w.probe()
		prev = s
	}
	w.drain()
	return &fw.Trace{Status: status, Note: note, Events: w.evs}
}

// ---- hook handler: the redis receive loops as schedulable processes ------------------------------

type loopSt struct {
	n       int    // arrival order
	state   string // recv | dispatch | deliver
	msg     *broker.Message
	parked  bool
	release chan struct{}
}

type hooks struct {
	mu          sync.Mutex
	loops       map[int64]*loopSt
	order       []*loopSt
	free        bool
	gateDeliver bool
	hits        int // messages that reached the dispatch point
	seen        atomic.Bool
}

func goid() int64 {
	var buf [64]byte
	n := runtime.Stack(buf[:], false)
	b := buf[:n]
	b = b[len("goroutine "):]
	i := bytes.IndexByte(b, ' ')
	id, _ := strconv.ParseInt(string(b[:i]), 10, 64)
	return id
}

func (h *hooks) on(name string, arg any) {
	if !strings.HasPrefix(name, "broker.redis.") {
		return
	}
	h.seen.Store(true)
	id := goid()
	h.mu.Lock()
	lp := h.loops[id]
	if lp == nil {
		lp = &loopSt{n: len(h.order) + 1, release: make(chan struct{}, 1)}
		h.loops[id] = lp
		h.order = append(h.order, lp)
	}
	park := false
	switch name {
	case "broker.redis.receive":
		lp.state, lp.msg = "recv", nil
	case "broker.redis.dispatch":
		lp.state = "dispatch"
		lp.msg, _ = arg.(*broker.Message)
		h.hits++
		park = !h.free
	case "broker.redis.deliver":
		lp.state = "deliver"
		park = !h.free && h.gateDeliver
	}
	lp.parked = park
	h.mu.Unlock()
	if park {
		<-lp.release
	}
}

func (h *hooks) releaseLoop(lp *loopSt) {
	h.mu.Lock()
	was := lp.parked
	lp.parked = false
	if was {
		lp.state = "running"
	}
	h.mu.Unlock()
	if was {
		lp.release <- struct{}{}
	}
}

func (h *hooks) freeAll() {
	h.mu.Lock()
	h.free = true
	var ps []*loopSt
	for _, lp := range h.order {
		if lp.parked {
			lp.parked = false
			ps = append(ps, lp)
		}
	}
	h.mu.Unlock()
	for _, lp := range ps {
		lp.release <- struct{}{}
	}
}

// parkedWith finds a loop parked at `state` (holding trace message id m, if m > 0).
func (h *hooks) parkedWith(state string, m int) *loopSt {
	h.mu.Lock()
	defer h.mu.Unlock()
	for _, lp := range h.order {
		if lp.parked && lp.state == state {
			if m > 0 {
				if lp.msg == nil {
					continue
				}
				if id, _, ok := parsePayload(lp.msg.Payload); !ok || id != m {
					continue
				}
			}
			return lp
		}
	}
	return nil
}

func (h *hooks) stateOf(lp *loopSt) (string, bool) {
	h.mu.Lock()
	defer h.mu.Unlock()
	return lp.state, lp.parked
}

func (h *hooks) allReceiving() bool {
	h.mu.Lock()
	defer h.mu.Unlock()
	for _, lp := range h.order {
		if lp.state != "recv" {
			return false
		}
	}
	return true
}

// ---- scheduled replay of the redis broker (receive loop steps forced through the hook points) ------

func runSched(b *behT) *fw.Trace {
	h := &hooks{loops: map[int64]*loopSt{}}
	asis := true
	for _, f := range b.C.Fixed {
		if f == "lockedSend" {
			asis = false
		}
	}
	h.gateDeliver = asis
	verifhook.Set(h.on)
	defer verifhook.Set(nil)
	w, err := newWorld("redis", 1)
	if err != nil {
		return &fw.Trace{Status: fw.DriverError, Note: err.Error()}
	}
	w.log(cfgEvent(b))
	cmap := map[int]int{}
	pubID := map[int]int{}     // model message -> call id
	lmap := map[int]*loopSt{}  // model loop -> real loop
	status, note := fw.Realised, ""
	stop := func(st string, s stepT, why string) { status, note = st, fmt.Sprintf("step %s: %s", s.A, why) }
	wire, busy, routed := 0, 0, 0
	closing := false
	var closeDone chan string
	closeID := 0
	// run an API call that the model says does not block
	timed := func(fn func()) bool {
		done := make(chan struct{})
		go func() { fn(); close(done) }()
		select {
		case <-done:
			return true
		case <-time.After(callWait):
			// blocked on a lock a parked loop holds: the model is finer than the code here
			h.freeAll()
			<-done
			return false
		}
	}
	// after a loop was released from a point: wait until it is back at the receive call, parked again, or gone
	settleLoop := func(lp *loopSt, expectGone bool) bool {
		if expectGone {
			return true
		}
		return waitFor(flowWait, func() bool {
			st, parked := h.stateOf(lp)
			return st == "recv" || parked
		})
	}
loop:
	for _, s := range b.S {
		switch s.A {
		case "Sub":
			var res string
			var c int
			if !timed(func() { res, c = w.subscribe(s.T) }) {
				stop(fw.Unrealisable, s, "call blocked")
				break loop
			}
			if (res == "ok") != (s.Res == "ok") {
				stop(fw.Diverged, s, "model "+s.Res+", code "+res)
				break loop
			}
			if res == "ok" {
				cmap[s.C] = c
			}
		case "Unsub":
			var res string
			if !timed(func() { res = w.unsubscribe(s.T) }) {
				stop(fw.Unrealisable, s, "call blocked (a loop is parked inside the lock)")
				break loop
			}
			if res != s.Res {
				stop(fw.Diverged, s, "model "+s.Res+", code "+res)
				break loop
			}
		case "Pub":
			var id int
			var res string
			if !timed(func() { id, res = w.publish(s.T) }) {
				stop(fw.Unrealisable, s, "call blocked")
				break loop
			}
			if res != s.Res {
				stop(fw.Diverged, s, "model "+s.Res+", code "+res)
				break loop
			}
			if s.M > 0 {
				pubID[s.M] = id
			}
			if s.Routed {
				wire++
				routed++
			}
		case "Ping":
			if !timed(func() { w.ping() }) {
				stop(fw.Unrealisable, s, "call blocked")
				break loop
			}
		case "Take":
			var lp *loopSt
			if !waitFor(flowWait, func() bool { lp = h.parkedWith("dispatch", pubID[s.M]); return lp != nil }) {
				stop(fw.Diverged, s, "no receive loop arrived with the message")
				break loop
			}
			lmap[s.L] = lp
			wire--
			busy++
		case "Dispatch", "Lookup":
			lp := lmap[s.L]
			if lp == nil {
				stop(fw.Diverged, s, "loop unknown")
				break loop
			}
			h.releaseLoop(lp)
			if s.A == "Lookup" && s.To > 0 {
				if !waitFor(flowWait, func() bool { st, p := h.stateOf(lp); return st == "deliver" && p }) {
					stop(fw.Diverged, s, "loop did not reach the send")
					break loop
				}
				break
			}
			if !settleLoop(lp, s.Exit) {
				stop(fw.Diverged, s, "loop did not finish the dispatch")
				break loop
			}
			busy--
		case "Send":
			lp := lmap[s.L]
			if lp == nil {
				stop(fw.Diverged, s, "loop unknown")
				break loop
			}
			h.releaseLoop(lp)
			if s.Panic {
				// the model says the process dies here; give the panic time to happen
				time.Sleep(300 * time.Millisecond)
				stop(fw.Diverged, s, "model: send on closed channel; code survived")
				break loop
			}
			if !settleLoop(lp, closing) {
				stop(fw.Diverged, s, "loop did not finish the send")
				break loop
			}
			busy--
		case "CloseBegin":
			w.closing.Store(true)
			closeID = w.call("Close", "-")
			closeDone = make(chan string, 1)
			go func() { closeDone <- guarded(func() string { return classify(w.b.Close()) }) }()
			rb := w.b.(*broker.RedisBroker)
			if !waitFor(flowWait, func() bool { return classify(rb.Ping(w.ctx)) == "closed" }) {
				stop(fw.Diverged, s, "Close did not reach its first critical section")
				break loop
			}
			closing = true
		case "CloseEnd":
			select {
			case res := <-closeDone:
				w.ret(closeID, "Close", "-", res, nil)
				closeDone = nil
			case <-time.After(callWait):
				stop(fw.Diverged, s, "Close did not return")
				break loop
			}
		case "Close": // Close again
			if !timed(func() { w.closeBroker() }) {
				stop(fw.Unrealisable, s, "call blocked")
				break loop
			}
		case "Recv":
			rc, ok := cmap[s.C]
			if !ok || w.chans[rc-1].length() == 0 {
				stop(fw.Diverged, s, "nothing to receive")
				break loop
			}
			w.recv(rc)
		default:
			return &fw.Trace{Status: fw.DriverError, Note: "sched: unknown step " + s.A}
		}
		if wire == 0 && busy == 0 && !closing {
			w.log(fw.Event{"ev": "Settle"})
		}
	}
	// let everything finish free-running
	h.freeAll()
	if closeDone != nil {
		select {
		case res := <-closeDone:
			w.ret(closeID, "Close", "-", res, nil)
		case <-time.After(callWait):
			w.cleanup()
			return &fw.Trace{Status: fw.Inconclusive, Note: "Close did not return in time"}
		}
	}
	if !closing {
		// everything the server pushed has gone through the loop
		quiet := waitFor(flowWait, func() bool {
			h.mu.Lock()
			n := h.hits
			h.mu.Unlock()
			return n >= routed && h.allReceiving()
		})
		if quiet {
			w.log(fw.Event{"ev": "Settle"})
		}
	}
	w.drain()
	w.cleanup()
	return &fw.Trace{Status: status, Note: note, Events: w.evs}
}

// ---- free-running stress: Publish || Subscribe/Unsubscribe cycles || Close ---------------------------

func runStress(b *behT) *fw.Trace {
	sp := b.Stress
	w, err := newWorld(sp.Kind, 1)
	if err != nil {
		return &fw.Trace{Status: fw.DriverError, Note: err.Error()}
	}
	w.log(cfgEvent(b))
	rng := rand.New(rand.NewSource(sp.Seed))
	jit := func(r *rand.Rand, max int) {
		switch n := r.Intn(max + 1); {
		case n == 0:
		case n < 3:
			runtime.Gosched()
		default:
			time.Sleep(time.Duration(n) * time.Microsecond)
		}
	}
	topics := []string{"t1", "t2"}
	var consumers sync.WaitGroup
	type last struct {
		mu sync.Mutex
		ci map[string]int // topic -> latest channel
	}
	lastCh := &last{ci: map[string]int{}}
	consume := func(c int) {
		consumers.Add(1)
		go func() {
			defer consumers.Done()
			ci := w.chans[c-1]
			for m := range ci.ch {
				id, _, bad := checkMsg(ci, m)
				if bad != "" {
					w.log(fw.Event{"ev": "Recv", "c": c, "got": -2, "why": bad})
				} else {
					w.log(fw.Event{"ev": "Recv", "c": c, "got": id})
				}
			}
			w.log(fw.Event{"ev": "Recv", "c": c, "got": 0})
		}()
	}
	nPub, nCycles, nPublishers := 40, 6, 2
	if sp.Variant%2 == 1 {
		nPub, nCycles = 25, 10
	}
	stopPub := make(chan struct{})
	var pubs, cyc sync.WaitGroup
	for p := 0; p < nPublishers; p++ {
		pubs.Add(1)
		r := rand.New(rand.NewSource(rng.Int63()))
		go func(p int) {
			defer pubs.Done()
			for i := 0; i < nPub; i++ {
				select {
				case <-stopPub:
					return
				default:
				}
				w.publish(topics[(i+p)%2])
				jit(r, 60)
			}
		}(p)
	}
	for ti, t := range topics {
		cyc.Add(1)
		r := rand.New(rand.NewSource(rng.Int63()))
		go func(ti int, t string) {
			defer cyc.Done()
			for i := 0; i < nCycles; i++ {
				res, c := w.subscribe(t)
				if res != "ok" {
					return
				}
				consume(c)
				lastCh.mu.Lock()
				lastCh.ci[t] = c
				lastCh.mu.Unlock()
				if i == nCycles-1 {
					return // the last subscription stays until Close
				}
				jit(r, 300)
				w.unsubscribe(t)
				jit(r, 30)
			}
		}(ti, t)
	}
	early := sp.Variant%3 == 2 // Close races with the cycles and the publishers
	if early {
		time.Sleep(time.Duration(200+rng.Intn(1500)) * time.Microsecond)
	} else {
		cyc.Wait()
		pubs.Wait()
		// quiescence: a marker per subscribed topic comes out after everything published before it
		// (one connection, one receive loop: first in, first out); memory delivers inside Publish
		ok := true
		for _, t := range topics {
			lastCh.mu.Lock()
			c := lastCh.ci[t]
			lastCh.mu.Unlock()
			if c == 0 {
				continue
			}
			id, res := w.publish(t)
			if res != "ok" {
				ok = false
				continue
			}
			ok = waitFor(flowWait, func() bool {
				w.mu.Lock()
				defer w.mu.Unlock()
				for i := len(w.evs) - 1; i >= 0; i-- {
					e := w.evs[i]
					if e["ev"] == "Recv" && e["c"] == c && e["got"] == id {
						return true
					}
				}
				return false
			}) && ok
		}
		if ok {
			w.log(fw.Event{"ev": "Settle"})
		}
		// a last burst racing with Close
		pubs.Add(1)
		go func() {
			defer pubs.Done()
			for i := 0; i < 6; i++ {
				w.publish(topics[i%2])
			}
		}()
		jit(rng, 40)
	}
	closed := make(chan struct{})
	go func() { w.closeBroker(); close(closed) }()
	select {
	case <-closed:
	case <-time.After(3 * callWait):
		return &fw.Trace{Status: fw.Inconclusive, Note: "Close did not return in time", Events: w.evs}
	}
	close(stopPub)
	cyc.Wait()
	pubs.Wait()
	// calls begun after Close returned
	w.publish("t1")
	w.subscribe("t2")
	w.unsubscribe("t1")
	w.ping()
	w.closeBroker()
	// every channel is closed now: the consumers end; one that does not is reported as not closed
	cdone := make(chan struct{})
	go func() { consumers.Wait(); close(cdone) }()
	select {
	case <-cdone:
	case <-time.After(callWait):
		w.mu.Lock()
		ended := map[any]bool{}
		for _, e := range w.evs {
			if e["ev"] == "Recv" && e["got"] == 0 {
				ended[e["c"]] = true
			}
		}
		for c := range w.chans {
			if !ended[c+1] {
				w.evs = append(w.evs, fw.Event{"ev": "Recv", "c": c + 1, "got": -1})
			}
		}
		w.mu.Unlock()
	}
	if w.mr != nil {
		w.mr.Close()
	}
	w.mu.Lock()
	evs := append([]fw.Event(nil), w.evs...)
	w.mu.Unlock()
	return &fw.Trace{Status: fw.Realised, Events: evs}
}

func execute(env *fw.Env, b *behT) *fw.Trace {
	switch b.Mode {
	case "seq":
		return runSeq(b)
	case "sched":
		return runSched(b)
	case "stress":
		return runStress(b)
	}
	return &fw.Trace{Status: fw.DriverError, Note: "mode?"}
}

// hooksPresent reports whether the receive loop of the redis broker carries the verifhook points.
func hooksPresent() bool {
	h := &hooks{loops: map[int64]*loopSt{}, free: true}
	verifhook.Set(h.on)
	defer verifhook.Set(nil)
	w, err := newWorld("redis", 1)
	if err != nil {
		return false
	}
	defer w.cleanup()
	if res, _ := w.subscribe("t1"); res != "ok" {
		return false
	}
	w.publish("t1")
	waitFor(flowWait, func() bool { return w.chans[0].length() > 0 })
	return h.seen.Load()
}
