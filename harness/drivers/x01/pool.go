package main

import (
	"bufio"
	"bytes"
	"encoding/json"
	"fmt"
	"io"
	"os"
	"os/exec"
	"strings"
	"sync"
	"syscall"
	"time"

	"tunnox-core/verifharness/fw"
)

// Behaviours are executed in worker child processes (one behaviour at a time per worker): a panic in
// a goroutine of the code under test (the redis broker's receive loop sending on a closed channel)
// cannot be recovered and would otherwise kill the check. A worker that dies of a Go panic raised in
// internal/broker is the observation Fatal{what}; any other death is a harness failure (exit 2).

type workerReq struct {
	Tier string `json:"tier"`
	Seed int64  `json:"seed"`
	Beh  behT   `json:"beh"`
}

type workerResp struct {
	Status string     `json:"status"`
	Note   string     `json:"note,omitempty"`
	Events []fw.Event `json:"events"`
}

func workerMain() {
	// keep the protocol channel private: anything the code under test prints goes to stderr
	fd, err := syscall.Dup(1)
	if err != nil {
		fmt.Fprintln(os.Stderr, "worker: dup:", err)
		os.Exit(3)
	}
	syscall.Dup2(2, 1)
	proto := os.NewFile(uintptr(fd), "proto")
	in := bufio.NewReaderSize(os.Stdin, 1<<20)
	out := bufio.NewWriter(proto)
	for {
		line, err := in.ReadBytes('\n')
		if len(bytes.TrimSpace(line)) > 0 {
			var rq workerReq
			if jerr := json.Unmarshal(line, &rq); jerr != nil {
				fmt.Fprintln(os.Stderr, "worker: bad request:", jerr)
				os.Exit(3)
			}
			t := execute(&fw.Env{Tier: rq.Tier, Seed: rq.Seed}, &rq.Beh)
			out.Write(fw.MustJSON(workerResp{Status: t.Status, Note: t.Note, Events: t.Events}))
			out.WriteByte('\n')
			out.Flush()
		}
		if err != nil {
			return
		}
	}
}

type worker struct {
	cmd    *exec.Cmd
	stdin  io.WriteCloser
	stdout *bufio.Reader
	stderr *bytes.Buffer
}

var (
	poolMu sync.Mutex
	idle   []*worker
)

func startWorker() (*worker, error) {
	exe, err := os.Executable()
	if err != nil {
		return nil, err
	}
	cmd := exec.Command(exe, "--worker")
	cmd.Env = append(os.Environ(), "GOTRACEBACK=single")
	w := &worker{cmd: cmd, stderr: &bytes.Buffer{}}
	if w.stdin, err = cmd.StdinPipe(); err != nil {
		return nil, err
	}
	so, err := cmd.StdoutPipe()
	if err != nil {
		return nil, err
	}
	w.stdout = bufio.NewReaderSize(so, 1<<20)
	cmd.Stderr = w.stderr
	if err := cmd.Start(); err != nil {
		return nil, err
	}
	return w, nil
}

func getWorker() (*worker, error) {
	poolMu.Lock()
	if n := len(idle); n > 0 {
		w := idle[n-1]
		idle = idle[:n-1]
		poolMu.Unlock()
		return w, nil
	}
	poolMu.Unlock()
	return startWorker()
}

func putWorker(w *worker) {
	poolMu.Lock()
	idle = append(idle, w)
	poolMu.Unlock()
}

func stopWorkers() {
	poolMu.Lock()
	ws := idle
	idle = nil
	poolMu.Unlock()
	for _, w := range ws {
		w.stdin.Close()
		done := make(chan struct{})
		go func() { w.cmd.Wait(); close(done) }()
		select {
		case <-done:
		case <-time.After(3 * time.Second):
			w.cmd.Process.Kill()
		}
	}
}

// crashWhat recognises a Go panic raised inside internal/broker in a worker's crash report.
func crashWhat(stderr string) (string, bool) {
	i := strings.Index(stderr, "panic: ")
	if i < 0 {
		return "", false
	}
	rest := stderr[i:]
	first := rest
	if j := strings.IndexByte(first, '\n'); j >= 0 {
		first = first[:j]
	}
	j := strings.Index(rest, "goroutine ")
	if j < 0 {
		return "", false
	}
	body := rest[j:]
	if k := strings.Index(body, "\n\n"); k >= 0 {
		body = body[:k] // the panicking goroutine only
	}
	// the panicking goroutine must be running broker code (a receive loop, or a call into the broker)
	// and the panic must not have been raised by the harness itself
	bi := strings.Index(body, "tunnox-core/internal/broker.")
	hi := strings.Index(body, "tunnox-core/verifharness")
	if bi < 0 || (hi >= 0 && hi < bi) {
		return "", false
	}
	what := strings.TrimPrefix(first, "panic: ")
	if k := strings.IndexAny(what, "[0123456789"); k > 0 {
		what = what[:k] // no addresses / indices in the finding key
	}
	what = strings.ReplaceAll(strings.TrimSpace(what), " ", "-")
	if len(what) > 60 {
		what = what[:60]
	}
	return what, true
}

func drive(env *fw.Env, b fw.Behaviour) *fw.Trace {
	var x behT
	if err := json.Unmarshal(b.Data, &x); err != nil {
		return &fw.Trace{Status: fw.DriverError, Note: err.Error()}
	}
	if x.Mode == "stress" {
		stressSem <- struct{}{}
		defer func() { <-stressSem }()
	}
	w, err := getWorker()
	if err != nil {
		return &fw.Trace{Status: fw.DriverError, Note: "worker: " + err.Error()}
	}
	if _, err := w.stdin.Write(append(fw.MustJSON(workerReq{Tier: env.Tier, Seed: env.Seed, Beh: x}), '\n')); err != nil {
		w.cmd.Process.Kill()
		w.cmd.Wait()
		return &fw.Trace{Status: fw.DriverError, Note: "worker write: " + err.Error()}
	}
	type res struct {
		line []byte
		err  error
	}
	ch := make(chan res, 1)
	go func() {
		line, err := w.stdout.ReadBytes('\n')
		ch <- res{line, err}
	}()
	select {
	case r := <-ch:
		if r.err == nil {
			var wr workerResp
			if err := json.Unmarshal(r.line, &wr); err != nil {
				w.cmd.Process.Kill()
				w.cmd.Wait()
				return &fw.Trace{Status: fw.DriverError, Note: "worker reply: " + err.Error()}
			}
			putWorker(w)
			normalise(wr.Events)
			return &fw.Trace{Status: wr.Status, Note: wr.Note, Events: wr.Events}
		}
		// the worker died while running this behaviour
		w.cmd.Wait()
		stderr := w.stderr.String()
		if what, ok := crashWhat(stderr); ok {
			return &fw.Trace{Status: fw.Realised, Note: "broker code panicked: " + what, Events: []fw.Event{
				cfgEvent(&x),
				{"ev": "Fatal", "what": what},
			}}
		}
		if len(stderr) > 1500 {
			stderr = stderr[:1500]
		}
		return &fw.Trace{Status: fw.DriverError, Note: "worker died: " + stderr}
	case <-time.After(180 * time.Second):
		w.cmd.Process.Kill()
		w.cmd.Wait()
		return &fw.Trace{Status: fw.DriverError, Note: "worker did not answer"}
	}
}

// normalise turns JSON numbers back into ints so that traces look the same as in-process ones.
func normalise(evs []fw.Event) {
	for _, e := range evs {
		for k, v := range e {
			if f, ok := v.(float64); ok && f == float64(int64(f)) {
				e[k] = int(f)
			}
		}
	}
}
