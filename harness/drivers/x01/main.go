// X01 driver (extension spec): internal/broker - the MessageBroker used for cross-node
// notifications, memory and redis (over miniredis) implementations.
//
// TLC explores spec/Broker.tla exhaustively and generates behaviours (transition coverage +
// simulation); every behaviour is replayed on the REAL brokers in worker child processes:
//   seq    sequential replay, the driver waits for quiescence after every call (memory and redis;
//          one model message = a batch of 100/Cap real messages so that the model's "full" is the
//          code's hard-wired capacity of 100)
//   sched  redis: the receive loop is scheduled against Subscribe / Unsubscribe / Publish / Close
//          through the verifhook points of patch X01-0 (skipped when the tree has no such points)
//   stress free-running Publish || Subscribe/Unsubscribe cycles || Close with seeded jitter
// The judge is spec/BrokerTrace.tla.
package main

import (
	"encoding/json"
	"fmt"
	"os"
	"strings"
	"sync"

	"tunnox-core/verifharness/fw"
)

var stressSem = make(chan struct{}, 4)

var (
	hookOnce sync.Once
	hookOK   bool
)

func haveHooks() bool {
	hookOnce.Do(func() {
		hookOK = hooksPresent()
		if !hookOK {
			fmt.Println("[x01] the redis broker has no verifhook points (patch X01-0 not applied): scheduled receive-loop behaviours are skipped")
		}
	})
	return hookOK
}

const allActs = `{"Sub", "Unsub", "Pub", "Take", "Dispatch", "Lookup", "Send", "Close", "CloseBegin", "CloseEnd", "Ping", "Recv"}`
const fixedAll = `{"loop1", "lockedSend"}`

func mcJob(name, kind, sync, fixed string, loops, maxSub, maxMsg int, invs, props string) fw.TLCJob {
	return fw.TLCJob{Name: name, Module: "Broker", Cfg: "Broker_mc.cfg", Workers: 4, Consts: map[string]string{
		"KIND": `"` + kind + `"`, "SYNC": sync, "FIXED": fixed, "MAXLOOPS": fmt.Sprint(loops),
		"MAXSUB": fmt.Sprint(maxSub), "MAXMSG": fmt.Sprint(maxMsg), "INVS": invs, "PROPS": props}}
}

func genJob(name, kind, sync, fixed string, loops, maxSub, maxMsg int, emit string, maxHist int, view bool) fw.TLCJob {
	v := ""
	if view {
		v = "VIEW view"
	}
	return fw.TLCJob{Name: name, Module: "Broker", Cfg: "Broker_gen.cfg", Workers: 1, // one worker: the history chosen per state is reproducible
		Consts: map[string]string{
			"KIND": `"` + kind + `"`, "SYNC": sync, "FIXED": fixed, "MAXLOOPS": fmt.Sprint(loops),
			"MAXSUB": fmt.Sprint(maxSub), "MAXMSG": fmt.Sprint(maxMsg), "EMITACTS": emit, "MAXHIST": fmt.Sprint(maxHist), "VIEW": v}}
}

func simJob(env *fw.Env, name, kind, sync, fixed string, loops int, num int, off int64) fw.TLCJob {
	j := genJob(name, kind, sync, fixed, loops, 3, 4, `{"end"}`, 14, false)
	j.Simulate = fmt.Sprintf("num=%d", num)
	j.Depth = 16
	j.Seed = env.Seed + off
	return j
}

func main() {
	if len(os.Args) > 1 && os.Args[1] == "--worker" {
		workerMain()
		return
	}
	strict := "NoPanic OrderKept OneLoop"
	known := "NoPanicOrKnown OrderKeptOrKnown OneLoopOrKnown"
	live := "CloseTerminates Drains"
	fw.Main(&fw.Property{
		ID:        "X01",
		DesignRef: "extension: internal/broker (spec/Broker.tla, spec/BrokerTrace.tla)",
		ModelJobs: func(env *fw.Env) []fw.TLCJob {
			if env.Tier == "thorough" {
				return []fw.TLCJob{
					mcJob("mc:memory", "memory", "FALSE", "{}", 1, 3, 4, strict, ""),
					mcJob("mc:redis-sync", "redis", "TRUE", fixedAll, 1, 3, 4, strict, ""),
					mcJob("mc:redis-repaired", "redis", "FALSE", fixedAll, 1, 3, 3, strict, live),
					mcJob("mc:redis-asis", "redis", "FALSE", "{}", 2, 3, 3, known, live),
					mcJob("mc:redis-loop1-only", "redis", "FALSE", `{"loop1"}`, 1, 3, 3, "NoPanicOrKnown OrderKept OneLoop", live),
				}
			}
			return []fw.TLCJob{
				mcJob("mc:memory", "memory", "FALSE", "{}", 1, 3, 3, strict, ""),
				mcJob("mc:redis-sync", "redis", "TRUE", fixedAll, 1, 3, 3, strict, ""),
				mcJob("mc:redis-repaired", "redis", "FALSE", fixedAll, 1, 3, 2, strict, live),
				mcJob("mc:redis-asis", "redis", "FALSE", "{}", 2, 3, 2, known, live),
			}
		},
		GenJobs: func(env *fw.Env) []fw.TLCJob {
			th := env.Tier == "thorough"
			msgs, nsim := 3, 30
			if th {
				nsim = 200
			}
			jobs := []fw.TLCJob{
				genJob("gen:memory", "memory", "FALSE", "{}", 1, 2, msgs, allActs, 99, true),
				genJob("gen:redis-sync", "redis", "TRUE", fixedAll, 1, 2, msgs, allActs, 99, true),
				simJob(env, "sim:memory", "memory", "FALSE", "{}", 1, nsim, 0),
				simJob(env, "sim:redis-sync", "redis", "TRUE", fixedAll, 1, nsim, 1),
			}
			if th {
				jobs = append(jobs, genJob("gen:memory3", "memory", "FALSE", "{}", 1, 3, 3, allActs, 99, true))
			}
			if haveHooks() {
				jobs = append(jobs,
					genJob("gen:redis-sched", "redis", "FALSE", fixedAll, 1, 2, 2, allActs, 99, true),
					simJob(env, "sim:redis-sched", "redis", "FALSE", fixedAll, 1, nsim, 2),
					// the code before the repairs: every step at which the model records a deviation
					genJob("legacy:redis-asis", "redis", "FALSE", "{}", 2, 3, 2, `{"dev"}`, 99, true))
			}
			return jobs
		},
		MaxBehSrc: func(env *fw.Env, src string) int {
			th := env.Tier == "thorough"
			switch {
			case strings.HasPrefix(src, "legacy:"):
				if th {
					return 120
				}
				return 24
			case strings.HasPrefix(src, "sim:"):
				return 0
			case src == "gen:memory" || src == "gen:memory3":
				if th {
					return 4000
				}
				return 500
			default:
				if th {
					return 2500
				}
				return 300
			}
		},
		Expand: func(env *fw.Env, src string, raw json.RawMessage) []json.RawMessage {
			var b behT
			if err := json.Unmarshal(raw, &b); err != nil {
				panic(err)
			}
			b.Mode = "seq"
			if b.C.Kind == "redis" && !b.C.Sync {
				b.Mode = "sched"
			}
			return []json.RawMessage{fw.MustJSON(b)}
		},
		ExtraBeh: func(env *fw.Env) []json.RawMessage {
			n := 9
			if env.Tier == "thorough" {
				n = 60
			}
			var out []json.RawMessage
			for _, kind := range []string{"memory", "redis"} {
				for i := 0; i < n; i++ {
					out = append(out, fw.MustJSON(behT{Mode: "stress", Stress: &stressT{Kind: kind, Variant: i, Seed: env.Seed*1000 + int64(i)}}))
				}
			}
			return out
		},
		Drive:       drive,
		Parallel:    8,
		JudgeModule: "BrokerTrace",
		JudgeCfg:    "BrokerTrace.cfg",
		SelfTest:    selfTest,
		PostDrive: func(env *fw.Env, ts []*fw.Trace) error {
			stopWorkers()
			return nil
		},
		Rule: "one behaviour per transition (state, action) of the broker state graph (sampled per source, seeded) plus simulated deep histories, replayed on the real memory and redis brokers; free-running stress programs per kind; non-trivial = realised trace with more than one event",
		Assumptions: []string{
			"miniredis stands in for Redis; the driver reports Subscribe / Unsubscribe as returned only once the server registered it (the broker only writes the command)",
			"sequential replay: one model message is a batch of 100/Cap real messages; the driver waits up to 4 s for deliveries the model expects",
			"scheduled replay needs the verifhook points of patch X01-0; without them those sources are not generated",
			"stress (redis): quiescence is established by a marker message per subscribed topic (one connection, one receive loop: FIFO)",
		},
		TrustedBase: []string{"TLC", "spec/BrokerTrace.tla as the reading of the MessageBroker contract", "batch compression and message validation in drivers/x01"},
	})
}

// selfTest corrupts accepted traces in ways the judge must reject.
func selfTest(env *fw.Env, acc []*fw.Trace) []*fw.Trace {
	var out []*fw.Trace
	id := 1 << 24
	clone := func(t *fw.Trace, mut func(i int, e fw.Event) []fw.Event) *fw.Trace {
		c := &fw.Trace{Status: fw.Realised, Beh: t.Beh}
		id++
		c.Beh.ID = id
		for i, e := range t.Events {
			ne := fw.Event{}
			for k, v := range e {
				ne[k] = v
			}
			c.Events = append(c.Events, mut(i, ne)...)
		}
		return c
	}
	num := func(v any) int {
		switch x := v.(type) {
		case int:
			return x
		case float64:
			return int(x)
		}
		return 0
	}
	nSeqProbe, nSeqRes, nDup, nFatal, nClosed := 0, 0, 0, 0, 0
	for _, t := range acc {
		if len(t.Events) == 0 || t.Events[0]["ev"] != "Cfg" {
			continue
		}
		seq := t.Events[0]["mode"] == "seq"
		lastProbe, lastRet, lastRecv, lastZero := -1, -1, -1, -1
		for i, e := range t.Events {
			switch e["ev"] {
			case "Probe":
				lastProbe = i
			case "Ret":
				if e["res"] == "ok" && e["op"] != "Close" && e["op"] != "Sub" {
					lastRet = i
				}
			case "Recv":
				if num(e["got"]) > 0 {
					lastRecv = i
				}
				if num(e["got"]) == 0 {
					lastZero = i
				}
			}
		}
		if seq && lastProbe >= 0 && nSeqProbe < 15 { // a message more than was published
			nSeqProbe++
			out = append(out, clone(t, func(i int, e fw.Event) []fw.Event {
				if i == lastProbe {
					e["n"] = num(e["n"]) + 1
				}
				return []fw.Event{e}
			}))
		}
		if seq && lastRet >= 0 && nSeqRes < 15 { // a call that succeeded reported as refused
			nSeqRes++
			out = append(out, clone(t, func(i int, e fw.Event) []fw.Event {
				if i == lastRet {
					e["res"] = "closed"
					e["c"] = 0
				}
				return []fw.Event{e}
			}))
		}
		if lastRecv >= 0 && nDup < 15 { // a message delivered twice
			nDup++
			out = append(out, clone(t, func(i int, e fw.Event) []fw.Event {
				if i == lastRecv {
					return []fw.Event{e, e}
				}
				return []fw.Event{e}
			}))
		}
		if strings.Contains(string(t.Beh.Data), `"mode":"stress"`) && lastZero >= 0 && nClosed < 10 { // a channel that was not closed after Close
			nClosed++
			out = append(out, clone(t, func(i int, e fw.Event) []fw.Event {
				if e["ev"] == "Recv" && num(e["got"]) == 0 && num(e["c"]) == 1 {
					e["got"] = -1
				}
				return []fw.Event{e}
			}))
		}
		if nFatal < 3 {
			nFatal++
			out = append(out, clone(t, func(i int, e fw.Event) []fw.Event {
				if i == len(t.Events)-1 {
					return []fw.Event{e, {"ev": "Fatal", "what": "send-on-closed-channel"}}
				}
				return []fw.Event{e}
			}))
		}
	}
	return out
}
