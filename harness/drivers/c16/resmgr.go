package main

import (
	"fmt"
	"strings"
	"sync"
	"time"

	"tunnox-core/internal/core/dispose"
	"tunnox-core/verifharness/fw"
	"tunnox-core/verifharness/sched"
)

// Scene "resmgr": dispose.ResourceManager (internal/core/dispose/manager.go). Two registered resources whose
// Dispose is a gate and a counted clean-up action; callers of DisposeAll and one DisposeWithTimeout whose
// helper goroutine (started by the manager) is adopted as "hlp" when it reaches a resource.

const twTimeout = 120 * time.Millisecond

type resRig struct {
	*base
	rm  *dispose.ResourceManager
	mu  sync.Mutex
	cur map[string]string // name -> object registered under it by the driver (as far as the driver knows)
}

// register / unregister: the driver's own calls on the registry, recorded as Own (the manager now owes the object one
// Dispose) and Drop (it is relieved of it again) - only when the manager accepted the call.
func (r *resRig) register(name, obj string) {
	if err := r.rm.Register(name, &gatedRes{r: r, name: obj}); err == nil {
		r.mu.Lock()
		r.cur[name] = obj
		r.mu.Unlock()
		r.rec.add(fw.Event{"ev": "Own", "h": obj})
	}
}

func (r *resRig) unregister(name string) {
	r.mu.Lock()
	obj := r.cur[name]
	r.mu.Unlock()
	if err := r.rm.Unregister(name); err == nil {
		if obj == "" {
			obj = name
		}
		r.rec.add(fw.Event{"ev": "Drop", "h": obj})
		r.mu.Lock()
		if r.cur[name] == obj {
			delete(r.cur, name)
		}
		r.mu.Unlock()
	}
}

// settle waits until no goroutine is inside the dispose package any more (a DisposeWithTimeout that has returned may
// have left its helper behind, still disposing) and records that as Settled. Not settled in time: no event, and the
// judge then takes the following calls as made while a disposal is in flight (they owe nothing).
func (r *resRig) settle(limit time.Duration) bool {
	me := goid()
	deadline := time.Now().Add(limit)
	for {
		busy := false
		for _, g := range dumpGoroutines() {
			if g.id != me && !r.bl[g.id] && strings.Contains(g.text, repoPrefix+"core/dispose.") {
				busy = true
				break
			}
		}
		if !busy {
			r.rec.add(fw.Event{"ev": "Settled"})
			return true
		}
		if time.Now().After(deadline) {
			return false
		}
		time.Sleep(300 * time.Microsecond)
	}
}

type gatedRes struct {
	r    *resRig
	name string
	hold time.Duration // scripted slowness (free-running cases)
}

func (g *gatedRes) Dispose() error {
	g.r.s.Gate("res", map[string]any{"name": g.name})
	if g.hold > 0 {
		time.Sleep(g.hold)
	}
	g.r.rec.add(fw.Event{"ev": "Ran", "h": g.name})
	g.r.s.After()
	return nil
}

func newResRig(free bool, seed int64, hold time.Duration) *resRig {
	r := &resRig{base: newBase(free, seed), cur: map[string]string{"r1": "r1", "r2": "r2"}}
	r.rm = dispose.NewResourceManager()
	for _, n := range []string{"r1", "r2"} {
		h := time.Duration(0)
		if n == "r2" {
			h = hold
		}
		if err := r.rm.Register(n, &gatedRes{r: r, name: n, hold: h}); err != nil {
			panic(err)
		}
		r.rec.add(fw.Event{"ev": "Reg", "h": n})
	}
	r.s.Adopt = func(g sched.GateInfo) string {
		if g.Point == "res" {
			return "hlp" // DisposeWithTimeout's helper goroutine
		}
		return ""
	}
	return r
}

func (r *resRig) finish() *fw.Trace {
	if !r.s.Drain(8 * time.Second) {
		return &fw.Trace{Status: fw.DriverError, Note: "resmgr: callers did not finish: " + fmt.Sprint(r.s.Procs())}
	}
	r.settle(5 * time.Second)
	r.rec.add(fw.Event{"ev": "CloseCall", "p": "z"})
	r.rec.guard("DisposeAll", func() { r.rm.DisposeAll() })
	r.rec.add(fw.Event{"ev": "CloseRet", "p": "z"})
	// operations on a disposed manager
	r.runOp("GetResourceCount", func() error { r.rm.GetResourceCount(); return nil })
	r.runOp("ListResources", func() error { r.rm.ListResources(); return nil })
	r.runOp("Unregister", func() error { r.unregister("r1"); return nil })
	r.runOp("DisposeWithTimeout", func() error { r.rm.DisposeWithTimeout(20 * time.Millisecond); return nil })
	r.quiesce("resmgr", false, 0)
	r.cancel()
	t := r.trace("resmgr", false)
	t.Events[0]["excl"] = true // a disposal call that finds another one in flight returns at once and takes over nothing
	return t
}

// driveResMgrHistory: driver-made registration histories (no race): names unregistered and registered again, once
// or several times, a name registered and taken out again for good, before DisposeAll / DisposeWithTimeout; then a
// second generation: names registered again on the disposed manager and the manager disposed once more. Every object
// registered when a disposal starts is disposed exactly once, whatever the history of its name.
func driveResMgrHistory(beh behaviour, seed int64) *fw.Trace {
	r := newResRig(true, seed, 0)
	ver := map[string]int{"r1": 1, "r2": 1}
	rereg := func(name string) {
		r.unregister(name)
		ver[name]++
		r.register(name, fmt.Sprintf("%sv%d", name, ver[name]))
	}
	for k := 0; k <= beh.Seed%3; k++ {
		rereg([]string{"r1", "r2"}[(k+beh.Seed/3)%2])
	}
	if beh.Seed%2 == 1 { // a third name comes and goes
		r.register("r3", "r3")
		r.unregister("r3")
	}
	disposeOnce := func(p string, withTimeout bool) {
		r.rec.add(fw.Event{"ev": "CloseCall", "p": p})
		if withTimeout {
			r.rec.guard("DisposeWithTimeout", func() { r.rm.DisposeWithTimeout(3 * time.Second) })
		} else {
			r.rec.guard("DisposeAll", func() { r.rm.DisposeAll() })
		}
		r.rec.add(fw.Event{"ev": "CloseRet", "p": p, "async": withTimeout})
	}
	disposeOnce("d1", beh.Seed%2 == 1)
	r.settle(5 * time.Second)
	// second generation on the same manager
	ver["r1"]++
	r.register("r1", fmt.Sprintf("r1v%d", ver["r1"]))
	if beh.Seed%3 == 0 {
		rereg("r1")
	}
	r.register("r4", "r4")
	disposeOnce("d2", beh.Seed%2 == 0)
	return r.finish()
}

func driveResMgr(beh behaviour, seed int64) *fw.Trace {
	if beh.Op == "history" {
		return driveResMgrHistory(beh, seed)
	}
	if beh.Free {
		return driveResMgrFree(beh, seed)
	}
	r := newResRig(false, seed, 0)
	name := func(p string) string {
		if p == "hlp" {
			return "hlp#1"
		}
		return p
	}
	for i, st := range beh.Steps {
		n := name(st.P)
		switch {
		case st.A == "Call" && st.P == "hlp", st.A == "Send":
			// the helper goroutine runs by itself
		case st.A == "Call":
			p := st.P
			state := r.startClose(p, func() { r.rm.DisposeAll() })
			if st.R && state != sched.Done {
				return r.unreal(i, "%s should have returned at once, is %s", p, r.where(p))
			}
			if !st.R && !(state == sched.Parked && r.at(p) == "res") {
				return r.unreal(i, "%s should be disposing the first resource, is %s", p, r.where(p))
			}
		case strings.HasPrefix(st.A, "Disp:"):
			want := st.A[len("Disp:"):]
			if !r.waitParkedAt(n, "res") {
				return r.unreal(i, "%s is %s, model expects it disposing %s", n, r.where(n), want)
			}
			if _, at := r.s.State(n); at.Info["name"] != want {
				return r.unreal(i, "%s is disposing %v, model expects %s", n, at.Info, want)
			}
			r.s.Step(n)
		case st.A == "Unreg": // the resource registered as r1 is taken out of the manager ...
			r.unregister("r1")
		case st.A == "Reg": // ... and another one registered under the same name
			r.register("r1", "r1b")
		case st.A == "TwCall":
			r.withWatchdog(true, func() string {
				r.rec.add(fw.Event{"ev": "CloseCall", "p": "tw"})
				return r.s.Start("tw", func() any {
					r.rec.guard("Close", func() { r.rm.DisposeWithTimeout(twTimeout) })
					r.rec.add(fw.Event{"ev": "CloseRet", "p": "tw", "async": true}) // its helper may still be disposing
					return nil
				})
			})
		case st.A == "Recv", st.A == "Timeout":
			// the result arrives / the timeout passes: either way DisposeWithTimeout returns
			deadline := time.Now().Add(twTimeout + 150*time.Millisecond)
			for {
				if stt, _ := r.s.State("tw"); stt == sched.Done {
					break
				}
				if time.Now().After(deadline) {
					return r.unreal(i, "DisposeWithTimeout has not returned (%s)", r.where("tw"))
				}
				time.Sleep(200 * time.Microsecond)
			}
		default:
			return &fw.Trace{Status: fw.DriverError, Note: "resmgr: unknown action " + st.A}
		}
	}
	return r.finish()
}

// driveResMgrFree: DisposeWithTimeout with a resource that outlasts the timeout (or not), racing with
// DisposeAll callers; no gates. Afterwards the slow disposal is over: nothing of the manager may be left.
func driveResMgrFree(beh behaviour, seed int64) *fw.Trace {
	hold := time.Duration(0)
	timeout := 40 * time.Millisecond
	if beh.Seed%2 == 0 {
		hold, timeout = 30*time.Millisecond, 8*time.Millisecond // the disposal outlasts the timeout
	}
	r := newResRig(true, seed, hold)
	rnd := fw.NewRand(seed ^ 0x4e5)
	var mu sync.Mutex
	gun := make(chan struct{})
	var wg sync.WaitGroup
	call := func(p string, f func()) {
		wg.Add(1)
		go func() {
			defer wg.Done()
			<-gun
			jitter(rnd, &mu)
			r.rec.add(fw.Event{"ev": "CloseCall", "p": p})
			r.rec.guard("Dispose", f)
			r.rec.add(fw.Event{"ev": "CloseRet", "p": p, "async": p == "tw"})
		}()
	}
	call("tw", func() { r.rm.DisposeWithTimeout(timeout) })
	for i := 0; i < beh.Closers; i++ {
		call(fmt.Sprintf("d%d", i+1), func() { r.rm.DisposeAll() })
	}
	if beh.Seed%3 == 1 { // the registry changes meanwhile: r1 replaced under the same name
		wg.Add(1)
		go func() {
			defer wg.Done()
			<-gun
			jitter(rnd, &mu)
			r.unregister("r1")
			jitter(rnd, &mu)
			r.register("r1", "r1b")
		}()
	}
	close(gun)
	done := make(chan struct{})
	go func() { wg.Wait(); close(done) }()
	if t := awaitFree(done, "resmgr: free-running callers"); t != nil {
		return t
	}
	time.Sleep(hold) // the slow disposal (continuing in the helper goroutine) ends
	return r.finish()
}
