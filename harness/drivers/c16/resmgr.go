package main

import (
	"fmt"
	"strings"
	"sync"
	"time"

	"tunnox-core/internal/core/dispose"
	"tunnox-core/verifharness/fw"
	"tunnox-core/verifharness/sched"
)

// Scene "resmgr": dispose.ResourceManager (internal/core/dispose/manager.go). Two registered resources whose
// Dispose is a gate and a counted clean-up action; callers of DisposeAll and one DisposeWithTimeout whose
// helper goroutine (started by the manager) is adopted as "hlp" when it reaches a resource.

const twTimeout = 120 * time.Millisecond

type resRig struct {
	*base
	rm *dispose.ResourceManager
}

type gatedRes struct {
	r    *resRig
	name string
	hold time.Duration // scripted slowness (free-running cases)
}

func (g *gatedRes) Dispose() error {
	g.r.s.Gate("res", map[string]any{"name": g.name})
	if g.hold > 0 {
		time.Sleep(g.hold)
	}
	g.r.rec.add(fw.Event{"ev": "Ran", "h": g.name})
	g.r.s.After()
	return nil
}

func newResRig(free bool, seed int64, hold time.Duration) *resRig {
	r := &resRig{base: newBase(free, seed)}
	r.rm = dispose.NewResourceManager()
	for _, n := range []string{"r1", "r2"} {
		h := time.Duration(0)
		if n == "r2" {
			h = hold
		}
		if err := r.rm.Register(n, &gatedRes{r: r, name: n, hold: h}); err != nil {
			panic(err)
		}
		r.rec.add(fw.Event{"ev": "Reg", "h": n})
	}
	r.s.Adopt = func(g sched.GateInfo) string {
		if g.Point == "res" {
			return "hlp" // DisposeWithTimeout's helper goroutine
		}
		return ""
	}
	return r
}

func (r *resRig) finish() *fw.Trace {
	if !r.s.Drain(8 * time.Second) {
		return &fw.Trace{Status: fw.DriverError, Note: "resmgr: callers did not finish: " + fmt.Sprint(r.s.Procs())}
	}
	r.rec.add(fw.Event{"ev": "CloseCall", "p": "z"})
	r.rec.guard("DisposeAll", func() { r.rm.DisposeAll() })
	r.rec.add(fw.Event{"ev": "CloseRet", "p": "z"})
	// operations on a disposed manager
	r.runOp("GetResourceCount", func() error { r.rm.GetResourceCount(); return nil })
	r.runOp("ListResources", func() error { r.rm.ListResources(); return nil })
	r.runOp("Unregister", func() error { r.rm.Unregister("r1"); return nil })
	r.runOp("DisposeWithTimeout", func() error { r.rm.DisposeWithTimeout(20 * time.Millisecond); return nil })
	r.quiesce("resmgr", false, 0)
	r.cancel()
	return r.trace("resmgr", false)
}

func driveResMgr(beh behaviour, seed int64) *fw.Trace {
	if beh.Free {
		return driveResMgrFree(beh, seed)
	}
	r := newResRig(false, seed, 0)
	name := func(p string) string {
		if p == "hlp" {
			return "hlp#1"
		}
		return p
	}
	for i, st := range beh.Steps {
		n := name(st.P)
		switch {
		case st.A == "Call" && st.P == "hlp", st.A == "Send":
			// the helper goroutine runs by itself
		case st.A == "Call":
			p := st.P
			state := r.startClose(p, func() { r.rm.DisposeAll() })
			if st.R && state != sched.Done {
				return r.unreal(i, "%s should have returned at once, is %s", p, r.where(p))
			}
			if !st.R && !(state == sched.Parked && r.at(p) == "res") {
				return r.unreal(i, "%s should be disposing the first resource, is %s", p, r.where(p))
			}
		case strings.HasPrefix(st.A, "Disp:"):
			want := st.A[len("Disp:"):]
			if !r.waitParkedAt(n, "res") {
				return r.unreal(i, "%s is %s, model expects it disposing %s", n, r.where(n), want)
			}
			if _, at := r.s.State(n); at.Info["name"] != want {
				return r.unreal(i, "%s is disposing %v, model expects %s", n, at.Info, want)
			}
			r.s.Step(n)
		case st.A == "TwCall":
			r.withWatchdog(true, func() string {
				return r.startClose("tw", func() { r.rm.DisposeWithTimeout(twTimeout) })
			})
		case st.A == "Recv", st.A == "Timeout":
			// the result arrives / the timeout passes: either way DisposeWithTimeout returns
			deadline := time.Now().Add(twTimeout + 150*time.Millisecond)
			for {
				if stt, _ := r.s.State("tw"); stt == sched.Done {
					break
				}
				if time.Now().After(deadline) {
					return r.unreal(i, "DisposeWithTimeout has not returned (%s)", r.where("tw"))
				}
				time.Sleep(200 * time.Microsecond)
			}
		default:
			return &fw.Trace{Status: fw.DriverError, Note: "resmgr: unknown action " + st.A}
		}
	}
	return r.finish()
}

// driveResMgrFree: DisposeWithTimeout with a resource that outlasts the timeout (or not), racing with
// DisposeAll callers; no gates. Afterwards the slow disposal is over: nothing of the manager may be left.
func driveResMgrFree(beh behaviour, seed int64) *fw.Trace {
	hold := time.Duration(0)
	timeout := 40 * time.Millisecond
	if beh.Seed%2 == 0 {
		hold, timeout = 30*time.Millisecond, 8*time.Millisecond // the disposal outlasts the timeout
	}
	r := newResRig(true, seed, hold)
	rnd := fw.NewRand(seed ^ 0x4e5)
	var mu sync.Mutex
	gun := make(chan struct{})
	var wg sync.WaitGroup
	call := func(p string, f func()) {
		wg.Add(1)
		go func() {
			defer wg.Done()
			<-gun
			jitter(rnd, &mu)
			r.rec.add(fw.Event{"ev": "CloseCall", "p": p})
			r.rec.guard("Dispose", f)
			r.rec.add(fw.Event{"ev": "CloseRet", "p": p})
		}()
	}
	call("tw", func() { r.rm.DisposeWithTimeout(timeout) })
	for i := 0; i < beh.Closers; i++ {
		call(fmt.Sprintf("d%d", i+1), func() { r.rm.DisposeAll() })
	}
	close(gun)
	done := make(chan struct{})
	go func() { wg.Wait(); close(done) }()
	select {
	case <-done:
	case <-time.After(10 * time.Second):
		return &fw.Trace{Status: fw.DriverError, Note: "resmgr: free-running callers did not finish"}
	}
	time.Sleep(hold) // the slow disposal (continuing in the helper goroutine) ends
	return r.finish()
}
