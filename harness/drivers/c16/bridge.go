package main

import (
	"context"
	"fmt"
	"os"
	"os/exec"
	"strings"
	"sync"
	"time"

	stunnel "tunnox-core/internal/protocol/session/tunnel"
	"tunnox-core/verifharness/fw"
	"tunnox-core/verifharness/sched"
)

// bridgeRig: the real server Bridge between two in-memory connections, its CloudControlAPI replaced
// by the gate-controlled double that records every traffic delta.
type bridgeRig struct {
	*base
	b        *stunnel.Bridge
	cloud    *cloud
	src, dst *memConn
	started  bool
	design   string // the model's design when hypothetical ("claim")
}

var chunkA = make([]byte, 1000)
var chunkB = make([]byte, 700)

func newBridgeRig(free bool, seed int64) *bridgeRig { return newBridgeRigT(free, seed, true) }

// tc makes the tunnel connection object `id` ("s" source, "t" target, "t2" a target arriving later) over
// an in-memory connection. Its Close can be held (gate "tc.close") and is counted per object.
func (r *bridgeRig) tc(id string, c *memConn) *tconn {
	return &tconn{id: id, conn: c, onClose: func(t *tconn) {
		r.s.Gate("tc.close", map[string]any{"id": t.id})
		r.rec.add(fw.Event{"ev": "Ran", "h": "close:" + t.id})
		r.s.After()
	}}
}

// own: the bridge has been handed connection id; it owes it one Close.
func (r *bridgeRig) own(id string) { r.rec.add(fw.Event{"ev": "Own", "h": "close:" + id}) }

func newBridgeRigT(free bool, seed int64, withTarget bool) *bridgeRig {
	r := &bridgeRig{base: newBase(free, seed)}
	r.cloud = &cloud{s: r.s, rec: r.rec, seen: map[int64]int64{}}
	r.src, r.dst = newMemConn("src"), newMemConn("dst")
	r.src.retGate = func(c *memConn) { r.s.Gate("rd:A", nil); r.s.After() }
	r.dst.retGate = func(c *memConn) { r.s.Gate("rd:B", nil); r.s.After() }
	r.s.Adopt = func(g sched.GateInfo) string {
		switch g.Point {
		case "rd:A":
			return "cpA"
		case "rd:B":
			return "cpB"
		case "get":
			return "fin" // the periodic reporter's final report runs in a goroutine of its own
		}
		return ""
	}
	r.b = stunnel.NewBridge(r.ctx, &stunnel.BridgeConfig{
		TunnelID: "tun-1", MappingID: "pm-1", ClientID: 7,
		SourceTunnelConn: r.tc("s", r.src),
		CloudControl:     r.cloud,
	})
	r.own("s")
	if withTarget {
		r.b.SetTargetConnection(r.tc("t", r.dst))
		r.own("t")
	}
	r.b.AddCleanHandler(func() error {
		r.rec.add(fw.Event{"ev": "Ran", "h": "h1"})
		return nil
	})
	r.rec.add(fw.Event{"ev": "Reg", "h": "h1"})
	return r
}

// unreal: the behaviour cannot be realised; end the bridge's I/O first so that everything winds down at once.
func (r *bridgeRig) unreal(i int, format string, a ...any) *fw.Trace {
	if r.design == "claim" && r.reportInFlight("") {
		claimExcl++ // refuted with a report in flight: on a tree whose reporters exclude each other that is what stops the others
	}
	r.src.injectEOF()
	r.dst.injectEOF()
	r.src.Close()
	r.dst.Close()
	t := r.base.unreal(i, format, a...)
	setHook(nil)
	r.b.Close()
	r.cancel()
	return t
}

// reportInFlight: is a reporter other than `but` inside a cloud-control call right now?
func (r *bridgeRig) reportInFlight(but string) bool {
	for _, p := range r.s.Procs() {
		if p == but {
			continue
		}
		if st, at := r.s.State(p); st == sched.Parked && (at.Point == "get" || at.Point == "upd" || at.Point == "upd.ret") {
			return true
		}
	}
	return false
}

func (r *bridgeRig) moved() int64 { return r.src.written.Load() + r.dst.written.Load() }

func (r *bridgeRig) name(p string) string {
	switch p {
	case "cpA", "cpB", "fin":
		return p + "#1"
	}
	return p
}

func (r *bridgeRig) rdGate(p string) string {
	if p == "cpA" {
		return "rd:A"
	}
	return "rd:B"
}

// startLifecycle is what SessionManager.runBridgeLifecycle does: Start, then (deferred) Close.
func (r *bridgeRig) startLifecycle() string {
	r.started = true
	return r.s.Start("st", func() any {
		r.cloud.spare.Store(goid())
		r.rec.guard("Start", func() { r.b.Start() })
		r.s.Gate("life", nil)
		r.rec.add(fw.Event{"ev": "CloseCall", "p": "st"})
		r.rec.guard("Close", func() { r.b.Close() })
		r.rec.add(fw.Event{"ev": "CloseRet", "p": "st"})
		return nil
	})
}

// waitCopiers waits until both copiers are blocked in their Read (false: Start returned without
// spawning them, e.g. its select picked the cancelled context, or they did not get there in time).
func (r *bridgeRig) waitCopiers() bool {
	deadline := time.Now().Add(300 * time.Millisecond)
	for r.src.blockedReaders() == 0 || r.dst.blockedReaders() == 0 {
		if st, _ := r.s.State("st"); st == sched.Parked || st == sched.Done {
			return false
		}
		if time.Now().After(deadline) {
			return false
		}
		time.Sleep(20 * time.Microsecond)
	}
	return true
}

var bigAlt int

// deliverN feeds count chunks of size bytes to a copier and waits until all came out at the other end.
func (r *bridgeRig) deliverN(p string, size, count int) bool {
	in, out := r.src, r.dst
	if p == "cpB" {
		in, out = r.dst, r.src
	}
	if in.isClosed() || out.isClosed() {
		return false
	}
	want := out.written.Load() + int64(size)*int64(count)
	buf := make([]byte, size)
	for i := 0; i < count; i++ {
		in.inject(buf)
	}
	deadline := time.Now().Add(3 * time.Second)
	for out.written.Load() < want {
		if time.Now().After(deadline) || in.isClosed() || out.isClosed() {
			return false
		}
		time.Sleep(50 * time.Microsecond)
	}
	return true
}

// flowUntilExit keeps small chunks flowing through copier p until it stops consuming them (it left its
// read loop): at most a little more than ContextCheckInterval reads.
func (r *bridgeRig) flowUntilExit(p string) bool {
	in, out := r.src, r.dst
	if p == "cpB" {
		in, out = r.dst, r.src
	}
	chunk := []byte{1, 2, 3}
	for batch := 0; batch < 24; batch++ {
		if in.isClosed() || out.isClosed() {
			return true // it closed the bridge on its way out
		}
		want := out.written.Load() + 500*int64(len(chunk))
		for i := 0; i < 500; i++ {
			in.inject(chunk)
		}
		t0 := time.Now()
		for out.written.Load() < want {
			if in.isClosed() || out.isClosed() {
				return true
			}
			if time.Since(t0) > 300*time.Millisecond {
				return in.blockedReaders() == 0 // stopped reading with input pending: it has left the loop
			}
			time.Sleep(20 * time.Microsecond)
		}
	}
	return false
}

// deliver feeds one chunk to a copier and waits until it came out at the other end.
func (r *bridgeRig) deliver(p string) bool {
	in, out, chunk := r.src, r.dst, chunkA
	if p == "cpB" {
		in, out, chunk = r.dst, r.src, chunkB
	}
	if in.isClosed() || out.isClosed() {
		return false
	}
	for t0 := time.Now(); in.blockedReaders() == 0; {
		if time.Since(t0) > 30*time.Millisecond {
			return false // nobody is copying from this side (any more)
		}
		time.Sleep(20 * time.Microsecond)
	}
	want := out.written.Load() + int64(len(chunk))
	in.inject(chunk)
	deadline := time.Now().Add(time.Second)
	for out.written.Load() < want {
		if time.Now().After(deadline) {
			return false
		}
		time.Sleep(50 * time.Microsecond)
	}
	return true
}

func (r *bridgeRig) finish() *fw.Trace {
	// the connections' own I/O ends (if it has not yet): copiers finish, Start returns, the lifecycle closes
	r.src.injectEOF()
	r.dst.injectEOF()
	ok := r.s.Drain(8 * time.Second)
	setHook(nil)
	if !ok {
		return &fw.Trace{Status: fw.DriverError, Note: "bridge: processes did not finish: " + fmt.Sprint(r.s.Procs())}
	}
	r.rec.add(fw.Event{"ev": "CloseCall", "p": "z"})
	r.rec.guard("Close", func() { r.b.Close() })
	r.rec.add(fw.Event{"ev": "CloseRet", "p": "z"})
	r.runOp("Start", func() error { return r.b.Start() })
	r.runOp("WaitForTarget", func() error { return r.b.WaitForTarget(50 * time.Millisecond) })
	r.runOp("NotifyTargetReady", func() error { r.b.NotifyTargetReady(); r.b.IsTargetReady(); return nil })
	r.runOp("Counters", func() error {
		r.b.AddBytesSent(0)
		r.b.AddBytesReceived(0)
		r.b.GetBytesSent()
		r.b.GetRateLimiter()
		return nil
	})
	r.runOp("CrossNode", func() error {
		r.b.SetCrossNodeConnection(nil)
		r.b.GetCrossNodeConnection()
		r.b.ReleaseCrossNodeConnection()
		return nil
	})
	r.runOp("SetSourceConnection:nil", func() error { r.b.SetSourceConnection(nil); return nil })
	r.runOp("Accessors", func() error {
		r.b.GetTunnelID()
		r.b.GetMappingID()
		r.b.GetClientID()
		r.b.IsActive()
		r.b.GetSourceConnectionID()
		r.b.GetTargetConnectionID()
		return nil
	})
	// goroutines first (the final reporter may still be reporting), then the totals
	n, top, detail := leakedOf(r.bl, grace, r.only)
	r.cloud.mu.Lock()
	stored := r.cloud.stored
	r.cloud.mu.Unlock()
	r.rec.add(fw.Event{"ev": "Quiesce", "moved": r.moved(), "stored": stored, "traffic": true, "leaked": n, "top": top, "detail": detail})
	r.cancel()
	return r.trace("bridge", true)
}

// driveBridgeScript: driver-made bridge cases that do not depend on what the sampling keeps.
//
//	flow-ctx   the parent context (server / session manager) is cancelled while small packets keep flowing both ways:
//	           the copiers leave through their periodic ctx.Done() check with a pending batch
//	big-small  more than 1 MiB per direction in small chunks (batch threshold path), then an explicit Close
//	big-large  the same in 32 KiB chunks, then the source side ends
func driveBridgeScript(beh behaviour, seed int64) *fw.Trace {
	r := newBridgeRig(true, seed)
	r.startLifecycle()
	fail := func(note string) *fw.Trace {
		r.src.Close()
		r.dst.Close()
		r.s.Drain(5 * time.Second)
		r.cancel()
		return &fw.Trace{Status: fw.Inconclusive, Note: note}
	}
	if !r.waitCopiers() {
		return fail("copiers did not start in time")
	}
	switch beh.Op {
	case "flow-ctx":
		if !r.deliver("cpA") || !r.deliver("cpB") {
			return fail("no forwarding")
		}
		r.cancel()
		okA := r.flowUntilExit("cpA")
		okB := r.flowUntilExit("cpB")
		if !okA && !okB {
			return fail("no copier left its loop after the cancellation")
		}
	case "big-small":
		if !r.deliverN("cpA", 1000, 1300) || !r.deliverN("cpB", 700, 1700) {
			return fail("no forwarding")
		}
		r.rec.add(fw.Event{"ev": "CloseCall", "p": "x1"})
		r.rec.guard("Close", func() { r.b.Close() })
		r.rec.add(fw.Event{"ev": "CloseRet", "p": "x1"})
	case "cloud-fault":
		// more than the batch threshold one way, a tail the other way; then cloud control fails once (GetPortMapping or
		// UpdatePortMappingStats, whichever reporter gets there first - never Start's own final report) while the
		// bridge shuts down (parent context cancelled / explicit Close): a later reporter makes up for it
		if !r.deliverN("cpA", 1000, 1150) || !r.deliver("cpB") {
			return fail("no forwarding")
		}
		r.cloud.failOnce.Store([]string{"get", "upd"}[beh.Seed%2])
		if beh.Seed/2%2 == 0 {
			r.cancel()
			time.Sleep(2 * time.Millisecond)
		} else {
			r.rec.add(fw.Event{"ev": "CloseCall", "p": "x1"})
			r.rec.guard("Close", func() { r.b.Close() })
			r.rec.add(fw.Event{"ev": "CloseRet", "p": "x1"})
		}
	case "big-large":
		if !r.deliverN("cpA", 32*1024, 40) || !r.deliverN("cpB", 32*1024, 36) || !r.deliver("cpA") {
			return fail("no forwarding")
		}
		r.src.injectEOF()
	}
	return r.finish()
}

// Schedules of the hypothetical design "claim" (two reports in flight at once) cannot be realised on a tree whose
// reporters exclude each other for the whole report; each refutation costs a watchdog period. When the first
// claimProbe of them have all been refuted the rest are not tried (on a tree that has the narrowed lock the very
// first ones are realised).
const claimProbe = 6

var claimExcl, claimRealised int // schedules refuted because a second report could not start while one was in flight / realised

func driveBridge(beh behaviour, seed int64) *fw.Trace {
	if beh.Op != "" {
		return driveBridgeScript(beh, seed)
	}
	if beh.Free {
		return driveBridgeFree(beh, seed)
	}
	if beh.Design == "claim" {
		if claimExcl >= claimProbe && claimRealised == 0 {
			return &fw.Trace{Status: fw.Unrealisable, Note: fmt.Sprintf("design claim: the reporters of this tree exclude each other (%d schedules refuted that way, none realised)", claimExcl)}
		}
		t := driveBridgeSteps(beh, seed)
		if t.Status == fw.Realised {
			claimRealised++
		}
		return t
	}
	return driveBridgeSteps(beh, seed)
}

func driveBridgeSteps(beh behaviour, seed int64) *fw.Trace {
	withTarget := true
	for _, st := range beh.Steps {
		if st.P == "tg" {
			withTarget = false // the target connection arrives during the behaviour
		}
	}
	r := newBridgeRigT(false, seed, withTarget)
	r.design = beh.Design
	if hooks.dispose {
		// with the entry hook a closer can be held between "connections closed" and the latch
		// (goroutines the scheduler does not know pass: Adopt names none at this point)
		setHook(func(name string) {
			if name == hpDispose {
				r.s.Gate(hpDispose, nil)
				r.s.After() // lets the scheduler see that an adopted goroutine has moved on
			}
		})
	}
	for i, st := range beh.Steps {
		n := r.name(st.P)
		switch st.A {
		case "Start":
			closedBefore := r.src.isClosed()
			if r.ctx.Err() != nil && !closedBefore {
				// Start on a cancelled context: the source copier tests the context before its first read and leaves at
				// once through closeOnce / Close - no gate of the driver on its way: the rest runs free and is judged
				r.startLifecycle()
				t := r.finish()
				if t.Status == fw.Realised {
					t.Status = fw.Diverged
					t.Note = fmt.Sprintf("step %d: Start after the cancellation runs free", i)
				}
				return t
			}
			state := r.withWatchdog(true, r.startLifecycle)
			if state == sched.Done {
				return r.unreal(i, "lifecycle ended at once")
			}
			// Never let a closer in before both copiers are running: as written the copier goroutines read
			// b.targetForwarder when they start, and a Close in that window is a nil dereference in a goroutine
			// of the bridge - it would kill this process (that race is hammered in a child process instead).
			if !closedBefore && !r.waitCopiers() {
				return r.unreal(i, "copiers did not start reading")
			}
		case "Born":
			// merged into Start (see above)
		case "Latch":
			if !hooks.dispose {
				continue // no gate of its own without the entry hook
			}
			if !r.waitParkedAt(n, hpDispose) {
				return r.unreal(i, "%s is %s, model expects it at the entry of the latch", n, r.where(n))
			}
			r.withWatchdog(st.W, func() string { s, _ := r.s.Step(n); return s })
		case "SetTarget": // the target client's tunnel connection arrives
			state := r.s.Start("tg", func() any {
				r.rec.guard("SetTargetConnection", func() { r.b.SetTargetConnection(r.tc("t2", r.dst)) })
				r.own("t2")
				return nil
			})
			if state != sched.Done {
				return r.unreal(i, "SetTargetConnection did not return (%s)", r.where("tg"))
			}
		case "StartRet", "Wake", "RBegin", "FBegin", "Once", "Exit", "RUnclaim", "FDone":
			// no gate of its own
		case "GiveUp":
			return r.unreal(i, "the periodic reporter gives up after 5 s only (driven as a held case)")
		case "RGetFail", "RUpdFail": // cloud control fails this call: the reporter gives up, a later one makes up for it
			at := map[string]string{"RGetFail": "get", "RUpdFail": "upd"}[st.A]
			if !r.waitParkedAt(n, at) {
				return r.unreal(i, "%s is %s, model expects it calling cloud control (%s)", n, r.where(n), at)
			}
			r.cloud.failNext.Store(true)
			r.withWatchdog(st.W, func() string { s, _ := r.s.Step(n); return s })
		case "Data":
			if !r.deliver(st.P) {
				return r.unreal(i, "%s did not move the chunk", st.P)
			}
		case "DataBig": // more than the 1 MiB batch threshold, alternately in small and in large chunks
			bigAlt++
			size, count := 1000, 1150
			if bigAlt%2 == 0 {
				size, count = 32*1024, 36
			}
			if !r.deliverN(st.P, size, count) {
				return r.unreal(i, "%s did not move the data", st.P)
			}
		case "CtxExit":
			// the parent context is cancelled and data keeps flowing: small chunks until the copier has
			// left its loop at the periodic ctx.Done() check. What it does then (flush, closeOnce, Close,
			// clean-up report) has no gate for a goroutine the scheduler has never seen: the rest of
			// the behaviour runs free.
			if !r.flowUntilExit(st.P) {
				return r.unreal(i, "%s did not leave its loop after the cancellation", st.P)
			}
			return r.finish()
		case "Eof":
			if st.P == "cpA" {
				r.src.injectEOF()
			} else {
				r.dst.injectEOF()
			}
			if !r.waitParkedAt(n, r.rdGate(st.P)) {
				return r.unreal(i, "%s did not see the end of its input (%s)", n, r.where(n))
			}
		case "ReadErr":
			if !r.waitParkedAt(n, r.rdGate(st.P)) {
				return r.unreal(i, "%s was not woken by the closed connections (%s)", n, r.where(n))
			}
		case "Flush":
			if !r.waitParkedAt(n, r.rdGate(st.P)) {
				return r.unreal(i, "%s is %s, model expects it at the end of its Read", n, r.where(n))
			}
			r.withWatchdog(st.W && !hooks.dispose, func() string { s, _ := r.s.Step(n); return s })
		default:
			if strings.HasPrefix(st.A, "CloseConn:") { // TunnelConnection.Close of one connection, inside Bridge.Close
				id := st.A[len("CloseConn:"):]
				stt, at := r.s.State(n)
				if stt != sched.Parked {
					r.waitParkedAt(n, "tc.close")
					stt, at = r.s.State(n)
				}
				if stt != sched.Parked || at.Point != "tc.close" || at.Info["id"] != id {
					return r.unreal(i, "%s is %s %v, model expects it closing connection %s", n, r.where(n), at.Info, id)
				}
				r.withWatchdog(st.W && !hooks.dispose, func() string { s, _ := r.s.Step(n); return s })
				continue
			}
			return &fw.Trace{Status: fw.DriverError, Note: "bridge: unknown action " + st.A}
		case "Close":
			if st.S {
				continue // a copier's closeOnce.Do(b.Close): runs by itself after its flush
			}
			if st.P == "st" {
				if !r.waitParkedAt("st", "life") {
					return r.unreal(i, "Start has not returned (%s)", r.where("st"))
				}
				r.withWatchdog(st.W && !hooks.dispose, func() string { s, _ := r.s.Step("st"); return s })
				continue
			}
			p := st.P
			r.withWatchdog(st.W && !hooks.dispose, func() string { return r.startClose(p, func() { r.b.Close() }) })
		case "Cancel":
			r.cancel()
		case "RGet":
			if !r.waitParkedAt(n, "get") {
				return r.unreal(i, "%s is %s, model expects GetPortMapping", n, r.where(n))
			}
			r.s.Step(n)
			if !r.waitParkedAt(n, "upd") {
				return r.unreal(i, "%s did not go on to UpdatePortMappingStats (%s)", n, r.where(n))
			}
		case "RUpd":
			if !r.waitParkedAt(n, "upd") {
				return r.unreal(i, "%s is %s, model expects UpdatePortMappingStats", n, r.where(n))
			}
			r.s.Step(n)
			if !r.waitParkedAt(n, "upd.ret") {
				return r.unreal(i, "%s did not complete the update (%s)", n, r.where(n))
			}
		case "RSto":
			if !r.waitParkedAt(n, "upd.ret") {
				return r.unreal(i, "%s is %s, model expects the return of UpdatePortMappingStats", n, r.where(n))
			}
			r.withWatchdog(st.W, func() string { s, _ := r.s.Step(n); return s })
		}
	}
	return r.finish()
}

// driveBridgeFree: data flows both ways, then N closers, the end of one side's input and (sometimes)
// the parent context's cancellation are released at once; every gate injects a seeded delay.
func driveBridgeFree(beh behaviour, seed int64) *fw.Trace {
	if beh.Seed%5 == 4 {
		return driveBridgeFreeTarget(beh, seed)
	}
	r := newBridgeRig(true, seed)
	rnd := fw.NewRand(seed ^ 0xb41d)
	var mu sync.Mutex
	r.startLifecycle()
	if !r.waitCopiers() {
		r.src.Close()
		r.dst.Close()
		r.s.Drain(5 * time.Second)
		return &fw.Trace{Status: fw.Inconclusive, Note: "copiers did not start in time"}
	}
	for i := 0; i < 1+beh.Seed%3; i++ {
		if !r.deliver("cpA") || !r.deliver("cpB") {
			r.src.Close()
			r.dst.Close()
			r.s.Drain(5 * time.Second)
			return &fw.Trace{Status: fw.Inconclusive, Note: "bridge did not start forwarding in time"}
		}
	}
	gun := make(chan struct{})
	var wg sync.WaitGroup
	for i := 0; i < beh.Closers; i++ {
		p := fmt.Sprintf("x%d", i+1)
		wg.Add(1)
		go func() {
			defer wg.Done()
			<-gun
			jitter(rnd, &mu)
			r.rec.add(fw.Event{"ev": "CloseCall", "p": p})
			r.rec.guard("Close", func() { r.b.Close() })
			r.rec.add(fw.Event{"ev": "CloseRet", "p": p})
		}()
	}
	wg.Add(1)
	go func() {
		defer wg.Done()
		<-gun
		jitter(rnd, &mu)
		switch beh.Seed % 4 {
		case 0:
			r.src.injectEOF()
		case 1:
			r.dst.injectEOF()
		case 2:
			r.cancel()
		}
	}()
	close(gun)
	done := make(chan struct{})
	go func() { wg.Wait(); close(done) }()
	if t := awaitFree(done, "bridge: free-running closers"); t != nil {
		return t
	}
	return r.finish()
}

// ---- Start/Close race, hammered in a child process ---------------------------------------------------
//
// Bridge.Start spawns its copiers and only they read b.targetForwarder; a Close in that window sets the
// field to nil and the copier dereferences nil - in a goroutine of the bridge, which no recover() of the
// driver can catch: the process dies. So this one race runs in a child process (the driver binary itself
// with C16_CHILD set); a crash of the child is the recorded panic.

func childStartClose(seed int64, iters int) {
	rnd := fw.NewRand(seed)
	for i := 0; i < iters; i++ {
		r := newBridgeRig(true, seed+int64(i))
		r.s.FreeDelay = nil
		done := make(chan struct{})
		go func() { r.b.Start(); close(done) }()
		for k := rnd.Intn(60); k > 0; k-- {
			yield()
		}
		r.b.Close()
		select {
		case <-done:
		case <-time.After(10 * time.Second):
			fmt.Println("CHILD-HANG")
			os.Exit(3)
		}
		r.cancel()
	}
	fmt.Println("CHILD-OK")
}

func driveChild(beh behaviour, seed int64) *fw.Trace {
	ctx, cancel := context.WithTimeout(context.Background(), 120*time.Second)
	defer cancel()
	cmd := exec.CommandContext(ctx, os.Args[0])
	cmd.Env = append(os.Environ(), "C16_CHILD="+beh.Op, fmt.Sprintf("C16_CHILD_SEED=%d", seed), fmt.Sprintf("C16_CHILD_ITERS=%d", beh.Closers))
	out, err := cmd.CombinedOutput()
	text := string(out)
	t := &fw.Trace{Status: fw.Realised}
	t.Events = append(t.Events, fw.Event{"ev": "Cfg", "comp": "bridge", "sync": true})
	t.Events = append(t.Events, fw.Event{"ev": "CloseCall", "p": "x1"}, fw.Event{"ev": "CloseRet", "p": "x1"})
	switch {
	case err == nil && strings.Contains(text, "CHILD-OK"):
	case strings.Contains(text, "panic:") || strings.Contains(text, "fatal error:"):
		site, what := "?", ""
		lines := strings.Split(text, "\n")
		for i, l := range lines {
			if what == "" && (strings.HasPrefix(l, "panic:") || strings.HasPrefix(l, "fatal error:")) {
				what = l
			}
			if strings.HasPrefix(l, "goroutine ") && strings.Contains(l, "[running]") {
				for _, f := range lines[i+1:] {
					if strings.HasPrefix(f, repoPrefix) {
						site = cleanFunc(f)
						break
					}
				}
				break
			}
		}
		t.Events = append(t.Events, fw.Event{"ev": "Panic", "where": "start-close-race@" + site, "what": what})
	case strings.Contains(text, "CHILD-HANG"):
		t.Events = append(t.Events, fw.Event{"ev": "Op", "op": "start-close-race", "res": "hang"})
	default:
		return &fw.Trace{Status: fw.Inconclusive, Note: fmt.Sprintf("child did not finish: %v %s", err, tail(text, 300))}
	}
	t.Events = append(t.Events, fw.Event{"ev": "Quiesce", "moved": 0, "traffic": false, "leaked": 0, "top": "", "detail": ""})
	return t
}

func tail(s string, n int) string {
	if len(s) > n {
		return s[len(s)-n:]
	}
	return s
}

// driveBridgeFreeTarget: a bridge still waiting for its target; N closers and the arrival of the target
// connection (SetTargetConnection) are released at once. Whatever the order, every connection the bridge
// was handed before the last Close call must have been closed exactly once in the end.
func driveBridgeFreeTarget(beh behaviour, seed int64) *fw.Trace {
	r := newBridgeRigT(true, seed, false)
	rnd := fw.NewRand(seed ^ 0x7a46)
	var mu sync.Mutex
	gun := make(chan struct{})
	var wg sync.WaitGroup
	for i := 0; i < beh.Closers; i++ {
		p := fmt.Sprintf("x%d", i+1)
		wg.Add(1)
		go func() {
			defer wg.Done()
			<-gun
			jitter(rnd, &mu)
			r.rec.add(fw.Event{"ev": "CloseCall", "p": p})
			r.rec.guard("Close", func() { r.b.Close() })
			r.rec.add(fw.Event{"ev": "CloseRet", "p": p})
		}()
	}
	wg.Add(1)
	go func() {
		defer wg.Done()
		<-gun
		jitter(rnd, &mu)
		r.rec.guard("SetTargetConnection", func() { r.b.SetTargetConnection(r.tc("t2", r.dst)) })
		r.own("t2")
	}()
	close(gun)
	done := make(chan struct{})
	go func() { wg.Wait(); close(done) }()
	if t := awaitFree(done, "bridge: free-running closers"); t != nil {
		return t
	}
	return r.finish()
}
