package main

import (
	"context"
	"errors"
	"fmt"
	"sync"
	"sync/atomic"
	"time"

	"tunnox-core/internal/client/tunnel"
	"tunnox-core/verifharness/fw"
	"tunnox-core/verifharness/sched"
)

// tmgr is the tunnel's manager: the real DefaultTunnelManager, with UnregisterTunnel (called from
// the close body) turned into a gate and a counted clean-up action.
type tmgr struct {
	*tunnel.DefaultTunnelManager
	r     *tunnelRig
	quiet bool // hammer: many tunnels on one manager, per-tunnel counts are logged by the hammer itself
}

func (m *tmgr) UnregisterTunnel(id string) bool {
	m.r.s.Gate("unreg", nil)
	if !m.quiet {
		m.r.rec.add(fw.Event{"ev": "Ran", "h": "unreg"})
	}
	ok := m.DefaultTunnelManager.UnregisterTunnel(id)
	m.r.s.After()
	return ok
}

// Ctx is called by Tunnel.Start to obtain the parent of the tunnel's context: the seam at which the
// driver parks a Start in progress (as coded: before SetCtx and the CAS to Connected).
func (m *tmgr) Ctx() context.Context {
	m.r.s.Gate("mgr.ctx", nil)
	m.r.s.After()
	return m.DefaultTunnelManager.Ctx()
}

type tunnelRig struct {
	*base
	t             *tunnel.Tunnel
	mgr           *tmgr
	local, remote *memConn
	client        *tclient
}

// notifyHold: how long a close notification is kept blocked on the "busy control connection" before it is let
// through when the model says that more time than any send timeout has passed.
const notifyHold = 3300 * time.Millisecond

func probeTunnel() {
	t := tunnel.NewTunnel(&tunnel.TunnelConfig{ID: "probe"})
	t.Close(tunnel.CloseReasonNormal, nil)
}

func newTunnelRig(start string, free bool, seed int64) (*tunnelRig, error) {
	return newTunnelRigN(start, free, seed, false)
}

func newTunnelRigN(start string, free bool, seed int64, slowNotify bool) (*tunnelRig, error) {
	r := &tunnelRig{base: newBase(free, seed)}
	r.client = &tclient{rec: r.rec}
	if slowNotify {
		r.client.hold, r.client.entered = make(chan struct{}), make(chan struct{})
	}
	r.mgr = &tmgr{DefaultTunnelManager: tunnel.NewTunnelManager(r.ctx, tunnel.TunnelRoleListen), r: r}
	r.local, r.remote = newMemConn("local"), newMemConn("remote")
	r.t = tunnel.NewTunnel(&tunnel.TunnelConfig{
		ID: "t-1", MappingID: "pm-1", Role: tunnel.TunnelRoleListen, Protocol: "tcp",
		LocalConn: r.local, TunnelRWC: r.remote, TargetClient: 9,
		Manager: r.mgr, Client: r.client,
		OnClosed: func(reason tunnel.CloseReason, err error) {
			r.s.Gate("cb", nil)
			r.rec.add(fw.Event{"ev": "Ran", "h": "cb"})
			r.s.After()
		},
	})
	if err := r.mgr.RegisterTunnel(r.t); err != nil {
		return nil, err
	}
	r.rec.add(fw.Event{"ev": "Reg", "h": "cb"})
	r.rec.add(fw.Event{"ev": "Reg", "h": "unreg"})
	r.s.Adopt = func(g sched.GateInfo) string {
		if g.Point == hpTunnel {
			return "copy" // the tunnel's own copy goroutine calling Close when its I/O ended
		}
		return ""
	}
	if start == "Connected" {
		if err := r.t.Start(); err != nil {
			return nil, err
		}
	}
	return r, nil
}

// initiate performs the close initiation of model process p on the real objects.
func (r *tunnelRig) initiate(p string) {
	switch p {
	case "idle": // what monitorTimeout does when the idle timer fires
		r.t.Close(tunnel.CloseReasonTimeout, errors.New("idle timeout"))
	case "peer": // peer close notification arriving at the manager
		r.mgr.DefaultTunnelManager.OnTunnelClosed("t-1", "pm-1", "peer_closed", 0, 0, 0)
	case "ctx": // the owner shuts down: manager.Close -> CloseAll -> Close(ContextCanceled)
		r.mgr.DefaultTunnelManager.Close()
	default:
		r.t.Close(tunnel.CloseReasonNormal, nil)
	}
}

func (r *tunnelRig) name(p string) string {
	if p == "copy" {
		return "copy#1"
	}
	return p
}

// release lets a blocked close notification through (pending I/O unblocked).
func (r *tunnelRig) release() {
	if r.client.hold != nil {
		select {
		case <-r.client.hold:
		default:
			close(r.client.hold)
		}
	}
}

func (r *tunnelRig) finish() *fw.Trace {
	if !r.s.Drain(5 * time.Second) {
		return &fw.Trace{Status: fw.DriverError, Note: "tunnel: closers did not finish: " + fmt.Sprint(r.s.Procs())}
	}
	setHook(nil)
	r.rec.add(fw.Event{"ev": "CloseCall", "p": "z"})
	r.rec.guard("Close", func() { r.t.Close(tunnel.CloseReasonNormal, nil) })
	r.rec.add(fw.Event{"ev": "CloseRet", "p": "z"})
	// unblock pending I/O (Close has closed both connections already)
	r.local.injectEOF()
	r.remote.injectEOF()
	r.release()
	r.runOp("Start", func() error { return r.t.Start() })
	r.runOp("GetStats", func() error { r.t.GetStats(); return nil })
	r.runOp("NotifyPeerClosed", func() error { r.t.NotifyPeerClosed("again", nil); return nil })
	r.quiesce("tunnel", false, 0)
	r.mgr.DefaultTunnelManager.Close()
	r.cancel()
	return r.trace("tunnel", false)
}

// driveTunnelMgrHistory: driver-made registration history on one tunnel manager (no race): a tunnel closed by its
// peer, another one registered under the SAME id, a tunnel taken out of the manager and put back, one registered but
// never started, a stale second close of the first tunnel - then the manager shuts down. Every tunnel the manager held
// at that moment is closed (callback, per tunnel object) exactly once, the earlier one is not closed again, and
// nothing is left running. (The counts are logged as one Round event.)
func driveTunnelMgrHistory(beh behaviour, seed int64) *fw.Trace {
	r := &tunnelRig{base: newBase(true, seed)}
	r.mgr = &tmgr{DefaultTunnelManager: tunnel.NewTunnelManager(r.ctx, tunnel.TunnelRoleListen), r: r, quiet: true}
	type tun struct {
		t             *tunnel.Tunnel
		cb            atomic.Int32
		local, remote *memConn
	}
	var all []*tun
	names := map[*tun]string{}
	mk := func(name, id string, start bool) *tun {
		x := &tun{local: newMemConn("local"), remote: newMemConn("remote")}
		x.t = tunnel.NewTunnel(&tunnel.TunnelConfig{
			ID: id, MappingID: "pm-1", Role: tunnel.TunnelRoleListen, Protocol: "tcp",
			LocalConn: x.local, TunnelRWC: x.remote, TargetClient: 0, Manager: r.mgr, Client: nil,
			OnClosed: func(reason tunnel.CloseReason, err error) { x.cb.Add(1) },
		})
		if err := r.mgr.RegisterTunnel(x.t); err != nil {
			return nil
		}
		if start {
			r.rec.guard("Start", func() { x.t.Start() })
		}
		all = append(all, x)
		names[x] = name
		return x
	}
	a1 := mk("a1", "t-a", true)
	if a1 == nil {
		return &fw.Trace{Status: fw.DriverError, Note: "tunnel manager refused the first tunnel"}
	}
	r.rec.guard("PeerClosed", func() { r.mgr.DefaultTunnelManager.OnTunnelClosed("t-a", "pm-1", "peer_closed", 0, 0, 0) })
	mk("a2", "t-a", beh.Seed%2 == 0) // the id is used again
	if b1 := mk("b", "t-b", true); b1 != nil && beh.Seed%2 == 1 {
		r.mgr.DefaultTunnelManager.UnregisterTunnel("t-b")
		r.mgr.RegisterTunnel(b1.t)
	}
	mk("c", "t-c", false) // registered, never started
	r.rec.guard("Close", func() { a1.t.Close(tunnel.CloseReasonNormal, nil) }) // stale: the first tunnel again
	r.rec.guard("PeerClosed", func() { a1.t.NotifyPeerClosed("again", nil) })
	r.rec.add(fw.Event{"ev": "CloseCall", "p": "ctx"})
	r.rec.guard("Close", func() { r.mgr.DefaultTunnelManager.Close() })
	r.rec.add(fw.Event{"ev": "CloseRet", "p": "ctx"})
	counts := map[string]any{}
	for _, x := range all {
		x.local.injectEOF()
		x.remote.injectEOF()
		counts["cb:"+names[x]] = int(x.cb.Load())
	}
	r.rec.add(fw.Event{"ev": "Round", "counts": counts})
	r.rec.add(fw.Event{"ev": "CloseCall", "p": "z"})
	r.rec.add(fw.Event{"ev": "CloseRet", "p": "z"})
	r.quiesce("tunnel", false, 0)
	r.cancel()
	return r.trace("tunnel", false)
}

func driveTunnel(beh behaviour, seed int64) *fw.Trace {
	if beh.Op == "startclose" {
		return driveTunnelHammer(beh, seed)
	}
	if beh.Op == "mgr-history" {
		return driveTunnelMgrHistory(beh, seed)
	}
	if beh.Free {
		return driveTunnelFree(beh, seed)
	}
	if !hooks.tunnel {
		return &fw.Trace{Status: fw.Unrealisable, Note: "hook point " + hpTunnel + " absent in this tree"}
	}
	slow := false
	for _, st := range beh.Steps {
		if st.A == "NotifyTimeout" || st.A == "NotifyRelease" {
			slow = true
		}
	}
	r, err := newTunnelRigN(beh.Start, false, seed, slow)
	if err != nil {
		return &fw.Trace{Status: fw.DriverError, Note: err.Error()}
	}
	setHook(func(name string) {
		if name == hpTunnel {
			r.s.Gate(hpTunnel, nil)
			r.s.After() // lets the scheduler see that the adopted copy goroutine has moved on
		}
	})
	for i, st := range beh.Steps {
		if st.P == "m1" || st.P == "m2" {
			continue // monitor goroutines end by themselves
		}
		n := r.name(st.P)
		switch st.A {
		case "Eof":
			r.local.injectEOF()
			r.remote.injectEOF()
		case "StartCall": // Tunnel.Start runs up to its call of manager.Ctx()
			state := r.s.Start("start", func() any {
				var err error
				r.rec.guard("Start", func() { err = r.t.Start() })
				return err
			})
			if !(state == sched.Parked && r.at("start") == "mgr.ctx") {
				return r.unreal(i, "Start should be at manager.Ctx(), is %s", r.where("start"))
			}
		case "SetCtx": // ... and from there to its end (SetCtx, CAS, goroutines)
			if !r.waitParkedAt("start", "mgr.ctx") {
				return r.unreal(i, "Start is %s, model expects it at manager.Ctx()", r.where("start"))
			}
			if ns, _ := r.s.Step("start"); ns != sched.Done {
				return r.unreal(i, "Start did not return (%s)", r.where("start"))
			}
		case "StartCas", "Spawn":
			// no gate of its own
		case "NotifyTimeout": // the notification has been stuck for longer than any send timeout
			select {
			case <-r.client.entered:
			case <-time.After(parkWait):
				return r.unreal(i, "no close notification in flight")
			}
			time.Sleep(notifyHold)
		case "NotifyRelease":
			r.release()
		case "Load":
			if st.P == "copy" {
				if st.R {
					continue // woken by the closed connections, finds Closing/Closed and returns: nothing to hold
				}
				if !r.waitParkedAt(n, hpTunnel) {
					return r.unreal(i, "the copy goroutine did not call Close (%s)", r.where(n))
				}
				continue
			}
			p := st.P
			state := r.startClose(p, func() { r.initiate(p) })
			if st.R && state != sched.Done {
				return r.unreal(i, "%s should have returned early, is %s", p, r.where(p))
			}
			if !st.R && !(state == sched.Parked && r.at(p) == hpTunnel) {
				return r.unreal(i, "%s should be between load and CAS, is %s", p, r.where(p))
			}
		case "Cas":
			if !r.waitParkedAt(n, hpTunnel) {
				return r.unreal(i, "%s is %s, model expects it between load and CAS", n, r.where(n))
			}
			ns, _ := r.s.Step(n)
			if st.R {
				if ns == sched.Parked {
					return r.unreal(i, "%s went on into the close body (%s); the model of the repaired code returns", n, r.where(n))
				}
			} else if !r.waitParkedAt(n, "unreg") {
				return r.unreal(i, "%s did not reach the close body (%s): it was turned away after the CAS", n, r.where(n))
			}
		case "Unreg":
			if !r.waitParkedAt(n, "unreg") {
				return r.unreal(i, "%s is %s, model expects UnregisterTunnel", n, r.where(n))
			}
			r.s.Step(n)
			if !r.waitParkedAt(n, "cb") {
				return r.unreal(i, "%s did not reach the onClosed callback (%s)", n, r.where(n))
			}
		case "Cb":
			if !r.waitParkedAt(n, "cb") {
				return r.unreal(i, "%s is %s, model expects the onClosed callback", n, r.where(n))
			}
			r.s.Step(n)
		default:
			return &fw.Trace{Status: fw.DriverError, Note: "tunnel: unknown action " + st.A}
		}
	}
	return r.finish()
}

// driveTunnelFree: explicit closers, idle timeout, peer notification, manager shutdown and the end
// of the tunnel's own I/O are all released at once, with seeded delays at every gate.
func driveTunnelFree(beh behaviour, seed int64) *fw.Trace {
	r, err := newTunnelRig(beh.Start, true, seed)
	if err != nil {
		return &fw.Trace{Status: fw.DriverError, Note: err.Error()}
	}
	rnd := fw.NewRand(seed ^ 0x7a11)
	var mu sync.Mutex
	setHook(func(name string) { jitter(rnd, &mu) })
	kinds := []string{"x1", "x2", "idle", "peer", "x3", "ctx"}
	n := beh.Closers
	if n > len(kinds) {
		n = len(kinds)
	}
	// which initiators take part depends on the seed only
	rnd.Shuffle(len(kinds), func(i, j int) { kinds[i], kinds[j] = kinds[j], kinds[i] })
	gun := make(chan struct{})
	var wg sync.WaitGroup
	for _, p := range kinds[:n] {
		p := p
		wg.Add(1)
		go func() {
			defer wg.Done()
			<-gun
			jitter(rnd, &mu)
			r.rec.add(fw.Event{"ev": "CloseCall", "p": p})
			r.rec.guard("Close", func() { r.initiate(p) })
			r.rec.add(fw.Event{"ev": "CloseRet", "p": p})
		}()
	}
	if beh.Seed%2 == 0 {
		wg.Add(1)
		go func() {
			defer wg.Done()
			<-gun
			jitter(rnd, &mu)
			r.local.injectEOF()
			r.remote.injectEOF()
		}()
	}
	close(gun)
	done := make(chan struct{})
	go func() { wg.Wait(); close(done) }()
	if t := awaitFree(done, "tunnel: free-running closers"); t != nil {
		return t
	}
	return r.finish()
}

// driveTunnelHammer: Start racing with Close, free running, thousands of tunnels on one manager. Each
// round registers a fresh tunnel, starts it in a goroutine and - after a seeded number of yields -
// closes it the way one of the initiators would (explicit Close, peer notification, CloseAll, fatal
// tunnel error). Per round the callback / unregister counts are logged (Round event); at the end, the
// manager still open, whatever goroutine of any of the tunnels is still alive after the grace period
// counts as left behind.
func driveTunnelHammer(beh behaviour, seed int64) *fw.Trace {
	r := &tunnelRig{base: newBase(true, seed)}
	r.mgr = &tmgr{DefaultTunnelManager: tunnel.NewTunnelManager(r.ctx, tunnel.TunnelRoleListen), r: r, quiet: true}
	rnd := fw.NewRand(seed ^ 0x57a7)
	deadline := time.Now().Add(time.Duration(beh.Ms) * time.Millisecond)
	for i := 0; i < beh.Rounds && time.Now().Before(deadline); i++ {
		id := fmt.Sprintf("t-%d", i)
		var cb atomic.Int32
		local, remote := newMemConn("local"), newMemConn("remote")
		t := tunnel.NewTunnel(&tunnel.TunnelConfig{
			ID: id, MappingID: "pm-1", Role: tunnel.TunnelRoleListen, Protocol: "tcp",
			LocalConn: local, TunnelRWC: remote, TargetClient: 0,
			Manager: r.mgr, Client: nil,
			OnClosed: func(reason tunnel.CloseReason, err error) { cb.Add(1) },
		})
		if err := r.mgr.RegisterTunnel(t); err != nil {
			return &fw.Trace{Status: fw.DriverError, Note: err.Error()}
		}
		started := make(chan struct{})
		go func() {
			r.rec.guard("Start", func() { t.Start() })
			close(started)
		}()
		for k := rnd.Intn(24); k > 0; k-- {
			yield()
		}
		r.rec.guard("Close", func() {
			switch i % 4 {
			case 0:
				t.Close(tunnel.CloseReasonNormal, nil)
			case 1:
				r.mgr.DefaultTunnelManager.OnTunnelClosed(id, "pm-1", "peer_closed", 0, 0, 0)
			case 2:
				r.mgr.DefaultTunnelManager.CloseAll()
			case 3:
				r.mgr.DefaultTunnelManager.OnTunnelError(id, "pm-1", "E", "fatal", false)
			}
		})
		select {
		case <-started:
		case <-time.After(opTimeout):
			r.rec.add(fw.Event{"ev": "Op", "op": "Start", "res": "hang"})
		}
		// the tunnel may have been closed before Start made it visible as started: close again (idempotent)
		r.rec.guard("Close", func() { t.Close(tunnel.CloseReasonNormal, nil) })
		local.injectEOF()
		remote.injectEOF()
		r.rec.add(fw.Event{"ev": "Round", "counts": map[string]any{"cb": int(cb.Load())}})
	}
	r.rec.add(fw.Event{"ev": "CloseCall", "p": "z"})
	r.rec.add(fw.Event{"ev": "CloseRet", "p": "z"})
	r.quiesce("tunnel", false, 0)
	r.mgr.DefaultTunnelManager.Close()
	r.cancel()
	return r.trace("tunnel", false)
}
