// C16 driver: shutdown paths run exactly once and leave nothing running.
//
// TLC-generated interleavings (spec/Dispose.tla: scenes latch / tunnel / bridge) of concurrent
// closers with each other and with the components' own completion paths are forced on the real
// dispose.Dispose / ManagerBase, stream.StreamProcessor, memory Storage, session.SessionManager,
// mapping.BaseMappingHandler, client tunnel.Tunnel and server tunnel.Bridge through the gate
// scheduler. Gates: the verifhook points dispose.close.enter and tunnel.close.loaded, clean-up
// handlers / callbacks / manager and CloudControl doubles supplied by the driver, and the Read
// return of the in-memory connections. Counted observables (handler ran, callback ran, traffic
// report with its delta, operation after close, panic, goroutines left behind) are judged by
// spec/DisposeTrace.tla. A seeded free-running variant releases N closers at once.
//
// Round 3: registration histories of the resource manager (generated Unreg / Reg steps, driver-made histories over two
// generations; judge events Own / Drop / Settled and the rule that a disposal call starting while another one may be
// in flight owes nothing); the statistics kept by the CloudControl double as a read-modify-write (Quiesce.stored,
// clause TrafficOnce/comp:lost), schedules of the hypothetical design "claim" (generated with eager claims), cloud
// control failing one call (generated RGetFail / RUpdFail, driver-made "cloud-fault"); pending I/O held for the whole
// run and released at its end (held.go: close notification of the client tunnel, final report of the server bridge);
// a registration history on the client tunnel manager (tunnel.go, "mgr-history").
package main

import (
	"context"
	"encoding/json"
	"fmt"
	"hash/fnv"
	"os"
	"sort"
	"strconv"
	"strings"
	"sync"
	"sync/atomic"
	"time"

	corelog "tunnox-core/internal/core/log"
	"tunnox-core/internal/verifhook"
	"tunnox-core/verifharness/fw"
	"tunnox-core/verifharness/sched"
)

type step struct {
	P string `json:"p"`
	A string `json:"a"`
	S bool   `json:"s"` // no gate of its own: happens by itself after the previous step of p
	W bool   `json:"w"` // model: after this step p waits for a lock somebody else holds
	R bool   `json:"r"` // model: p's call returns / goroutine p ends in this step
}

type behaviour struct {
	Scene   string `json:"scene"`          // latch | tunnel | bridge | ops
	Comp    string `json:"comp,omitempty"` // latch/ops: component kind
	Start   string `json:"start,omitempty"`
	Free    bool   `json:"free,omitempty"`
	Closers int    `json:"closers,omitempty"`
	Seed    int    `json:"seed,omitempty"`
	Ms      int    `json:"ms,omitempty"`     // hammers: time box
	Rounds  int    `json:"rounds,omitempty"` // hammers: cap on rounds
	Op      string `json:"op,omitempty"`     // ops: the one operation to invoke on the closed component
	Legacy  bool   `json:"legacy,omitempty"` // generated from the model of the code as it was before the repairs
	Design  string `json:"design,omitempty"` // bridge: the model's design when it is a hypothetical one ("claim")
	Steps   []step `json:"steps,omitempty"`
}

// ---- verifhook dispatch (process global => one behaviour at a time) ------------------------------

var activeHook atomic.Pointer[func(name string)]

func setHook(f func(name string)) {
	if f == nil {
		activeHook.Store(nil)
		return
	}
	activeHook.Store(&f)
}

var hooks struct {
	dispose, tunnel bool
}

const (
	hpDispose = "dispose.close.enter"
	hpTunnel  = "tunnel.close.loaded"
)

const (
	grace     = 1500 * time.Millisecond // wind-down time granted to goroutines before they count as left behind
	opTimeout = 3 * time.Second
	parkWait  = 50 * time.Millisecond // how long a released goroutine is given to reach the gate the model expects
)

// base is what every rig shares.
type base struct {
	s      *sched.Sched
	rec    *rec
	free   bool
	ctx    context.Context
	cancel context.CancelFunc
	bl     baseline
	only   string // leak oracle restricted to goroutines of this package (rigs kept alive across other behaviours)
}

func newBase(free bool, seed int64) *base {
	b := &base{s: sched.New(free), rec: &rec{}, free: free}
	b.s.Watchdog = 60 * time.Millisecond
	b.bl = takeBaseline()
	b.ctx, b.cancel = context.WithCancel(context.Background())
	if free {
		rnd := fw.NewRand(seed)
		var mu sync.Mutex
		b.s.FreeDelay = func(name string, g sched.GateInfo) { jitter(rnd, &mu) }
	}
	return b
}

func jitter(rnd interface{ Intn(int) int }, mu *sync.Mutex) {
	mu.Lock()
	k := rnd.Intn(12)
	mu.Unlock()
	switch {
	case k < 5:
		for i := 0; i <= k; i++ {
			yield()
		}
	case k < 7:
		time.Sleep(time.Duration(10+k*15) * time.Microsecond)
	}
}

// waitParkedAt waits (bounded by the watchdog) until process `name` is parked at gate `point`.
// A process that is done, or parked at another gate, cannot get there by itself: no waiting then.
func (b *base) waitParkedAt(name, point string) bool {
	deadline := time.Now().Add(parkWait)
	for {
		st, at := b.s.State(name)
		if st == sched.Parked {
			return at.Point == point
		}
		if st == sched.Done || time.Now().After(deadline) {
			return false
		}
		time.Sleep(50 * time.Microsecond)
	}
}

func (b *base) where(name string) string {
	st, at := b.s.State(name)
	return fmt.Sprintf("%s@%q", st, at.Point)
}

// startClose runs fn as closer process p, logging CloseCall before and CloseRet after the real call.
func (b *base) startClose(p string, fn func()) string {
	b.rec.add(fw.Event{"ev": "CloseCall", "p": p})
	return b.s.Start(p, func() any {
		b.rec.guard("Close", fn)
		b.rec.add(fw.Event{"ev": "CloseRet", "p": p})
		return nil
	})
}

// withShortWatchdog runs f with a short watchdog: the model says the step ends blocked on a lock.
func (b *base) withWatchdog(short bool, f func() string) string {
	if !short {
		return f()
	}
	wd := b.s.Watchdog
	b.s.Watchdog = 4 * time.Millisecond
	defer func() { b.s.Watchdog = wd }()
	return f()
}

func (b *base) unreal(i int, format string, a ...any) *fw.Trace {
	b.s.Drain(3 * time.Second)
	return &fw.Trace{Status: fw.Unrealisable, Note: fmt.Sprintf("step %d: ", i) + fmt.Sprintf(format, a...)}
}

// quiesce: all closers have returned and pending I/O is unblocked; wait for the component's
// goroutines to wind down and log what is left.
func (b *base) quiesce(comp string, traffic bool, moved int64) {
	n, top, detail := leakedOf(b.bl, grace, b.only)
	b.rec.add(fw.Event{"ev": "Quiesce", "moved": moved, "traffic": traffic, "leaked": n, "top": top, "detail": detail})
}

func (b *base) trace(comp string, sync bool) *fw.Trace {
	t := &fw.Trace{Status: fw.Realised}
	t.Events = append(t.Events, fw.Event{"ev": "Cfg", "comp": comp, "sync": sync})
	t.Events = append(t.Events, b.rec.events()...)
	return t
}

// runOp runs an operation of the component. Invoked after some Close has returned it is an "operation
// after close": result class ok | closed | error | panic | hang (Op event). Invoked while closers are
// still running it is the component's own I/O in flight: a panic there is a Panic event ("inflight:<op>@site").
func (b *base) runOp(name string, fn func() error) {
	afterClose := false
	for _, e := range b.rec.events() {
		if e["ev"] == "CloseRet" {
			afterClose = true
			break
		}
	}
	type result struct{ res, site, what string }
	done := make(chan result, 1)
	go func() {
		res := "ok"
		site, what := quiet(func() {
			if err := fn(); err != nil {
				res = "error"
				if isClosedErr(err) {
					res = "closed"
				}
			}
		})
		if what != "" {
			res = "panic"
		}
		done <- result{res, site, what}
	}()
	var r result
	select {
	case r = <-done:
	case <-time.After(opTimeout):
		r = result{res: "hang"}
	}
	if r.res == "panic" && !afterClose {
		b.rec.add(fw.Event{"ev": "Panic", "where": "inflight:" + name + "@" + r.site, "what": r.what})
		r.res = "error"
	}
	b.rec.add(fw.Event{"ev": "Op", "op": name, "res": r.res, "site": r.site, "what": r.what})
}

// awaitFree waits for the free-running processes of a behaviour (done is closed when all have returned). On a machine
// under load they may be late: after 10 s the stacks of the goroutines inside tunnox-core are noted and the wait goes on;
// only when nothing has finished after 40 s is it a driver error (exit 2) - with those stacks, so that a genuine deadlock
// of the component can be told from starvation. nil: all returned, go on.
func awaitFree(done <-chan struct{}, what string) *fw.Trace {
	select {
	case <-done:
		return nil
	case <-time.After(10 * time.Second):
	}
	var sb strings.Builder
	n := 0
	for _, g := range dumpGoroutines() {
		if !strings.Contains(g.text, "\n"+repoPrefix) || n >= 8 {
			continue
		}
		n++
		ls := strings.Split(g.text, "\n")
		if len(ls) > 11 {
			ls = ls[:11]
		}
		sb.WriteString(strings.Join(ls, " | ") + " || ")
	}
	select {
	case <-done:
		fmt.Fprintf(os.Stderr, "[c16] %s were late (more than 10 s)\n", what)
		return nil
	case <-time.After(30 * time.Second):
		return &fw.Trace{Status: fw.DriverError, Note: what + " did not finish within 40 s; goroutines inside tunnox-core after 10 s: " + sb.String()}
	}
}

func isClosedErr(err error) bool {
	s := strings.ToLower(err.Error())
	return strings.Contains(s, "closed") || strings.Contains(s, "eof") || strings.Contains(s, "cancel")
}

func drive(env *fw.Env, b fw.Behaviour) *fw.Trace {
	var beh behaviour
	if err := json.Unmarshal(b.Data, &beh); err != nil {
		return &fw.Trace{Status: fw.DriverError, Note: err.Error()}
	}
	defer setHook(nil)
	seed := env.Seed*100003 + int64(beh.Seed)
	if wantHeld.Load() {
		heldOnce.Do(func() { startHeld(env.Seed * 100003) }) // before anything else is driven: the holds last as long as the run
	}
	var t *fw.Trace
	t0 := time.Now()
	defer func() {
		k := beh.Scene
		if beh.Free {
			k += ":free"
		}
		if t != nil && t.Status != fw.Realised {
			k += ":" + t.Status
			if os.Getenv("C16_DEBUG") != "" {
				n := t.Note
				if i := strings.Index(n, ": "); i >= 0 {
					n = n[i+2:]
				}
				if len(n) > 60 {
					n = n[:60]
				}
				k += " " + n
			}
		}
		statMu.Lock()
		statDur[k] += time.Since(t0)
		statN[k]++
		statMu.Unlock()
	}()
	switch beh.Scene {
	case "latch":
		t = driveLatch(beh, seed)
	case "ops":
		t = driveOps(beh, seed)
	case "tunnel":
		t = driveTunnel(beh, seed)
	case "bridge":
		t = driveBridge(beh, seed)
	case "child":
		t = driveChild(beh, seed)
	case "hammer":
		t = driveHammer(beh, seed)
	case "resmgr":
		t = driveResMgr(beh, seed)
	case "held":
		t = driveHeld(beh, seed)
	default:
		return &fw.Trace{Status: fw.DriverError, Note: "unknown scene " + beh.Scene}
	}
	if os.Getenv("C16_DEBUG") != "" && t.Status != fw.Realised {
		var sb strings.Builder
		for _, st := range beh.Steps {
			fmt.Fprintf(&sb, "%s.%s ", st.P, st.A)
		}
		fmt.Fprintf(os.Stderr, "C16_DEBUG %s %s legacy=%v %s: %s | %s\n", t.Status, beh.Scene, beh.Legacy, beh.Comp, t.Note, sb.String())
	}
	return t
}

var (
	statMu  sync.Mutex
	statDur = map[string]time.Duration{}
	statN   = map[string]int{}
)

// probeHooks finds out whether the two hook points exist in the tree the driver was built against.
func probeHooks() {
	seen := map[string]bool{}
	var mu sync.Mutex
	setHook(func(name string) { mu.Lock(); seen[name] = true; mu.Unlock() })
	probeDispose()
	probeTunnel()
	setHook(nil)
	hooks.dispose, hooks.tunnel = seen[hpDispose], seen[hpTunnel]
}

func suiteJob(name, suite string, emit bool) fw.TLCJob {
	em := "FALSE"
	if emit {
		em = "TRUE"
	}
	return fw.TLCJob{Name: name, Module: "Dispose", Cfg: "Dispose.cfg", Workers: 8, Timeout: 14 * time.Minute,
		Consts: map[string]string{"SUITE": suite, "EMIT": em}}
}

// thinning: drive one in N of the generated behaviours of a class. Class sizes of the "gen" suite:
// latch 8145 (x 6 component kinds), tunnel 7144 repaired / 3520 as-it-was, Connecting 180 / 48, Starting 722,
// bridge 49150 (about 15000 with the context-cancelled-while-flowing / > 1 MiB paths, 9349 with a target connection
// arriving during Close, driven three times as densely) / 12751, resmgr about 1500 (one in five driven);
// round 3: + about 21000 of the hypothetical design "claim" (only those with two reports in flight are driven) and
// about 9000 with a failing cloud-control call;
// "genbig": latch 28965 (x 6), tunnel 10304 / 12816, bridge 17187 / 39634.
func thinning(tier, src, scene, start string, legacy bool) int {
	quick := tier == "quick"
	if src == "genbig" {
		switch scene {
		case "latch":
			return 60
		case "tunnel":
			if start == "Starting" {
				return 40
			}
			return 25
		}
		return 45
	}
	switch {
	case scene == "resmgr":
		if quick {
			return 5
		}
		return 1
	case scene == "latch":
		if quick {
			return 160
		}
		return 16
	case scene == "tunnel" && start == "Connecting":
		if legacy {
			return 2
		}
		return 3
	case scene == "tunnel" && start == "Starting":
		if quick {
			return 3
		}
		return 1
	case scene == "tunnel":
		if !quick {
			return 3
		}
		if legacy {
			return 30
		}
		return 36
	case !quick: // bridge
		if legacy {
			return 10
		}
		return 24
	case legacy:
		return 80
	}
	return 150
}

// overlappingReports: does the behaviour have a reporter reading or updating the statistics while another one has
// begun and not finished its report?
func overlappingReports(steps []step) bool {
	inflight := map[string]bool{}
	for _, st := range steps {
		switch st.A {
		case "RGet", "RUpd":
			for q, on := range inflight {
				if on && q != st.P {
					return true
				}
			}
			inflight[st.P] = true
		case "RSto":
			inflight[st.P] = false
		}
	}
	return false
}

// generated is one line printed by Dispose.tla: the configuration and the behaviour prefix.
type generated struct {
	Scene  string `json:"scene"`
	Start  string `json:"start"`
	Design string `json:"design"`
	Steps  []step `json:"steps"`
}

func main() {
	corelog.SetDefault(corelog.NewNopLogger())
	verifhook.Set(func(name string, arg any) {
		if f := activeHook.Load(); f != nil {
			(*f)(name)
		}
	})
	if k := os.Getenv("C16_CHILD"); k != "" {
		seed, _ := strconv.ParseInt(os.Getenv("C16_CHILD_SEED"), 10, 64)
		iters, _ := strconv.Atoi(os.Getenv("C16_CHILD_ITERS"))
		childStartClose(seed, iters)
		return
	}
	only := os.Getenv("C16_ONLY") // development aid: drive the behaviours of one scene only and skip the exhaustive model job
	probeHooks()
	fmt.Printf("[c16] hook points present: %s=%v %s=%v\n", hpDispose, hooks.dispose, hpTunnel, hooks.tunnel)
	fw.Main(&fw.Property{
		ID:        "C16",
		DesignRef: "DESIGN.md §5 C16",
		ModelJobs: func(env *fw.Env) []fw.TLCJob {
			// every configuration of the suite (repaired design: strict property; code as it was: property or a
			// listed deviation) is an initial state of one TLC run
			if only != "" {
				return nil
			}
			jobs := []fw.TLCJob{suiteJob("mc", "mc", false)}
			if env.Tier == "thorough" {
				jobs = append(jobs, suiteJob("mcbig", "mcbig", false))
			}
			return jobs
		},
		GenJobs: func(env *fw.Env) []fw.TLCJob {
			jobs := []fw.TLCJob{suiteJob("gen", "gen", true)}
			if env.Tier == "thorough" {
				jobs = append(jobs, suiteJob("genbig", "genbig", true))
			}
			return jobs
		},
		Expand: func(env *fw.Env, src string, raw json.RawMessage) []json.RawMessage {
			var g generated
			if err := json.Unmarshal(raw, &g); err != nil {
				panic(err)
			}
			if only != "" && g.Scene != only {
				return nil
			}
			legacy := g.Design == "asis" || g.Design == "claim"
			if g.Design == "claim" && !overlappingReports(g.Steps) {
				return nil // of the claim-only design only the schedules with two reports in flight are of interest
			}
			// seeded thinning per class (the whole transition set is generated; what is driven is a sample)
			keep := func(salt string, oneIn int) bool {
				if oneIn <= 1 {
					return true
				}
				h := fnv.New64a()
				fmt.Fprintf(h, "%d|%s|", env.Seed, salt)
				h.Write(raw)
				return h.Sum64()%uint64(oneIn) == 0
			}
			rate := thinning(env.Tier, src, g.Scene, g.Start, legacy)
			switch g.Scene {
			case "latch":
				var out []json.RawMessage
				for _, c := range latchKinds {
					if keep(c, rate) {
						out = append(out, fw.MustJSON(behaviour{Scene: "latch", Comp: c, Steps: g.Steps}))
					}
				}
				return out
			case "tunnel":
				for _, st := range g.Steps {
					if st.A == "NotifyTimeout" { // costs notifyHold of real time: a handful only
						rate = 120
						break
					}
				}
				if !keep("", rate) {
					return nil
				}
				return []json.RawMessage{fw.MustJSON(behaviour{Scene: "tunnel", Start: g.Start, Legacy: legacy, Steps: g.Steps})}
			case "bridge":
				for _, st := range g.Steps {
					if st.P == "tg" && rate > 3 { // the target connection arriving while the bridge closes: denser sample
						rate /= 3
						break
					}
				}
				if !keep("", rate) {
					return nil
				}
				design := ""
				if g.Design == "claim" {
					design = g.Design
				}
				return []json.RawMessage{fw.MustJSON(behaviour{Scene: "bridge", Legacy: legacy, Design: design, Steps: g.Steps})}
			case "resmgr":
				if !keep("", rate) {
					return nil
				}
				return []json.RawMessage{fw.MustJSON(behaviour{Scene: "resmgr", Steps: g.Steps})}
			}
			panic("scene " + g.Scene)
		},
		ExtraBeh: func(env *fw.Env) []json.RawMessage {
			var out []json.RawMessage
			nfree := 60
			if env.Tier == "thorough" {
				nfree = 800
			}
			for _, c := range latchKinds {
				for _, op := range opNames(c) {
					out = append(out, fw.MustJSON(behaviour{Scene: "ops", Comp: c, Op: op}))
				}
			}
			// hammers (time-boxed) and driver-made bridge cases
			ms, rounds := map[string]int{"dispose": 450, "manager": 300, "stream": 400, "storage": 400, "session": 250, "mapping": 250}, 3000
			tms, trounds := 700, 2500
			if env.Tier == "thorough" {
				for k := range ms {
					ms[k] *= 8
				}
				rounds, tms, trounds = 30000, 8000, 40000
			}
			for _, c := range latchKinds {
				out = append(out, fw.MustJSON(behaviour{Scene: "hammer", Comp: c, Closers: 4, Ms: ms[c], Rounds: rounds}))
			}
			out = append(out, fw.MustJSON(behaviour{Scene: "tunnel", Op: "startclose", Ms: tms, Rounds: trounds, Seed: 1}))
			out = append(out, fw.MustJSON(behaviour{Scene: "tunnel", Op: "mgr-history", Seed: 0}), fw.MustJSON(behaviour{Scene: "tunnel", Op: "mgr-history", Seed: 1}))
			for i := 0; i < 6; i++ { // registration histories of the resource manager
				out = append(out, fw.MustJSON(behaviour{Scene: "resmgr", Op: "history", Seed: i}))
			}
			for i := 0; i < 3; i++ {
				for _, op := range []string{"flow-ctx", "big-small", "big-large"} {
					out = append(out, fw.MustJSON(behaviour{Scene: "bridge", Op: op, Seed: i}))
				}
			}
			iters := 4000
			if env.Tier == "thorough" {
				iters = 40000
			}
			out = append(out, fw.MustJSON(behaviour{Scene: "child", Op: "startclose", Closers: iters, Seed: 1}))
			for i := 0; i < nfree; i++ {
				for _, c := range latchKinds {
					out = append(out, fw.MustJSON(behaviour{Scene: "latch", Comp: c, Free: true, Closers: 3 + i%2, Seed: i}))
				}
				out = append(out, fw.MustJSON(behaviour{Scene: "tunnel", Start: "Connected", Free: true, Closers: 4, Seed: i}))
				out = append(out, fw.MustJSON(behaviour{Scene: "tunnel", Start: "Connecting", Free: true, Closers: 3, Seed: i}))
				out = append(out, fw.MustJSON(behaviour{Scene: "bridge", Free: true, Closers: 2 + i%2, Seed: i}))
				if i%4 == 0 {
					out = append(out, fw.MustJSON(behaviour{Scene: "resmgr", Free: true, Closers: 1 + i%3, Seed: i / 4}))
				}
			}
			for i := 0; i < 4; i++ { // cloud control failing once while the bridge shuts down
				out = append(out, fw.MustJSON(behaviour{Scene: "bridge", Op: "cloud-fault", Seed: i}))
			}
			// pending I/O held for as long as the run lasts (longer than any timeout of the code), released at the very end
			for i := len(heldKeys) - 1; i >= 0; i-- { // last started, first finished: a case's goroutine baseline holds the cases started before it
				out = append(out, fw.MustJSON(behaviour{Scene: "held", Op: heldKeys[i]}))
			}
			if only != "" {
				var sel []json.RawMessage
				for _, raw := range out {
					var b behaviour
					if json.Unmarshal(raw, &b) == nil && b.Scene == only {
						sel = append(sel, raw)
					}
				}
				out = sel
			}
			for _, raw := range out {
				if strings.Contains(string(raw), `"scene":"held"`) {
					wantHeld.Store(true)
				}
			}
			return out
		},
		Drive: drive,
		PostDrive: func(env *fw.Env, traces []*fw.Trace) error {
			var ks []string
			for k := range statN {
				ks = append(ks, k)
			}
			sort.Strings(ks)
			for _, k := range ks {
				fmt.Printf("[c16]   %-28s n=%-5d %.1fs\n", k, statN[k], statDur[k].Seconds())
			}
			return nil
		},
		Parallel: 1, // the verifhook handler and the goroutine-leak oracle are process global
		SelfTest: selfTest,
		NonTrivial: func(t *fw.Trace) bool {
			calls := 0
			for _, e := range t.Events {
				if e["ev"] == "CloseCall" {
					calls++
				}
			}
			return calls >= 2
		},
		JudgeModule: "DisposeTrace",
		JudgeCfg:    "DisposeTrace.cfg",
		Rule: "one behaviour per (state, action) transition of Dispose.tla (latch: 3 closers x adder x guarded operation; tunnel: 2-3 closers x completion paths; " +
			"bridge: closers x copiers x reporters x one failing cloud-control call; resmgr: disposers x helper x unregister/re-register), forced on the real components through hook points, handler/callback/manager/CloudControl doubles and connection doubles; " +
			"non-trivial = realised with at least two Close calls",
		Assumptions: []string{
			"idle timeout (5 min timer) and the 30 s periodic report tick are not waited for: the idle path is driven as the call monitorTimeout makes (Close(Timeout)), the periodic reporter through its final branch",
			"leaked timers are not observable in a goroutine dump; only goroutines are counted",
			"an operation after close may succeed harmlessly; only panics and hangs are failures",
			"resource manager: a resource is owed a Dispose only by a DisposeAll / DisposeWithTimeout call that starts after it was registered, before it was unregistered and while no other disposal can be in flight (a call that finds one in flight returns at once by design)",
			"cloud-control faults hit at most one call per behaviour and never Start's own final report (after which nobody would report again); pending I/O is held for the length of the run (at least 8 s), not for ever",
		},
		TrustedBase: []string{"TLC", "spec/DisposeTrace.tla as the reading of C16", "harness/sched gate scheduler", "runtime.Stack goroutine dump parsing (drivers/c16/leak.go)"},
	})
}

func cloneTrace(t *fw.Trace, id int) *fw.Trace {
	c := &fw.Trace{Status: fw.Realised, Beh: t.Beh}
	c.Beh.ID = id
	for _, e := range t.Events {
		ne := fw.Event{}
		for k, v := range e {
			ne[k] = v
		}
		c.Events = append(c.Events, ne)
	}
	return c
}

// selfTest corrupts accepted traces; the judge must reject every one.
func selfTest(env *fw.Env, acc []*fw.Trace) []*fw.Trace {
	var out []*fw.Trace
	next := 1 << 20
	kinds := map[string]int{}
	for _, t := range acc {
		ranIdx, repIdx, qIdx, retIdx, roundIdx := -1, -1, -1, -1, -1
		for i, e := range t.Events {
			switch e["ev"] {
			case "Ran":
				if ranIdx < 0 && e["h"] != "notify" {
					ranIdx = i
				}
			case "Report":
				if repIdx < 0 {
					repIdx = i
				}
			case "Round":
				if roundIdx < 0 {
					roundIdx = i
				}
			case "Quiesce":
				qIdx = i
			case "CloseRet":
				if retIdx < 0 {
					retIdx = i
				}
			}
		}
		add := func(kind string, f func(c *fw.Trace)) {
			if kinds[kind] >= 8 {
				return
			}
			kinds[kind]++
			next++
			c := cloneTrace(t, next)
			f(c)
			out = append(out, c)
		}
		if ranIdx >= 0 { // a clean-up action runs a second time
			add("twice", func(c *fw.Trace) {
				dup := fw.Event{}
				for k, v := range c.Events[ranIdx] {
					dup[k] = v
				}
				c.Events = append(c.Events[:ranIdx+1], append([]fw.Event{dup}, c.Events[ranIdx+1:]...)...)
			})
		}
		if ranIdx >= 0 && retIdx >= 0 && isMust(t, ranIdx) { // ... or never
			add("never", func(c *fw.Trace) {
				h := c.Events[ranIdx]["h"]
				var ev []fw.Event
				for _, e := range c.Events {
					if e["ev"] == "Ran" && e["h"] == h {
						continue
					}
					ev = append(ev, e)
				}
				c.Events = ev
			})
		}
		if repIdx >= 0 { // a traffic delta is reported twice / dropped
			add("over", func(c *fw.Trace) {
				dup := fw.Event{}
				for k, v := range c.Events[repIdx] {
					dup[k] = v
				}
				c.Events = append(c.Events[:repIdx+1], append([]fw.Event{dup}, c.Events[repIdx+1:]...)...)
			})
			add("under", func(c *fw.Trace) {
				c.Events = append(c.Events[:repIdx], c.Events[repIdx+1:]...)
			})
		}
		if roundIdx >= 0 { // hammer: a handler ran twice in one round
			add("round", func(c *fw.Trace) {
				m := map[string]any{}
				for k, v := range c.Events[roundIdx]["counts"].(map[string]any) {
					m[k] = v
				}
				for k := range m {
					m[k] = 2
					break
				}
				c.Events[roundIdx]["counts"] = m
			})
		}
		if qIdx >= 0 { // the statistics kept by cloud control end up short although every delta was reported
			q := t.Events[qIdx]
			if tr, _ := q["traffic"].(bool); tr {
				if moved, ok := num(q["moved"]); ok && moved > 0 {
					if _, has := q["stored"]; has {
						add("lost", func(c *fw.Trace) { c.Events[qIdx]["stored"] = moved - 1 })
					}
				}
			}
		}
		// resource manager histories: a re-registered object is never disposed / an unregistered one is still owed
		settled, ownIdx, dropIdx := false, -1, -1
		for i, e := range t.Events {
			h := e["h"]
			switch e["ev"] {
			case "Settled":
				settled = true
			case "Own":
				if ownIdx < 0 && strings.HasPrefix(fmt.Sprint(h), "r") && !hasEvent(t, "Drop", h) && hasEvent(t, "Ran", h) {
					ownIdx = i
				}
			case "Drop":
				if dropIdx < 0 && !hasEvent(t, "Ran", h) {
					dropIdx = i
				}
			}
		}
		if settled && ownIdx >= 0 {
			add("own-never", func(c *fw.Trace) {
				h := c.Events[ownIdx]["h"]
				var ev []fw.Event
				for _, e := range c.Events {
					if e["ev"] == "Ran" && e["h"] == h {
						continue
					}
					ev = append(ev, e)
				}
				c.Events = ev
			})
		}
		if settled && dropIdx >= 0 {
			add("undrop", func(c *fw.Trace) {
				c.Events = append(c.Events[:dropIdx], c.Events[dropIdx+1:]...)
			})
		}
		if qIdx >= 0 {
			add("leak", func(c *fw.Trace) {
				c.Events[qIdx]["leaked"] = 1
				c.Events[qIdx]["top"] = "selftest.leak"
			})
			add("panic", func(c *fw.Trace) {
				p := fw.Event{"ev": "Panic", "where": "selftest"}
				c.Events = append(c.Events[:qIdx], append([]fw.Event{p}, c.Events[qIdx:]...)...)
			})
			add("op", func(c *fw.Trace) {
				p := fw.Event{"ev": "Op", "op": "selftest", "res": "panic"}
				c.Events = append(c.Events[:qIdx], append([]fw.Event{p}, c.Events[qIdx:]...)...)
			})
		}
	}
	fmt.Printf("[c16] selftest corruptions by kind: %v\n", kinds)
	return out
}

func hasEvent(t *fw.Trace, kind string, h any) bool {
	for _, e := range t.Events {
		if e["ev"] == kind && e["h"] == h {
			return true
		}
	}
	return false
}

func num(v any) (int64, bool) {
	switch x := v.(type) {
	case int64:
		return x, true
	case int:
		return int64(x), true
	case float64:
		return int64(x), true
	}
	return 0, false
}

// isMust: was the action of Ran event i registered (Reg) before the first CloseCall?
func isMust(t *fw.Trace, i int) bool {
	h := t.Events[i]["h"]
	for _, e := range t.Events {
		if e["ev"] == "CloseCall" {
			return false
		}
		if e["ev"] == "Reg" && e["h"] == h {
			return true
		}
	}
	return false
}
