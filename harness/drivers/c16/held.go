package main

import (
	"sync"
	"sync/atomic"
	"time"

	"tunnox-core/verifharness/fw"
)

// Pending I/O held for a long time. "After close has returned and pending I/O has been unblocked nothing remains"
// has to hold however long the I/O was pending - in particular longer than whatever timeout the code puts around it
// (a goroutine that gives up waiting must not leave the one it waited for stuck). Sleeping through such timeouts
// (3 s, 5 s, ...) per behaviour is unaffordable, so these few cases are STARTED before the first behaviour is driven
// and FINISHED as the last behaviours of the run: the hold lasts as long as the run itself, at least minHold.
// Their blocked goroutines are part of every later behaviour's goroutine baseline (they exist when it is taken), and
// their own leak verdict counts only goroutines of their component's package (base.only).
//
//	notify:x1 / notify:idle   client tunnel closed (explicit Close / idle timeout) while the control connection is
//	                          busy: SendTunnelCloseNotify stays blocked; released at the end
//	finalreport               server bridge whose parent context is cancelled with unreported traffic while cloud
//	                          control keeps GetPortMapping waiting: the periodic reporter's final report stays
//	                          blocked (the goroutine waiting for it gives up after 5 s); released at the end, then
//	                          the bridge is closed: nothing left, every byte in the statistics once

const minHold = 8 * time.Second

var heldKeys = []string{"notify:x1", "notify:idle", "finalreport"}

type heldCase struct {
	t0     time.Time
	finish func() *fw.Trace
}

var (
	wantHeld  atomic.Bool
	heldOnce  sync.Once
	heldMu    sync.Mutex
	heldCases = map[string]*heldCase{}
)

func startHeld(seed int64) {
	for i, k := range heldKeys {
		hc := startHeldCase(k, seed+int64(i))
		heldMu.Lock()
		heldCases[k] = hc
		heldMu.Unlock()
	}
}

func startHeldCase(key string, seed int64) *heldCase {
	hc := &heldCase{t0: time.Now()}
	switch key {
	case "notify:x1", "notify:idle":
		r, err := newTunnelRigN("Connected", true, seed, true)
		if err != nil {
			hc.finish = func() *fw.Trace { return &fw.Trace{Status: fw.DriverError, Note: err.Error()} }
			return hc
		}
		r.only = repoPrefix + "client/tunnel."
		p := key[len("notify:"):]
		r.rec.add(fw.Event{"ev": "CloseCall", "p": p})
		r.rec.guard("Close", func() { r.initiate(p) })
		r.rec.add(fw.Event{"ev": "CloseRet", "p": p})
		hc.finish = func() *fw.Trace { return r.finish() } // releases the notification, then looks for what is left
	case "finalreport":
		r := newBridgeRig(true, seed)
		r.only = repoPrefix + "protocol/session/tunnel."
		r.cloud.hold, r.cloud.entered = make(chan struct{}), make(chan struct{})
		r.startLifecycle()
		ok := r.waitCopiers() && r.deliverN("cpA", 1000, 1150) && r.deliver("cpB")
		if ok {
			r.cancel() // server shutting down: the periodic reporter starts its final report, cloud control does not answer
			select {
			case <-r.cloud.entered:
			case <-time.After(3 * time.Second):
				ok = false
			}
		}
		hc.finish = func() *fw.Trace {
			close(r.cloud.hold)
			if !ok {
				r.src.Close()
				r.dst.Close()
				r.s.Drain(5 * time.Second)
				r.cancel()
				return &fw.Trace{Status: fw.Inconclusive, Note: "held bridge: no final report in flight"}
			}
			return r.finish()
		}
	default:
		hc.finish = func() *fw.Trace { return &fw.Trace{Status: fw.DriverError, Note: "unknown held case " + key} }
	}
	return hc
}

func driveHeld(beh behaviour, seed int64) *fw.Trace {
	heldMu.Lock()
	hc := heldCases[beh.Op]
	delete(heldCases, beh.Op)
	heldMu.Unlock()
	if hc == nil { // a replay of this behaviour alone
		hc = startHeldCase(beh.Op, seed)
	}
	if d := minHold - time.Since(hc.t0); d > 0 {
		time.Sleep(d)
	}
	return hc.finish()
}
