package main

import (
	"context"
	"errors"
	"io"
	"net"
	"runtime/debug"
	"strings"
	"sync"
	"sync/atomic"
	"time"

	"tunnox-core/internal/client/mapping"
	"tunnox-core/internal/cloud/models"
	"tunnox-core/internal/cloud/stats"
	"tunnox-core/internal/config"
	"tunnox-core/internal/stream"
	"tunnox-core/verifharness/fw"
	"tunnox-core/verifharness/sched"
)

// ---- trace recorder -----------------------------------------------------------------------------

type rec struct {
	mu sync.Mutex
	ev []fw.Event
}

func (r *rec) add(e fw.Event) {
	r.mu.Lock()
	r.ev = append(r.ev, e)
	r.mu.Unlock()
}

func (r *rec) events() []fw.Event {
	r.mu.Lock()
	defer r.mu.Unlock()
	return append([]fw.Event(nil), r.ev...)
}

// guard runs fn and turns a panic into a Panic event whose `where` names the call made by the driver
// and the innermost tunnox-core function on the panicking stack.
func (r *rec) guard(where string, fn func()) (panicked bool) {
	defer func() {
		if x := recover(); x != nil {
			panicked = true
			r.add(fw.Event{"ev": "Panic", "where": where + "@" + panicSite(), "what": errString(x)})
		}
	}()
	fn()
	return false
}

// quiet runs fn; a panic is returned (site, message) instead of being logged.
func quiet(fn func()) (site, what string) {
	defer func() {
		if x := recover(); x != nil {
			site, what = panicSite(), errString(x)
		}
	}()
	fn()
	return "", ""
}

// panicSite: innermost tunnox-core function below the panic on the current stack (called from a deferred function).
func panicSite() string {
	lines := strings.Split(string(debug.Stack()), "\n")
	seenPanic := false
	for _, l := range lines {
		if strings.HasPrefix(l, "panic(") {
			seenPanic = true
			continue
		}
		if seenPanic && strings.HasPrefix(l, repoPrefix) {
			return cleanFunc(l)
		}
	}
	return "?"
}

func errString(x any) string {
	switch v := x.(type) {
	case error:
		return v.Error()
	case string:
		return v
	}
	return "panic"
}

// ---- in-memory connection -----------------------------------------------------------------------

// memConn is a net.Conn whose inbound side is fed by the driver (inject / injectEOF) and whose
// outbound side counts what the component wrote. Read blocks until data, EOF or Close. When a Read
// is about to return an error (EOF / closed) it first passes the gate `retGate` (if set): this is
// the seam that lets the driver hold a copier between "its I/O ended" and its final counter flush.
type memConn struct {
	name    string
	mu      sync.Mutex
	cond    *sync.Cond
	in      [][]byte
	eof     bool
	closed  bool
	written atomic.Int64
	closes  atomic.Int32
	retGate func(c *memConn)
	onClose func(c *memConn)
	waiting int // Reads currently blocked
}

// blockedReaders: number of Reads waiting for input right now.
func (c *memConn) blockedReaders() int {
	c.mu.Lock()
	defer c.mu.Unlock()
	return c.waiting
}

func newMemConn(name string) *memConn {
	c := &memConn{name: name}
	c.cond = sync.NewCond(&c.mu)
	return c
}

// Like *net.TCPConn, a nil *memConn answers every call with an error instead of crashing: Bridge.Start reads
// b.sourceConn without a lock while Close clears it, and a torn read of the interface yields a typed nil.
var errNilConn = errors.New("verif: nil connection")

func (c *memConn) Read(p []byte) (int, error) {
	if c == nil {
		return 0, errNilConn
	}
	c.mu.Lock()
	for len(c.in) == 0 && !c.eof && !c.closed {
		c.waiting++
		c.cond.Wait()
		c.waiting--
	}
	if len(c.in) > 0 && !c.closed {
		n := copy(p, c.in[0])
		if n < len(c.in[0]) {
			c.in[0] = c.in[0][n:]
		} else {
			c.in = c.in[1:]
		}
		c.mu.Unlock()
		return n, nil
	}
	err := io.EOF
	if c.closed {
		err = io.ErrClosedPipe
	}
	c.mu.Unlock()
	if c.retGate != nil {
		c.retGate(c)
	}
	return 0, err
}

func (c *memConn) Write(p []byte) (int, error) {
	if c == nil {
		return 0, errNilConn
	}
	c.mu.Lock()
	closed := c.closed
	c.mu.Unlock()
	if closed {
		return 0, io.ErrClosedPipe
	}
	c.written.Add(int64(len(p)))
	return len(p), nil
}

func (c *memConn) Close() error {
	if c == nil {
		return errNilConn
	}
	c.mu.Lock()
	c.closed = true
	c.cond.Broadcast()
	c.mu.Unlock()
	c.closes.Add(1)
	if c.onClose != nil {
		c.onClose(c)
	}
	return nil
}

func (c *memConn) isClosed() bool {
	c.mu.Lock()
	defer c.mu.Unlock()
	return c.closed
}

func (c *memConn) inject(b []byte) {
	c.mu.Lock()
	c.in = append(c.in, b)
	c.cond.Broadcast()
	c.mu.Unlock()
}

func (c *memConn) injectEOF() {
	c.mu.Lock()
	c.eof = true
	c.cond.Broadcast()
	c.mu.Unlock()
}

type memAddr string

func (a memAddr) Network() string { return "mem" }
func (a memAddr) String() string  { return string(a) }

func (c *memConn) LocalAddr() net.Addr                { return memAddr("local-" + c.name) }
func (c *memConn) RemoteAddr() net.Addr               { return memAddr("remote-" + c.name) }
func (c *memConn) SetDeadline(t time.Time) error      { return nil }
func (c *memConn) SetReadDeadline(t time.Time) error  { return nil }
func (c *memConn) SetWriteDeadline(t time.Time) error { return nil }

// ---- tunnel connection double (server bridge) ----------------------------------------------------

type tconn struct {
	id      string
	conn    *memConn
	onClose func(t *tconn) // gate + count: TunnelConnection.Close is a clean-up action owed once per connection object
}

func (t *tconn) GetConnectionID() string           { return t.id }
func (t *tconn) GetClientID() int64                { return 7 }
func (t *tconn) GetMappingID() string              { return "pm-1" }
func (t *tconn) GetTunnelID() string               { return "tun-1" }
func (t *tconn) GetStream() stream.PackageStreamer { return nil }
func (t *tconn) GetNetConn() net.Conn              { return t.conn }
func (t *tconn) Close() error {
	if t.onClose != nil {
		t.onClose(t)
	}
	return t.conn.Close()
}
func (t *tconn) IsClosed() bool { t.conn.mu.Lock(); defer t.conn.mu.Unlock(); return t.conn.closed }

// ---- CloudControlAPI double ----------------------------------------------------------------------

// cloud stands in for the bridge's CloudControlAPI: one mapping whose traffic statistics it keeps.
// GetPortMapping and UpdatePortMappingStats are gates ("get", "upd", and "upd.ret" after the
// update took effect); every update is recorded as a Report event whose delta is what that
// reporter added to the totals it had read.
type cloud struct {
	s      *sched.Sched
	rec    *rec
	mu     sync.Mutex
	stored int64 // BytesSent + BytesReceived of the mapping
	sent   int64
	recv   int64
	seen   map[int64]int64 // goroutine -> total it got from its last GetPortMapping

	// faults and delays of cloud control (the storage behind it unreachable for a moment / slow)
	failNext atomic.Bool    // schedule-driven: the call released next fails
	failOnce atomic.Value   // free-running: "get" | "upd": the first such call fails - unless made by goroutine spare
	spare    atomic.Int64   // ... (Start's own final report, after which nobody would try again)
	hold     chan struct{}  // non-nil: GetPortMapping does not return before this is closed
	entered  chan struct{}  // closed when the first call is being held
	holdOnce sync.Once
}

var errCloud = errors.New("verif: cloud control unavailable")

// fails: is this call (kind "get" | "upd") to fail?
func (c *cloud) fails(kind string) bool {
	if c.failNext.CompareAndSwap(true, false) {
		return true
	}
	if k, _ := c.failOnce.Load().(string); k == kind && goid() != c.spare.Load() {
		return c.failOnce.CompareAndSwap(kind, "")
	}
	return false
}

func (c *cloud) GetPortMapping(id string) (*models.PortMapping, error) {
	c.s.Gate("get", nil)
	if c.hold != nil {
		c.holdOnce.Do(func() { close(c.entered) })
		<-c.hold
	}
	if c.fails("get") {
		c.rec.add(fw.Event{"ev": "Fault", "what": "GetPortMapping"})
		c.s.After()
		return nil, errCloud
	}
	c.mu.Lock()
	pm := &models.PortMapping{ID: id}
	pm.TrafficStats.BytesSent = c.sent
	pm.TrafficStats.BytesReceived = c.recv
	c.seen[goid()] = c.sent + c.recv
	c.mu.Unlock()
	c.s.After()
	return pm, nil
}

func (c *cloud) UpdatePortMappingStats(id string, ts *stats.TrafficStats) error {
	c.s.Gate("upd", nil)
	if c.fails("upd") { // fails before taking effect
		c.rec.add(fw.Event{"ev": "Fault", "what": "UpdatePortMappingStats"})
		c.s.After()
		return errCloud
	}
	c.mu.Lock()
	total := ts.BytesSent + ts.BytesReceived
	delta := total - c.seen[goid()]
	c.sent, c.recv, c.stored = ts.BytesSent, ts.BytesReceived, total
	c.mu.Unlock()
	c.rec.add(fw.Event{"ev": "Report", "delta": delta, "total": total})
	c.s.After()
	c.s.Gate("upd.ret", nil)
	c.s.After()
	return nil
}

func (c *cloud) GetClientPortMappings(clientID int64) ([]*models.PortMapping, error) {
	return nil, nil
}

// ---- client tunnel doubles -----------------------------------------------------------------------

type tclient struct {
	rec     *rec
	hold    chan struct{} // non-nil: the control connection is busy - the notification stays blocked until this is closed
	entered chan struct{} // closed when the first notification is in flight
	once    sync.Once
}

func (c *tclient) SendTunnelCloseNotify(target int64, tunnelID, mappingID, reason string) error {
	c.rec.add(fw.Event{"ev": "Ran", "h": "notify"})
	if c.hold != nil {
		c.once.Do(func() { close(c.entered) })
		<-c.hold
	}
	return nil
}

// ---- mapping handler doubles ---------------------------------------------------------------------

type mclient struct {
	ctx context.Context
	rec *rec
}

func (c *mclient) DialTunnel(tunnelID, mappingID, secretKey string) (net.Conn, stream.PackageStreamer, error) {
	return nil, nil, errors.New("verif: no dial")
}
func (c *mclient) DialTunnelPooled(mappingID, secretKey string) (mapping.PooledTunnelConnInterface, error) {
	return nil, nil
}
func (c *mclient) ReturnTunnelToPool(conn mapping.PooledTunnelConnInterface)  {}
func (c *mclient) CloseTunnelFromPool(conn mapping.PooledTunnelConnInterface) {}
func (c *mclient) IsTunnelPoolEnabled() bool                                  { return false }
func (c *mclient) GetContext() context.Context                                { return c.ctx }
func (c *mclient) CheckMappingQuota(mappingID string) error                   { return nil }
func (c *mclient) TrackTraffic(mappingID string, s, r int64) error            { return nil }
func (c *mclient) GetUserQuota() (*models.UserQuota, error)                   { return &models.UserQuota{}, nil }
func (c *mclient) GetServerProtocol() string                                  { return "tcp" }
func (c *mclient) SendTunnelCloseNotify(t int64, tunnelID, mappingID, reason string) error {
	return nil
}

type madapter struct {
	rec    *rec
	closed chan struct{}
	once   sync.Once
}

func (a *madapter) StartListener(cfg config.MappingConfig) error { return nil }
func (a *madapter) Accept() (io.ReadWriteCloser, error) {
	<-a.closed
	return nil, io.ErrClosedPipe
}
func (a *madapter) PrepareConnection(conn io.ReadWriteCloser) error { return nil }
func (a *madapter) GetProtocol() string                             { return "tcp" }
func (a *madapter) Close() error {
	a.rec.add(fw.Event{"ev": "Ran", "h": "adapterClose"})
	a.once.Do(func() { close(a.closed) })
	return nil
}

// ---- stream reader/writer doubles ----------------------------------------------------------------

// rw is the reader or writer handed to a StreamProcessor; its Close is a clean-up action. afterData
// (if set) is called when a Read is about to return data: the seam between two read steps of one packet.
type rw struct {
	*memConn
	rec       *rec
	what      string
	afterData func()
}

func (x *rw) Write(p []byte) (int, error) {
	n, err := x.memConn.Write(p)
	if n > 0 && x.afterData != nil {
		x.afterData()
	}
	return n, err
}

func (x *rw) Read(p []byte) (int, error) {
	n, err := x.memConn.Read(p)
	if n > 0 && x.afterData != nil {
		x.afterData()
	}
	return n, err
}

func (x *rw) Close() error {
	x.rec.add(fw.Event{"ev": "Ran", "h": x.what})
	return x.memConn.Close()
}
