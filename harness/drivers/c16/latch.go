package main

import (
	"context"
	"fmt"
	"io"
	"runtime"
	"sort"
	"sync"
	"sync/atomic"
	"time"

	"tunnox-core/internal/client/mapping"
	"tunnox-core/internal/client/tunnel"
	"tunnox-core/internal/config"
	"tunnox-core/internal/core/dispose"
	"tunnox-core/internal/core/events"
	"tunnox-core/internal/core/idgen"
	"tunnox-core/internal/core/storage"
	"tunnox-core/internal/core/storage/memory"
	"tunnox-core/internal/core/types"
	"tunnox-core/internal/packet"
	"tunnox-core/internal/protocol/session"
	"tunnox-core/internal/stream"
	"tunnox-core/verifharness/fw"
	"tunnox-core/verifharness/sched"
)

func yield() { runtime.Gosched() }

var streamAlt int // alternates the kind of in-flight I/O of successive stream rigs (behaviours are driven one at a time)

// latchKinds: the components whose Close is the dispose latch.
var latchKinds = []string{"dispose", "manager", "stream", "storage", "session", "mapping"}

type opSpec struct {
	name string
	fn   func() error
}

// latchRig is one component instance under test.
type latchRig struct {
	*base
	kind    string
	closeFn func()
	add     func(func() error)
	ops     []opSpec      // ops[0] is the guarded operation of the model's "op" process
	unblock func()        // unblock pending I/O after close
	io      func() string // the component's own read in flight (stream only); result class
	feed    func()        // lets its first read step complete
	pending chan string

	hmu     sync.Mutex
	closers map[int64]bool // goroutine -> has passed the entry hook once (nested Dispose.Close calls are not gated)
}

// handler makes clean-up action h: a gate, then the Ran event.
func (r *latchRig) handler(h string) func() error {
	return func() error {
		r.s.Gate("handler", map[string]any{"h": h})
		r.rec.add(fw.Event{"ev": "Ran", "h": h})
		r.s.After()
		return nil
	}
}

func (r *latchRig) reg(h string) { r.rec.add(fw.Event{"ev": "Reg", "h": h}) }

func probeDispose() {
	d := dispose.NewDisposeWithNoOp(context.Background())
	d.Close()
}

func newLatchRig(kind string, free bool, seed int64) *latchRig {
	r := &latchRig{base: newBase(free, seed), kind: kind, closers: map[int64]bool{}}
	ctx := r.ctx
	switch kind {
	case "dispose":
		d := dispose.NewDispose(ctx, r.handler("h1"))
		d.AddCleanHandler(r.handler("h2"))
		r.closeFn = func() { d.Close() }
		r.add = d.AddCleanHandler
		r.ops = []opSpec{
			{"IsClosed", func() error {
				if d.IsClosed() {
					return fmt.Errorf("closed")
				}
				return nil
			}},
			{"CloseWithError", func() error { return d.CloseWithError() }},
			{"GetErrors", func() error { d.GetErrors(); return nil }},
			{"AddCleanHandler", func() error { d.AddCleanHandler(func() error { return nil }); return nil }},
			{"SetCtx", func() error { d.SetCtx(ctx, nil); d.SetCtxWithNoOpOnClose(ctx); return nil }},
			{"Ctx", func() error {
				select {
				case <-d.Ctx().Done():
				default:
				}
				return nil
			}},
			{"Close", func() error { d.Close(); return nil }},
		}
	case "manager":
		m := dispose.NewManager("verif", ctx)
		m.AddCleanHandler(r.handler("h1"))
		m.AddCleanHandler(r.handler("h2"))
		r.closeFn = func() { m.Close() }
		r.add = m.AddCleanHandler
		r.ops = []opSpec{
			{"IsClosed", func() error {
				if m.IsClosed() {
					return fmt.Errorf("closed")
				}
				return nil
			}},
			{"Close", func() error { return m.Close() }},
			{"AddCleanHandler", func() error { m.AddCleanHandler(func() error { return nil }); return nil }},
			{"SetName", func() error { m.SetName("x"); m.GetName(); return nil }},
			{"Initialize", func() error { m.Initialize(ctx); return nil }},
		}
	case "stream":
		rd := &rw{memConn: newMemConn("rd"), rec: r.rec, what: "closeReader"}
		wr := &rw{memConn: newMemConn("wr"), rec: r.rec, what: "closeWriter"}
		sp := stream.NewStreamProcessor(rd, wr, ctx)
		sp.AddCleanHandler(r.handler("h1"))
		sp.AddCleanHandler(r.handler("h2"))
		r.reg("closeReader")
		r.reg("closeWriter")
		r.closeFn = func() { sp.Close() }
		r.add = sp.AddCleanHandler
		hb := &packet.TransferPacket{PacketType: packet.Heartbeat}
		r.ops = []opSpec{
			{"WritePacket", func() error { _, err := sp.WritePacket(hb, false, 0); return err }},
			{"ReadPacket", func() error { _, _, err := sp.ReadPacket(); return err }},
			{"WriteExact", func() error { return sp.WriteExact([]byte("x")) }},
			{"ReadExact", func() error { _, err := sp.ReadExact(1); return err }},
			{"ReadAvailable", func() error { _, err := sp.ReadAvailable(8); return err }},
			{"CloseWithResult", func() error { sp.CloseWithResult(); return nil }},
			{"WritePacket:command", func() error {
				_, err := sp.WritePacket(&packet.TransferPacket{PacketType: packet.JsonCommand, CommandPacket: &packet.CommandPacket{CommandId: "c"}}, true, 0)
				return err
			}},
			{"WritePacket:ratelimited", func() error {
				_, err := sp.WritePacket(&packet.TransferPacket{PacketType: packet.TunnelData, Payload: []byte("abc")}, false, 1024)
				return err
			}},
			{"WritePacket:nil", func() error { _, err := sp.WritePacket(nil, false, 0); return err }},
			{"ReadExactZeroCopy", func() error { _, err := sp.ReadExactZeroCopy(4); return err }},
			{"GetReaderWriter", func() error { sp.GetReader(); sp.GetWriter(); return nil }},
			{"AddCleanHandler", func() error { sp.AddCleanHandler(func() error { return nil }); return nil }},
		}
		// the component's own I/O in flight, alternately a ReadPacket whose first Read (type byte) has
		// returned and a WritePacket whose first Write (type byte) is done; the gate sits between that and
		// the next read/write step of the same packet
		streamAlt++
		if streamAlt%2 == 1 {
			rd.afterData = func() { r.s.Gate("io.read", nil); r.s.After() }
			r.io = func() string {
				res := "error"
				if r.rec.guard("pendingRead", func() {
					if _, _, err := sp.ReadPacket(); err == nil {
						res = "ok"
					}
				}) {
					res = "panic"
				}
				return res
			}
			r.feed = func() { rd.inject([]byte{byte(packet.JsonCommand)}) }
		} else {
			var first sync.Once
			var ioGid atomic.Int64
			wr.afterData = func() {
				if goid() == ioGid.Load() { // only the in-flight WritePacket, not the model's "op" process
					first.Do(func() { r.s.Gate("io.read", nil); r.s.After() })
				}
			}
			cmd := &packet.TransferPacket{PacketType: packet.JsonCommand, CommandPacket: &packet.CommandPacket{CommandId: "c", CommandBody: "{}"}}
			r.io = func() string {
				res := "error"
				ioGid.Store(goid())
				if r.rec.guard("pendingWrite", func() {
					if _, err := sp.WritePacket(cmd, false, 0); err == nil {
						res = "ok"
					}
				}) {
					res = "panic"
				}
				return res
			}
			r.feed = func() {}
		}
		r.unblock = func() { rd.memConn.Close(); wr.memConn.Close() }
	case "storage":
		st := memory.New(ctx)
		st.StartCleanup(2 * time.Millisecond)
		st.Set("k", "v", 0)
		st.AddCleanHandler(r.handler("h1"))
		st.AddCleanHandler(r.handler("h2"))
		r.closeFn = func() { st.Close() }
		r.add = st.AddCleanHandler
		r.ops = []opSpec{
			{"Get", func() error { _, err := st.Get("k"); return err }},
			{"Set", func() error { return st.Set("k2", "v", 0) }},
			{"Exists", func() error { _, err := st.Exists("k"); return err }},
			{"Delete", func() error { return st.Delete("k") }},
			{"SetNX", func() error { _, err := st.SetNX("nx", "v", 0); return err }},
			{"CompareAndSwap", func() error { _, err := st.CompareAndSwap("k", "v", "w", 0); return err }},
			{"GetList", func() error { _, err := st.GetList("l"); return err }},
			{"AppendToList", func() error { return st.AppendToList("l2", "a") }},
			{"RemoveFromList", func() error { return st.RemoveFromList("l", "a") }},
			{"SetHash", func() error { return st.SetHash("h", "f", "v") }},
			{"GetHash", func() error { _, err := st.GetHash("h", "f"); return err }},
			{"GetAllHash", func() error { _, err := st.GetAllHash("h"); return err }},
			{"DeleteHash", func() error { return st.DeleteHash("h", "f") }},
			{"Incr", func() error { _, err := st.Incr("ctr"); return err }},
			{"SetExpiration", func() error { return st.SetExpiration("k", time.Hour) }},
			{"GetExpiration", func() error { _, err := st.GetExpiration("k"); return err }},
			{"CleanupExpired", func() error { return st.CleanupExpired() }},
			{"QueryByPrefix", func() error { _, err := st.QueryByPrefix("k", 0); return err }},
			{"ZAdd", func() error { return st.ZAdd("z", "m", 1) }},
			{"ZCard", func() error { _, err := st.ZCard("z"); return err }},
			{"SetList", func() error { return st.SetList("l3", []any{"a"}, 0) }},
			{"ZRem", func() error { return st.ZRem("z", "m") }},
			{"ZRangeByScore", func() error { _, err := st.ZRangeByScore("z", 0, 9); return err }},
			{"ZRemRangeByScore", func() error { _, err := st.ZRemRangeByScore("z", 0, 9); return err }},
			{"ZScore", func() error { _, _, err := st.ZScore("z", "m"); return err }},
			{"IncrBy", func() error { _, err := st.IncrBy("ctr2", 5); return err }},
			{"Watch", func() error { st.Watch("k", func(any) {}); return st.Unwatch("k") }},
			{"AddCleanHandler", func() error { st.AddCleanHandler(func() error { return nil }); return nil }},
			{"StartStopCleanup", func() error { st.StartCleanup(2 * time.Millisecond); st.StopCleanup(); return nil }},
			{"Close", func() error { return st.Close() }},
		}
	case "session":
		sm := session.NewSessionManagerWithConfig(idgen.NewIDManager(storage.NewMemoryStorage(ctx), ctx), ctx, &session.SessionConfig{
			HeartbeatTimeout: time.Hour, CleanupInterval: 2 * time.Millisecond, MaxConnections: 10, MaxControlConnections: 10})
		sm.AddCleanHandler(r.handler("h1"))
		sm.AddCleanHandler(r.handler("h2"))
		// connections that exist before the shutdown: a raw one, a control one, a tunnel one
		pre := newMemConn("pre")
		preID := ""
		if sc, err := sm.AcceptConnection(pre, pre); err == nil {
			preID = sc.ID
			sm.RegisterControlConnection(session.NewControlConnection(preID, sc.Stream, pre.RemoteAddr(), "tcp"))
		}
		pre2 := newMemConn("pre2")
		if sc, err := sm.AcceptConnection(pre2, pre2); err == nil {
			sm.RegisterTunnelConnection(session.NewTunnelConnection(sc.ID, sc.Stream, pre2.RemoteAddr(), "tcp"))
		}
		r.unblock = func() { pre.Close(); pre2.Close() }
		r.closeFn = func() { sm.Close() }
		r.add = sm.AddCleanHandler
		pkt := func(t packet.Type, payload string, cmd *packet.CommandPacket) *packet.TransferPacket {
			return &packet.TransferPacket{PacketType: t, Payload: []byte(payload), CommandPacket: cmd}
		}
		hs := `{"client_id":12345678,"token":"x","version":"1","protocol":"tcp","connection_type":"control"}`
		to := `{"tunnel_id":"t-1","mapping_id":"pm-1","secret_key":"k"}`
		r.ops = []opSpec{
			{"IsClosed", func() error {
				if sm.IsClosed() {
					return fmt.Errorf("closed")
				}
				return nil
			}},
			// a listener that is still accepting hands over a new connection
			{"AcceptConnection", func() error {
				c := newMemConn("late")
				defer c.Close()
				_, err := sm.AcceptConnection(c, c)
				return err
			}},
			{"CreateConnection", func() error {
				c := newMemConn("late")
				defer c.Close()
				_, err := sm.CreateConnection(c, c)
				return err
			}},
			{"AcceptThenClose", func() error {
				c := newMemConn("late")
				defer c.Close()
				sc, err := sm.AcceptConnection(c, c)
				if err != nil {
					return err
				}
				return sm.CloseConnection(sc.ID)
			}},
			{"RegisterControlConnection", func() error {
				c := newMemConn("late")
				defer c.Close()
				sm.RegisterControlConnection(session.NewControlConnection("late-ctl", stream.NewStreamProcessor(c, c, ctx), c.RemoteAddr(), "tcp"))
				return nil
			}},
			{"RegisterTunnelConnection", func() error {
				c := newMemConn("late")
				defer c.Close()
				sm.RegisterTunnelConnection(session.NewTunnelConnection("late-tun", stream.NewStreamProcessor(c, c, ctx), c.RemoteAddr(), "tcp"))
				return nil
			}},
			{"UpdateControlConnectionAuth", func() error { return sm.UpdateControlConnectionAuth(preID, 12345678, "u") }},
			{"UpdateTunnelConnectionAuth", func() error { return sm.UpdateTunnelConnectionAuth(preID, "t-1", "pm-1") }},
			{"UpdateConnectionState", func() error { return sm.UpdateConnectionState(preID, types.StateConnected) }},
			{"CloseConnection:pre", func() error { return sm.CloseConnection(preID) }},
			{"CloseConnection:unknown", func() error { return sm.CloseConnection("nope") }},
			{"RemoveControlConnection", func() error { sm.RemoveControlConnection(preID); return nil }},
			{"RemoveTunnelConnection", func() error { sm.RemoveTunnelConnection(preID); return nil }},
			{"KickOldControlConnection", func() error { sm.KickOldControlConnection(12345678, "other"); return nil }},
			{"MarkTunnelClosed", func() error { sm.MarkTunnelClosed("t-1"); sm.IsTunnelClosed("t-1"); return nil }},
			{"GetConnection", func() error {
				sm.GetConnection(preID)
				sm.ListConnections()
				sm.GetActiveConnections()
				sm.GetActiveChannels()
				return nil
			}},
			{"GetConnectionStats", func() error { sm.GetConnectionStats(); return nil }},
			{"GetControlConnection", func() error {
				sm.GetControlConnection(preID)
				sm.GetControlConnectionByClientID(12345678)
				sm.GetClientIDByConnectionID(preID)
				sm.GetTunnelConnectionByConnID(preID)
				sm.GetTunnelConnectionByTunnelID("t-1")
				return nil
			}},
			{"NotifyClientUpdate", func() error { sm.NotifyClientUpdate(12345678); return nil }},
			{"DeliverCommandResponse", func() error { sm.DeliverCommandResponse("c-1", &packet.CommandPacket{CommandId: "c-1"}); return nil }},
			{"SendCommandToClient", func() error {
				_, err := sm.SendCommandToClient(ctx, 12345678, &packet.CommandPacket{CommandType: packet.ConfigGet, CommandId: "c-2"}, 20*time.Millisecond)
				return err
			}},
			{"SetEventBus", func() error { return sm.SetEventBus(events.NewEventBus(ctx)) }},
			// packets of every kind, on a connection that existed before the shutdown and on an unknown one
			{"HandlePacket:nil", func() error { return sm.HandlePacket(nil) }},
			{"HandlePacket:Heartbeat:pre", func() error { return sm.ProcessPacket(preID, pkt(packet.Heartbeat, "", nil)) }},
			{"HandlePacket:Heartbeat:new", func() error { return sm.ProcessPacket("nope", pkt(packet.Heartbeat, "", nil)) }},
			{"HandlePacket:Handshake:pre", func() error { return sm.ProcessPacket(preID, pkt(packet.Handshake, hs, nil)) }},
			{"HandlePacket:Handshake:new", func() error { return sm.ProcessPacket("nope", pkt(packet.Handshake, hs, nil)) }},
			{"HandlePacket:Handshake:garbage", func() error { return sm.ProcessPacket(preID, pkt(packet.Handshake, "{", nil)) }},
			{"HandlePacket:TunnelOpen:pre", func() error { return sm.ProcessPacket(preID, pkt(packet.TunnelOpen, to, nil)) }},
			{"HandlePacket:TunnelOpen:new", func() error { return sm.ProcessPacket("nope", pkt(packet.TunnelOpen, to, nil)) }},
			{"HandlePacket:JsonCommand:pre", func() error {
				return sm.ProcessPacket(preID, pkt(packet.JsonCommand, "", &packet.CommandPacket{CommandType: packet.HeartbeatCmd, CommandId: "c-3"}))
			}},
			{"HandlePacket:JsonCommand:new", func() error {
				return sm.ProcessPacket("nope", pkt(packet.JsonCommand, "", &packet.CommandPacket{CommandType: packet.ConfigGet, CommandId: "c-4"}))
			}},
			{"HandlePacket:JsonCommand:nocmd", func() error { return sm.ProcessPacket(preID, pkt(packet.JsonCommand, "", nil)) }},
			{"HandlePacket:CommandResp:pre", func() error {
				return sm.ProcessPacket(preID, pkt(packet.CommandResp, "", &packet.CommandPacket{CommandType: packet.ConfigGet, CommandId: "c-5"}))
			}},
			{"HandlePacket:TunnelData:pre", func() error { return sm.ProcessPacket(preID, pkt(packet.TunnelData, "xx", nil)) }},
			{"Close", func() error { return sm.Close() }},
		}
	case "mapping":
		ad := &madapter{rec: r.rec, closed: make(chan struct{})}
		h := mapping.NewBaseMappingHandler(&mclient{ctx: ctx, rec: r.rec},
			config.MappingConfig{MappingID: "pm-1", Protocol: "tcp", LocalPort: 1, TargetClientID: 9}, ad)
		h.AddCleanHandler(r.handler("h1"))
		h.AddCleanHandler(r.handler("h2"))
		r.reg("adapterClose")
		if err := h.Start(); err != nil {
			panic(err)
		}
		r.closeFn = func() { h.Stop() }
		r.add = h.AddCleanHandler
		r.ops = []opSpec{
			{"IsClosed", func() error {
				if h.IsClosed() {
					return fmt.Errorf("closed")
				}
				return nil
			}},
			{"Stop", func() error { h.Stop(); return nil }},
			{"GetTunnelManager.Close", func() error { return h.GetTunnelManager().Close() }},
			{"Start", func() error { return h.Start() }},
			{"GetTunnelManager.RegisterTunnel", func() error {
				t := tunnel.NewTunnel(&tunnel.TunnelConfig{ID: "late", Manager: h.GetTunnelManager()})
				if err := h.GetTunnelManager().RegisterTunnel(t); err != nil {
					return err
				}
				h.GetTunnelManager().CloseAll()
				return nil
			}},
			{"GetTunnelManager.OnTunnelClosed", func() error { h.GetTunnelManager().OnTunnelClosed("nope", "pm-1", "x", 0, 0, 0); return nil }},
			{"SendTunnelCloseNotify", func() error { return h.SendTunnelCloseNotify(9, "t", "pm-1", "x") }},
			{"Accessors", func() error { h.GetMappingID(); h.GetProtocol(); h.GetConfig(); h.GetContext(); return nil }},
		}
	default:
		panic("kind " + kind)
	}
	r.reg("h1")
	r.reg("h2")
	return r
}

var _ = tunnel.TunnelRoleListen

// startIO starts the component's own read as process "io" (gated) or as a plain goroutine (free-running).
func (r *latchRig) startIO() string {
	if r.io == nil {
		return ""
	}
	r.pending = make(chan string, 1)
	r.feed()
	if r.free {
		go func() { r.pending <- r.io() }()
		return sched.Running
	}
	return r.s.Start("io", func() any { r.pending <- r.io(); return nil })
}

// hook handler of the latch scene: a closer process parks at the entry of ITS Close call; nested
// Dispose.Close calls made by clean-up handlers, and goroutines of the component, pass.
func (r *latchRig) hook(name string) {
	if name != hpDispose {
		return
	}
	id := goid()
	r.hmu.Lock()
	first, isCloser := r.closers[id]
	if isCloser && first {
		r.closers[id] = false
	}
	r.hmu.Unlock()
	if isCloser && first {
		r.s.Gate(hpDispose, nil)
	}
}

func (r *latchRig) closer() func() {
	return func() {
		r.hmu.Lock()
		r.closers[goid()] = true
		r.hmu.Unlock()
		r.closeFn()
	}
}

// finish: everything has been released; final Close by the driver (idempotence), unblock pending I/O,
// operations after close, goroutine check.
func (r *latchRig) finish(withOps bool) *fw.Trace {
	// release everything that is parked (from here on every gate only passes), then close once more
	// from the driver (idempotence; it also ends a read in flight that no closer of the behaviour ended)
	r.s.Drain(time.Millisecond)
	setHook(nil)
	r.rec.add(fw.Event{"ev": "CloseCall", "p": "z"})
	r.rec.guard("Close", r.closeFn)
	r.rec.add(fw.Event{"ev": "CloseRet", "p": "z"})
	if r.unblock != nil {
		r.unblock()
	}
	if !r.s.Drain(8 * time.Second) {
		return &fw.Trace{Status: fw.DriverError, Note: r.kind + ": processes did not finish: " + fmt.Sprint(r.s.Procs())}
	}
	if r.pending != nil {
		select {
		case res := <-r.pending:
			if res == "panic" {
				res = "error" // already logged as Panic
			}
			r.rec.add(fw.Event{"ev": "Op", "op": "pendingIO", "res": res})
		case <-time.After(opTimeout):
			r.rec.add(fw.Event{"ev": "Op", "op": "pendingIO", "res": "hang"})
		}
	}
	if withOps {
		good := goodOps(r.kind)
		for _, o := range r.ops {
			if good[o.name] {
				r.runOp(o.name, o.fn)
			}
		}
	}
	r.quiesce(r.kind, false, 0)
	r.cancel()
	return r.trace(r.kind, true)
}

// opNames lists the operations of a component kind that say something about Close: every operation is first
// tried on an instance that is NOT closed; one that panics there as well (a dependency the rig does not
// configure) is left out everywhere. Operations that merely block on an open instance (reads) stay.
var (
	opsMu   sync.Mutex
	opsGood = map[string]map[string]bool{}
)

func goodOps(kind string) map[string]bool {
	opsMu.Lock()
	defer opsMu.Unlock()
	if g, ok := opsGood[kind]; ok {
		return g
	}
	g := map[string]bool{}
	probe := newLatchRig(kind, true, 0)
	var names []string
	for _, o := range probe.ops {
		names = append(names, o.name)
	}
	probe.closeFn()
	if probe.unblock != nil {
		probe.unblock()
	}
	probe.cancel()
	for _, name := range names {
		ctl := newLatchRig(kind, true, 0)
		for _, o := range ctl.ops {
			if o.name != name {
				continue
			}
			done := make(chan string, 1)
			go func() { _, what := quiet(func() { o.fn() }); done <- what }()
			what := ""
			select {
			case what = <-done:
			case <-time.After(60 * time.Millisecond): // blocks while the component is open: fine
			}
			g[name] = what == ""
		}
		ctl.closeFn()
		if ctl.unblock != nil {
			ctl.unblock()
		}
		ctl.cancel()
	}
	opsGood[kind] = g
	return g
}

func opNames(kind string) []string {
	g := goodOps(kind)
	var out []string
	for n, ok := range g {
		if ok {
			out = append(out, n)
		}
	}
	sort.Strings(out)
	return out
}

// driveOps: close a fresh component once, then invoke ONE operation on it (each operation meets the
// state Close left behind, not what an earlier operation repaired).
func driveOps(beh behaviour, seed int64) *fw.Trace {
	r := newLatchRig(beh.Comp, true, seed)
	r.rec.add(fw.Event{"ev": "CloseCall", "p": "c1"})
	r.rec.guard("Close", r.closeFn)
	r.rec.add(fw.Event{"ev": "CloseRet", "p": "c1"})
	for _, o := range r.ops {
		if o.name == beh.Op {
			r.runOp(o.name, o.fn)
		}
	}
	return r.finish(false)
}

func driveLatch(beh behaviour, seed int64) *fw.Trace {
	if beh.Free {
		return driveLatchFree(beh, seed)
	}
	if !hooks.dispose {
		return &fw.Trace{Status: fw.Unrealisable, Note: "hook point " + hpDispose + " absent in this tree"}
	}
	r := newLatchRig(beh.Comp, false, seed)
	setHook(r.hook)
	for i, st := range beh.Steps {
		if st.P == "w" {
			continue // the worker goroutine ends by itself
		}
		switch st.A {
		case "Call":
			if state := r.startClose(st.P, r.closer()); state != sched.Parked {
				return r.unreal(i, "%s did not park at the entry hook (%s)", st.P, r.where(st.P))
			}
		case "Latch":
			if !r.waitParkedAt(st.P, hpDispose) {
				return r.unreal(i, "%s is %s, model expects the entry hook", st.P, r.where(st.P))
			}
			ns, _ := r.s.Step(st.P)
			if st.R && ns != sched.Done {
				return r.unreal(i, "%s should have returned (closed already), is %s", st.P, r.where(st.P))
			}
			if !st.R && !(ns == sched.Parked && r.at(st.P) == "handler") {
				return r.unreal(i, "%s should run the handlers, is %s", st.P, r.where(st.P))
			}
		case "Add":
			r.add(r.handler("h3"))
			r.reg("h3")
		case "OpCall":
			o := r.ops[0]
			st := st
			state := r.withWatchdog(st.W, func() string {
				return r.s.Start("op", func() any { r.runOp(o.name, o.fn); return nil })
			})
			if st.W && state != sched.Blocked {
				return r.unreal(i, "operation did not wait for the Close in progress (%s)", state)
			}
			if !st.W && state != sched.Done {
				return r.unreal(i, "operation did not return (%s)", state)
			}
		case "OpCheck", "IoEnd":
			// silent: goes on by itself when the latch is free / the reader was closed
		case "IoCall":
			if r.io == nil {
				continue // only the stream processor has a read of its own to keep in flight
			}
			state := r.startIO()
			if st.R && state != sched.Done {
				return r.unreal(i, "the read should have been refused (closed), is %s", r.where("io"))
			}
			if !st.R && !(state == sched.Parked && r.at("io") == "io.read") {
				return r.unreal(i, "the read should be between two read steps, is %s", r.where("io"))
			}
		case "IoNext":
			if r.io == nil {
				continue
			}
			if !r.waitParkedAt("io", "io.read") {
				return r.unreal(i, "the read is %s, model expects it between two read steps", r.where("io"))
			}
			r.withWatchdog(!st.R, func() string { s, _ := r.s.Step("io"); return s }) // it goes on to block in its next Read
		default:
			if len(st.A) > 4 && st.A[:4] == "Run:" {
				h := st.A[4:]
				stt, at := r.s.State(st.P)
				if stt != sched.Parked || at.Point != "handler" || at.Info["h"] != h {
					return r.unreal(i, "%s is %s %v, model expects handler %s", st.P, r.where(st.P), at.Info, h)
				}
				ns, _ := r.s.Step(st.P)
				if st.R && ns != sched.Done {
					return r.unreal(i, "%s should have returned after %s, is %s", st.P, h, r.where(st.P))
				}
				if !st.R && ns != sched.Parked {
					return r.unreal(i, "%s should be at the next handler after %s, is %s", st.P, h, r.where(st.P))
				}
				continue
			}
			return &fw.Trace{Status: fw.DriverError, Note: "latch: unknown action " + st.A}
		}
	}
	return r.finish(false)
}

func (b *base) at(name string) string {
	_, at := b.s.State(name)
	return at.Point
}

// driveLatchFree: N closers, an adder and an operation are released at once; every gate (entry
// hook, handlers) injects a seeded delay.
func driveLatchFree(beh behaviour, seed int64) *fw.Trace {
	r := newLatchRig(beh.Comp, true, seed)
	rnd := fw.NewRand(seed ^ 0x5eed)
	var mu sync.Mutex
	setHook(func(name string) { jitter(rnd, &mu) })
	startGun := make(chan struct{})
	var wg sync.WaitGroup
	for i := 0; i < beh.Closers; i++ {
		p := fmt.Sprintf("c%d", i+1)
		wg.Add(1)
		go func() {
			defer wg.Done()
			<-startGun
			jitter(rnd, &mu)
			r.rec.add(fw.Event{"ev": "CloseCall", "p": p})
			r.rec.guard("Close", r.closeFn)
			r.rec.add(fw.Event{"ev": "CloseRet", "p": p})
		}()
	}
	wg.Add(2)
	go func() {
		defer wg.Done()
		<-startGun
		jitter(rnd, &mu)
		// no Reg: a handler added while closers are running carries no exactly-once demand (at most once still holds)
		r.add(r.handler("h3"))
	}()
	go func() {
		defer wg.Done()
		<-startGun
		jitter(rnd, &mu)
		r.runOp(r.ops[0].name, r.ops[0].fn)
	}()
	if r.io != nil && beh.Seed%2 == 0 {
		wg.Add(1)
		go func() {
			defer wg.Done()
			<-startGun
			jitter(rnd, &mu)
			r.startIO()
		}()
	}
	close(startGun)
	done := make(chan struct{})
	go func() { wg.Wait(); close(done) }()
	if t := awaitFree(done, r.kind+": free-running closers"); t != nil {
		return t
	}
	return r.finish(beh.Seed%8 == 0)
}

// ---- latch hammer ------------------------------------------------------------------------------------
//
// N persistent closer goroutines are released together by a spin barrier (atomic generation counter,
// Gosched in the spin) onto a fresh instance of the component, round after round within a time box:
// the schedule in which several closers are inside Dispose.Close at the same instant, which neither
// one-at-a-time release from the entry hook nor loosely started goroutines produce. Per round the
// number of runs of every clean-up action is logged (Round event).

type hammerInst struct {
	close   func()
	counts  func() map[string]any
	release func() // after the round
}

type countCloser struct{ n atomic.Int32 }

func (c *countCloser) Read(p []byte) (int, error)  { return 0, io.EOF }
func (c *countCloser) Write(p []byte) (int, error) { return len(p), nil }
func (c *countCloser) Close() error                { c.n.Add(1); return nil }

func newHammerInst(kind string, ctx context.Context) *hammerInst {
	var h1, h2 atomic.Int32
	f1 := func() error { h1.Add(1); return nil }
	f2 := func() error { h2.Add(1); return nil }
	base := func() map[string]any { return map[string]any{"h1": int(h1.Load()), "h2": int(h2.Load())} }
	switch kind {
	case "dispose":
		d := dispose.NewDispose(ctx, f1)
		d.AddCleanHandler(f2)
		return &hammerInst{close: func() { d.Close() }, counts: base}
	case "manager":
		m := dispose.NewManager("verif", ctx)
		m.AddCleanHandler(f1)
		m.AddCleanHandler(f2)
		return &hammerInst{close: func() { m.Close() }, counts: base}
	case "stream":
		rd, wr := &countCloser{}, &countCloser{}
		sp := stream.NewStreamProcessor(rd, wr, ctx)
		sp.AddCleanHandler(f1)
		sp.AddCleanHandler(f2)
		return &hammerInst{close: func() { sp.Close() }, counts: func() map[string]any {
			m := base()
			m["closeReader"], m["closeWriter"] = int(rd.n.Load()), int(wr.n.Load())
			return m
		}}
	case "storage":
		st := memory.New(ctx)
		st.StartCleanup(time.Millisecond)
		st.AddCleanHandler(f1)
		st.AddCleanHandler(f2)
		return &hammerInst{close: func() { st.Close() }, counts: base}
	case "session":
		sm := session.NewSessionManagerWithConfig(nil, ctx, &session.SessionConfig{
			HeartbeatTimeout: time.Hour, CleanupInterval: time.Millisecond, MaxConnections: 10, MaxControlConnections: 10})
		sm.AddCleanHandler(f1)
		sm.AddCleanHandler(f2)
		return &hammerInst{close: func() { sm.Close() }, counts: base}
	case "mapping":
		var ac atomic.Int32
		ad := &madapter{rec: &rec{}, closed: make(chan struct{})}
		h := mapping.NewBaseMappingHandler(&mclient{ctx: ctx, rec: &rec{}},
			config.MappingConfig{MappingID: "pm-1", Protocol: "tcp", LocalPort: 1, TargetClientID: 9}, &countingAdapter{madapter: ad, n: &ac})
		h.AddCleanHandler(f1)
		h.AddCleanHandler(f2)
		return &hammerInst{close: func() { h.Stop() }, counts: func() map[string]any {
			m := base()
			m["adapterClose"] = int(ac.Load())
			return m
		}}
	}
	panic("kind " + kind)
}

type countingAdapter struct {
	*madapter
	n *atomic.Int32
}

func (a *countingAdapter) Close() error { a.n.Add(1); return a.madapter.Close() }

func driveHammer(beh behaviour, seed int64) *fw.Trace {
	b := newBase(true, seed)
	n := beh.Closers
	var gen, finished atomic.Int64
	var cur atomic.Pointer[hammerInst]
	var stop atomic.Bool
	var wg sync.WaitGroup
	for i := 0; i < n; i++ {
		wg.Add(1)
		go func() {
			defer wg.Done()
			seen := int64(0)
			for {
				for gen.Load() == seen { // spin barrier
					if stop.Load() {
						return
					}
					yield()
				}
				seen = gen.Load()
				inst := cur.Load()
				b.rec.guard("Close", inst.close)
				finished.Add(1)
			}
		}()
	}
	deadline := time.Now().Add(time.Duration(beh.Ms) * time.Millisecond)
	rounds := 0
	for rounds < beh.Rounds && time.Now().Before(deadline) {
		inst := newHammerInst(beh.Comp, b.ctx)
		cur.Store(inst)
		finished.Store(0)
		gen.Add(1)
		t0 := time.Now()
		for finished.Load() < int64(n) {
			if time.Since(t0) > 10*time.Second {
				stop.Store(true)
				return &fw.Trace{Status: fw.DriverError, Note: beh.Comp + ": hammer closers did not return"}
			}
			yield()
		}
		b.rec.add(fw.Event{"ev": "Round", "counts": inst.counts()})
		rounds++
	}
	stop.Store(true)
	wg.Wait()
	b.rec.add(fw.Event{"ev": "CloseCall", "p": "z"})
	b.rec.add(fw.Event{"ev": "CloseRet", "p": "z"})
	b.quiesce(beh.Comp, false, 0)
	b.cancel()
	return b.trace(beh.Comp, true)
}
