package main

import (
	"bytes"
	"runtime"
	"sort"
	"strconv"
	"strings"
	"time"
)

// goroutine-leak oracle: a dump of all goroutines is taken before a component is constructed
// (baseline) and after it was closed and its pending I/O unblocked. A goroutine counts as left
// behind by the component if it is not in the baseline, was *created by* code of a tunnox-core
// package (the "created by tunnox-core/internal/..." line of its stack - so goroutines the harness
// starts itself never count) and still exists after a grace period with retries.

const repoPrefix = "tunnox-core/internal/"

type gor struct {
	id   int64
	text string
}

func dumpGoroutines() []gor {
	buf := make([]byte, 256<<10)
	for {
		n := runtime.Stack(buf, true)
		if n < len(buf) {
			buf = buf[:n]
			break
		}
		buf = make([]byte, 2*len(buf))
	}
	var out []gor
	for _, blk := range bytes.Split(buf, []byte("\n\n")) {
		s := string(blk)
		if !strings.HasPrefix(s, "goroutine ") {
			continue
		}
		rest := s[len("goroutine "):]
		i := strings.IndexByte(rest, ' ')
		if i < 0 {
			continue
		}
		id, err := strconv.ParseInt(rest[:i], 10, 64)
		if err != nil {
			continue
		}
		out = append(out, gor{id: id, text: s})
	}
	return out
}

func goid() int64 {
	var buf [64]byte
	n := runtime.Stack(buf[:], false)
	b := buf[:n]
	b = b[len("goroutine "):]
	i := bytes.IndexByte(b, ' ')
	id, _ := strconv.ParseInt(string(b[:i]), 10, 64)
	return id
}

type baseline map[int64]bool

func takeBaseline() baseline {
	b := baseline{}
	for _, g := range dumpGoroutines() {
		b[g.id] = true
	}
	return b
}

// createdByRepo reports whether the goroutine was started by tunnox-core code.
func createdByRepo(g gor) bool {
	i := strings.LastIndex(g.text, "created by ")
	if i < 0 {
		return false
	}
	return strings.HasPrefix(g.text[i+len("created by "):], repoPrefix)
}

// topFrame returns the innermost tunnox-core function on the goroutine's stack (else the function
// that created it), without package prefix and arguments: the stable part of the detail key.
func topFrame(g gor) string {
	lines := strings.Split(g.text, "\n")
	for _, l := range lines[1:] {
		if strings.HasPrefix(l, repoPrefix) {
			return cleanFunc(l)
		}
	}
	for _, l := range lines {
		if strings.HasPrefix(l, "created by "+repoPrefix) {
			return cleanFunc(strings.TrimPrefix(l, "created by "))
		}
	}
	return "?"
}

func cleanFunc(l string) string {
	l = strings.TrimPrefix(l, repoPrefix)
	if i := strings.Index(l, " in goroutine"); i >= 0 {
		l = l[:i]
	}
	// drop the argument list: last '(' that is not part of a "(*T)" receiver
	if i := strings.LastIndex(l, "("); i > 0 && !strings.HasPrefix(l[i:], "(*") {
		l = l[:i]
	}
	return l
}

// leaked waits (up to grace, polling) for goroutines created by tunnox-core code that are not in
// the baseline to end, and returns those that persist.
func leaked(base baseline, grace time.Duration) (n int, top string, detail string) {
	return leakedOf(base, grace, "")
}

// leakedOf: the same, counting only goroutines whose stack mentions `only` (a package path; "" = all). Used by the
// cases whose component is kept alive across other behaviours (held.go): what those leave behind is theirs to report.
func leakedOf(base baseline, grace time.Duration, only string) (n int, top string, detail string) {
	deadline := time.Now().Add(grace)
	sleep := 200 * time.Microsecond
	var left []gor
	for {
		left = left[:0]
		for _, g := range dumpGoroutines() {
			if !base[g.id] && createdByRepo(g) && (only == "" || strings.Contains(g.text, only)) {
				left = append(left, g)
			}
		}
		if len(left) == 0 {
			return 0, "", ""
		}
		if time.Now().After(deadline) {
			break
		}
		time.Sleep(sleep)
		if sleep < 20*time.Millisecond {
			sleep *= 2
		}
	}
	var tops []string
	for _, g := range left {
		tops = append(tops, topFrame(g))
	}
	sort.Strings(tops)
	var d []string
	for _, g := range left {
		ls := strings.Split(g.text, "\n")
		if len(ls) > 9 {
			ls = ls[:9]
		}
		d = append(d, strings.Join(ls, " | "))
	}
	return len(left), tops[0], strings.Join(d, " || ")
}
