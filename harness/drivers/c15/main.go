// C15 driver: "generated identifiers are unique among live identifiers".
//
// Forces TLC-generated interleavings (spec/IdGen.tla, storage-operation granularity) on the real
// idgen.StorageIDGenerator[int64|string] / idgen.IDManager instances sharing one store double
// (SetNX-capable, SetNX-less, or real hybrid.Storage nodes over one shared-cache double) and on
// real node.NodeIDAllocator nodes over real hybrid.Storage, with crypto/rand.Reader scripted so
// that the candidate sequence is the one TLC chose. Generate/Release call/return events and the
// store's live markers are judged by spec/IdGenTrace.tla. uniq.go: the retry layer of the IDManager
// (GenerateUniqueXxxID with a caller-supplied check function) up to and beyond its attempt budget.
//
// Time: the allocator's 30 s renew ticker and 90 s claim TTL are compile-time constants with no
// constructor parameter and no exported renew function. The lease histories (claim - renewals with
// transient store faults - release / crash - expiry - next holder; behaviours with Clock "fake") are
// driven in VIRTUAL time in both tiers: inside a bubble of the Go runtime's fake clock
// (testing/synctest, bubble.go; the driver is built with GOEXPERIMENT=synctest, build.env). The
// older timed behaviours are driven with REAL waiting in the thorough tier only (about 2-4 min,
// all of them concurrently) - the cross-check of the virtual clock.
//
// Environment: VERIF_C15_SCOPE=all also demands cross-instance uniqueness on the store without
// SetNX (out of the property's scope by default, see inScope) - used to show that finding.
// VERIF_C15_REALLOC=1 lets allocators allocate again after Release in the lease models (see reallocOn).
// VERIF_C15_PROCS=n runs the gate-scheduled part on n Ps instead of 1 (see enterFree); VERIF_DEBUG=1
// prints drive time per behaviour class.
package main

import (
	"encoding/json"
	"fmt"
	"hash/fnv"
	"os"
	"runtime"
	"runtime/debug"
	"sort"
	"strconv"
	"strings"
	"sync"
	"sync/atomic"
	"time"

	corelog "tunnox-core/internal/core/log"
	"tunnox-core/verifharness/fw"
)

type step struct {
	P string `json:"p"`
	A string `json:"a"`
	C int    `json:"c"`
	R string `json:"r"`
	W bool   `json:"w"`
	G string `json:"g"`
}

type modelBeh struct {
	Lay string `json:"lay"`
	Tk  []int  `json:"tk"`
	Rp  []int  `json:"rp"` // uniq: candidates that exist in the caller's repository
	Fk  string `json:"fk"` // kind of store operation of which one fails in this behaviour ("none")
	Nx  bool   `json:"nx"` // gen: the store offers SetNX
	St  []step `json:"st"`
}

type behaviour struct {
	Kind    string `json:"kind"`  // gen | node | genfree | nodefree
	Store   string `json:"store"` // gen: cas | nocas | hybrid      node: split | same | local (wiring)
	API     string `json:"api,omitempty"`
	IDKind  string `json:"idkind,omitempty"`
	Lay     string `json:"lay,omitempty"`
	Tk      []int  `json:"tk"`
	Rp      []int  `json:"rp,omitempty"`      // uniq: candidates that exist in the caller's repository
	MaxU    int    `json:"maxu,omitempty"`    // uniq: attempt budget of the model (its last attempt is the code's 100th)
	Tail101 string `json:"tail101,omitempty"` // uniq: what a 101st draw of the random source gives: "fresh" | "repeat"
	St      []step `json:"st,omitempty"`
	NSlots  int    `json:"nslots,omitempty"`
	Timed   bool   `json:"timed,omitempty"`
	TTL0    bool   `json:"ttl0,omitempty"`  // generator built with marker TTL 0 ("until Release"); hybrid with a short default cache TTL
	Clock   string `json:"clock,omitempty"` // node, timed: "fake" = driven under the runtime's fake clock (bubble.go); "" = real waiting
	Tail    int    `json:"tail,omitempty"`  // fake clock: fault-free renew periods between the two closing allocations by fresh nodes
	MaxCF   int    `json:"maxcf,omitempty"` // fake clock: bound on failed renewals in a row per claim key (enforced by the fault injector)
	Src     string `json:"src,omitempty"`   // generation job of a timed behaviour (they are selected in ExtraBeh)
	Cat     string `json:"cat,omitempty"`
	Seed    int    `json:"seed,omitempty"`
	Procs   int    `json:"procs,omitempty"`
	Ops     int    `json:"ops,omitempty"`
	Univ    int    `json:"univ,omitempty"`
}

var uniqSeen, uniqLast atomic.Int64

var scopeAll = os.Getenv("VERIF_C15_SCOPE") == "all"

// VERIF_C15_REALLOC=1: the lease models let an allocator allocate again after its Release (IdGen.tla,
// Realloc). The code as it is then loses the heartbeat (stopCh stays closed): confirmed on the real
// code with this switch, but no call site of tunnox-core re-uses an allocator, so it is off by default.
var reallocOn = os.Getenv("VERIF_C15_REALLOC") == "1"

// Gate-scheduled driving is a strict hand-over between the driver goroutine and one process
// goroutine at a time, and every gate identifies its goroutine through runtime.Stack, which takes
// a runtime-global lock: measured, 16 concurrent Drive calls on 16 Ps are 3x SLOWER than on one P
// (futex storms). So the driver runs on one P (concurrent Drive calls still overlap their waits:
// watchdogs, the 30 s heartbeats of the timed allocator behaviours) and switches to 8 Ps only while
// free-running stress behaviours are active - those want real parallelism.
var (
	procMu     sync.Mutex
	freeActive int
)

var gatedProcs = func() int {
	if n, err := strconv.Atoi(os.Getenv("VERIF_C15_PROCS")); err == nil && n > 0 {
		return n
	}
	return 1
}()

// at most 4 free-running behaviours at a time (each has 3-5 busy goroutines)
var freeSem = make(chan struct{}, 4)

func enterFree() func() {
	freeSem <- struct{}{}
	procMu.Lock()
	freeActive++
	if freeActive == 1 {
		runtime.GOMAXPROCS(8)
	}
	procMu.Unlock()
	return func() {
		procMu.Lock()
		freeActive--
		if freeActive == 0 {
			runtime.GOMAXPROCS(gatedProcs)
		}
		procMu.Unlock()
		<-freeSem
	}
}

var (
	prefMu   sync.Mutex
	prefetch = map[string]chan *fw.Trace{}
)

func startEarly(env *fw.Env, data []byte) {
	var b behaviour
	if json.Unmarshal(data, &b) != nil || !b.Timed {
		return
	}
	ch := make(chan *fw.Trace, 1)
	prefMu.Lock()
	prefetch[string(data)] = ch
	prefMu.Unlock()
	go func() {
		defer func() {
			if r := recover(); r != nil {
				ch <- &fw.Trace{Status: fw.DriverError, Note: fmt.Sprintf("driver panic: %v", r)}
			}
		}()
		ch <- driveNode(env, &b)
	}()
}

var (
	timeMu  sync.Mutex
	timeBy  = map[string]time.Duration{}
	countBy = map[string]int{}
)

func drive(env *fw.Env, fb fw.Behaviour) *fw.Trace {
	var b behaviour
	if err := json.Unmarshal(fb.Data, &b); err != nil {
		return &fw.Trace{Status: fw.DriverError, Note: err.Error()}
	}
	if os.Getenv("VERIF_DEBUG") != "" {
		t0 := time.Now()
		defer func() {
			k := b.Kind + ":" + b.Store + ":" + b.Lay
			timeMu.Lock()
			timeBy[k] += time.Since(t0)
			countBy[k]++
			timeMu.Unlock()
		}()
	}
	// timed allocator behaviours were started when they were selected (extraBeh): they mostly wait
	// (30 s heartbeats, 90 s TTL, up to 4.5 min) and so overlap with the whole drive phase
	prefMu.Lock()
	ch := prefetch[string(fb.Data)]
	delete(prefetch, string(fb.Data))
	prefMu.Unlock()
	if ch != nil {
		return <-ch
	}
	switch b.Kind {
	case "gen":
		return driveGen(env, &b)
	case "uuid":
		return driveUUID(env, &b)
	case "uniq":
		return driveUniq(env, &b)
	case "genfree":
		defer enterFree()()
		return driveGenFree(env, &b)
	case "node":
		if b.Clock == "fake" {
			return inBubble(4*time.Minute, func() *fw.Trace { return driveNode(env, &b) })
		}
		return driveNode(env, &b)
	case "nodefree":
		defer enterFree()()
		return driveNodeFree(env, &b)
	}
	return &fw.Trace{Status: fw.DriverError, Note: "unknown behaviour kind " + b.Kind}
}

// ---- TLC jobs ---------------------------------------------------------------------------------

type mcfg struct {
	mode, procs, layouts, renew, wiring string
	faults                              string // kinds of store operation of which one may fail once
	maxRF                               int    // transient heartbeat failures per node
	maxCF                               int    // ... in a row (0 = the default 1: never two in a row)
	realloc                             bool   // node: an allocator may allocate again after its Release
	maxU                                int    // uniq: attempts of the manager's retry loop
	lapse                               bool   // gen: the Lapse action
	bothNX                              bool   // gen: one run over the SetNX store and the SetNX-less store
	hasNX                               bool
	ncands, maxAtt, maxCalls            int
	nslots, maxTicks                    int
}

func (c mcfg) job(name string, emit bool, invs string, workers int) fw.TLCJob {
	b := func(x bool) string {
		if x {
			return "TRUE"
		}
		return "FALSE"
	}
	if c.renew == "" {
		c.renew, c.wiring = "claim", "split"
	}
	if c.layouts == "" {
		c.layouts = `"distinct"`
	}
	nx := map[bool]string{true: "yes", false: "no"}[c.hasNX]
	if c.bothNX {
		nx = "both"
	}
	return fw.TLCJob{Name: name, Module: "IdGen", Cfg: "IdGen.cfg", Workers: workers, Consts: map[string]string{
		"MODE": c.mode, "PROCS": c.procs, "HASNX": nx, "NCANDS": fmt.Sprint(max(c.ncands, 1)),
		"MAXATT": fmt.Sprint(max(c.maxAtt, 1)), "MAXCALLS": fmt.Sprint(max(c.maxCalls, 1)), "LAYOUTS": c.layouts,
		"NSLOTS": fmt.Sprint(max(c.nslots, 1)), "RENEW": c.renew, "WIRING": c.wiring,
		"MAXTICKS": fmt.Sprint(c.maxTicks), "EMIT": b(emit), "INVS": invs, "FAULTS": c.faults,
		"MAXRF": fmt.Sprint(c.maxRF), "MAXCF": fmt.Sprint(max(c.maxCF, 1)), "REALLOC": b(c.realloc), "MAXU": fmt.Sprint(max(c.maxU, 1)), "STOPCHAN": map[bool]string{false: "once", true: "fresh"}[c.realloc], "LAPSE": b(c.lapse)}}
}

const uniqMaxU = 2 // attempt budget of the generated uniq behaviours (the driver stretches the last attempt to the code's 100th)

const (
	p2  = `"p1", "p2"`
	p3  = `"p1", "p2", "p3"`
	n2  = `"n1", "n2"`
	n3  = `"n1", "n2", "n3"`
	l2  = `"distinct", "same"`
	l3  = `"distinct", "same", "mixed"`
	inG = "Unique HeldDisjoint NoTaken HeldMarked Exhaustion"
	inF = "NoTaken Exhaustion FallbackOnlyDeviation"
	inN = "NodeUnique NoForeign ClaimNeverExpiresUnderLiveHolder NoWrongTier FailedHoldsNothing Unique HeldDisjoint HeartbeatRunsWhileLive LeaseMargin NoHeartbeatWithoutHolder"
	fG  = `"SetNX", "Delete"`         // one failing SetNX / Delete on the shared store
	fF  = `"Exists", "Set", "Delete"` // fallback path
	fN  = `"SetNX", "Entropy"`        // one failing SetNXRuntime during allocation | the UUID sub-model with an entropy-failure window
	fA  = `"SetNX", "Delete", "Exists", "Set"`
	fL  = `"SetNX", "Delete"` // lease histories: one failing SetNXRuntime (allocation) / Delete (Release) at any time
	inL = "NoForeign NodeOnlyDeviation"
	inU = "UniqOK"
)

// Quick tier: the exhaustive runs ARE the generation runs (Emit = TRUE, invariants on) to save JVM
// starts; thorough: larger exhaustive runs on their own.
func modelJobs(env *fw.Env) []fw.TLCJob {
	if env.Tier == "quick" {
		return nil
	}
	return []fw.TLCJob{
		mcfg{mode: "gen", procs: p3, layouts: l3, hasNX: true, ncands: 3, maxAtt: 2, maxCalls: 2}.job("mc:gen:setnx:3x3x2", false, inG, 16),
		mcfg{mode: "gen", procs: p3, layouts: l3, hasNX: true, ncands: 2, maxAtt: 2, maxCalls: 2, faults: fG}.job("mc:gen:setnx:3x2x2:faults", false, inG, 16),
		mcfg{mode: "gen", procs: p3, layouts: l3, hasNX: false, ncands: 2, maxAtt: 2, maxCalls: 2}.job("mc:gen:fallback:3x2x2", false, inF, 16),
		// the manager's retry layer: three candidates, budget of three attempts, a failing check function
		mcfg{mode: "uniq", procs: p2, layouts: l2, hasNX: true, ncands: 3, maxAtt: 2, maxCalls: 1, maxU: 3, faults: `"Check"`}.job("mc:uniq:2x3x1:u3", false, inU, 8),
		// the repaired allocator (renewal written where the claim lives), memory+redis wiring
		mcfg{mode: "node", procs: n3, nslots: 2, renew: "claim", wiring: "split", maxTicks: 5}.job("mc:node:timed:renew=claim:split", false, inN, 8),
		// redis mode (local cache IS the shared store): correct even with the old renewal
		mcfg{mode: "node", procs: n3, nslots: 2, renew: "local", wiring: "same", maxTicks: 5}.job("mc:node:timed:renew=local:same", false, inN, 8),
		// the allocator as it was on memory+redis: the only route to two live holders is the named deviation
		mcfg{mode: "node", procs: n3, nslots: 2, renew: "local", wiring: "split", maxTicks: 5}.job("mc:node:timed:renew=local:split(legacy)", false, inL, 8),
		// the lease over time with transient store faults: three nodes
		mcfg{mode: "node", procs: n3, nslots: 1, maxCalls: 1, renew: "claim", wiring: "split", maxTicks: 6, maxRF: 3, maxCF: 1, faults: fL}.job("mc:node:lease:3x1", false, inN, 8),
		mcfg{mode: "node", procs: n3, nslots: 2, maxCalls: 1, renew: "claim", wiring: "split", maxTicks: 5, maxRF: 2, maxCF: 1, faults: `"Delete"`}.job("mc:node:lease:3x2", false, inN, 8),
		// ... and allocators used again after Release, with a stop channel per allocation (repair C15-2)
		mcfg{mode: "node", procs: n2, nslots: 1, maxCalls: 2, renew: "claim", wiring: "split", maxTicks: 6, maxRF: 3, maxCF: 1, faults: `"Delete"`, realloc: true}.job("mc:node:lease:realloc:fresh", false, inN, 8),
	}
}

func genJobs(env *fw.Env) []fw.TLCJob {
	// To save JVM starts (they dominate the quick tier on a loaded machine) one run covers the store
	// with SetNX and the store without (hasnx chosen in Init), and the allocator run carries the
	// store-less UUID generators as a disjoint sub-model (initial states with fk = "Entropy").
	// The fault configurations contain every fault-free transition too (the fault is optional).
	faults := fG // quick: SetNX / Delete faults (fallback path: Delete only)
	if env.Tier == "thorough" {
		faults = fA
	}
	jobs := []fw.TLCJob{
		mcfg{mode: "gen", procs: p2, layouts: l2, bothNX: true, ncands: 2, maxAtt: 2, maxCalls: 2, faults: faults, lapse: true}.job("gen:both:2x2x2", true, "GenOK", 8),
		mcfg{mode: "node", procs: n3, nslots: 2, ncands: 6, maxCalls: 2, faults: fN}.job("gen:node:untimed", true, inN, 4),
	}
	// The lease of a node id over time (claim - heartbeat renewals - transient store faults - release /
	// crash - expiry - next holder): driven under the runtime's fake clock (bubble.go), so in both tiers.
	//   lease      two nodes contending for the slots, short horizon, every interleaving of Release / Crash /
	//              the other node's allocation with the periods, <= 3 failed renewals per node (never two in
	//              a row), one failing SetNX / Delete at any time
	//   lease:long one holder (quick) / two nodes (thorough) over a long horizon, <= 6 (5) failed renewals
	// (with VERIF_C15_REALLOC=1 the model is the one of the repaired allocator - a fresh stop channel per
	// allocation - so that what the code as it is does instead shows up as a departure and, judged, as the duplicate)
	// the retry layer of the IDManager (GenerateUniqueXxxID with the caller's check function): every pattern of
	// pre-existing markers and of ids that exist in the caller's repository, two callers on one / two managers
	if env.Tier == "quick" {
		jobs = append(jobs, mcfg{mode: "uniq", procs: p2, layouts: l2, hasNX: true, ncands: 2, maxAtt: 2, maxCalls: 1, maxU: uniqMaxU, faults: `"Check"`}.job("gen:uniq:2x2x1", true, inU, 1))
	} else {
		jobs = append(jobs, mcfg{mode: "uniq", procs: p2, layouts: l2, hasNX: true, ncands: 2, maxAtt: 2, maxCalls: 1, maxU: uniqMaxU, faults: `"Check"`}.job("gen:uniq:2x2x1:chk", true, inU, 4))
	}
	inLease, calls, horizon, lf := inN, 1, 6, fL
	if reallocOn {
		calls, horizon, lf = 2, 5, "" // (two allocations per allocator: a smaller horizon keeps the model the size of the default one)
	}
	if env.Tier == "quick" {
		jobs = append(jobs,
			mcfg{mode: "node", procs: n2, nslots: 1, maxCalls: calls, renew: "claim", wiring: "split", maxTicks: horizon, maxRF: 3, maxCF: 1, faults: lf, realloc: reallocOn}.job("gen:node:lease:s1", true, inLease, 1),
			mcfg{mode: "node", procs: `"n1"`, nslots: 1, maxCalls: calls, renew: "claim", wiring: "split", maxTicks: 14, maxRF: 6, maxCF: 1, realloc: reallocOn}.job("gen:node:lease:long:s1", true, inLease, 1))
		// (the larger lease models and the histories with real waiting are checked in the thorough tier)
		return jobs
	}
	jobs = append(jobs,
		mcfg{mode: "node", procs: n2, nslots: 2, maxCalls: calls, renew: "claim", wiring: "split", maxTicks: horizon - 2, maxRF: 2, maxCF: 1, faults: lf, realloc: reallocOn}.job("gen:node:lease:s2", true, inLease, 8),
		mcfg{mode: "node", procs: n2, nslots: 1, maxCalls: calls, renew: "claim", wiring: "split", maxTicks: 10, maxRF: 4, maxCF: 1, realloc: reallocOn}.job("gen:node:lease:long:s1", true, inLease, 4))
	jobs = append(jobs,
		mcfg{mode: "gen", procs: p2, layouts: l2, hasNX: true, ncands: 3, maxAtt: 3, maxCalls: 2}.job("gen:setnx:2x3x2:att3", true, inG, 8),
		mcfg{mode: "gen", procs: p3, layouts: l3, hasNX: true, ncands: 2, maxAtt: 2, maxCalls: 1}.job("gen:setnx:3x2x1", true, inG, 8),
		mcfg{mode: "gen", procs: p2, layouts: l2, hasNX: false, ncands: 3, maxAtt: 3, maxCalls: 2}.job("gen:fallback:2x3x2:att3", true, inF, 8),
		mcfg{mode: "gen", procs: p3, layouts: l3, hasNX: false, ncands: 2, maxAtt: 2, maxCalls: 1}.job("gen:fallback:3x2x1", true, inF, 8),
		mcfg{mode: "node", procs: n2, nslots: 2, renew: "claim", wiring: "split", maxTicks: 4}.job("gen:node:timed", true, inN, 8),
		mcfg{mode: "node", procs: n2, nslots: 2, renew: "local", wiring: "split", maxTicks: 4}.job("legacy:node:timed", true, inL, 8),
		// transient heartbeat failures (never two in a row, at most 3 per node), one contended slot
		mcfg{mode: "node", procs: n2, nslots: 1, maxCalls: 3, renew: "claim", wiring: "split", maxTicks: 8, maxRF: 3}.job("gen:node:renewfail:timed", true, inN, 8))
	return jobs
}

// ---- expansion --------------------------------------------------------------------------------

var apiKinds = [][2]string{{"gen", "client"}, {"gen", "user"}, {"mgr", "client"}, {"mgr", "user"}, {"mgr", "pmap"}, {"mgr", "node"}, {"gen", "pmap"}}

func hashOf(b []byte) int {
	h := fnv.New32a()
	h.Write(b)
	return int(h.Sum32() & 0x7fffffff)
}

var (
	stashMu   sync.Mutex
	stash     []behaviour // timed node behaviours; selected deterministically in ExtraBeh
	seenPlain = map[string]bool{}
)

func lapseAt(m *modelBeh) int {
	for i, s := range m.St {
		if s.A == "Lapse" {
			return i
		}
	}
	return -1
}

// renewFailCat: a holder survived three transient heartbeat failures, at least three healthy periods
// (= one claim TTL) have passed since the last one, and only then another node tries the slot.
func renewFailCat(m *modelBeh) bool {
	last := m.St[len(m.St)-1]
	if last.A != "Claim" {
		return false
	}
	fails, okAfter, gone := map[string]int{}, map[string]int{}, map[string]bool{}
	for _, s := range m.St {
		switch {
		case s.A == "Claim" && s.P == last.P:
			for h, f := range fails {
				if f >= 3 && okAfter[h] >= 3 && !gone[h] {
					return true
				}
			}
			return false
		case s.A == "Renew" && s.P != last.P && s.R == "fail":
			fails[s.P]++
			okAfter[s.P] = 0
		case s.A == "Renew" && s.P != last.P:
			okAfter[s.P]++
		case s.A == "CallRel" || s.A == "Crash":
			gone[s.P] = true
		}
	}
	return false
}

// timedCat classifies a timed node behaviour; "" = not worth 2 minutes of real time
func timedCat(m *modelBeh) string {
	if len(m.St) == 0 {
		return ""
	}
	if renewFailCat(m) {
		return "claim-after-transient-renew-failures"
	}
	for _, s := range m.St {
		if s.A == "Renew" && s.R == "fail" {
			return "" // other histories with heartbeat failures: 4 minutes each, not driven
		}
	}
	last := m.St[len(m.St)-1]
	if last.A != "Claim" || last.R != "ok" {
		return ""
	}
	renews := map[string]int{}
	expLive, expDead, crash := false, false, false
	firstClaim := -1 // first SetNX of the node whose allocation ends the behaviour
	third := -1      // third renewal of another node ...
	holder := ""     // ... which must still be alive at the end
	gone := map[string]bool{}
	for i, s := range m.St {
		switch s.A {
		case "Claim":
			if s.P == last.P && firstClaim < 0 {
				firstClaim = i
			}
		case "Renew":
			renews[s.P]++
			if s.P != last.P && renews[s.P] == 3 && third < 0 {
				third, holder = i, s.P
			}
		case "CallRel":
			gone[s.P] = true
		case "Crash":
			gone[s.P] = true
			crash = true
		case "Expire":
			if s.R == "live" {
				expLive = expLive || s.C == last.C
			} else {
				expDead = true
			}
		}
	}
	// the whole allocation happens after another node's third renewal, i.e. later than the claim TTL
	other3 := third >= 0 && third < firstClaim && !gone[holder]
	switch {
	case expLive:
		return "expired-under-live-holder"
	case expDead && crash:
		return "expired-after-crash"
	case expDead:
		return "" // expiry behind a pending Release: needs a call stalled for a whole TTL, not driven
	case other3:
		return "claim-after-3-renewals"
	}
	return ""
}

func expand(env *fw.Env, src string, raw json.RawMessage) []json.RawMessage {
	var m modelBeh
	if err := json.Unmarshal(raw, &m); err != nil {
		panic(err)
	}
	if len(m.St) == 0 {
		return nil
	}
	// a behaviour in which the fault has not happened is the same for every fault kind: drive it once
	faulty := false
	for _, s := range m.St {
		if s.R == "fretry" || s.R == "ferr" || s.R == "fault" {
			faulty = true
		}
	}
	if !faulty {
		m.Fk = "none"
		k := src + string(fw.MustJSON(m))
		stashMu.Lock()
		dup := seenPlain[k]
		seenPlain[k] = true
		stashMu.Unlock()
		if dup {
			return nil
		}
		raw = fw.MustJSON(m)
	}
	h := hashOf(raw)
	var out []json.RawMessage
	switch {
	case strings.HasSuffix(src, "node:timed") || strings.HasSuffix(src, ":timed"):
		if cat := timedCat(&m); cat != "" {
			ns := 2
			if strings.Contains(src, "renewfail") {
				ns = 1
			}
			stashMu.Lock()
			stash = append(stash, behaviour{Kind: "node", Store: "split", Tk: m.Tk, St: m.St, NSlots: ns, Timed: true, Src: src, Cat: cat})
			stashMu.Unlock()
		}
	case strings.HasPrefix(src, "gen:uniq"):
		// the code answers a FAILING check function with "assume the id is free" (IdGen_show_checkerr.cfg: deliberate): those
		// behaviours are driven too, the returned id is accepted (Ret.assumed) - what the call leaves behind is judged
		cand := map[string]int{}
		chkErr := false
		last := false // some call reaches the model's last attempt: the part of the budget that matters
		att := map[string]int{}
		for _, s := range m.St {
			switch {
			case s.A == "UCall":
				cand[s.P], att[s.P] = s.C, 1
			case (s.A == "UNX" || s.A == "URel") && s.R == "retry":
				cand[s.P] = s.C
				if s.A == "URel" {
					att[s.P]++
					last = last || att[s.P] == uniqMaxU
				}
			case s.A == "UChk" && s.R == "ferr":
				chkErr = true
			}
		}
		uniqSeen.Add(1)
		if last {
			uniqLast.Add(1)
		}
		// quick: a fixed selection (by content hash, not by seed): every tenth behaviour that reaches the last attempt,
		// every twelfth of the others, one id kind each; thorough: every fourth of the former for ALL id kinds of the manager
		apis := []string{uniqAPIs[h/16%len(uniqAPIs)]}
		switch {
		case env.Tier == "quick" && (chkErr && h%8 != 0 || !chkErr && (last && h%10 != 0 || !last && h%12 != 0)):
			return nil
		case env.Tier != "quick" && last && h%4 != 0:
			return nil
		case env.Tier != "quick" && last:
			apis = uniqAPIs
		}
		for i, a := range apis {
			out = append(out, fw.MustJSON(behaviour{Kind: "uniq", Store: []string{"cas", "hybrid"}[(h/8+i)%2], API: a, Lay: m.Lay, Tk: m.Tk, Rp: m.Rp, St: m.St,
				MaxU: uniqMaxU, Tail101: []string{"fresh", "repeat"}[(h/64+i)%2]}))
		}
	case strings.HasPrefix(src, "gen:node:lease"):
		// lease histories, fake clock. NSlots of the model is the job name's suffix. Each goes to one of the
		// three wirings. Quick tier: thinned out by a hash (not by the seed: the same selection in every run) -
		// every second history of the long single-holder model, every third history of the two-node model in
		// which one holder had three failed renewals, every twelfth of its other histories (thorough: every second /
		// every fourth history of the larger models, then capped by maxBehSrc).
		ns := 1
		if strings.HasSuffix(src, ":s2") {
			ns = 2
		}
		fails := map[string]int{}
		deep := false
		for _, s := range m.St {
			if s.A == "Renew" && s.R == "fail" {
				fails[s.P]++
				deep = deep || fails[s.P] >= 3
			}
		}
		long := strings.Contains(src, ":long")
		if env.Tier == "quick" {
			switch {
			case long && h%2 != 0, !long && deep && h%3 != 0, !long && !deep && h%12 != 0:
				return nil
			}
		} else if long && h%2 != 0 || !long && h%4 != 0 {
			return nil // (thorough: the larger models, thinned out here so that 150 000 expanded behaviours are never held in memory)
		}
		ws := []string{"split", "same", "local"}
		ws = ws[h/12%3 : h/12%3+1]
		for _, w := range ws {
			out = append(out, fw.MustJSON(behaviour{Kind: "node", Store: w, Tk: m.Tk, St: m.St, NSlots: ns, Timed: true, Clock: "fake", Tail: 4, MaxCF: 1}))
		}
	case strings.HasPrefix(src, "gen:node") && (m.St[0].A == "UGen" || strings.HasPrefix(m.St[0].A, "Entropy")):
		for i, k := range []string{"conn", "tun", "pmi"} {
			out = append(out, fw.MustJSON(behaviour{Kind: "uuid", API: []string{"mgr", "gen"}[(h+i)%2], IDKind: k, Tk: []int{}, St: m.St}))
		}
	case strings.HasPrefix(src, "gen:node"):
		for _, w := range []string{"split", "same", "local"} {
			out = append(out, fw.MustJSON(behaviour{Kind: "node", Store: w, Tk: m.Tk, St: m.St, NSlots: 2}))
		}
	case strings.HasPrefix(src, "gen:both") && !m.Nx && lapseAt(&m) >= 0:
		// (time passing means nothing to the SetNX-less double)
	case strings.HasPrefix(src, "gen:both") && !m.Nx:
		ak := apiKinds[h%len(apiKinds)]
		out = append(out, fw.MustJSON(behaviour{Kind: "gen", Store: "nocas", API: ak[0], IDKind: ak[1], Lay: m.Lay, Tk: m.Tk, St: m.St}))
	case (strings.HasPrefix(src, "gen:setnx") || strings.HasPrefix(src, "gen:both")) && lapseAt(&m) >= 0:
		// a long time passes: only a generator whose markers carry no expiry of their own (ttl 0) on a
		// store with a short default TTL makes that a test (hybrid nodes over one shared cache); real
		// sleeping, so only a sample - behaviours in which an id is outstanding when the time passes
		every := 150
		if env.Tier == "thorough" {
			every = 25
		}
		held := false
		for _, s := range m.St[:lapseAt(&m)] {
			held = held || s.R == "ok"
		}
		if held && h%every == 0 {
			ak := [][2]string{{"gen", "client"}, {"gen", "user"}, {"gen", "pmap"}}[h/every%3]
			out = append(out, fw.MustJSON(behaviour{Kind: "gen", Store: "hybrid", API: ak[0], IDKind: ak[1], Lay: m.Lay, Tk: m.Tk, St: m.St, TTL0: true}))
		}
	case strings.HasPrefix(src, "gen:setnx") || strings.HasPrefix(src, "gen:both"):
		for i, st := range []string{"cas", "hybrid"} {
			ak := apiKinds[(h+i*3)%len(apiKinds)]
			out = append(out, fw.MustJSON(behaviour{Kind: "gen", Store: st, API: ak[0], IDKind: ak[1], Lay: m.Lay, Tk: m.Tk, St: m.St}))
		}
	case strings.HasPrefix(src, "gen:fallback"):
		ak := apiKinds[h%len(apiKinds)]
		out = append(out, fw.MustJSON(behaviour{Kind: "gen", Store: "nocas", API: ak[0], IDKind: ak[1], Lay: m.Lay, Tk: m.Tk, St: m.St}))
	case strings.HasPrefix(src, "mc:"):
		// exhaustive-only run
	default:
		panic("unknown generation source " + src)
	}
	return out
}

func extraBeh(env *fw.Env) []json.RawMessage {
	var out []json.RawMessage
	nfree := 12
	if env.Tier == "thorough" {
		nfree = 150
	}
	for i := 0; i < nfree; i++ {
		ak := apiKinds[i%len(apiKinds)]
		tk := [][]int{{}, {1}, {1, 2}, {2, 3, 4}}[i%4]
		for _, sl := range [][2]string{{"cas", "distinct"}, {"cas", "same"}, {"hybrid", "distinct"}, {"hybrid", "mixed"}, {"nocas", "same"}, {"nocas", "distinct"}} {
			out = append(out, fw.MustJSON(behaviour{Kind: "genfree", Store: sl[0], Lay: sl[1], API: ak[0], IDKind: ak[1], Tk: tk, Seed: i, Procs: 3 + i%2, Ops: 5, Univ: 5 + i%4}))
		}
		for _, w := range []string{"split", "same", "local"} {
			out = append(out, fw.MustJSON(behaviour{Kind: "nodefree", Store: w, Tk: [][]int{{}, {1}, {2}, {1, 3}}[i%4], NSlots: 4, Seed: i, Procs: 3 + i%3}))
		}
	}
	// timed node behaviours (thorough): per source and category a few, shortest first, deterministic
	stashMu.Lock()
	defer stashMu.Unlock()
	sort.SliceStable(stash, func(i, j int) bool {
		a, b := stash[i], stash[j]
		if len(a.St) != len(b.St) {
			return len(a.St) < len(b.St)
		}
		return string(fw.MustJSON(a)) < string(fw.MustJSON(b))
	})
	taken := map[string]int{}
	for _, b := range stash {
		k := b.Src + "/" + b.Cat
		limit := 2
		if b.Cat == "expired-under-live-holder" || b.Cat == "claim-after-3-renewals" {
			limit = 3
		}
		if taken[k] >= limit {
			continue
		}
		taken[k]++
		out = append(out, fw.MustJSON(b))
		startEarly(env, out[len(out)-1])
		if b.Cat == "claim-after-3-renewals" && taken[k] == 1 {
			// the same history on the redis-mode wiring (local cache = shared store)
			c := b
			c.Store = "same"
			out = append(out, fw.MustJSON(c))
			startEarly(env, out[len(out)-1])
		}
	}
	stash = nil
	return out
}

func maxBehSrc(env *fw.Env, src string) int {
	q := env.Tier == "quick"
	switch {
	case strings.HasPrefix(src, "gen:uniq"):
		if q {
			return 0 // (thinned out in expand)
		}
		return 5000
	case strings.HasPrefix(src, "gen:node:lease"):
		if q {
			return 0 // (thinned out in expand)
		}
		return 8000
	case strings.HasPrefix(src, "gen:node"):
		if q {
			return 3000
		}
		return 0
	case strings.HasPrefix(src, "gen:both"):
		if q {
			return 6000
		}
		return 12000
	case strings.HasPrefix(src, "gen:setnx"):
		return 12000
	case strings.HasPrefix(src, "gen:fallback"):
		if q {
			return 2500
		}
		return 4000
	}
	return 0
}

// ---- reporting, self-test ---------------------------------------------------------------------

func evStr(e fw.Event, k string) string { s, _ := e[k].(string); return s }

func postDrive(env *fw.Env, traces []*fw.Trace) error {
	if os.Getenv("VERIF_DEBUG") != "" {
		var ks []string
		for k := range timeBy {
			ks = append(ks, k)
		}
		sort.Strings(ks)
		for _, k := range ks {
			fmt.Printf("[c15] drive time %-28s n=%-6d total=%v\n", k, countBy[k], timeBy[k].Round(time.Millisecond))
		}
	}
	lease, leaseDiv, leaseByW := 0, 0, map[string]int{}
	for _, t := range traces {
		var b behaviour
		if t.Status == fw.Realised && json.Unmarshal(t.Beh.Data, &b) == nil && b.Clock == "fake" {
			lease++
			leaseByW[b.Store]++
			if strings.Contains(t.Note, "diverged") {
				leaseDiv++
			}
		}
	}
	fmt.Printf("[c15] lease histories of the node-id allocator driven under the Go runtime's fake clock (testing/synctest bubble: the real 30 s "+
		"heartbeat ticker and the 90 s claim TTL run in virtual time): %d (split %d, same %d, local %d), %d of them left their script; "+
		"each is closed by an allocation of a fresh node, %d fault-free periods and another allocation; the same kind of history with real waiting: thorough tier\n",
		lease, leaseByW["split"], leaseByW["same"], leaseByW["local"], leaseDiv, 4)
	fmt.Printf("[c15] retry layer of the IDManager: %d behaviours generated (a failing check function included), %d of them reach the last attempt of the budget (driven for every id kind, stretched to the code's 100 attempts)\n", uniqSeen.Load(), uniqLast.Load())
	followed, diverged := 0, 0
	oosTraces, oosDup := 0, 0
	divBySrc := map[string]int{}
	firstDiv := map[string]string{}
	for _, t := range traces {
		if t.Status != fw.Realised {
			continue
		}
		if strings.HasPrefix(t.Note, "diverged") {
			diverged++
			divBySrc[t.Beh.Src]++
			if firstDiv[t.Beh.Src] == "" {
				firstDiv[t.Beh.Src] = t.Note
				if os.Getenv("VERIF_DEBUG") != "" {
					firstDiv[t.Beh.Src] += " BEH=" + string(t.Beh.Data)
				}
			}
		} else {
			followed++
		}
		if len(t.Events) > 0 && t.Events[0]["scope"] == false {
			oosTraces++
			out := map[string]int{}
			dup := false
			for _, e := range t.Events {
				switch {
				case e["ev"] == "Call" && e["op"] == "Rel":
					if out[evStr(e, "id")] > 0 {
						out[evStr(e, "id")]--
					}
				case e["ev"] == "Ret" && e["op"] == "Gen" && e["ok"] == true:
					if out[evStr(e, "id")] > 0 {
						dup = true
					}
					out[evStr(e, "id")]++
				}
			}
			if dup {
				oosDup++
			}
		}
	}
	fmt.Printf("[c15] traces that followed their behaviour to the end: %d; left the script (judged all the same): %d\n", followed, diverged)
	var srcs []string
	for s := range divBySrc {
		srcs = append(srcs, s)
	}
	sort.Strings(srcs)
	for _, s := range srcs {
		fmt.Printf("[c15]   %-28s left the script: %d  e.g. %s\n", s, divBySrc[s], firstDiv[s])
	}
	fmt.Printf("[c15] out of scope (store without SetNX shared by several generator instances - unreachable in tunnox-core: "+
		"every storage.Storage offers SetNX): %d traces, %d of them with a duplicate id on the real code (not judged; VERIF_C15_SCOPE=all judges them)\n", oosTraces, oosDup)
	return nil
}

func cloneTrace(t *fw.Trace, id int) *fw.Trace {
	c := &fw.Trace{Status: fw.Realised, Beh: t.Beh}
	c.Beh.ID = id
	for _, e := range t.Events {
		ne := fw.Event{}
		for k, v := range e {
			ne[k] = v
		}
		c.Events = append(c.Events, ne)
	}
	return c
}

// selfTest corrupts accepted traces in nine ways; the judge must reject every one.
func selfTest(env *fw.Env, acc []*fw.Trace) []*fw.Trace {
	var out []*fw.Trace
	next := 1 << 20
	count := map[string]int{}
	add := func(kind string, c *fw.Trace) {
		count[kind]++
		out = append(out, c)
	}
	for _, t := range acc {
		if len(out) >= 108 {
			break
		}
		if len(t.Events) == 0 || t.Events[0]["scope"] != true {
			continue
		}
		taken, _ := t.Events[0]["taken"].([]any)
		outst := map[string]int{} // id -> index of the Ret that made it outstanding
		relCall := map[string]int{}
		crashAt := map[string]int{} // id -> index of the Crash event of the node that held it
		holder := map[string]string{}
		for i, e := range t.Events {
			switch {
			case e["ev"] == "Crash":
				for x, p := range holder {
					if p == evStr(e, "p") {
						crashAt[x] = i
						delete(outst, x)
					}
				}
			case e["ev"] == "Call" && e["op"] == "Rel":
				delete(outst, evStr(e, "id"))
				relCall[evStr(e, "id")] = i
			case e["ev"] == "Ret" && e["op"] == "Gen" && e["ok"] == true:
				id := evStr(e, "id")
				// (a) a second success returns an id that is still outstanding
				if count["dup"] < 12 {
					for x := range outst {
						if x != id {
							next++
							c := cloneTrace(t, next)
							c.Events[i]["id"] = x
							add("dup", c)
							break
						}
					}
				}
				// (d) the same id again after a release: drop the release call
				if j, ok := relCall[id]; ok && count["droprel"] < 12 {
					next++
					c := cloneTrace(t, next)
					c.Events = append(c.Events[:j:j], c.Events[j+1:]...)
					add("droprel", c)
				}
				// (f) lease histories: the id of a crashed node handed out again after its claim ran out: drop the crash
				if j, ok := crashAt[id]; ok && count["dropcrash"] < 12 {
					next++
					c := cloneTrace(t, next)
					c.Events = append(c.Events[:j:j], c.Events[j+1:]...)
					add("dropcrash", c)
					delete(crashAt, id)
				}
				holder[id] = evStr(e, "p")
				// (g) retry layer of the manager: a success returns an id that exists in the caller's repository
				if rp, _ := t.Events[0]["repo"].([]any); len(rp) > 0 && count["repo"] < 12 {
					next++
					c := cloneTrace(t, next)
					c.Events[i]["id"] = rp[0]
					delete(c.Events[i], "assumed")
					add("repo", c)
				}
				// (i) ... and the returned id does exist there, accepted only because the check function had failed: drop that fact
				if rp, _ := t.Events[0]["repo"].([]any); e["assumed"] == true && count["dropassumed"] < 12 {
					for _, x := range rp {
						if x == id {
							next++
							c := cloneTrace(t, next)
							delete(c.Events[i], "assumed")
							add("dropassumed", c)
							break
						}
					}
				}
				// (b) a success returns a pre-existing id
				if len(taken) > 0 && count["taken"] < 12 {
					next++
					c := cloneTrace(t, next)
					c.Events[i]["id"] = taken[0]
					add("taken", c)
				}
				outst[id] = i
			case e["ev"] == "Ret" && e["op"] == "Gen" && e["ok"] == false && count["unclean"] < 12:
				// (c) a failure that is not the exhaustion error
				next++
				c := cloneTrace(t, next)
				c.Events[i]["err"] = "other"
				add("unclean", c)
			case e["ev"] == "Snap" && t.Events[0]["clean"] == true && count["markerleft"] < 12:
				// (h) a candidate that was not handed out is still marked
				next++
				c := cloneTrace(t, next)
				ms, _ := e["markers"].([]any)
				c.Events[i]["markers"] = append(append([]any{}, ms...), "left-behind")
				add("markerleft", c)
			case e["ev"] == "Snap" && len(outst) > 0 && count["unmarked"] < 12:
				// (e) an outstanding id has lost its marker
				var victim string
				for x := range outst {
					if victim == "" || x < victim {
						victim = x
					}
				}
				ms, _ := e["markers"].([]any)
				var keep []any
				for _, m := range ms {
					if m != victim {
						keep = append(keep, m)
					}
				}
				if len(keep) != len(ms) {
					next++
					c := cloneTrace(t, next)
					if keep == nil {
						keep = []any{}
					}
					c.Events[i]["markers"] = keep
					add("unmarked", c)
				}
			}
		}
	}
	fmt.Printf("[c15] self-test corruptions: %v\n", count)
	return out
}

func main() {
	// the thorough tier holds several hundred thousand generated behaviours; with the framework's GC
	// setting the process grew to 7 GB (and was the OOM killer's choice on a loaded machine). A soft
	// limit makes the collector work earlier: 3.2 GB peak, same wall time (measured).
	if os.Getenv("GOMEMLIMIT") == "" {
		debug.SetMemoryLimit(3 << 30)
	}
	corelog.SetDefault(corelog.NewNopLogger())
	installReader()
	runtime.GOMAXPROCS(gatedProcs)
	fw.Main(&fw.Property{
		ID:          "C15",
		DesignRef:   "DESIGN.md §5 C15",
		ModelJobs:   modelJobs,
		GenJobs:     genJobs,
		Expand:      expand,
		ExtraBeh:    extraBeh,
		MaxBehSrc:   maxBehSrc,
		Drive:       drive,
		Parallel:    16,
		PostDrive:   postDrive,
		SelfTest:    selfTest,
		JudgeModule: "IdGenTrace",
		JudgeCfg:    "IdGenTrace.cfg",
		NonTrivial: func(t *fw.Trace) bool {
			rets := 0
			for _, e := range t.Events {
				if e["ev"] == "Ret" {
					rets++
				}
			}
			return rets >= 2 && !strings.HasPrefix(t.Note, "diverged")
		},
		Rule: "one behaviour per (state, action) transition of IdGen.tla: 2-3 callers over 1-3 generator instances x 2-3 candidates x 2 calls " +
			"(SetNX store, SetNX-less store, hybrid nodes over one shared cache; every pattern of pre-existing ids), the IDManager's retry layer " +
			"(GenerateUniqueClientID / GenerateUniqueID / GenerateUniquePortMappingID / GenerateUniqueNodeID with the caller's check function: 2 callers x 2 candidates x " +
			"every pattern of markers and repository ids; the model's last attempt stretched to the code's 100th: exactly 99 / 100 / 101+ colliding candidates), and 3 nodes x 2 slots for the " +
			"node-id allocator; the lease of a node id over time (claim, heartbeat renewals with transient store faults, release / crash, expiry, " +
			"next holder; 2 nodes x 6 periods and 1 holder x 14 periods, thorough: 2 slots / 10 periods) under the runtime's fake clock, each history closed by " +
			"allocations of fresh nodes (thorough also: timed histories with real waiting for the 30 s heartbeat / 90 s TTL), forced on the real generators / IDManagers / " +
			"allocators through gate-controlled store doubles with a scripted crypto/rand.Reader; non-trivial = followed to the end with at least two returns",
		Assumptions: []string{
			"nodes are objects of one process sharing one store double; the doubles are correct maps (SetNX atomic)",
			"a live node's heartbeat goroutine is scheduled on time (the lease histories run under the Go runtime's fake clock - testing/synctest - so this holds by construction); marker TTL (30 days) expiry is outside the behaviours",
			"store faults are transient: a holder's renewal never fails twice in a row (claim TTL = 3 renew periods; with 2 failures in a row the deciding renewal falls on the expiry instant - IdGen_show_outage.cfg - the limit of any lease); the fault injector enforces this on the real sequence of attempts",
			"the caller's check function of GenerateUniqueXxxID answers without error for ids of its repository (on a check error the code deliberately assumes the id free: IdGen_show_checkerr.cfg; no caller in tunnox-core)",
			"an allocator object is not used again after its Release (no call site in tunnox-core does; VERIF_C15_REALLOC=1 drives it: IdGen_show_realloc.cfg)",
			"a store without SetNX shared by several generator instances is outside the property (no storage.Storage of tunnox-core lacks SetNX); single-instance use of such a store is inside",
			"allocator histories with REAL waiting only in the thorough tier (30 s ticker and 90 s TTL are compile-time constants); both tiers drive the lease histories in virtual time",
		},
		TrustedBase: []string{"TLC", "spec/IdGenTrace.tla as the reading of C15", "harness/sched gate scheduler", "harness/doubles store double", "scripted crypto/rand.Reader (drivers/c15/rand.go)", "the Go runtime's fake clock (testing/synctest, GOEXPERIMENT=synctest; drivers/c15/bubble.go)"},
	})
}
