package main

import (
	"bytes"
	"crypto/rand"
	"encoding/binary"
	"errors"
	"io"
	mrand "math/rand"
	"runtime"
	"strconv"
	"sync"

	"github.com/google/uuid"
)

// The random source of tunnox-core (internal/utils/random) is crypto/rand.Read, which reads the
// package variable crypto/rand.Reader. The driver replaces that variable ONCE, at start-up, by a
// dispatcher that serves scripted bytes to the goroutines that registered a source and the
// original reader to everybody else (uuid, TLS, ...). Keying by goroutine id makes concurrent
// Drive calls independent although rand.Reader is process-global.
//
// How the generator consumes bytes (read from internal/utils/random):
//   random.Int64(min, max)  : 8 bytes, big endian u; id = min + u % (max-min+1)      -> u = c
//   random.String(8)        : 8 bytes b; id[i] = Charset[b[i] % 62]                  -> b = base-62 digits of c-1
// so "candidate c" of the model is one 8-byte read.

type source struct {
	mu     sync.Mutex
	typ    string // "int64" | "string"
	queue  []int  // scripted candidates still to hand out
	last   int
	repeat bool        // queue empty: keep returning the last candidate (exhaustion burst)
	rnd    *mrand.Rand // queue empty and !repeat: draw from 1..univ (free-running) ...
	univ   int         // ... or, when rnd == nil, hand out never-colliding candidates
	reads  int
}

var freshCounter int64 = 1000
var freshMu sync.Mutex

func (s *source) next() int {
	s.mu.Lock()
	defer s.mu.Unlock()
	s.reads++
	if len(s.queue) > 0 {
		s.last = s.queue[0]
		s.queue = s.queue[1:]
		return s.last
	}
	if s.repeat && s.last != 0 {
		return s.last
	}
	if s.rnd != nil {
		s.last = 1 + s.rnd.Intn(s.univ)
		return s.last
	}
	freshMu.Lock()
	freshCounter++
	c := int(freshCounter)
	freshMu.Unlock()
	s.last = c
	return c
}

func (s *source) push(c int) {
	s.mu.Lock()
	s.queue = append(s.queue, c)
	s.mu.Unlock()
}

func (s *source) setRepeat() {
	s.mu.Lock()
	s.repeat = true
	s.mu.Unlock()
}

const charset62 = "ABCDEFGHIJKLMNOPQRSTUVWXYZabcdefghijklmnopqrstuvwxyz0123456789"

func candBytes(typ string, c int) []byte {
	b := make([]byte, 8)
	if typ == "int64" {
		binary.BigEndian.PutUint64(b, uint64(c))
		return b
	}
	n := c - 1
	for i := 7; i >= 0; i-- {
		b[i] = byte(n % 62)
		n /= 62
	}
	return b
}

// randomPart is the string the real code derives from candBytes("string", c).
func randomPart(c int) string {
	b := candBytes("string", c)
	out := make([]byte, 8)
	for i := range b {
		out[i] = charset62[b[i]%62]
	}
	return string(out)
}

type dispatcher struct {
	orig io.Reader
	mu   sync.RWMutex
	src  map[int64]*source
}

var disp *dispatcher

func installReader() {
	disp = &dispatcher{orig: rand.Reader, src: map[int64]*source{}}
	rand.Reader = disp
	// github.com/google/uuid keeps its own reader (captured from crypto/rand at init): uuid.SetRand
	// is the seam for an entropy failure seen by the UUID-backed generators
	udisp = &uuidDispatcher{orig: disp.orig, failing: map[int64]bool{}}
	uuid.SetRand(udisp)
}

var errEntropy = errors.New("entropy source failure (injected)")

// uuidDispatcher fails reads of the goroutines registered as "entropy failing" and serves the
// operating system's randomness to everybody else.
type uuidDispatcher struct {
	orig    io.Reader
	mu      sync.RWMutex
	failing map[int64]bool
}

var udisp *uuidDispatcher

func (d *uuidDispatcher) Read(p []byte) (int, error) {
	d.mu.RLock()
	f := d.failing[goid()]
	d.mu.RUnlock()
	if f {
		return 0, errEntropy
	}
	return d.orig.Read(p)
}

func (d *uuidDispatcher) fail() func() {
	id := goid()
	d.mu.Lock()
	d.failing[id] = true
	d.mu.Unlock()
	return func() {
		d.mu.Lock()
		delete(d.failing, id)
		d.mu.Unlock()
	}
}

func (d *dispatcher) Read(p []byte) (int, error) {
	d.mu.RLock()
	s := d.src[goid()]
	d.mu.RUnlock()
	if s == nil || len(p) != 8 {
		return d.orig.Read(p)
	}
	copy(p, candBytes(s.typ, s.next()))
	return len(p), nil
}

// bind makes the calling goroutine read from s until the returned function is called.
func (d *dispatcher) bind(s *source) func() {
	id := goid()
	d.mu.Lock()
	d.src[id] = s
	d.mu.Unlock()
	return func() {
		d.mu.Lock()
		delete(d.src, id)
		d.mu.Unlock()
	}
}

func goid() int64 {
	var buf [64]byte
	n := runtime.Stack(buf[:], false)
	b := buf[:n]
	b = b[len("goroutine "):]
	i := bytes.IndexByte(b, ' ')
	id, _ := strconv.ParseInt(string(b[:i]), 10, 64)
	return id
}
