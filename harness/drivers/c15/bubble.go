package main

// Virtual time for the lease histories of the node-id allocator.
//
// The allocator's 30 s renew ticker and 90 s claim TTL are compile-time constants, so a history in
// which a claim is renewed, survives store faults, runs out ... takes minutes of real time. The
// lease behaviours are therefore driven inside a bubble of the Go runtime's own fake clock
// (testing/synctest, Go 1.24 experiment; this driver is built with GOEXPERIMENT=synctest, see
// build.env): time.Now / time.NewTicker / time.Sleep / timers of every goroutine started inside the
// bubble (the driver goroutine of the behaviour, the gate-scheduled callers, the real heartbeat
// goroutines of the real allocators, the TTL clock of the store doubles) read ONE virtual clock
// that starts at 2000-01-01 and jumps to the next timer exactly when every goroutine of the bubble
// is durably blocked. Nothing of tunnox-core is patched: the code under test runs its real
// time.NewTicker(30 * time.Second). Virtual time makes the histories independent of machine load.
//
// A bubble that does not come to rest (a goroutine left behind, blocked for ever or ticking for
// ever) is a harness problem, never a verdict: the behaviour is reported as a driver error (the
// check exits 2).
//
// The same histories with REAL waiting are still run in the thorough tier (driveNode with
// Timed = true and Clock = ""), as a cross-check of the virtual clock.

import (
	"fmt"
	"runtime"
	"testing/synctest"
	"time"

	"tunnox-core/verifharness/fw"
)

// inBubble runs f on a fresh goroutine inside a synctest bubble and returns its trace. realLimit
// bounds the REAL time the bubble may take.
func inBubble(realLimit time.Duration, f func() *fw.Trace) *fw.Trace {
	done := make(chan *fw.Trace, 1) // made outside the bubble: not a bubbled channel
	go func() {
		var t *fw.Trace
		defer func() {
			if r := recover(); r != nil {
				// "deadlock: all goroutines in bubble are blocked": goroutines were left behind
				done <- &fw.Trace{Status: fw.DriverError, Note: fmt.Sprintf("fake-clock bubble did not come to rest: %v", r)}
				return
			}
			done <- t
		}()
		synctest.Run(func() {
			defer func() {
				if r := recover(); r != nil {
					t = &fw.Trace{Status: fw.DriverError, Note: fmt.Sprintf("driver panic inside the fake-clock bubble: %v", r)}
				}
			}()
			t = f()
		})
	}()
	select {
	case t := <-done:
		if t == nil {
			t = &fw.Trace{Status: fw.DriverError, Note: "fake-clock bubble returned no trace"}
		}
		return t
	case <-time.After(realLimit):
		buf := make([]byte, 1<<20)
		buf = buf[:runtime.Stack(buf, true)]
		if len(buf) > 12000 {
			buf = buf[:12000]
		}
		return &fw.Trace{Status: fw.DriverError, Note: fmt.Sprintf("fake-clock bubble still running after %v of real time; goroutines:\n%s", realLimit, buf)}
	}
}

// settle lets every other goroutine of the bubble run until it is durably blocked (no virtual time passes).
func settle() { synctest.Wait() }
