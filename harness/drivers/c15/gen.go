package main

import (
	"context"
	"errors"
	"fmt"
	"runtime"
	"sort"
	"strconv"
	"strings"
	"sync"
	"time"

	"tunnox-core/internal/core/idgen"
	"tunnox-core/internal/core/storage"
	"tunnox-core/internal/core/storage/hybrid"
	"tunnox-core/verifharness/doubles"
	"tunnox-core/verifharness/fw"
	"tunnox-core/verifharness/sched"
)

// ---- id kinds ---------------------------------------------------------------------------

type idKind struct {
	name, typ, prefix, keyPrefix string
}

var kinds = map[string]idKind{
	"client": {"client", "int64", "", "tunnox:id:used:client"},
	"user":   {"user", "string", idgen.PrefixUserID, "tunnox:id:used:user"},
	"pmap":   {"pmap", "string", idgen.PrefixPortMappingID, "tunnox:id:used:pmap"},
	"node":   {"node", "string", idgen.PrefixNodeID, "tunnox:id:used:node"},
}

// idOf is the id the real generator derives from candidate c of the scripted random source.
func (k idKind) idOf(c int) string {
	if k.typ == "int64" {
		return strconv.FormatInt(idgen.ClientIDMin+int64(c), 10)
	}
	return k.prefix + randomPart(c)
}
func (k idKind) key(c int) string         { return k.keyPrefix + ":" + k.idOf(c) }
func (k idKind) keyOfID(id string) string { return k.keyPrefix + ":" + id }

// ---- generator instances ------------------------------------------------------------------

type genInst struct {
	gen func() (string, error)
	rel func(id string) error
}

// lapse: what "a long time" is for the rigs in which time passes: 4 x the hybrid default cache TTL
const (
	shortCacheTTL = 100 * time.Millisecond
	lapseSleep    = 4 * shortCacheTTL
)

func newInst(api string, k idKind, st storage.Storage, ctx context.Context, ttl0 bool) genInst {
	if ttl0 {
		// marker lifetime "until Release" (ttl 0) instead of the default 30 days
		if k.typ == "int64" {
			g := idgen.NewStorageIDGeneratorWithTTL[int64](st, k.prefix, k.keyPrefix, 0, ctx)
			return genInst{
				gen: func() (string, error) { v, err := g.Generate(); return strconv.FormatInt(v, 10), err },
				rel: func(id string) error { v, _ := strconv.ParseInt(id, 10, 64); return g.Release(v) },
			}
		}
		g := idgen.NewStorageIDGeneratorWithTTL[string](st, k.prefix, k.keyPrefix, 0, ctx)
		return genInst{gen: g.Generate, rel: g.Release}
	}
	if api == "mgr" {
		m := idgen.NewIDManager(st, ctx)
		switch k.name {
		case "client":
			return genInst{
				gen: func() (string, error) { v, err := m.GenerateClientID(); return strconv.FormatInt(v, 10), err },
				rel: func(id string) error { v, _ := strconv.ParseInt(id, 10, 64); return m.ReleaseClientID(v) },
			}
		case "user":
			return genInst{gen: m.GenerateUserID, rel: m.ReleaseUserID}
		case "pmap":
			return genInst{gen: m.GeneratePortMappingID, rel: m.ReleasePortMappingID}
		case "node":
			return genInst{gen: m.GenerateNodeID, rel: m.ReleaseNodeID}
		}
		panic("kind " + k.name)
	}
	if k.typ == "int64" {
		g := idgen.NewStorageIDGenerator[int64](st, k.prefix, k.keyPrefix, ctx)
		return genInst{
			gen: func() (string, error) { v, err := g.Generate(); return strconv.FormatInt(v, 10), err },
			rel: func(id string) error { v, _ := strconv.ParseInt(id, 10, 64); return g.Release(v) },
		}
	}
	g := idgen.NewStorageIDGenerator[string](st, k.prefix, k.keyPrefix, ctx)
	return genInst{gen: g.Generate, rel: g.Release}
}

type genRes struct {
	ok  bool
	id  string
	err string
	own string // allocator only: GetNodeID() after a failed allocation
}

func errClass(err error) string {
	if err == nil {
		return ""
	}
	if errors.Is(err, idgen.ErrIDExhausted) {
		return "exhausted"
	}
	return "other"
}

func safeGen(in genInst) (res genRes) {
	defer func() {
		if r := recover(); r != nil {
			res = genRes{ok: false, err: "panic"}
		}
	}()
	id, err := in.gen()
	if err != nil {
		return genRes{ok: false, err: errClass(err)}
	}
	return genRes{ok: true, id: id}
}

func safeRel(in genInst, id string) (res genRes) {
	defer func() {
		if r := recover(); r != nil {
			res = genRes{ok: false, id: id, err: "panic"}
		}
	}()
	err := in.rel(id)
	return genRes{ok: err == nil, id: id, err: errClass(err)}
}

// ---- single store fault ----------------------------------------------------------------------

// faultArm makes exactly one operation (op on key) of a store double fail with an error, and - for
// the lease histories of the allocator - the next Set on each key of a set of keys (armSet).
type faultArm struct {
	mu      sync.Mutex
	op, key string
	armed   bool
	hits    int
	// transient heartbeat faults: keys whose next Set fails; never more than maxConsec failed Sets in a
	// row on one key (the environment assumption of the model, enforced here on the REAL sequence of
	// attempts, whatever the driver's idea of the schedule is); suppressed counts faults not delivered for that reason
	sets       map[string]bool
	consec     map[string]int
	maxConsec  int
	setHits    int
	suppressed int
}

// armSet: the next Set on key fails.
func (f *faultArm) armSet(key string) {
	f.mu.Lock()
	if f.sets == nil {
		f.sets, f.consec = map[string]bool{}, map[string]int{}
	}
	f.sets[key] = true
	f.mu.Unlock()
}

// disarmSet withdraws an undelivered Set fault; it reports whether there was one.
func (f *faultArm) disarmSet(key string) bool {
	f.mu.Lock()
	defer f.mu.Unlock()
	was := f.sets[key]
	delete(f.sets, key)
	return was
}

func (f *faultArm) arm(op, key string) {
	f.mu.Lock()
	f.op, f.key, f.armed = op, key, true
	f.mu.Unlock()
}

func (f *faultArm) fn(c *doubles.Call) error {
	f.mu.Lock()
	defer f.mu.Unlock()
	if c.Op == "Set" && f.consec != nil {
		if f.sets[c.Key] {
			delete(f.sets, c.Key)
			if f.maxConsec > 0 && f.consec[c.Key] >= f.maxConsec {
				f.suppressed++
				f.consec[c.Key] = 0
				return nil
			}
			f.consec[c.Key]++
			f.setHits++
			return doubles.ErrInjected
		}
		f.consec[c.Key] = 0
	}
	if f.armed && c.Op == f.op && c.Key == f.key {
		f.armed = false
		f.hits++
		return doubles.ErrInjected
	}
	return nil
}

// delivered reports (without waiting) whether the armed fault has been delivered.
func (f *faultArm) delivered() bool {
	f.mu.Lock()
	defer f.mu.Unlock()
	return !f.armed
}

func (f *faultArm) disarm() {
	f.mu.Lock()
	f.armed = false
	f.mu.Unlock()
}

// spent reports whether the armed fault has been delivered; it waits a little, because a step that
// is expected to end blocked (short watchdog) may return before the released operation has run.
func (f *faultArm) spent() bool {
	for i := 0; ; i++ {
		f.mu.Lock()
		ok := !f.armed && f.hits > 0
		f.mu.Unlock()
		if ok || i >= 4000 {
			return ok
		}
		time.Sleep(500 * time.Microsecond)
	}
}

// ---- rig -----------------------------------------------------------------------------------

type genRig struct {
	s      *sched.Sched
	mark   *doubles.Store // the ONE shared store that holds the markers
	fault  *faultArm
	kind   idKind
	store  string // cas | nocas | hybrid
	insts  map[string]genInst
	lay    string
	cancel context.CancelFunc
}

func instOf(lay, p string) string {
	if lay == "same" {
		return "g1"
	}
	if lay == "mixed" && (p == "p1" || p == "p2") {
		return "g1"
	}
	return p
}

func newGenRig(b *behaviour, procs []string, free bool) *genRig {
	r := &genRig{s: sched.New(free), kind: kinds[b.IDKind], store: b.Store, insts: map[string]genInst{}, lay: b.Lay}
	// a released process that neither parks nor returns within the watchdog is "blocked": that can
	// only happen on the instance mutex of the fallback path with several callers on one instance;
	// everywhere else the watchdog is just a generous bound for a loaded machine
	r.s.Watchdog = 5 * time.Second
	if b.Store == "nocas" && b.Lay != "distinct" {
		r.s.Watchdog = 150 * time.Millisecond
	}
	ctx, cancel := context.WithCancel(context.Background())
	r.cancel = cancel
	name := "st"
	if b.Store == "hybrid" {
		name = "shared"
	}
	r.mark = doubles.NewStore(name, r.s)
	r.mark.RealTTL = b.TTL0 // a marker written with a finite lifetime really goes when it is over
	r.fault = &faultArm{}
	r.mark.Fault = r.fault.fn
	for _, p := range procs {
		in := instOf(b.Lay, p)
		if _, ok := r.insts[in]; ok {
			continue
		}
		var st storage.Storage
		switch b.Store {
		case "cas":
			st = r.mark
		case "nocas":
			st = r.mark.AsNoCAS()
		case "hybrid":
			// one node = one hybrid.Storage with its own local cache; all nodes share one shared cache
			cfg := hybrid.DefaultConfig()
			local := doubles.NewStore("cache-"+in, r.s)
			if b.TTL0 {
				cfg.DefaultCacheTTL = shortCacheTTL // "a long time" (Lapse) is then 400 ms
				local.RealTTL = true
			}
			st = hybrid.NewWithSharedCache(ctx, local, r.mark, nil, cfg)
		default:
			panic("store " + b.Store)
		}
		r.insts[in] = newInst(b.API, r.kind, st, ctx, b.TTL0)
	}
	return r
}

func (r *genRig) detail(b *behaviour) string {
	d := fmt.Sprintf("gen:%s:%s:%s:%s", b.Store, b.Lay, b.API, b.IDKind)
	if b.TTL0 {
		d += ":ttl0"
	}
	return d
}

func (r *genRig) markers() []any {
	snap := r.mark.Snapshot(r.kind.keyPrefix + ":")
	out := []string{}
	for k := range snap {
		if _, live := r.mark.Peek(k); live { // Snapshot does not apply lifetimes, Peek does
			out = append(out, strings.TrimPrefix(k, r.kind.keyPrefix+":"))
		}
	}
	sort.Strings(out)
	res := make([]any, len(out))
	for i, s := range out {
		res[i] = s
	}
	return res
}

// in-scope: see IdGenTrace.tla. A store without SetNX shared by several generator instances is
// outside the property: every storage.Storage of tunnox-core offers SetNX (memory, redis, hybrid;
// the server always wires hybrid.Storage), so tryMarkAsUsed's fallback is unreachable there.
func inScope(b *behaviour) bool {
	if scopeAll {
		return true
	}
	return !(b.Store == "nocas" && b.Lay != "same")
}

func takenIDs(k idKind, tk []int) []any {
	out := []any{}
	for _, c := range tk {
		out = append(out, k.idOf(c))
	}
	return out
}

type gcall struct {
	name   string
	p      string
	op     string // Gen | Rel
	id     string
	src    *source
	logged bool
	// uniq: the caller's check function was made to fail in this call (the code then assumes the id free)
	assumed bool
}

func (r *genRig) gate(op string) string { return r.mark.Name + "." + op }

// driveGen forces one TLC behaviour of IdGen.tla (Mode "gen") on real generator instances.
func driveGen(env *fw.Env, b *behaviour) *fw.Trace {
	procs := []string{"p1", "p2", "p3"}
	r := newGenRig(b, procs, false)
	defer r.cancel()
	hasNX := b.Store != "nocas"
	for _, c := range b.Tk {
		r.mark.Poke(r.kind.key(c), "pre-existing", 0)
	}
	t := &fw.Trace{Status: fw.Realised}
	t.Events = append(t.Events, fw.Event{"ev": "Cfg", "d": r.detail(b), "scope": inScope(b), "taken": takenIDs(r.kind, b.Tk)})
	wd := r.s.Watchdog
	cur := map[string]*gcall{}
	cand := map[string]int{}
	ncalls := map[string]int{}
	var started []*gcall
	logRet := func(a *gcall) {
		if a.logged {
			return
		}
		a.logged = true
		res, _ := r.s.Result(a.name).(genRes)
		if a.op == "Rel" {
			res.id = a.id
		}
		t.Events = append(t.Events, fw.Event{"ev": "Ret", "p": a.p, "op": a.op, "ok": res.ok, "id": res.id, "err": res.err})
	}
	// finish: let everything run to completion (free-running), log the outstanding returns and the
	// store's live markers. Used at the end of the script and when the real code leaves the script.
	finish := func(note string) *fw.Trace {
		if !r.s.Drain(5 * time.Second) {
			return &fw.Trace{Status: fw.DriverError, Note: "calls did not finish after drain (" + note + ")"}
		}
		for _, a := range started {
			logRet(a)
		}
		t.Events = append(t.Events, fw.Event{"ev": "Snap", "markers": r.markers(), "quiet": true})
		t.Note = note
		return t
	}
	firstGate := "SetNX"
	if !hasNX {
		firstGate = "Exists"
	}
	at := func(a *gcall, op string, c int) bool {
		st, g := r.s.State(a.name)
		return st == sched.Parked && g.Point == r.gate(op) && g.Info["key"] == r.kind.key(c)
	}
	for i, st := range b.St {
		div := func(f string, x ...any) *fw.Trace {
			return finish(fmt.Sprintf("diverged at step %d (%s %s): ", i, st.P, st.A) + fmt.Sprintf(f, x...))
		}
		switch st.A {
		case "Lapse":
			// a long time passes: longer than any default cache TTL, far shorter than the markers' 30 days
			if b.TTL0 {
				time.Sleep(lapseSleep)
			}
		case "CallGen", "CallRel":
			ncalls[st.P]++
			a := &gcall{name: fmt.Sprintf("%s.%d", st.P, ncalls[st.P]), p: st.P, op: "Gen", src: &source{typ: r.kind.typ}}
			in := r.insts[instOf(b.Lay, st.P)]
			fn := func() any { defer disp.bind(a.src)(); return safeGen(in) }
			if st.A == "CallRel" {
				a.op, a.id = "Rel", r.kind.idOf(st.C)
				fn = func() any { return safeRel(in, a.id) }
			} else {
				a.src.push(st.C)
			}
			cand[st.P] = st.C
			cur[st.P] = a
			started = append(started, a)
			t.Events = append(t.Events, fw.Event{"ev": "Call", "p": st.P, "op": a.op, "id": a.id})
			if st.W {
				r.s.Watchdog = 3 * time.Millisecond
			}
			state := r.s.Start(a.name, fn)
			r.s.Watchdog = wd
			if st.W {
				if state != sched.Blocked {
					return div("expected to wait for the instance mutex, is %s", state)
				}
				continue
			}
			want := firstGate
			if st.A == "CallRel" {
				want = "Delete"
			}
			if !at(a, want, st.C) {
				_, g := r.s.State(a.name)
				return div("call is %s at %q, model expects %s", state, g.Point, r.gate(want))
			}
		case "NX", "Ex", "Set", "Del":
			a := cur[st.P]
			if a == nil {
				return &fw.Trace{Status: fw.DriverError, Note: "step before call"}
			}
			op := map[string]string{"NX": "SetNX", "Ex": "Exists", "Set": "Set", "Del": "Delete"}[st.A]
			if !at(a, op, cand[st.P]) {
				s0, g := r.s.State(a.name)
				return div("process is %s at %q key %v, model expects %s of %s", s0, g.Point, g.Info["key"], r.gate(op), r.kind.key(cand[st.P]))
			}
			switch st.R {
			case "retry":
				a.src.push(st.C)
			case "fretry", "fault":
				// the single store fault: this operation returns an error
				if st.R == "fretry" {
					a.src.push(st.C)
				}
				r.fault.arm(op, r.kind.key(cand[st.P]))
			case "err":
				if st.G != "" && st.G != st.P {
					// the model's last attempt hands the mutex to a waiter; the real loop has ~98 attempts
					// left and would have to win the mutex back each time
					return div("exhaustion with a waiter on the instance mutex is not schedulable")
				}
				a.src.setRepeat() // this and every remaining attempt of the real loop (100) hit the same taken id
			}
			if st.W {
				r.s.Watchdog = 3 * time.Millisecond
			} else if (st.R == "retry" || st.R == "fretry") && !hasNX && b.Lay != "distinct" {
				r.s.Watchdog = 50 * time.Millisecond // may lose the mutex race against a waiter
			}
			ns, _ := r.s.Step(a.name)
			r.s.Watchdog = wd
			if (st.R == "fretry" || st.R == "fault") && !r.fault.spent() {
				return &fw.Trace{Status: fw.DriverError, Note: "the armed store fault was not consumed by " + op}
			}
			switch st.R {
			case "ok", "", "fault":
				if ns != sched.Done {
					return div("expected the call to return, is %s", ns)
				}
				logRet(a)
				res, _ := r.s.Result(a.name).(genRes)
				if st.R == "ok" && (!res.ok || res.id != r.kind.idOf(cand[st.P])) {
					return div("model expects success with %s, real call returned ok=%v id=%q err=%q", r.kind.idOf(cand[st.P]), res.ok, res.id, res.err)
				}
			case "free":
				if !at(a, "Set", cand[st.P]) {
					return div("expected to park at Set, is %s", ns)
				}
			case "retry", "fretry":
				cand[st.P] = st.C
				if st.W {
					if ns != sched.Blocked {
						return div("expected to wait for the instance mutex after the failed attempt, is %s", ns)
					}
				} else if !at(a, firstGate, st.C) {
					return div("expected the next attempt at %s, is %s", r.gate(firstGate), ns)
				}
			case "err":
				for k := 0; ns == sched.Parked && k < 2*idgen.MaxAttempts; k++ {
					if !at(a, firstGate, cand[st.P]) {
						return div("exhaustion burst left the taken candidate")
					}
					ns, _ = r.s.Step(a.name)
				}
				if ns != sched.Done {
					return div("expected the call to give up, is %s", ns)
				}
				logRet(a)
				if res, _ := r.s.Result(a.name).(genRes); res.ok || res.err != "exhausted" {
					return div("model expects the exhaustion error, real call returned ok=%v id=%q err=%q", res.ok, res.id, res.err)
				}
			}
			if st.G != "" && st.G != st.P {
				// the mutex went to a waiter: it now runs to its Exists gate
				g := cur[st.G]
				if g == nil || r.s.Await(g.name) != sched.Parked {
					return div("%s did not obtain the instance mutex", st.G)
				}
			}
		default:
			return &fw.Trace{Status: fw.DriverError, Note: "unknown action " + st.A}
		}
	}
	return finish("")
}

// driveGenFree: seeded free-running stress. Procs goroutines over the instance layout, each
// performing Ops Generate/Release calls; candidates are drawn from a universe of Univ ids, so
// collisions and exhaustion are the normal case. Call/Ret are logged under one mutex.
func driveGenFree(env *fw.Env, b *behaviour) *fw.Trace {
	var procs []string
	for i := 1; i <= b.Procs; i++ {
		procs = append(procs, fmt.Sprintf("p%d", i))
	}
	r := newGenRig(b, procs, true)
	defer r.cancel()
	rnd := fw.NewRand(env.Seed*7919 + int64(b.Seed))
	var rmu sync.Mutex
	r.s.FreeDelay = func(name string, g sched.GateInfo) {
		rmu.Lock()
		k := rnd.Intn(10)
		rmu.Unlock()
		switch {
		case k < 4:
			runtime.Gosched()
		case k < 6:
			time.Sleep(time.Duration(10+k*10) * time.Microsecond)
		}
	}
	for _, c := range b.Tk {
		r.mark.Poke(r.kind.key(c), "pre-existing", 0)
	}
	t := &fw.Trace{Status: fw.Realised}
	t.Events = append(t.Events, fw.Event{"ev": "Cfg", "d": r.detail(b) + ":free", "scope": inScope(b), "taken": takenIDs(r.kind, b.Tk)})
	var mu sync.Mutex
	var wg sync.WaitGroup
	for pi, p := range procs {
		wg.Add(1)
		prnd := fw.NewRand(env.Seed*104729 + int64(b.Seed)*131 + int64(pi))
		go func(p string) {
			defer wg.Done()
			src := &source{typ: r.kind.typ, rnd: fw.NewRand(prnd.Int63()), univ: b.Univ}
			defer disp.bind(src)()
			in := r.insts[instOf(b.Lay, p)]
			var mine []string
			for o := 0; o < b.Ops; o++ {
				if len(mine) > 0 && prnd.Intn(10) < 4 {
					k := prnd.Intn(len(mine))
					id := mine[k]
					mine = append(mine[:k], mine[k+1:]...)
					mu.Lock()
					t.Events = append(t.Events, fw.Event{"ev": "Call", "p": p, "op": "Rel", "id": id})
					mu.Unlock()
					res := safeRel(in, id)
					mu.Lock()
					t.Events = append(t.Events, fw.Event{"ev": "Ret", "p": p, "op": "Rel", "ok": res.ok, "id": id, "err": res.err})
					mu.Unlock()
					continue
				}
				mu.Lock()
				t.Events = append(t.Events, fw.Event{"ev": "Call", "p": p, "op": "Gen", "id": ""})
				mu.Unlock()
				res := safeGen(in)
				mu.Lock()
				t.Events = append(t.Events, fw.Event{"ev": "Ret", "p": p, "op": "Gen", "ok": res.ok, "id": res.id, "err": res.err})
				mu.Unlock()
				if res.ok {
					mine = append(mine, res.id)
				}
			}
		}(p)
	}
	done := make(chan struct{})
	go func() { wg.Wait(); close(done) }()
	select {
	case <-done:
	case <-time.After(3 * time.Minute):
		return &fw.Trace{Status: fw.DriverError, Note: "free-running generator processes did not finish"}
	}
	t.Events = append(t.Events, fw.Event{"ev": "Snap", "markers": r.markers(), "quiet": true})
	return t
}

// ---- UUID-backed ids (connection, tunnel, mapping-instance) -----------------------------------

// driveUUID runs one TLC behaviour of IdGen.tla (Mode "uuid"): sequential Generate calls of the
// UUID-backed generators of two IDManagers (or two bare UUIDGenerators), some of them while the
// entropy source of github.com/google/uuid fails. There is no store and no gate: one call = one step.
func driveUUID(env *fw.Env, b *behaviour) *fw.Trace {
	ctx, cancel := context.WithCancel(context.Background())
	defer cancel()
	st := doubles.NewStore("st", nil)
	gens := map[string]func() (string, error){}
	for _, stp := range b.St { // one IDManager / generator per caller = per node
		if _, ok := gens[stp.P]; ok || stp.A != "UGen" {
			continue
		}
		if b.API == "mgr" {
			m := idgen.NewIDManager(st, ctx)
			gens[stp.P] = map[string]func() (string, error){"conn": m.GenerateConnectionID, "tun": m.GenerateTunnelID, "pmi": m.GeneratePortMappingInstanceID}[b.IDKind]
		} else {
			g := idgen.NewUUIDGenerator(map[string]string{"conn": idgen.PrefixConnectionID, "tun": idgen.PrefixTunnelID, "pmi": idgen.PrefixPortMappingInstanceID}[b.IDKind])
			gens[stp.P] = g.Generate
		}
	}
	t := &fw.Trace{Status: fw.Realised}
	t.Events = append(t.Events, fw.Event{"ev": "Cfg", "d": fmt.Sprintf("uuid:%s:%s", b.API, b.IDKind), "scope": true, "taken": []any{}})
	failing := false
	for i, stp := range b.St {
		switch stp.A {
		case "EntropyFail":
			failing = true
		case "EntropyHeal":
			failing = false
		case "UGen":
			t.Events = append(t.Events, fw.Event{"ev": "Call", "p": stp.P, "op": "Gen", "id": ""})
			done := make(chan genRes, 1)
			gen, f := gens[stp.P], failing
			go func() {
				var res genRes
				defer func() {
					if x := recover(); x != nil {
						// an abort that carries the entropy error hands out nothing: a clean failure
						res = genRes{ok: false, err: "panic"}
						if e, ok := x.(error); ok && errors.Is(e, errEntropy) {
							res.err = "entropy"
						}
					}
					done <- res
				}()
				if f {
					defer udisp.fail()()
				}
				id, err := gen()
				switch {
				case err == nil:
					res = genRes{ok: true, id: id}
				case errors.Is(err, errEntropy):
					res = genRes{ok: false, err: "entropy"}
				default:
					res = genRes{ok: false, err: "other"}
				}
			}()
			var res genRes
			select {
			case res = <-done:
			case <-time.After(30 * time.Second):
				return &fw.Trace{Status: fw.DriverError, Note: "UUID generation did not return"}
			}
			t.Events = append(t.Events, fw.Event{"ev": "Ret", "p": stp.P, "op": "Gen", "ok": res.ok, "id": res.id, "err": res.err})
			if res.ok != (stp.R == "ok") {
				t.Note = fmt.Sprintf("diverged at step %d (%s UGen): model expects %q, real call returned ok=%v id=%q err=%q", i, stp.P, stp.R, res.ok, res.id, res.err)
			}
		default:
			return &fw.Trace{Status: fw.DriverError, Note: "unknown action " + stp.A}
		}
	}
	return t
}
