package main

import (
	"context"
	"fmt"
	"runtime"
	"sort"
	"strconv"
	"strings"
	"sync"
	"sync/atomic"
	"time"

	coreerrors "tunnox-core/internal/core/errors"
	"tunnox-core/internal/core/node"
	"tunnox-core/internal/core/storage"
	"tunnox-core/internal/core/storage/hybrid"
	"tunnox-core/verifharness/doubles"
	"tunnox-core/verifharness/fw"
	"tunnox-core/verifharness/sched"
)

// Node-id allocator rig: every node is a real node.NodeIDAllocator over its own real
// hybrid.Storage; the tiers are doubles. Wiring (how the server builds hybrid.Storage):
//
//	split : local cache = the node's own memory double, shared cache = one double for all nodes
//	        (remote storage + redis)
//	same  : local cache and shared cache are the same store (redis mode)
//	local : no shared cache; all allocators use one hybrid.Storage (single process)
//
// The claim tier (where SetNXRuntime writes) is always the double named "shared".
const nSlotsReal = node.NodeIDMax

type nodeRig struct {
	s       *sched.Sched
	claim   *doubles.Store
	fault   *faultArm
	caches  map[string]*doubles.Store
	allocs  map[string]*node.NodeIDAllocator
	nctx    map[string]context.Context
	ncancel map[string]context.CancelFunc
	cancel  context.CancelFunc
	wiring  string
	nslots  int
}

func slotName(s int) string { return fmt.Sprintf("node-%04d", s) }
func slotKey(s int) string  { return node.NodeIDKeyPrefix + slotName(s) }
func slotOfKey(k string) int {
	k, ok := strings.CutPrefix(k, node.NodeIDKeyPrefix+"node-")
	if !ok || len(k) != 4 {
		return 0
	}
	s, err := strconv.Atoi(k)
	if err != nil {
		return 0
	}
	return s
}

// claimTier is the claim-tier double as the allocators see it. An unsuccessful AllocateNodeID probes
// all 1000 slots; the 998+ slots beyond the contended range are held by foreign nodes for the whole
// behaviour, and each probe through the double costs two goroutine-id look-ups (runtime.Stack) and a
// log entry - 3/4 of the drive time. The answer of the double for such a probe is known: (false, nil)
// while the foreign claim is there. claimTier gives that answer directly and passes everything else
// (every operation on the contended slots, every probe of a foreign slot whose key is gone, every
// other operation on any key) to the double.
type claimTier struct {
	*doubles.Store
	nslots int
}

func (c claimTier) SetNX(key string, value any, ttl time.Duration) (bool, error) {
	if slotOfKey(key) > c.nslots {
		if _, ok := c.Store.Peek(key); ok {
			return false, nil
		}
	}
	return c.Store.SetNX(key, value, ttl)
}

func newNodeRig(wiring string, nodes []string, nslots int, taken []int, free, realTTL bool) *nodeRig {
	r := &nodeRig{s: sched.New(free), wiring: wiring, nslots: nslots,
		caches: map[string]*doubles.Store{}, allocs: map[string]*node.NodeIDAllocator{},
		nctx: map[string]context.Context{}, ncancel: map[string]context.CancelFunc{}}
	r.s.Watchdog = 5 * time.Second // nothing blocks here; generous for a loaded machine (1000-slot scans)
	ctx, cancel := context.WithCancel(context.Background())
	r.cancel = cancel
	r.claim = doubles.NewStore("shared", r.s)
	r.claim.RealTTL = realTTL
	r.fault = &faultArm{}
	r.claim.Fault = r.fault.fn
	// only the contended slots are scheduling points; heartbeat goroutines (unknown to the
	// scheduler, Adopt == nil) always pass ungated
	r.claim.GateOn = func(op, key string) bool {
		s := slotOfKey(key)
		return (op == "SetNX" || op == "Delete") && s >= 1 && s <= nslots
	}
	var one storage.Storage
	tier := claimTier{r.claim, nslots}
	for _, n := range nodes {
		var st storage.Storage
		switch wiring {
		case "split":
			c := doubles.NewStore("cache-"+n, r.s)
			c.GateOn = func(op, key string) bool { return false }
			r.caches[n] = c
			st = hybrid.NewWithSharedCache(ctx, c, tier, nil, hybrid.DefaultConfig())
		case "same":
			st = hybrid.NewWithSharedCache(ctx, tier, tier, nil, hybrid.DefaultConfig())
		case "local":
			if one == nil {
				one = hybrid.New(ctx, tier, nil, hybrid.DefaultConfig())
			}
			st = one
		default:
			panic("wiring " + wiring)
		}
		r.allocs[n] = node.NewNodeIDAllocator(st)
		r.nctx[n], r.ncancel[n] = context.WithCancel(ctx)
	}
	// slots held by foreign live nodes: the pre-existing pattern, and everything beyond the contended range
	for _, s := range taken {
		r.claim.Poke(slotKey(s), "foreign", 0)
	}
	for s := nslots + 1; s <= nSlotsReal; s++ {
		r.claim.Poke(slotKey(s), "foreign", 0)
	}
	return r
}

func (r *nodeRig) close() {
	for _, c := range r.ncancel {
		c()
	}
	r.cancel()
}

// foreignLost lists the slots beyond the contended range (held by foreign live nodes throughout)
// whose claim key is gone.
func (r *nodeRig) foreignLost() []int {
	var out []int
	for s := r.nslots + 1; s <= nSlotsReal; s++ {
		if _, ok := r.claim.Peek(slotKey(s)); !ok {
			out = append(out, s)
		}
	}
	return out
}

// snapshot closes a trace: the Cfg event lists as "taken" the pre-existing slots of the behaviour;
// the 998 foreign slots beyond the contended range are taken too, but only those that matter are
// listed (a subset of the truth keeps the judge sound and the trace small): the ones handed out by
// a call and the ones whose claim key has vanished. markers = live claim keys among all listed ids.
func (r *nodeRig) snapshot(t *fw.Trace) {
	extra := map[int]bool{}
	for _, s := range r.foreignLost() {
		extra[s] = true
	}
	for _, e := range t.Events {
		if e["ev"] == "Ret" && e["op"] == "Gen" && e["ok"] == true {
			if s := slotOfKey(node.NodeIDKeyPrefix + fmt.Sprint(e["id"])); s > r.nslots {
				extra[s] = true
			}
		}
	}
	taken, _ := t.Events[0]["taken"].([]any)
	ms := r.markers()
	var xs []int
	for s := range extra {
		xs = append(xs, s)
	}
	sort.Ints(xs)
	for _, s := range xs {
		taken = append(taken, slotName(s))
		if _, ok := r.claim.Peek(slotKey(s)); ok {
			ms = append(ms, slotName(s))
		}
	}
	t.Events[0]["taken"] = taken
	t.Events = append(t.Events, fw.Event{"ev": "Snap", "markers": ms, "quiet": true})
}

func (r *nodeRig) markers() []any {
	out := []string{}
	for s := 1; s <= r.nslots; s++ {
		if _, ok := r.claim.Peek(slotKey(s)); ok {
			out = append(out, slotName(s))
		}
	}
	sort.Strings(out)
	res := make([]any, len(out))
	for i, s := range out {
		res[i] = s
	}
	return res
}

func takenSlots(tk []int) []any {
	out := []any{}
	for _, s := range tk {
		out = append(out, slotName(s))
	}
	return out
}

func nodeErrClass(err error) string {
	if err == nil {
		return ""
	}
	if coreerrors.IsCode(err, coreerrors.CodeResourceExhausted) {
		return "exhausted"
	}
	return "other"
}

func (r *nodeRig) alloc(n string) (res genRes) {
	defer func() {
		if x := recover(); x != nil {
			res = genRes{ok: false, err: "panic"}
		}
	}()
	id, err := r.allocs[n].AllocateNodeID(r.nctx[n])
	if err != nil {
		// own: what the allocator itself reports as its id after the failure (must be nothing)
		return genRes{ok: false, err: nodeErrClass(err), own: r.allocs[n].GetNodeID()}
	}
	return genRes{ok: true, id: id}
}

func (r *nodeRig) release(n, id string) (res genRes) {
	defer func() {
		if x := recover(); x != nil {
			res = genRes{ok: false, id: id, err: "panic"}
		}
	}()
	err := r.allocs[n].Release()
	return genRes{ok: err == nil, id: id, err: nodeErrClass(err)}
}

const renewPeriod = 30 * time.Second // the allocator's ticker period (a constant in heartbeatLoop)

// attempts counts the heartbeat's Set calls (successful or failed) on the claim key of slot s, in
// the claim tier and in node n's local cache.
func (r *nodeRig) attempts(n string, s int) int {
	k := 0
	for _, c := range r.claim.Log() {
		if c.Op == "Set" && c.Key == slotKey(s) {
			k++
		}
	}
	if c := r.caches[n]; c != nil {
		for _, x := range c.Log() {
			if x.Op == "Set" && x.Key == slotKey(s) {
				k++
			}
		}
	}
	return k
}

// writes counts the heartbeat renewals (plain Set) of the claim key of slot s, per tier
func (r *nodeRig) writes(n string, s int) (claimTier, localTier int) {
	for _, c := range r.claim.Log() {
		if c.Op == "Set" && c.Key == slotKey(s) && c.Err == "" {
			claimTier++
		}
	}
	if c := r.caches[n]; c != nil {
		for _, x := range c.Log() {
			if x.Op == "Set" && x.Key == slotKey(s) && x.Err == "" {
				localTier++
			}
		}
	}
	return
}

func (r *nodeRig) deletes(s int) int {
	k := 0
	for _, c := range r.claim.Log() {
		if c.Op == "Delete" && c.Key == slotKey(s) {
			k++
		}
	}
	return k
}

// driveNode forces one TLC behaviour of IdGen.tla (Mode "node") on real allocators. Claim / Del
// are scheduled at the SetNX / Delete of the claim tier; Renew is the real 30 s heartbeat and is
// waited for; Expire is the real 90 s TTL of the claim key (doubles.Store.RealTTL) and is waited
// for; Tick is bookkeeping of the model only.
//
// Clock = "fake" (lease histories, see bubble.go; the caller runs this function inside a fake-clock
// bubble): Tick arms the transient store faults of the period that begins (the Renew steps with
// result "fail" up to the next Tick: the next Set on that holder's claim key fails) and lets one
// renew period (30 s) of virtual time pass - every running heartbeat fires once in it; a Renew step
// then consumes that holder's attempt (or finds, after a margin, that the heartbeat is silent). After
// the last step - also when the real code left the script - every call is completed and the history
// is continued by a model-valid suffix that turns a lost lease into the event the property speaks
// about: a fresh node allocates (q1), Tail fault-free periods pass, another fresh node allocates (q2).
func driveNode(env *fw.Env, b *behaviour) *fw.Trace {
	fake := b.Clock == "fake"
	nodes := []string{"n1", "n2", "n3"}
	if fake {
		nodes = append(nodes, "q1", "q2")
	}
	r := newNodeRig(b.Store, nodes, b.NSlots, b.Tk, false, b.Timed)
	defer r.close()
	r.fault.maxConsec = max(b.MaxCF, 1)
	t := &fw.Trace{Status: fw.Realised}
	d := "node:" + b.Store
	if fake {
		d += ":lease"
	}
	t.Events = append(t.Events, fw.Event{"ev": "Cfg", "d": d, "scope": true, "taken": takenSlots(b.Tk)})
	type ncall struct {
		name, p, op, id string
		logged          bool
	}
	cur := map[string]*ncall{}
	var started []*ncall
	// timed behaviours are judged only if this process was never starved: a goroutine ticking every
	// 50 ms records the longest gap it saw (a stall of the whole process would delay heartbeats and
	// the driver alike while the store's real-time TTLs run on)
	var maxGap atomic.Int64
	if b.Timed && !fake {
		stop := make(chan struct{})
		defer close(stop)
		go func() {
			last := time.Now()
			for {
				select {
				case <-stop:
					return
				case <-time.After(50 * time.Millisecond):
				}
				now := time.Now()
				if g := int64(now.Sub(last)); g > maxGap.Load() {
					maxGap.Store(g)
				}
				last = now
			}
		}()
	}
	silent := map[string]bool{}     // a live node whose heartbeat was not seen for 45 s
	hold := map[string]int{}        // slot a live node holds (as returned by the real code)
	seen := map[string]int{}        // renewals of that node already consumed by Renew steps
	lastW := map[string]time.Time{} // time of the claim / last renewal consumed
	expLogged := map[int]bool{}
	delsAtClaim := map[string]int{}
	attAtClaim := map[string]int{} // fake clock: Set attempts on the holder's claim key when it was claimed ...
	consumed := map[string]int{}   // ... and attempts since then consumed by Renew steps
	logRet := func(a *ncall) {
		if a.logged {
			return
		}
		a.logged = true
		res, _ := r.s.Result(a.name).(genRes)
		if a.op == "Rel" {
			res.id = a.id
		}
		ev := fw.Event{"ev": "Ret", "p": a.p, "op": a.op, "ok": res.ok, "id": res.id, "err": res.err}
		if a.op == "Gen" && !res.ok {
			ev["own"] = res.own
		}
		t.Events = append(t.Events, ev)
		if a.op == "Gen" && res.ok {
			hold[a.p] = slotOfKey(node.NodeIDKeyPrefix + res.id)
			lastW[a.p] = time.Now()
			delsAtClaim[a.p] = r.deletes(hold[a.p])
			attAtClaim[a.p], consumed[a.p] = r.attempts(a.p, hold[a.p]), 0
			silent[a.p] = false
		}
	}
	// one allocation by a fresh node, called directly (after Drain the scheduler lets everything pass)
	probe := func(q string) {
		t.Events = append(t.Events, fw.Event{"ev": "Call", "p": q, "op": "Gen", "id": ""})
		res := r.alloc(q)
		ev := fw.Event{"ev": "Ret", "p": q, "op": "Gen", "ok": res.ok, "id": res.id, "err": res.err}
		if !res.ok {
			ev["own"] = res.own
		}
		t.Events = append(t.Events, ev)
	}
	// a claim key of a live holder that vanished without a Delete was dropped by its TTL
	observeExpiries := func() {
		if !b.Timed {
			return
		}
		for n, s := range hold {
			if s == 0 || expLogged[s] {
				continue
			}
			if _, ok := r.claim.Peek(slotKey(s)); !ok && r.deletes(s) == delsAtClaim[n] {
				expLogged[s] = true
				t.Events = append(t.Events, fw.Event{"ev": "Expire", "id": slotName(s)})
			}
		}
	}
	finish := func(note string) *fw.Trace {
		if !r.s.Drain(5 * time.Second) {
			return &fw.Trace{Status: fw.DriverError, Note: "calls did not finish after drain (" + note + ")"}
		}
		for _, a := range started {
			logRet(a)
		}
		observeExpiries()
		if fake && b.Tail > 0 {
			r.fault.disarm()
			for _, n := range nodes {
				if hold[n] != 0 {
					r.fault.disarmSet(slotKey(hold[n]))
				}
			}
			probe("q1")
			for k := 0; k < b.Tail; k++ {
				time.Sleep(renewPeriod)
				observeExpiries()
			}
			probe("q2")
			observeExpiries()
		}
		if r.fault.suppressed > 0 {
			note += fmt.Sprintf("[%d transient faults not delivered: they would have been more than %d in a row] ", r.fault.suppressed, r.fault.maxConsec)
		}
		r.snapshot(t)
		t.Note = note
		if g := time.Duration(maxGap.Load()); g > 10*time.Second {
			return &fw.Trace{Status: fw.Inconclusive, Note: fmt.Sprintf("this process was stalled for %v during a timed behaviour", g)}
		}
		return t
	}
	at := func(a *ncall, op string, s int) bool {
		st, g := r.s.State(a.name)
		return st == sched.Parked && g.Point == "shared."+op && g.Info["key"] == slotKey(s)
	}
	for i, st := range b.St {
		div := func(f string, x ...any) *fw.Trace {
			return finish(fmt.Sprintf("diverged at step %d (%s %s): ", i, st.P, st.A) + fmt.Sprintf(f, x...))
		}
		observeExpiries()
		if (st.A == "Renew" && !fake) || st.A == "Expire" { // (fake clock: a Renew step takes no time, the attempt was made during Tick)
			// model assumption: a Release call does not last a renew period - so the driver must not
			// let real time pass while it keeps one parked in front of its Delete
			for _, a := range started {
				if s0, _ := r.s.State(a.name); a.op == "Rel" && s0 != sched.Done {
					return div("a Release call is in progress; real time must not pass now")
				}
			}
		}
		switch st.A {
		case "CallAlloc":
			a := &ncall{name: fmt.Sprintf("%s.alloc%d", st.P, len(started)), p: st.P, op: "Gen"}
			cur[st.P] = a
			started = append(started, a)
			t.Events = append(t.Events, fw.Event{"ev": "Call", "p": st.P, "op": "Gen", "id": ""})
			n := st.P
			if state := r.s.Start(a.name, func() any { return r.alloc(n) }); !at(a, "SetNX", 1) {
				return div("allocation is %s, model expects it at the SetNX of slot 1", state)
			}
		case "Claim":
			a := cur[st.P]
			if a == nil || a.op != "Gen" {
				return &fw.Trace{Status: fw.DriverError, Note: "Claim before CallAlloc"}
			}
			if !at(a, "SetNX", st.C) {
				s0, g := r.s.State(a.name)
				return div("allocation is %s at %q %v, model expects the SetNX of slot %d", s0, g.Point, g.Info["key"], st.C)
			}
			if st.R == "fretry" || st.R == "ferr" {
				r.fault.arm("SetNX", slotKey(st.C)) // the single store fault: this SetNX returns an error
			}
			ns, _ := r.s.Step(a.name)
			if (st.R == "fretry" || st.R == "ferr") && !r.fault.spent() {
				return &fw.Trace{Status: fw.DriverError, Note: "the armed store fault was not consumed by SetNX"}
			}
			switch st.R {
			case "ok":
				if ns != sched.Done {
					return div("expected the allocation to return, is %s", ns)
				}
				logRet(a)
				if res, _ := r.s.Result(a.name).(genRes); !res.ok || res.id != slotName(st.C) {
					return div("model expects %s, real allocation returned ok=%v id=%q err=%q", slotName(st.C), res.ok, res.id, res.err)
				}
			case "retry", "fretry":
				if !at(a, "SetNX", st.C+1) {
					return div("expected the SetNX of slot %d next, is %s", st.C+1, ns)
				}
			case "err", "ferr":
				if ns != sched.Done {
					return div("expected the allocation to fail, is %s", ns)
				}
				logRet(a)
				if res, _ := r.s.Result(a.name).(genRes); res.ok || res.err != "exhausted" {
					return div("model expects the no-free-id error, real allocation returned ok=%v id=%q err=%q", res.ok, res.id, res.err)
				}
			}
		case "CallRel":
			if st.R == "noop" {
				// Release by an allocator whose allocation failed: it holds nothing and must touch no key
				a := &ncall{name: st.P + ".rel", p: st.P, op: "Rel", id: ""}
				cur[st.P] = a
				started = append(started, a)
				t.Events = append(t.Events, fw.Event{"ev": "Call", "p": st.P, "op": "Rel", "id": ""})
				n := st.P
				if state := r.s.Start(a.name, func() any { return r.release(n, "") }); state != sched.Done {
					return div("release of a failed allocator is %s, model expects it to return at once", state)
				}
				logRet(a)
				continue
			}
			id := slotName(hold[st.P])
			a := &ncall{name: fmt.Sprintf("%s.rel%d", st.P, len(started)), p: st.P, op: "Rel", id: id}
			cur[st.P] = a
			started = append(started, a)
			t.Events = append(t.Events, fw.Event{"ev": "Call", "p": st.P, "op": "Rel", "id": id})
			n := st.P
			slot := hold[n]
			hold[n] = 0
			if state := r.s.Start(a.name, func() any { return r.release(n, id) }); !at(a, "Delete", slot) {
				return div("release is %s, model expects it at the Delete of slot %d", state, slot)
			}
		case "Del":
			a := cur[st.P]
			if a == nil || a.op != "Rel" {
				return &fw.Trace{Status: fw.DriverError, Note: "Del before CallRel"}
			}
			if st.R == "fault" {
				r.fault.arm("Delete", node.NodeIDKeyPrefix+a.id) // the single store fault: this Delete returns an error
			}
			ns, _ := r.s.Step(a.name)
			if st.R == "fault" && !r.fault.spent() {
				return &fw.Trace{Status: fw.DriverError, Note: "the armed store fault was not consumed by Delete"}
			}
			if ns != sched.Done {
				return div("expected the release to return, is %s", ns)
			}
			logRet(a)
		case "Crash":
			r.ncancel[st.P]() // the node's context ends: its heartbeat loop stops, the key is left to its TTL
			hold[st.P] = 0
			t.Events = append(t.Events, fw.Event{"ev": "Crash", "p": st.P})
			if fake {
				settle() // the heartbeat goroutine has seen the cancelled context
			} else {
				time.Sleep(5 * time.Millisecond)
			}
		case "Tick":
			// real clock: model time only; real time passes in Renew and Expire
			if fake {
				for j := i + 1; j < len(b.St) && b.St[j].A != "Tick"; j++ {
					if x := b.St[j]; x.A == "Renew" && x.R == "fail" && hold[x.P] != 0 && !silent[x.P] {
						r.fault.armSet(slotKey(hold[x.P])) // transient store error for this holder's renewal of this period
					}
				}
				time.Sleep(renewPeriod)
				// every heartbeat whose tick is due at this very instant makes its attempt now, before the next
				// step. (Otherwise: Tick, CallRel(m) - m's loop may still pick its due tick over the closed
				// stop channel, its Set then waits for hybrid's key lock held by the Release parked at its
				// Delete, a goroutine blocked on a mutex keeps the bubble from ever being idle, and the next
				// sleep of the driver would never end.) Nothing is parked inside a lock here: the model lets
				// no period pass while a Release is in progress, and allocations park outside hybrid's locks.
				settle()
			}
		case "Renew":
			n, s := st.P, hold[st.P]
			if s == 0 {
				return div("node holds nothing")
			}
			if fake {
				if silent[n] {
					continue // (the period has passed in Tick)
				}
				// the attempt of this period has been made during Tick, or is being made at this very instant
				heard := false
				for k := 0; k < 1000 && !heard; k++ {
					if heard = r.attempts(n, s)-attAtClaim[n] > consumed[n]; !heard {
						for _, a := range started {
							if s0, _ := r.s.State(a.name); a.op == "Rel" && s0 != sched.Done {
								return div("no renewal attempt yet and a Release call is in progress; time must not pass now")
							}
						}
						time.Sleep(10 * time.Millisecond)
					}
				}
				if !heard {
					r.fault.disarmSet(slotKey(s))
					silent[n] = true
					t.Note += fmt.Sprintf("[diverged at step %d: no heartbeat of live node %s in its period] ", i, n)
					continue
				}
				consumed[n]++
				lastW[n] = time.Now()
				continue
			}
			if silent[n] {
				// the heartbeat of this live node has stopped: the model's renewal does not happen, the
				// period of real time it stands for passes all the same
				time.Sleep(30 * time.Second)
				continue
			}
			deadline := lastW[n].Add(45 * time.Second) // ticker period 30 s, margin 1.5x
			if st.R == "fail" {
				r.fault.arm("Set", slotKey(s)) // transient store error for this renewal
			}
			var c, l int
			heard := false
			for !heard {
				if st.R == "fail" {
					heard = r.fault.delivered()
				} else {
					c, l = r.writes(n, s)
					heard = c+l > seen[n]
				}
				if !heard {
					if time.Now().After(deadline) {
						break
					}
					time.Sleep(20 * time.Millisecond)
				}
			}
			if !heard {
				r.fault.disarm()
				silent[n] = true
				t.Note += fmt.Sprintf("[diverged at step %d: no heartbeat of live node %s for 45 s] ", i, n)
				continue
			}
			lastW[n] = time.Now()
			if st.R == "fail" {
				continue
			}
			seen[n]++
			where := "local"
			if r.wiring != "split" || l == 0 {
				where = "claim"
			}
			if where != st.R {
				// informational: the renewal went to another tier than this model of the code says;
				// the run continues - it is still a run of the real code
				t.Note += fmt.Sprintf("[renewal of %s written to the %s tier, model says %s] ", n, where, st.R)
			}
		case "Expire":
			s := st.C
			if expLogged[s] {
				continue
			}
			gone := false
			for k := 0; k < 4 && !gone; k++ {
				if _, ok := r.claim.Peek(slotKey(s)); !ok {
					gone = true
					break
				}
				rem, err := r.claim.GetExpiration(slotKey(s))
				// (fake clock: the step is reached exactly when the TTL has run down to 0 - the key goes an instant later)
				if err != nil || (rem <= 0 && !fake) || rem > node.NodeIDLockTTL+time.Second {
					break
				}
				rem = max(rem, 0)
				if k > 0 && rem > 31*time.Second {
					break // it is being renewed: this claim does not expire
				}
				time.Sleep(rem + 30*time.Millisecond)
			}
			if !gone {
				return div("the claim key of slot %d does not expire on this code", s)
			}
			expLogged[s] = true
			t.Events = append(t.Events, fw.Event{"ev": "Expire", "id": slotName(s)})
		default:
			return &fw.Trace{Status: fw.DriverError, Note: "unknown action " + st.A}
		}
	}
	return finish(t.Note)
}

// driveNodeFree: free-running: Procs nodes allocate concurrently against pre-occupied slots, some
// release and allocate again through a fresh allocator. No time passes (no renewals).
func driveNodeFree(env *fw.Env, b *behaviour) *fw.Trace {
	var nodes []string
	for i := 1; i <= b.Procs; i++ {
		nodes = append(nodes, fmt.Sprintf("n%d", i))
	}
	r := newNodeRig(b.Store, nodes, b.NSlots, b.Tk, true, false)
	defer r.close()
	rnd := fw.NewRand(env.Seed*6271 + int64(b.Seed))
	var rmu sync.Mutex
	r.s.FreeDelay = func(name string, g sched.GateInfo) {
		if s := slotOfKey(fmt.Sprint(g.Info["key"])); s > b.NSlots {
			return
		}
		rmu.Lock()
		k := rnd.Intn(10)
		rmu.Unlock()
		switch {
		case k < 4:
			runtime.Gosched()
		case k < 6:
			time.Sleep(time.Duration(10+k*10) * time.Microsecond)
		}
	}
	t := &fw.Trace{Status: fw.Realised}
	t.Events = append(t.Events, fw.Event{"ev": "Cfg", "d": "node:" + b.Store + ":free", "scope": true, "taken": takenSlots(b.Tk)})
	var mu sync.Mutex
	var wg sync.WaitGroup
	for ni, n := range nodes {
		wg.Add(1)
		prnd := fw.NewRand(env.Seed*31337 + int64(b.Seed)*17 + int64(ni))
		go func(n string) {
			defer wg.Done()
			mu.Lock()
			t.Events = append(t.Events, fw.Event{"ev": "Call", "p": n, "op": "Gen", "id": ""})
			mu.Unlock()
			res := r.alloc(n)
			mu.Lock()
			ev := fw.Event{"ev": "Ret", "p": n, "op": "Gen", "ok": res.ok, "id": res.id, "err": res.err}
			if !res.ok {
				ev["own"] = res.own
			}
			t.Events = append(t.Events, ev)
			mu.Unlock()
			if res.ok && prnd.Intn(2) == 0 || !res.ok {
				// (a failed allocator's shutdown path calls Release too: it must touch nothing)
				mu.Lock()
				t.Events = append(t.Events, fw.Event{"ev": "Call", "p": n, "op": "Rel", "id": res.id})
				mu.Unlock()
				rr := r.release(n, res.id)
				mu.Lock()
				t.Events = append(t.Events, fw.Event{"ev": "Ret", "p": n, "op": "Rel", "ok": rr.ok, "id": res.id, "err": rr.err})
				mu.Unlock()
			}
		}(n)
	}
	done := make(chan struct{})
	go func() { wg.Wait(); close(done) }()
	select {
	case <-done:
	case <-time.After(3 * time.Minute):
		return &fw.Trace{Status: fw.DriverError, Note: "free-running allocators did not finish"}
	}
	r.snapshot(t)
	return t
}
