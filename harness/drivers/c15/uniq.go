package main

// The retry layer of idgen.IDManager above its generators (IdGen.tla, Mode "uniq"):
//
//	GenerateUniqueClientID(check) / GenerateUniqueID(gen, check, rel, type) /
//	GenerateUniquePortMappingID(check) / GenerateUniqueNodeID(check)
//
// loop { id := Generate(); exists := check(id); !exists -> return id; Release(id) } for at most
// idgen.MaxAttempts (100) attempts, then the resource-exhausted error. The caller's check function
// is the driver's: it parks at the gate "uniq.check" and answers from the behaviour's repository
// set (ids that exist in the caller's repository whether or not a used-marker exists for them).
//
// The attempt budget: the model has MaxU (2-3) attempts, the code 100. The model's attempts
// 1 .. MaxU-1 are the code's attempts 1 .. MaxU-1; the model's LAST attempt is the code's attempt
// 100: when the model's last retry is taken (URel "retry" that leads to attempt MaxU) the scripted
// random source hands the candidate that has just collided 100-MaxU more times (it collides again
// each time: it exists in the repository and its marker has just been released) and then the
// model's next candidate. So a model call that succeeds at its last attempt has exactly 99
// colliding candidates on the real code, a model call that uses up its budget exactly 100, and
// what the source holds for a 101st draw is chosen by the behaviour's Tail: "fresh" (a free
// candidate) or "repeat" (the colliding candidate again, as often as the code asks).

import (
	"context"
	"errors"
	"fmt"
	"strconv"
	"sync"
	"time"

	coreerrors "tunnox-core/internal/core/errors"
	"tunnox-core/internal/core/idgen"
	"tunnox-core/internal/core/storage"
	"tunnox-core/internal/core/storage/hybrid"
	"tunnox-core/verifharness/doubles"
	"tunnox-core/verifharness/fw"
	"tunnox-core/verifharness/sched"
)

var uniqAPIs = []string{"uclient", "ugeneric", "upmap", "unode"}

func uniqKind(api string) idKind {
	switch api {
	case "upmap":
		return kinds["pmap"]
	case "unode":
		return kinds["node"]
	}
	return kinds["client"]
}

type uniqRig struct {
	s        *sched.Sched
	mark     *doubles.Store
	kind     idKind
	repo     map[string]bool
	insts    map[string]genInst
	cancel   context.CancelFunc
	chkMu    sync.Mutex
	chkFault bool           // the next check fails
	probe    genInst        // the plain generator of this id kind on a further manager (closing draws)
	candOf   map[string]int // id -> candidate number, for the ids the script can produce
}

var errCheck = errors.New("repository check failed (injected)")

func uniqErrClass(err error) string {
	if err == nil {
		return ""
	}
	if errors.Is(err, idgen.ErrIDExhausted) || coreerrors.IsCode(err, coreerrors.CodeResourceExhausted) {
		return "exhausted"
	}
	return "other"
}

func (r *uniqRig) check(id string) (bool, error) {
	r.s.Gate("uniq.check", map[string]any{"id": id})
	r.chkMu.Lock()
	f := r.chkFault
	r.chkFault = false
	r.chkMu.Unlock()
	if f {
		return false, errCheck
	}
	return r.repo[id], nil
}

func newUniqRig(b *behaviour, procs []string) *uniqRig {
	r := &uniqRig{s: sched.New(false), kind: uniqKind(b.API), repo: map[string]bool{}, insts: map[string]genInst{}}
	r.s.Watchdog = 5 * time.Second
	ctx, cancel := context.WithCancel(context.Background())
	r.cancel = cancel
	name := "st"
	if b.Store == "hybrid" {
		name = "shared"
	}
	r.mark = doubles.NewStore(name, r.s)
	for _, c := range b.Rp {
		r.repo[r.kind.idOf(c)] = true
	}
	r.candOf = map[string]int{}
	for c := 1; c <= 8; c++ {
		r.candOf[r.kind.idOf(c)] = c
	}
	chkInt := func(v int64) (bool, error) { return r.check(strconv.FormatInt(v, 10)) }
	for _, p := range procs {
		in := instOf(b.Lay, p)
		if _, ok := r.insts[in]; ok {
			continue
		}
		var st storage.Storage = r.mark
		if b.Store == "hybrid" {
			local := doubles.NewStore("cache-"+in, r.s)
			st = hybrid.NewWithSharedCache(ctx, local, r.mark, nil, hybrid.DefaultConfig())
		}
		m := idgen.NewIDManager(st, ctx)
		relInt := func(id string) error { v, _ := strconv.ParseInt(id, 10, 64); return m.ReleaseClientID(v) }
		switch b.API {
		case "uclient":
			r.insts[in] = genInst{gen: func() (string, error) {
				v, err := m.GenerateUniqueClientID(chkInt)
				return strconv.FormatInt(v, 10), err
			}, rel: relInt}
		case "ugeneric":
			r.insts[in] = genInst{gen: func() (string, error) {
				v, err := m.GenerateUniqueID(m.GenerateClientID, chkInt, m.ReleaseClientID, "client")
				return strconv.FormatInt(v, 10), err
			}, rel: relInt}
		case "upmap":
			r.insts[in] = genInst{gen: func() (string, error) { return m.GenerateUniquePortMappingID(r.check) }, rel: m.ReleasePortMappingID}
		case "unode":
			r.insts[in] = genInst{gen: func() (string, error) { return m.GenerateUniqueNodeID(r.check) }, rel: m.ReleaseNodeID}
		default:
			panic("uniq api " + b.API)
		}
	}
	var pst storage.Storage = r.mark
	if b.Store == "hybrid" {
		pst = hybrid.NewWithSharedCache(ctx, doubles.NewStore("cache-q", r.s), r.mark, nil, hybrid.DefaultConfig())
	}
	r.probe = newInst("mgr", r.kind, pst, ctx, false)
	return r
}

func (r *uniqRig) markers() []any {
	genr := &genRig{mark: r.mark, kind: r.kind}
	return genr.markers()
}

func uniqGen(in genInst) (res genRes) {
	defer func() {
		if x := recover(); x != nil {
			res = genRes{ok: false, err: "panic"}
		}
	}()
	id, err := in.gen()
	if err != nil {
		return genRes{ok: false, err: uniqErrClass(err), id: ""}
	}
	return genRes{ok: true, id: id}
}

// driveUniq forces one TLC behaviour of IdGen.tla (Mode "uniq") on real IDManagers.
func driveUniq(env *fw.Env, b *behaviour) *fw.Trace {
	procs := []string{"p1", "p2", "p3"}
	r := newUniqRig(b, procs)
	defer r.cancel()
	for _, c := range b.Tk {
		r.mark.Poke(r.kind.key(c), "pre-existing", 0)
	}
	maxU := b.MaxU
	if maxU < 2 {
		return &fw.Trace{Status: fw.DriverError, Note: "uniq behaviour without the model's attempt budget"}
	}
	t := &fw.Trace{Status: fw.Realised}
	d := fmt.Sprintf("uniq:%s:%s:%s", b.Store, b.Lay, b.API)
	t.Events = append(t.Events, fw.Event{"ev": "Cfg", "d": d, "scope": true, "taken": takenIDs(r.kind, b.Tk), "repo": takenIDs(r.kind, b.Rp), "clean": true})
	cur := map[string]*gcall{}
	cand := map[string]int{}
	uatt := map[string]int{}
	ncalls := map[string]int{}
	var started []*gcall
	logRet := func(a *gcall) {
		if a.logged {
			return
		}
		a.logged = true
		res, _ := r.s.Result(a.name).(genRes)
		if a.op == "Rel" {
			res.id = a.id
		}
		ev := fw.Event{"ev": "Ret", "p": a.p, "op": a.op, "ok": res.ok, "id": res.id, "err": res.err}
		if a.assumed {
			ev["assumed"] = true
		}
		t.Events = append(t.Events, ev)
	}
	finish := func(note string) *fw.Trace {
		if !r.s.Drain(10 * time.Second) {
			return &fw.Trace{Status: fw.DriverError, Note: "calls did not finish after drain (" + note + ")"}
		}
		for _, a := range started {
			logRet(a)
		}
		// closing suffix (model-valid: calls of a further caller q on its own manager, all checks "free"):
		// every id that is outstanding now is drawn once more by another generator on the same store - it
		// must be refused (the scripted source then goes on with a fresh candidate)
		outst := map[string]bool{}
		var order []string
		for _, e := range t.Events {
			id, _ := e["id"].(string)
			switch {
			case e["ev"] == "Ret" && e["op"] == "Gen" && e["ok"] == true:
				if !outst[id] {
					order = append(order, id)
				}
				outst[id] = true
			case e["ev"] == "Call" && e["op"] == "Rel":
				delete(outst, id)
			}
		}
		for _, id := range order {
			if !outst[id] {
				continue
			}
			c, ok := r.candOf[id]
			if !ok {
				continue // (an id the script did not choose: nothing to aim at)
			}
			src := &source{typ: r.kind.typ}
			src.push(c)
			t.Events = append(t.Events, fw.Event{"ev": "Call", "p": "q", "op": "Gen", "id": ""})
			unbind := disp.bind(src)
			res := safeGen(r.probe)
			unbind()
			t.Events = append(t.Events, fw.Event{"ev": "Ret", "p": "q", "op": "Gen", "ok": res.ok, "id": res.id, "err": res.err})
		}
		t.Events = append(t.Events, fw.Event{"ev": "Snap", "markers": r.markers(), "quiet": true})
		t.Note = note
		return t
	}
	gate := func(op string) string { return r.mark.Name + "." + op }
	atStore := func(a *gcall, op string, c int) bool {
		st, g := r.s.State(a.name)
		return st == sched.Parked && g.Point == gate(op) && g.Info["key"] == r.kind.key(c)
	}
	atCheck := func(a *gcall, c int) bool {
		st, g := r.s.State(a.name)
		return st == sched.Parked && g.Point == "uniq.check" && g.Info["id"] == r.kind.idOf(c)
	}
	where := func(a *gcall) string {
		st, g := r.s.State(a.name)
		return fmt.Sprintf("%s at %q %v%v", st, g.Point, g.Info["key"], g.Info["id"])
	}
	// burst: n more attempts of the real loop on the colliding candidate c, not interleaved with anybody
	burst := func(a *gcall, c, n int) string {
		for k := 0; k < n; k++ {
			if !atStore(a, "SetNX", c) {
				return "stretch: expected the SetNX of the colliding candidate, is " + where(a)
			}
			r.s.Step(a.name)
			if !atCheck(a, c) {
				return "stretch: expected the check of the colliding candidate, is " + where(a)
			}
			r.s.Step(a.name)
			if !atStore(a, "Delete", c) {
				return "stretch: expected the release of the colliding candidate, is " + where(a)
			}
			r.s.Step(a.name)
		}
		return ""
	}
	for i, st := range b.St {
		div := func(f string, x ...any) *fw.Trace {
			return finish(fmt.Sprintf("diverged at step %d (%s %s): ", i, st.P, st.A) + fmt.Sprintf(f, x...))
		}
		switch st.A {
		case "UCall", "CallRel":
			ncalls[st.P]++
			a := &gcall{name: fmt.Sprintf("%s.%d", st.P, ncalls[st.P]), p: st.P, op: "Gen", src: &source{typ: r.kind.typ}}
			in := r.insts[instOf(b.Lay, st.P)]
			fn := func() any { defer disp.bind(a.src)(); return uniqGen(in) }
			want := "SetNX"
			if st.A == "CallRel" {
				a.op, a.id = "Rel", r.kind.idOf(st.C)
				fn = func() any { return safeRel(in, a.id) }
				want = "Delete"
			} else {
				a.src.push(st.C)
				uatt[st.P] = 1
			}
			cand[st.P] = st.C
			cur[st.P] = a
			started = append(started, a)
			t.Events = append(t.Events, fw.Event{"ev": "Call", "p": st.P, "op": a.op, "id": a.id})
			if state := r.s.Start(a.name, fn); !atStore(a, want, st.C) {
				return div("call is %s, model expects it at %s", state, gate(want))
			}
		case "Del":
			a := cur[st.P]
			if a == nil || !atStore(a, "Delete", cand[st.P]) {
				return div("model expects the caller's release at its Delete")
			}
			if ns, _ := r.s.Step(a.name); ns != sched.Done {
				return div("expected the release to return, is %s", ns)
			}
			logRet(a)
		case "UNX":
			a := cur[st.P]
			if a == nil || !atStore(a, "SetNX", cand[st.P]) {
				return div("model expects the SetNX of candidate %d, process is %s", cand[st.P], where(a))
			}
			switch st.R {
			case "ok":
				r.s.Step(a.name)
				if !atCheck(a, cand[st.P]) {
					return div("expected the check function to be asked about the candidate, is %s", where(a))
				}
			case "retry":
				a.src.push(st.C)
				r.s.Step(a.name)
				cand[st.P] = st.C
				if !atStore(a, "SetNX", st.C) {
					return div("expected the generator's next attempt, is %s", where(a))
				}
			case "err":
				a.src.setRepeat() // this and every remaining attempt of the generator's loop hit the same marked id
				ns, _ := r.s.Step(a.name)
				for k := 0; ns == sched.Parked && k < 2*idgen.MaxAttempts; k++ {
					if !atStore(a, "SetNX", cand[st.P]) {
						return div("the generator's exhaustion burst left the marked candidate: %s", where(a))
					}
					ns, _ = r.s.Step(a.name)
				}
				if ns != sched.Done {
					return div("expected the call to give up, is %s", ns)
				}
				logRet(a)
				if res, _ := r.s.Result(a.name).(genRes); res.ok || res.err != "exhausted" {
					return div("model expects the generator's exhaustion error, real call returned ok=%v id=%q err=%q", res.ok, res.id, res.err)
				}
			}
		case "UChk":
			a := cur[st.P]
			if a == nil || !atCheck(a, cand[st.P]) {
				return div("model expects the check of candidate %d, process is %s", cand[st.P], where(a))
			}
			if st.R == "ferr" {
				r.chkMu.Lock()
				r.chkFault = true
				r.chkMu.Unlock()
				a.assumed = true
			}
			ns, _ := r.s.Step(a.name)
			switch st.R {
			case "free", "ferr":
				if ns != sched.Done {
					return div("expected the call to return the candidate, is %s", where(a))
				}
				logRet(a)
				if res, _ := r.s.Result(a.name).(genRes); !res.ok || res.id != r.kind.idOf(cand[st.P]) {
					return div("model expects success with %s, real call returned ok=%v id=%q err=%q", r.kind.idOf(cand[st.P]), res.ok, res.id, res.err)
				}
			case "exists":
				if !atStore(a, "Delete", cand[st.P]) {
					return div("expected the release of the colliding candidate, is %s", where(a))
				}
			}
		case "URel":
			a := cur[st.P]
			if a == nil || !atStore(a, "Delete", cand[st.P]) {
				return div("model expects the release of candidate %d, process is %s", cand[st.P], where(a))
			}
			switch st.R {
			case "retry":
				uatt[st.P]++
				if uatt[st.P] == maxU {
					// the model's last attempt is the code's attempt 100 (see the head of this file)
					extra := idgen.MaxAttempts - maxU
					for k := 0; k < extra; k++ {
						a.src.push(cand[st.P])
					}
					a.src.push(st.C)
					r.s.Step(a.name)
					if msg := burst(a, cand[st.P], extra); msg != "" {
						return div("%s", msg)
					}
				} else {
					a.src.push(st.C)
					r.s.Step(a.name)
				}
				cand[st.P] = st.C
				if !atStore(a, "SetNX", st.C) {
					return div("expected the next attempt with candidate %d, is %s", st.C, where(a))
				}
			case "err", "last":
				if uatt[st.P] != maxU {
					return &fw.Trace{Status: fw.DriverError, Note: "exhaustion step before the model's last attempt"}
				}
				if b.Tail101 == "repeat" {
					a.src.setRepeat() // a 101st, 102nd ... draw collides again
				} // else: fresh, never colliding candidates
				ns, _ := r.s.Step(a.name)
				if ns != sched.Done {
					return div("the attempt budget is used up (100 colliding candidates): expected the call to return, is %s", where(a))
				}
				logRet(a)
				if res, _ := r.s.Result(a.name).(genRes); res.ok || res.err != "exhausted" {
					return div("model expects the resource-exhausted error, real call returned ok=%v id=%q err=%q", res.ok, res.id, res.err)
				}
			}
		default:
			return &fw.Trace{Status: fw.DriverError, Note: "unknown action " + st.A}
		}
	}
	return finish("")
}
