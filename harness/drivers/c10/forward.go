package main

import (
	"context"
	"io"
	"net"
	"sync"
	"sync/atomic"
	"time"

	"tunnox-core/internal/protocol/session"
	"tunnox-core/internal/protocol/session/crossnode"
	"tunnox-core/verifharness/fw"
)

type fwdBeh struct {
	Kind string `json:"kind"`
	Pat  string `json:"pat"` // half: the client half-closes after the request and reads to end-of-stream; full: no half-close, the client closes after the response
	Req  string `json:"req"`
	Resp string `json:"resp"`
	Idk  string `json:"idk"`
	Cnt  string `json:"cnt"`  // on: traffic counters configured (LocalConn gets wrapped in CountingReadWriter)
	Eofs string `json:"eofs"` // sep: the client side is a TCP conn (EOF in a Read of its own); with: an in-memory local reader whose last chunk comes together with io.EOF
	Salt int64  `json:"salt"`
}

// memLocal is a LocalConn whose Read returns its final chunk together with io.EOF (as io.Reader
// permits; flate / http bodies / iotest.DataErrReader do) and whose Write collects the response.
type memLocal struct {
	req    []byte
	off    int
	chunk  int
	expect []byte
	mu     sync.Mutex
	got    int
	eq     bool
	closed chan struct{}
	once   sync.Once
	prog   *atomic.Int64
}

func (m *memLocal) Read(p []byte) (int, error) {
	n := len(m.req) - m.off
	if n > len(p) {
		n = len(p)
	}
	if n > m.chunk {
		n = m.chunk
	}
	copy(p, m.req[m.off:m.off+n])
	m.off += n
	if m.off >= len(m.req) {
		return n, io.EOF
	}
	return n, nil
}

func (m *memLocal) Write(p []byte) (int, error) {
	m.mu.Lock()
	defer m.mu.Unlock()
	if m.got+len(p) > len(m.expect) || string(m.expect[m.got:m.got+len(p)]) != string(p) {
		m.eq = false
	}
	m.got += len(p)
	m.prog.Add(int64(len(p)))
	return len(p), nil
}

func (m *memLocal) Close() error { m.once.Do(func() { close(m.closed) }); return nil }

// tap records what the real FrameStream.Read returns on a node ("bytes returned by
// FrameStream.Read on the peer") while passing everything through unchanged.
type tap struct {
	fs     *crossnode.FrameStream
	expect []byte
	mu     sync.Mutex
	got    int
	eq     bool
	eof    bool
	prog   *atomic.Int64
}

func (t *tap) Read(p []byte) (int, error) {
	n, err := t.fs.Read(p)
	t.mu.Lock()
	if n > 0 {
		if t.got+n > len(t.expect) || string(t.expect[t.got:t.got+n]) != string(p[:n]) {
			t.eq = false
		}
		t.got += n
		t.prog.Add(int64(n))
	}
	if err == io.EOF {
		t.eof = true
		t.prog.Add(1)
	}
	t.mu.Unlock()
	return n, err
}
func (t *tap) Write(p []byte) (int, error) { return t.fs.Write(p) }
func (t *tap) Close() error                { return t.fs.Close() }
func (t *tap) CloseWrite() error           { return t.fs.CloseWrite() }

// endpoint result
type epRes struct {
	got  int
	eq   bool
	eof  bool
	hung bool
}

// readPipe reads from c until want bytes arrived (toEOF=false) or end-of-stream (toEOF=true).
func readPipe(c io.Reader, expect []byte, toEOF bool, prog *atomic.Int64) epRes {
	r := epRes{eq: true}
	buf := make([]byte, 32*1024)
	for toEOF || r.got < len(expect) {
		lim := len(buf)
		if !toEOF && len(expect)-r.got < lim {
			lim = len(expect) - r.got
		}
		n, err := c.Read(buf[:lim])
		if n > 0 {
			if r.got+n > len(expect) || string(expect[r.got:r.got+n]) != string(buf[:n]) {
				r.eq = false
			}
			r.got += n
			prog.Add(int64(n))
		}
		if err == io.EOF {
			r.eof = true
			return r
		}
		if err != nil {
			r.hung = true // only the watchdog's deadline or teardown ends a read otherwise
			return r
		}
	}
	return r
}

func driveFwd(env *fw.Env, b *fwdBeh) *fw.Trace {
	ownS, _, _ := idStrings(b.Idk, b.Salt)
	id, _ := crossnode.TunnelIDFromString(ownS)
	req := ownStream(b.Salt, sizeOf(b.Req))
	resp := ownStream(b.Salt+7919, sizeOf(b.Resp))

	var conns []*net.TCPConn
	pair := func() (*net.TCPConn, *net.TCPConn, error) {
		x, y, err := tcpPair()
		if err == nil {
			conns = append(conns, x, y)
		}
		return x, y, err
	}
	c1, la, err := pair()
	if err != nil {
		return &fw.Trace{Status: fw.DriverError, Note: err.Error()}
	}
	xa, xb, err := pair()
	if err != nil {
		return &fw.Trace{Status: fw.DriverError, Note: err.Error()}
	}
	lb, s1, err := pair()
	if err != nil {
		return &fw.Trace{Status: fw.DriverError, Note: err.Error()}
	}
	closeAll := func() {
		for _, c := range conns {
			c.Close()
		}
	}
	defer closeAll()
	ctx, cancel := context.WithCancel(context.Background())
	defer cancel()
	ca := crossnode.NewConn(ctx, "node-b", xa, nil)
	cb := crossnode.NewConn(ctx, "node-a", xb, nil)
	defer ca.Close()
	defer cb.Close()
	var prog atomic.Int64
	tapA := &tap{fs: crossnode.NewFrameStream(ca, id), expect: resp, eq: true, prog: &prog}
	tapB := &tap{fs: crossnode.NewFrameStream(cb, id), expect: req, eq: true, prog: &prog}

	var mem *memLocal
	var localA io.ReadWriter = la
	if b.Eofs == "with" {
		mem = &memLocal{req: req, chunk: 1 + int(b.Salt%40000), expect: resp, eq: true, closed: make(chan struct{}), prog: &prog}
		localA = mem
	}
	var fwdRet atomic.Int32
	for _, n := range []struct {
		local io.ReadWriter
		rem   *tap
	}{{localA, tapA}, {lb, tapB}} {
		cfg := &session.BidirectionalForwardConfig{TunnelID: ownS, LogPrefix: "verif", LocalConn: n.local, RemoteConn: n.rem}
		if b.Cnt == "on" {
			cfg.BytesSentCounter, cfg.BytesReceivedCounter = &atomic.Int64{}, &atomic.Int64{}
		}
		go func() {
			runBidirectionalForward(cfg) // the real forwarding loop of package session
			fwdRet.Add(1)
		}()
	}

	var cRes, sRes epRes
	var memHung atomic.Bool
	var wg sync.WaitGroup
	wg.Add(2)
	go func() { // client endpoint
		defer wg.Done()
		if mem != nil { // the in-memory local side: its reader is the request, done = closed by the forwarder
			<-mem.closed
			mem.mu.Lock()
			cRes = epRes{got: mem.got, eq: mem.eq, eof: !memHung.Load(), hung: memHung.Load()}
			mem.mu.Unlock()
			return
		}
		wdone := make(chan struct{})
		go func() {
			defer close(wdone)
			if len(req) > 0 {
				c1.Write(req)
			}
			if b.Pat == "half" {
				c1.CloseWrite()
			}
		}()
		if b.Pat == "half" {
			cRes = readPipe(c1, resp, true, &prog)
			<-wdone
		} else {
			cRes = readPipe(c1, resp, false, &prog)
			<-wdone
			c1.Close()
		}
	}()
	go func() { // server endpoint: reads the request, answers, closes
		defer wg.Done()
		sRes = readPipe(s1, req, false, &prog)
		if !sRes.hung && len(resp) > 0 {
			s1.Write(resp)
		}
		s1.Close()
	}()

	// watchdog
	done := make(chan struct{})
	go func() { wg.Wait(); close(done) }()
	last, quiet0 := prog.Load(), time.Now()
	tick := time.NewTicker(50 * time.Millisecond)
	defer tick.Stop()
	stalled := false
wait:
	for {
		select {
		case <-done:
			break wait
		case <-tick.C:
			if p := prog.Load(); p != last {
				last, quiet0 = p, time.Now()
			}
			if time.Since(quiet0) > hangAfter {
				stalled = true
				now := time.Now()
				c1.SetDeadline(now)
				s1.SetDeadline(now)
				if mem != nil {
					memHung.Store(true)
					mem.Close()
				}
				<-done
				break wait
			}
		}
	}
	// both taps should reach end-of-stream: each direction was (half-)closed by its writer
	deadline := time.Now().Add(hangAfter)
	for time.Now().Before(deadline) && !stalled {
		tapA.mu.Lock()
		a := tapA.eof
		tapA.mu.Unlock()
		tapB.mu.Lock()
		bb := tapB.eof
		tapB.mu.Unlock()
		if a && bb {
			break
		}
		time.Sleep(5 * time.Millisecond)
	}
	for i := 0; i < 100 && fwdRet.Load() < 2; i++ {
		time.Sleep(5 * time.Millisecond)
	}
	returned := fwdRet.Load()
	closeAll()
	for i := 0; i < 400 && fwdRet.Load() < 2; i++ { // no goroutine of this behaviour outlives it
		time.Sleep(5 * time.Millisecond)
	}

	t := &fw.Trace{Status: fw.Realised}
	t.Events = append(t.Events, fw.Event{"ev": "Cfg", "kind": "fwd", "pat": b.Pat, "req": b.Req, "resp": b.Resp, "idk": b.Idk, "cnt": b.Cnt, "eofs": b.Eofs, "forwardersReturned": returned})
	tapB.mu.Lock()
	t.Events = append(t.Events, fw.Event{"ev": "FD", "dir": "ab", "sent": len(req), "len": tapB.got, "eq": tapB.eq, "eof": tapB.eof, "hung": !tapB.eof})
	tapB.mu.Unlock()
	tapA.mu.Lock()
	t.Events = append(t.Events, fw.Event{"ev": "FD", "dir": "ba", "sent": len(resp), "len": tapA.got, "eq": tapA.eq, "eof": tapA.eof, "hung": !tapA.eof})
	tapA.mu.Unlock()
	t.Events = append(t.Events,
		fw.Event{"ev": "FE", "who": "S", "sent": len(req), "len": sRes.got, "eq": sRes.eq, "eof": sRes.eof, "hung": sRes.hung, "needEof": false},
		fw.Event{"ev": "FE", "who": "C", "sent": len(resp), "len": cRes.got, "eq": cRes.eq, "eof": cRes.eof, "hung": cRes.hung, "needEof": b.Pat == "half"})
	return t
}
