package main

import (
	"context"
	"fmt"
	"io"
	"net"
	"sync"
	"sync/atomic"
	"time"

	"tunnox-core/internal/protocol/session/crossnode"
	"tunnox-core/verifharness/fw"
)

// ---- loopback TCP pairs -----------------------------------------------------------------------

var (
	lnOnce sync.Once
	lnMu   sync.Mutex
	ln     net.Listener
	lnErr  error
)

// tcpPair returns the two ends of one loopback TCP connection (crossnode.Conn needs *net.TCPConn).
func tcpPair() (a, b *net.TCPConn, err error) {
	lnOnce.Do(func() { ln, lnErr = net.Listen("tcp", "127.0.0.1:0") })
	if lnErr != nil {
		return nil, nil, lnErr
	}
	lnMu.Lock()
	defer lnMu.Unlock()
	type acc struct {
		c   net.Conn
		err error
	}
	ch := make(chan acc, 1)
	go func() { c, err := ln.Accept(); ch <- acc{c, err} }()
	c1, err := net.DialTimeout("tcp", ln.Addr().String(), 5*time.Second)
	if err != nil {
		return nil, nil, err
	}
	r := <-ch
	if r.err != nil {
		c1.Close()
		return nil, nil, r.err
	}
	return c1.(*net.TCPConn), r.c.(*net.TCPConn), nil
}

// ---- byte classes -----------------------------------------------------------------------------
// Our stream uses bytes 0x00..0x7f (pseudo-random, position dependent), payloads of injected
// foreign-tunnel frames 0x80|idx and payloads of unknown-type frames 0xc0|idx (idx = injection
// index), so every delivered byte can be attributed without ambiguity even with 1-byte reads.

func ownStream(seed int64, n int) []byte {
	b := make([]byte, n)
	x := uint64(seed)*0x9E3779B97F4A7C15 + 0x1234567
	for i := range b {
		x ^= x << 13
		x ^= x >> 7
		x ^= x << 17
		b[i] = byte(x>>32) & 0x7f
	}
	return b
}

func classOf(b byte) int { // 0 own, 1 foreign, 2 unknown-type
	switch {
	case b < 0x80:
		return 0
	case b < 0xc0:
		return 1
	default:
		return 2
	}
}

// ---- concrete parameters ----------------------------------------------------------------------

const maxFrame = crossnode.MaxFrameSize

func sizeOf(c string) int {
	switch c {
	case "z":
		return 0
	case "one":
		return 1
	case "Mm1":
		return maxFrame - 1
	case "M":
		return maxFrame
	case "Mp1":
		return maxFrame + 1
	case "2Mp1":
		return 2*maxFrame + 1
	}
	panic("size class " + c)
}

type op struct {
	Op  string `json:"op"`
	C   string `json:"c,omitempty"`
	K   string `json:"k,omitempty"`
	Exp string `json:"exp,omitempty"`
	Rep int    `json:"rep,omitempty"` // par behaviours: the Write is issued this many times
}

type streamBeh struct {
	Kind   string `json:"kind"`
	Rsz    string `json:"rsz"`
	Idk    string `json:"idk"`   // long: ids longer than 16 bytes (truncation); short: shorter (zero padding)
	Start  string `json:"start"` // live: reader runs concurrently; late: reader starts after the script
	Salt   int64  `json:"salt"`
	Script []op   `json:"script"`
	// concurrent writers: Par other tunnels write ParFrames data frames each through their own
	// FrameStream on the same crossnode.Conn, in parallel with our writer (payload class ParPl)
	Par       int    `json:"par,omitempty"`
	ParFrames int    `json:"parFrames,omitempty"`
	ParPl     string `json:"parPl,omitempty"`
}

// idSet is the tunnel-id material of one behaviour: our id and three foreign ids, as the raw
// 16-byte header fields the code works with, plus a printable description for the trace.
//
//	same    : a different tunnel whose header field is byte-identical (ids differing beyond
//	          byte 16, or by trailing NULs) - the known 16-byte finding;
//	diff    : differs in the first bytes;
//	diffNul : agrees with ours up to the first 0x00 byte of the field and differs after it
//	          (for ids without a NUL: differs in the last byte only).
type idSet struct {
	own, same, diff, diffNul [16]byte
	desc                     []string
}

func raw16(s string) (id [16]byte) { copy(id[:], s); return }

// id classes: long  = client-generated printable ids longer than 16 bytes (truncated);
// short = printable ids shorter than 16 bytes (zero padded); nulmid = binary ids with a NUL in
// the middle; nulfirst = binary / UUID-style ids starting with NUL (the foreign one may be the
// all-zero id of control-plane frames); zero = our id is the all-zero id.
func makeIDs(idk string, salt int64) (idSet, error) {
	var s idSet
	rnd := fw.NewRand(salt ^ 0x1d5)
	fs := func(x string) [16]byte { id, _ := crossnode.TunnelIDFromString(x); return id }
	switch idk {
	case "long":
		// the shape the client generates: <proto>-tunnel-<unixnano>-<port> (mapping/base_utils.go)
		nano := int64(1758900000000000000) + salt%1000000007
		own := fmt.Sprintf("tcp-tunnel-%d-%d", nano, 8080)
		same := fmt.Sprintf("tcp-tunnel-%d-%d", nano+1+salt%977, 9090)
		diff := fmt.Sprintf("udp-tunnel-%d-%d", nano, 8080)
		s.own, s.same, s.diff = fs(own), fs(same), fs(diff)
		s.diffNul = s.own
		s.diffNul[15] ^= 0x01
		s.desc = []string{own, same, diff}
	case "short":
		own := fmt.Sprintf("t-%d", 100+salt%900)
		s.own, s.same, s.diff, s.diffNul = fs(own), fs(own+"\x00"), fs(fmt.Sprintf("u-%d", 100+salt%900)), fs(own+"\x00x")
		s.desc = []string{own, own + "\x00", own + "\x00x"}
	case "nulmid":
		head := fmt.Sprintf("tun-%02x", salt%251)
		s.own, s.diffNul, s.diff = raw16(head+"\x00aaaaaaaaa"), raw16(head+"\x00bbbbbbbbb"), raw16("tux"+head[3:]+"\x00aaaaaaaaa")
		s.same = s.own
		s.desc = []string{head + "\x00aaaaaaaaa", head + "\x00bbbbbbbbb"}
	case "nulfirst":
		rnd.Read(s.own[:])
		rnd.Read(s.diffNul[:])
		rnd.Read(s.diff[:])
		s.own[0], s.diffNul[0], s.diff[0] = 0, 0, 0x40|s.diff[0]&0x3f
		s.own[1] |= 1
		if salt%2 == 0 {
			s.diffNul = [16]byte{} // the all-zero id used by HTTP / DNS / command frames
		} else {
			s.diffNul[1] = s.own[1] ^ 0x80
		}
		s.same = s.own
		s.desc = []string{fmt.Sprintf("%x", s.own), fmt.Sprintf("%x", s.diffNul)}
	case "zero":
		rnd.Read(s.diffNul[:])
		s.diffNul[0] = 0
		s.diffNul[1] |= 1
		s.diff = raw16("q-tunnel")
		s.desc = []string{fmt.Sprintf("%x", s.own), fmt.Sprintf("%x", s.diffNul)}
	default:
		return s, fmt.Errorf("id class %q", idk)
	}
	if s.diff == s.own || s.diffNul == s.own || s.same != s.own {
		return s, fmt.Errorf("id class %q: bad id set %x %x %x %x", idk, s.own, s.same, s.diff, s.diffNul)
	}
	return s, nil
}

// idStrings is kept for the forwarding behaviours (a printable tunnel id string).
func idStrings(idk string, salt int64) (own, same16, diff string) {
	if idk == "short" {
		own = fmt.Sprintf("t-%d", 100+salt%900)
		return own, own + "\x00", fmt.Sprintf("u-%d", 100+salt%900)
	}
	nano := int64(1758900000000000000) + salt%1000000007
	own = fmt.Sprintf("tcp-tunnel-%d-%d", nano, 8080)
	same16 = fmt.Sprintf("tcp-tunnel-%d-%d", nano+1+salt%977, 9090)
	diff = fmt.Sprintf("udp-tunnel-%d-%d", nano, 8080)
	return
}

const safeInj = 512 // payload size every frame writer must accept

const (
	hangAfter  = 5 * time.Second // no progress for this long = the reader hangs
	lateWait   = 300 * time.Millisecond
	writerWait = 10 * time.Second
)

type run struct {
	src string
	k   string
	off int
	n   int
	eq  bool
}

func driveStream(env *fw.Env, sb *streamBeh) *fw.Trace {
	ids, err := makeIDs(sb.Idk, sb.Salt)
	if err != nil {
		return &fw.Trace{Status: fw.DriverError, Note: err.Error()}
	}
	ownID, sameID, diffID, diffNulID := ids.own, ids.same, ids.diff, ids.diffNul
	ta, tb, err := tcpPair()
	if err != nil {
		return &fw.Trace{Status: fw.DriverError, Note: err.Error()}
	}
	ctx, cancel := context.WithCancel(context.Background())
	defer cancel()
	ca := crossnode.NewConn(ctx, "node-b", ta, nil)
	cb := crossnode.NewConn(ctx, "node-a", tb, nil)
	defer ca.Close()
	defer cb.Close()
	ws := crossnode.NewFrameStream(ca, ownID)
	rs := crossnode.NewFrameStream(cb, ownID)

	total := 0
	for _, o := range sb.Script {
		if o.Op == "write" {
			total += sizeOf(o.C) * max(o.Rep, 1)
		}
	}
	own := ownStream(sb.Salt, total)

	// injected frames in script order
	type injected struct {
		k, ty, idrel string
		payload      []byte
	}
	var injs []injected
	rnd := fw.NewRand(sb.Salt ^ 0x5bd1e995)
	for _, o := range sb.Script {
		if o.Op != "inj" {
			continue
		}
		idx := byte(len(injs) & 0x3f)
		plen := []int{1, 100, maxFrame}[rnd.Intn(3)]
		in := injected{k: o.K}
		switch o.K {
		case "fd", "fds", "fdn":
			in.ty, in.payload = "data", fill(0x80|idx, plen)
		case "fe", "fes", "fen":
			in.ty = "eof"
		case "unk":
			in.ty, in.payload = "unk", fill(0xc0|idx, plen)
		default:
			return &fw.Trace{Status: fw.DriverError, Note: "inj kind " + o.K}
		}
		in.idrel = "diff"
		if o.K == "fds" || o.K == "fes" {
			in.idrel = "same16"
		}
		if o.K == "fdn" || o.K == "fen" {
			in.idrel = "diffnul"
		}
		if o.K == "unk" {
			in.idrel = "own"
		}
		injs = append(injs, in)
	}

	for j := 0; j < sb.Par; j++ { // the concurrent foreign tunnels, for attribution of delivered bytes
		injs = append(injs, injected{k: "fd", ty: "data", idrel: "diff", payload: fill(0x80|byte(len(injs)&0x3f), 1)})
	}
	firstPar := len(injs) - sb.Par

	var helpers sync.WaitGroup // every goroutine of this behaviour ends before drive returns
	defer helpers.Wait()
	defer ta.Close()
	defer tb.Close()
	var wEvents []fw.Event
	var ownRefused bool // an own-tunnel Write on the open stream returned an error or came back short
	var injErr error
	wDone := make(chan error, 1)
	helpers.Add(1)
	go func() { // the writer script: real FrameStream.Write / CloseWrite / Close, real WriteFrame for injections
		defer helpers.Done()
		pos, ii := 0, 0
		// other tunnels multiplexed on the same connection, each with its own FrameStream (own
		// writeMu) and goroutine: only WriteFrame's atomicity keeps their frames apart from ours
		var par sync.WaitGroup
		var ownDone atomic.Bool
		parStarted := false
		waitPar := func() {
			ownDone.Store(true)
			if parStarted {
				par.Wait()
			}
		}
		defer waitPar()
		if sb.Par > 0 {
			parStarted = true
			for j := 0; j < sb.Par; j++ {
				fid := diffID
				fid[15] ^= byte(j + 1)
				fid[14] ^= 0x5a
				fs := crossnode.NewFrameStream(ca, fid)
				b := injs[firstPar+j].payload[0]
				prng := fw.NewRand(sb.Salt + int64(j)*7919)
				par.Add(1)
				go func() {
					defer par.Done()
					buf := fill(b, maxFrame)
					// at least ParFrames frames, and for as long as our writer is still writing
					for f := 0; (f < sb.ParFrames || !ownDone.Load()) && f < 400000; f++ {
						n := 1 + prng.Intn(700)
						if sb.ParPl == "M" {
							n = maxFrame - prng.Intn(2)
						}
						if _, err := fs.Write(buf[:n]); err != nil {
							return
						}
					}
				}()
				wEvents = append(wEvents, fw.Event{"ev": "Inj", "k": "fd", "idrel": "diff", "ty": "data", "len": 0, "fallback": false, "par": sb.ParFrames})
			}
		}
		for _, o := range sb.Script {
			switch o.Op {
			case "write":
				n := sizeOf(o.C)
				sumN, sumRet, anyErr := 0, 0, false
				for r := 0; r < max(o.Rep, 1); r++ {
					ret, err := ws.Write(own[pos : pos+n])
					// a refused / short Write of a legal size is an observation (judged under Complete),
					// never a driver error; the stream continues after the bytes that were accepted
					if ret < 0 || ret > n {
						ret = 0
					}
					sumN, sumRet, anyErr = sumN+n, sumRet+ret, anyErr || err != nil
					if o.Exp == "ok" {
						pos += ret
						if err != nil || ret != n {
							ownRefused = true
						}
					}
				}
				wEvents = append(wEvents, fw.Event{"ev": "W", "op": "write", "c": o.C, "n": sumN, "ret": sumRet, "err": anyErr, "rep": max(o.Rep, 1)})
			case "eof":
				waitPar()
				err := ws.CloseWrite()
				wEvents = append(wEvents, fw.Event{"ev": "W", "op": "eof", "c": "", "n": 0, "ret": 0, "err": err != nil})
			case "close":
				waitPar()
				err := ws.Close()
				wEvents = append(wEvents, fw.Event{"ev": "W", "op": "close", "c": "", "n": 0, "ret": 0, "err": err != nil})
			case "inj":
				in := injs[ii]
				ii++
				id, ty := diffID, crossnode.FrameTypeData
				switch in.idrel {
				case "same16":
					id = sameID
				case "diffnul":
					id = diffNulID
				case "own":
					id = ownID
				}
				switch in.ty {
				case "eof": // a foreign tunnel ending: half-close or close frame
					ty = []byte{crossnode.FrameTypeEOF, crossnode.FrameTypeClose}[(sb.Salt>>3)%2]
				case "unk": // types FrameStream.Read has no case for: unassigned ones and control-plane ones
					ty = []byte{0x7f, 0x00, crossnode.FrameTypeTargetReady, crossnode.FrameTypeAck, crossnode.FrameTypeCommand, 0xff}[(int(sb.Salt>>3)+ii)%6]
				}
				// the injection is harness traffic: if the frame writer refuses the chosen payload size
				// fall back to a small one; a failure is only a driver error when it cannot be the
				// consequence of an own-tunnel Write having been refused (decided after the script)
				err := crossnode.WriteFrame(ta, id, ty, in.payload)
				fallback := false
				if err != nil && len(in.payload) > safeInj {
					in.payload = in.payload[:safeInj]
					injs[ii-1].payload = in.payload
					fallback = true
					err = crossnode.WriteFrame(ta, id, ty, in.payload)
				}
				if err != nil {
					if injErr == nil {
						injErr = fmt.Errorf("inject %s: %w", in.k, err)
					}
					continue
				}
				wEvents = append(wEvents, fw.Event{"ev": "Inj", "k": in.k, "idrel": in.idrel, "ty": in.ty, "len": len(in.payload), "fallback": fallback})
			}
		}
		wDone <- nil
	}()

	writerFinished := false
	var writerErr error
	if sb.Start == "late" {
		select {
		case writerErr = <-wDone:
			writerFinished = true
		case <-time.After(lateWait):
		}
	}

	// the reader: real FrameStream.Read with the caller buffer class of the behaviour
	var bufLen int
	switch sb.Rsz {
	case "one":
		bufLen = 1
	case "small":
		bufLen = 2 + int(sb.Salt%4095)
	case "big":
		bufLen = maxFrame + 1 + int(sb.Salt%4096)
	default:
		return &fw.Trace{Status: fw.DriverError, Note: "rsz " + sb.Rsz}
	}
	var progress atomic.Int64
	var hung atomic.Bool
	type rres struct {
		runs  []run
		how   string
		after string
	}
	rDone := make(chan rres, 1)
	helpers.Add(1)
	go func() {
		defer helpers.Done()
		var res rres
		buf := make([]byte, bufLen)
		pos := 0 // own bytes delivered so far
		var cur *run
		flush := func() {
			if cur != nil && len(res.runs) < 200 { // a stream this fragmented is already rejected
				res.runs = append(res.runs, *cur)
			}
			cur = nil
		}
		account := func(p []byte) {
			for len(p) > 0 {
				c := classOf(p[0])
				j := 1
				for j < len(p) && classOf(p[j]) == c && (c == 0 || p[j] == p[0]) {
					j++
				}
				seg := p[:j]
				p = p[j:]
				var r run
				if c == 0 {
					eq := pos+len(seg) <= len(own) && string(own[pos:pos+len(seg)]) == string(seg)
					r = run{src: "own", off: pos, n: len(seg), eq: eq}
					pos += len(seg)
				} else {
					idx := int(seg[0] & 0x3f)
					r = run{src: "junk", n: len(seg)}
					if idx < len(injs) && ((c == 1 && injs[idx].ty == "data") || (c == 2 && injs[idx].ty == "unk")) {
						r = run{src: "inj", k: injs[idx].k, n: len(seg)}
					}
				}
				if cur != nil && cur.src == r.src && cur.k == r.k && cur.eq == r.eq && (r.src != "own" || cur.off+cur.n == r.off) {
					cur.n += r.n
				} else {
					flush()
					cur = &r
				}
			}
		}
		for res.how == "" {
			n, err := rs.Read(buf)
			if n > 0 {
				account(buf[:n])
				progress.Add(int64(n))
			}
			if err == nil {
				continue
			}
			flush()
			switch {
			case hung.Load():
				res.how = "hung"
			case err == io.EOF:
				res.how = "eof"
			default:
				res.how = "err"
			}
		}
		res.after = "na"
		if res.how == "eof" { // end-of-stream must be sticky
			ch := make(chan string, 1)
			helpers.Add(1)
			go func() {
				defer helpers.Done()
				n, err := rs.Read(buf)
				switch {
				case n > 0:
					ch <- "data"
				case err == io.EOF:
					ch <- "eof"
				default:
					ch <- "err"
				}
			}()
			select {
			case res.after = <-ch:
			case <-time.After(200 * time.Millisecond):
				tb.SetReadDeadline(time.Now())
			}
		}
		rDone <- res
	}()

	// watchdog: the reader hangs if it neither ends nor makes progress for hangAfter while the
	// writer script has been finished for that long (a blocked writer means a full socket, which
	// the reader's progress resolves).
	var rr rres
	last := progress.Load()
	quietSince := time.Now()
	tick := time.NewTicker(50 * time.Millisecond)
	defer tick.Stop()
loop:
	for {
		select {
		case rr = <-rDone:
			break loop
		case e := <-wDone:
			writerFinished, writerErr = true, e
			quietSince = time.Now()
		case <-tick.C:
			if p := progress.Load(); p != last {
				last, quietSince = p, time.Now()
			}
			if time.Since(quietSince) > hangAfter {
				if !writerFinished {
					tb.SetReadDeadline(time.Now())
					<-rDone
					return &fw.Trace{Status: fw.Inconclusive, Note: "writer and reader both stalled"}
				}
				hung.Store(true)
				tb.SetReadDeadline(time.Now())
				rr = <-rDone
				break loop
			}
		}
	}
	// let a writer that is still blocked on a full socket finish: swallow what the reader left
	tb.SetReadDeadline(time.Time{})
	helpers.Add(1)
	go func() { defer helpers.Done(); drain(tb) }()
	if !writerFinished {
		select {
		case writerErr = <-wDone:
		case <-time.After(writerWait):
			ta.Close()
			tb.Close()
			return &fw.Trace{Status: fw.Inconclusive, Note: "writer script did not finish"}
		}
	}
	ta.Close()
	tb.Close()
	if writerErr != nil {
		return &fw.Trace{Status: fw.DriverError, Note: writerErr.Error()}
	}
	if injErr != nil && !ownRefused {
		return &fw.Trace{Status: fw.DriverError, Note: injErr.Error()}
	}

	t := &fw.Trace{Status: fw.Realised}
	t.Events = append(t.Events, fw.Event{"ev": "Cfg", "kind": "stream", "idk": sb.Idk, "rsz": sb.Rsz, "start": sb.Start, "par": sb.Par,
		"ids": fmt.Sprintf("%q", ids.desc)})
	t.Events = append(t.Events, wEvents...)
	for _, r := range rr.runs {
		t.Events = append(t.Events, fw.Event{"ev": "D", "src": r.src, "k": r.k, "off": r.off, "len": r.n, "eq": r.eq})
	}
	t.Events = append(t.Events, fw.Event{"ev": "REnd", "how": rr.how, "after": rr.after})
	return t
}

func fill(b byte, n int) []byte {
	p := make([]byte, n)
	for i := range p {
		p[i] = b
	}
	return p
}

func drain(c *net.TCPConn) {
	c.SetReadDeadline(time.Now().Add(15 * time.Second))
	io.Copy(io.Discard, c)
}
