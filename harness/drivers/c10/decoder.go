package main

import (
	"bytes"
	"encoding/binary"
	"fmt"
	"io"
	"runtime"
	"sync"
	"testing/iotest"

	"tunnox-core/internal/protocol/session/crossnode"
	"tunnox-core/verifharness/fw"
)

// quiet serialises allocation-accounted decoder calls against every other driven behaviour
// (runtime.MemStats.TotalAlloc is process wide): decoder behaviours take the write lock,
// everything else the read lock.
var quiet sync.RWMutex

type decClass struct {
	Hdr   string `json:"hdr"`
	Ty    string `json:"ty"`
	Decl  string `json:"decl"`
	Avail string `json:"avail"`
}

type decBeh struct {
	Kind  string   `json:"kind"`
	C     decClass `json:"c"`
	Chunk string   `json:"chunk"` // all: one Read delivers everything; one: one byte per Read
	Len   string   `json:"len"`   // rt only
	Ty    string   `json:"ty"`    // rt only
	Salt  int64    `json:"salt"`
}

type decOut struct {
	res   string
	id    [16]byte
	ty    byte
	data  []byte
	alloc uint64
}

func chunked(b []byte, chunk string) io.Reader {
	if chunk == "one" {
		return iotest.OneByteReader(bytes.NewReader(b))
	}
	return bytes.NewReader(b)
}

// allocLimit mirrors the judge's bound (CrossFrameTrace.cfg: MaxFrame + Slack); it is used only
// to stop repeating the measurement early.
const allocLimit = maxFrame + 4096

// decode runs the real ReadFrameFromReader on input with panic capture and allocation accounting.
// TotalAlloc is process wide, so anything else allocating at that moment (runtime, lingering
// goroutines) can only add to a measurement: the call is repeated (up to 10 times) until a run
// stays within the bound and the minimum is reported. Code that really over-allocates does so
// on every run.
func decode(input []byte, chunk string) decOut {
	var best decOut
	for i := 0; i < 10; i++ {
		o := decodeOnce(input, chunk)
		if o.res == "panic" {
			return o
		}
		if i == 0 || o.alloc < best.alloc {
			best = o
		}
		if best.alloc <= allocLimit {
			break
		}
		runtime.Gosched()
	}
	return best
}

func decodeOnce(input []byte, chunk string) (o decOut) {
	r := chunked(input, chunk)
	var m0, m1 runtime.MemStats
	runtime.ReadMemStats(&m0)
	func() {
		defer func() {
			if p := recover(); p != nil {
				o.res = "panic"
			}
		}()
		id, ty, data, err := crossnode.ReadFrameFromReader(r)
		if err != nil {
			o.res = "error"
		} else {
			o.res, o.id, o.ty, o.data = "frame", id, ty, data
		}
	}()
	runtime.ReadMemStats(&m1)
	o.alloc = m1.TotalAlloc - m0.TotalAlloc
	return o
}

func capAlloc(a uint64) int { // TLC integers are 32 bit
	if a > 1<<30 {
		return 1 << 30
	}
	return int(a)
}

var unknownTypes = []byte{0x00, 0x0a, 0x7f, 0xff}

func typeByte(ty string, salt int64) byte {
	if ty == "unknown" {
		return unknownTypes[int(salt)%len(unknownTypes)]
	}
	known := []byte{crossnode.FrameTypeData, crossnode.FrameTypeTargetReady, crossnode.FrameTypeClose, crossnode.FrameTypeAck,
		crossnode.FrameTypeEOF, crossnode.FrameTypeCommand, crossnode.FrameTypeCommandResponse}
	return known[int(salt)%len(known)]
}

func driveDec(env *fw.Env, b *decBeh) *fw.Trace {
	rnd := fw.NewRand(b.Salt)
	var id [16]byte
	rnd.Read(id[:])
	if b.Salt%3 == 0 {
		id[int(b.Salt/3)%16] = 0 // ids with embedded zero bytes
	}
	ty := typeByte(b.C.Ty, b.Salt)
	var decl uint32
	switch b.C.Decl {
	case "0":
		decl = 0
	case "MAX":
		decl = maxFrame
	case "MAXp1":
		decl = maxFrame + 1
	case "U32":
		decl = 0xFFFFFFFF
	default:
		return &fw.Trace{Status: fw.DriverError, Note: "decl " + b.C.Decl}
	}
	hdr := make([]byte, crossnode.FrameHeaderSize)
	copy(hdr, id[:])
	hdr[16] = ty
	binary.BigEndian.PutUint32(hdr[17:], decl)
	var input []byte
	switch b.C.Hdr {
	case "none":
	case "part":
		input = hdr[:1+rnd.Intn(crossnode.FrameHeaderSize-1)]
	case "full":
		input = hdr
		var avail int
		switch b.C.Avail {
		case "none":
			avail = 0
		case "part":
			avail = 1 + rnd.Intn(maxFrame-1)
			if uint32(avail) >= decl {
				if decl == 0 {
					return &fw.Trace{Status: fw.Unrealisable, Note: "partial payload of an empty frame"}
				}
				avail = int(decl) - 1
			}
		case "all":
			avail = int(decl)
		case "extra":
			avail = int(decl) + 1 + rnd.Intn(100)
		}
		if b.C.Decl == "U32" && (b.C.Avail == "all" || b.C.Avail == "extra") {
			return &fw.Trace{Status: fw.Unrealisable, Note: "a 4 GiB payload is not supplied"}
		}
		pl := make([]byte, avail)
		rnd.Read(pl)
		input = append(append([]byte{}, hdr...), pl...)
	default:
		return &fw.Trace{Status: fw.DriverError, Note: "hdr " + b.C.Hdr}
	}
	quiet.Lock()
	o := decode(input, b.Chunk)
	quiet.Unlock()
	eq := false
	if o.res == "frame" { // the frame the bytes spell
		eq = len(input) >= crossnode.FrameHeaderSize+int(decl) && o.id == id && o.ty == ty &&
			bytes.Equal(o.data, input[crossnode.FrameHeaderSize:crossnode.FrameHeaderSize+int(decl)])
	}
	t := &fw.Trace{Status: fw.Realised}
	t.Events = append(t.Events,
		fw.Event{"ev": "Cfg", "kind": "dec", "inputLen": len(input), "type": fmt.Sprintf("0x%02x", ty)},
		fw.Event{"ev": "Dec", "c": b.C, "chunk": b.Chunk, "res": o.res, "eq": eq, "alloc": capAlloc(o.alloc)})
	return t
}

func driveRt(env *fw.Env, b *decBeh) *fw.Trace {
	rnd := fw.NewRand(b.Salt)
	var id [16]byte
	rnd.Read(id[:])
	if b.Salt%3 == 0 {
		id[int(b.Salt/3)%16] = 0
	}
	ty := typeByte(b.Ty, b.Salt)
	payload := make([]byte, sizeOf(b.Len))
	rnd.Read(payload)
	var wire bytes.Buffer
	enc := "ok"
	if err := crossnode.WriteFrameToWriter(&wire, id, ty, payload); err != nil {
		enc = "refused"
	}
	t := &fw.Trace{Status: fw.Realised}
	t.Events = append(t.Events, fw.Event{"ev": "Cfg", "kind": "rt", "type": fmt.Sprintf("0x%02x", ty), "encoded": wire.Len()})
	ev := fw.Event{"ev": "Rt", "len": b.Len, "ty": b.Ty, "chunk": b.Chunk, "enc": enc, "res": "na", "eq": false, "alloc": 0}
	if enc == "ok" {
		// a second frame follows: the decoder must stop exactly at the frame boundary
		input := append(append([]byte{}, wire.Bytes()...), 0xde, 0xad, 0xbe, 0xef)
		quiet.Lock()
		o := decode(input, b.Chunk)
		quiet.Unlock()
		ev["res"] = o.res
		ev["eq"] = o.res == "frame" && o.id == id && o.ty == ty && bytes.Equal(o.data, payload)
		ev["alloc"] = capAlloc(o.alloc)
	}
	t.Events = append(t.Events, ev)
	return t
}
