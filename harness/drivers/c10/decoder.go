package main

import (
	"bytes"
	"context"
	"encoding/binary"
	"fmt"
	"io"
	"net"
	"runtime"
	"sync"
	"testing/iotest"
	"time"

	"tunnox-core/internal/protocol/session"
	"tunnox-core/internal/protocol/session/crossnode"
	"tunnox-core/verifharness/fw"
)

// quiet serialises allocation-accounted decoder calls against every other driven behaviour
// (runtime.MemStats.TotalAlloc is process wide): decoder behaviours take the write lock,
// everything else the read lock.
var quiet sync.RWMutex

type decClass struct {
	Hdr   string `json:"hdr"`
	Ty    string `json:"ty"`
	Decl  string `json:"decl"`
	Avail string `json:"avail"`
}

type decBeh struct {
	Kind  string   `json:"kind"`
	C     decClass `json:"c"`
	Chunk string   `json:"chunk"` // all: one Read delivers everything; one: one byte per Read
	Len   string   `json:"len"`   // rt only
	Ty    string   `json:"ty"`    // rt only
	Salt  int64    `json:"salt"`
	// E is the entry point the bytes are fed to (spec/CrossFrame.tla DecEntries):
	//   rfr / sessrfr : crossnode.ReadFrameFromReader / session.ReadFrameFromReader on an io.Reader
	//   tcp / sess    : crossnode.ReadFrame / session.ReadFrame on a real *net.TCPConn
	//   stream        : FrameStream.Read on a crossnode.Conn over a real TCP connection
	//   listener      : (*session.CrossNodeListener).handleConnection (its first-frame read)
	E string `json:"e"`
}

type decOut struct {
	res   string
	id    [16]byte
	ty    byte
	data  []byte
	alloc uint64
}

func chunked(b []byte, chunk string) io.Reader {
	if chunk == "one" {
		return iotest.OneByteReader(bytes.NewReader(b))
	}
	return bytes.NewReader(b)
}

// allocLimit mirrors the judge's bound (CrossFrameTrace.cfg: MaxFrame + Slack); it is used only
// to stop repeating the measurement early.
const allocLimit = maxFrame + 4096

// decode runs the real decoder behind entry point e on input with panic capture and allocation
// accounting. TotalAlloc is process wide, so anything else allocating at that moment (runtime,
// lingering goroutines) can only add to a measurement: the call is repeated (up to 10 times) until
// a run stays within the bound and the minimum is reported. Code that really over-allocates does
// so on every run (three runs far above the bound are taken as that).
func decode(e string, id [16]byte, input []byte, chunk string) decOut {
	var best decOut
	for i := 0; i < 10; i++ {
		o := decodeOnce(e, id, input, chunk)
		if o.res == "panic" || o.res == "hung" || o.res == "driver" {
			return o
		}
		if i == 0 || o.alloc < best.alloc {
			best = o
		}
		if best.alloc <= allocLimit || (i >= 2 && best.alloc > 8*allocLimit) {
			break
		}
		runtime.Gosched()
	}
	return best
}

// feed puts input on a fresh loopback TCP connection (chunk "one": the header byte by byte, the
// rest in three pieces) and half-closes it; the returned end is the one the decoder reads.
func feed(input []byte, chunk string) (rd *net.TCPConn, cleanup func(), err error) {
	wr, rd, err := tcpPair()
	if err != nil {
		return nil, nil, err
	}
	done := make(chan struct{})
	go func() {
		defer close(done)
		wr.SetWriteDeadline(time.Now().Add(20 * time.Second))
		if chunk == "one" {
			wr.SetNoDelay(true)
			i := 0
			for ; i < len(input) && i < crossnode.FrameHeaderSize; i++ {
				if _, err := wr.Write(input[i : i+1]); err != nil {
					return
				}
			}
			rest := input[i:]
			for k := 3; k >= 1 && len(rest) > 0; k-- {
				n := (len(rest) + k - 1) / k
				if _, err := wr.Write(rest[:n]); err != nil {
					return
				}
				rest = rest[n:]
			}
		} else if len(input) > 0 {
			if _, err := wr.Write(input); err != nil {
				return
			}
		}
		wr.CloseWrite()
	}()
	return rd, func() { wr.Close(); rd.Close(); <-done }, nil
}

func decodeOnce(e string, ownID [16]byte, input []byte, chunk string) (o decOut) {
	var call func() // the measured call: sets o.res / o.id / o.ty / o.data
	frame := func(id [16]byte, ty byte, data []byte, err error) {
		if err != nil {
			o.res = "error"
		} else {
			o.res, o.id, o.ty, o.data = "frame", id, ty, data
		}
	}
	cleanup := func() {}
	switch e {
	case "", "rfr", "sessrfr":
		r := chunked(input, chunk)
		if e == "sessrfr" {
			call = func() { frame(session.ReadFrameFromReader(r)) }
		} else {
			call = func() { frame(crossnode.ReadFrameFromReader(r)) }
		}
	case "tcp", "sess", "stream", "listener":
		rd, cl, err := feed(input, chunk)
		if err != nil {
			return decOut{res: "driver"}
		}
		cleanup = cl
		rd.SetReadDeadline(time.Now().Add(20 * time.Second)) // the sender half-closes: a decoder that still waits then is stuck
		switch e {
		case "tcp":
			call = func() { frame(crossnode.ReadFrame(rd)) }
		case "sess":
			call = func() { frame(session.ReadFrame(rd)) }
		case "stream":
			ctx, cancel := context.WithCancel(context.Background())
			conn := crossnode.NewConn(ctx, "node-x", rd, nil)
			fs := crossnode.NewFrameStream(conn, ownID)
			p := make([]byte, maxFrame+256)
			cleanup = func() { cl(); conn.Close(); cancel() }
			call = func() {
				n, err := fs.Read(p)
				if n > 0 { // bytes handed to the caller as tunnel data of ownID
					o.res, o.id, o.ty, o.data = "frame", ownID, crossnode.FrameTypeData, p[:n]
				} else if err != nil {
					o.res = "error"
				} else {
					o.res = "empty"
				}
			}
		case "listener":
			if err := sourceManager(); err != nil {
				return decOut{res: "driver"}
			}
			lst := session.NewCrossNodeListener(smMgr, 0)
			ctx, cancel := context.WithCancel(context.Background())
			cleanup = func() { cl(); cancel() }
			call = func() {
				start := time.Now()
				handleConnection(lst, ctx, rd) // reads the first frame, dispatches on its type, returns
				if time.Since(start) > 15*time.Second {
					o.res = "hung"
				} else {
					o.res = "done"
				}
			}
		}
	default:
		return decOut{res: "driver"}
	}
	defer cleanup()
	var m0, m1 runtime.MemStats
	runtime.ReadMemStats(&m0)
	func() {
		defer func() {
			if p := recover(); p != nil {
				o.res = "panic"
			}
		}()
		call()
	}()
	runtime.ReadMemStats(&m1)
	o.alloc = m1.TotalAlloc - m0.TotalAlloc
	return o
}

func entryName(e string) string {
	if e == "" {
		return "rfr"
	}
	return e
}

func capAlloc(a uint64) int { // TLC integers are 32 bit
	if a > 1<<30 {
		return 1 << 30
	}
	return int(a)
}

var unknownTypes = []byte{0x00, 0x0a, 0x7f, 0xff}

func typeByte(ty string, salt int64) byte {
	if ty == "unknown" {
		return unknownTypes[int(salt)%len(unknownTypes)]
	}
	known := []byte{crossnode.FrameTypeData, crossnode.FrameTypeTargetReady, crossnode.FrameTypeClose, crossnode.FrameTypeAck,
		crossnode.FrameTypeEOF, crossnode.FrameTypeCommand, crossnode.FrameTypeCommandResponse}
	return known[int(salt)%len(known)]
}

func driveDec(env *fw.Env, b *decBeh) *fw.Trace {
	rnd := fw.NewRand(b.Salt)
	var id [16]byte
	rnd.Read(id[:])
	if b.Salt%3 == 0 {
		id[int(b.Salt/3)%16] = 0 // ids with embedded zero bytes
	}
	ty := typeByte(b.C.Ty, b.Salt)
	if b.E == "listener" && b.C.Ty == "known" {
		// the listener dispatches on the first frame's type: request types (TargetReady, HTTP, DNS, command) enter
		// handlers with work of their own; the decoder part is the same for every type
		safe := []byte{crossnode.FrameTypeData, crossnode.FrameTypeClose, crossnode.FrameTypeAck, crossnode.FrameTypeEOF, crossnode.FrameTypeCommandResponse}
		ty = safe[int(b.Salt)%len(safe)]
	}
	var decl uint32
	switch b.C.Decl {
	case "0":
		decl = 0
	case "MAX":
		decl = maxFrame
	case "MAXp1":
		decl = maxFrame + 1
	case "U32":
		decl = 0xFFFFFFFF
	default:
		return &fw.Trace{Status: fw.DriverError, Note: "decl " + b.C.Decl}
	}
	hdr := make([]byte, crossnode.FrameHeaderSize)
	copy(hdr, id[:])
	hdr[16] = ty
	binary.BigEndian.PutUint32(hdr[17:], decl)
	var input []byte
	switch b.C.Hdr {
	case "none":
	case "part":
		input = hdr[:1+rnd.Intn(crossnode.FrameHeaderSize-1)]
	case "full":
		input = hdr
		var avail int
		switch b.C.Avail {
		case "none":
			avail = 0
		case "part":
			avail = 1 + rnd.Intn(maxFrame-1)
			if uint32(avail) >= decl {
				if decl == 0 {
					return &fw.Trace{Status: fw.Unrealisable, Note: "partial payload of an empty frame"}
				}
				avail = int(decl) - 1
			}
		case "all":
			avail = int(decl)
		case "extra":
			avail = int(decl) + 1 + rnd.Intn(100)
		}
		if b.C.Decl == "U32" && (b.C.Avail == "all" || b.C.Avail == "extra") {
			return &fw.Trace{Status: fw.Unrealisable, Note: "a 4 GiB payload is not supplied"}
		}
		pl := make([]byte, avail)
		rnd.Read(pl)
		input = append(append([]byte{}, hdr...), pl...)
	default:
		return &fw.Trace{Status: fw.DriverError, Note: "hdr " + b.C.Hdr}
	}
	quiet.Lock()
	o := decode(b.E, id, input, b.Chunk)
	quiet.Unlock()
	if o.res == "driver" {
		return &fw.Trace{Status: fw.DriverError, Note: "decoder fixture for entry point " + b.E}
	}
	eq := false
	if o.res == "frame" { // the frame the bytes spell
		eq = len(input) >= crossnode.FrameHeaderSize+int(decl) && o.id == id && o.ty == ty &&
			bytes.Equal(o.data, input[crossnode.FrameHeaderSize:crossnode.FrameHeaderSize+int(decl)])
	}
	t := &fw.Trace{Status: fw.Realised}
	t.Events = append(t.Events,
		fw.Event{"ev": "Cfg", "kind": "dec", "inputLen": len(input), "type": fmt.Sprintf("0x%02x", ty)},
		fw.Event{"ev": "Dec", "e": entryName(b.E), "c": b.C, "chunk": b.Chunk, "res": o.res, "eq": eq, "alloc": capAlloc(o.alloc)})
	return t
}

func driveRt(env *fw.Env, b *decBeh) *fw.Trace {
	rnd := fw.NewRand(b.Salt)
	var id [16]byte
	rnd.Read(id[:])
	if b.Salt%3 == 0 {
		id[int(b.Salt/3)%16] = 0
	}
	ty := typeByte(b.Ty, b.Salt)
	payload := make([]byte, sizeOf(b.Len))
	rnd.Read(payload)
	var wire bytes.Buffer
	enc := "ok"
	if err := crossnode.WriteFrameToWriter(&wire, id, ty, payload); err != nil {
		enc = "refused"
	}
	t := &fw.Trace{Status: fw.Realised}
	t.Events = append(t.Events, fw.Event{"ev": "Cfg", "kind": "rt", "type": fmt.Sprintf("0x%02x", ty), "encoded": wire.Len()})
	ev := fw.Event{"ev": "Rt", "e": entryName(b.E), "len": b.Len, "ty": b.Ty, "chunk": b.Chunk, "enc": enc, "res": "na", "eq": false, "alloc": 0}
	if enc == "ok" {
		// a second frame follows: the decoder must stop exactly at the frame boundary
		input := append(append([]byte{}, wire.Bytes()...), 0xde, 0xad, 0xbe, 0xef)
		quiet.Lock()
		o := decode(b.E, id, input, b.Chunk)
		quiet.Unlock()
		if o.res == "driver" {
			return &fw.Trace{Status: fw.DriverError, Note: "decoder fixture for entry point " + b.E}
		}
		ev["res"] = o.res
		ev["eq"] = o.res == "frame" && o.id == id && o.ty == ty && bytes.Equal(o.data, payload)
		ev["alloc"] = capAlloc(o.alloc)
	}
	t.Events = append(t.Events, ev)
	return t
}
