// C10 driver: cross-node frames carry tunnel bytes faithfully and reject bad input.
//
// Behaviours come from spec/CrossFrame.tla (TLC): writer scripts over write-size classes,
// injected foreign-tunnel / unknown-type frames and half-close / close endings with a caller
// read-buffer class; decoder input classes; encode/decode round-trip classes; forwarding-pair
// classes. Each is executed on the real code:
//   - stream: a real crossnode.FrameStream pair over a loopback TCP connection (crossnode.Conn),
//     foreign / unknown frames injected with the real crossnode.WriteFrame on the same connection;
//   - dec / rt: the real ReadFrameFromReader / WriteFrameToWriter with recover() and allocation
//     accounting;
//   - fwd: two real session.runBidirectionalForward loops joined by a FrameStream pair;
//   - bidi (bidi.go): schedules of spec/CrossFrameForward.tla (both copy loops of a tunnel, and a second tunnel, as
//     processes with their copy buffers) on one real runBidirectionalForward per tunnel between a gate-controlled
//     or TCP local endpoint and a real FrameStream.
//
// The recorded observations are judged by spec/CrossFrameTrace.tla.
package main

import (
	"encoding/json"
	"fmt"
	"hash/fnv"
	"strconv"
	"strings"
	"sync"
	"time"

	corelog "tunnox-core/internal/core/log"
	"tunnox-core/verifharness/fw"
)

func h64(seed int64, s string) uint64 {
	h := fnv.New64a()
	fmt.Fprintf(h, "%d|%s", seed, s)
	return h.Sum64()
}

type genLine struct {
	Kind   string          `json:"kind"`
	Rsz    string          `json:"rsz"`
	Script []op            `json:"script"`
	C      json.RawMessage `json:"c"`
	Len    string          `json:"len"`
	Ty     string          `json:"ty"`
	Pat    string          `json:"pat"`
	Req    string          `json:"req"`
	Resp   string          `json:"resp"`
	Cnt    string          `json:"cnt"`
	Eofs   string          `json:"eofs"`
	Nw     int             `json:"nw"`
	Pl     string          `json:"pl"`
	Styles []string        `json:"styles"`
	E      string          `json:"e"`
	Nt     int             `json:"nt"`
	Steps  []bidiStep      `json:"steps"`
}

// keepPermille: share of the exhaustively enumerated scripts outside the core set that is driven
// (seeded choice); the core set (<=1 write, <=1 injected frame, one end call) is always driven.
func keepPermille(env *fw.Env, src string) uint64 {
	if env.Tier == "thorough" {
		return 150
	}
	return 70
}

var idClasses = []string{"long", "short", "nulmid", "nulfirst", "zero"}

func expand(env *fw.Env, src string, raw json.RawMessage) []json.RawMessage {
	var g genLine
	if err := json.Unmarshal(raw, &g); err != nil {
		panic(err)
	}
	h := h64(env.Seed, string(raw))
	salt := int64(h >> 1)
	var out []json.RawMessage
	switch g.Kind {
	case "stream":
		nw, ninj, nend, coll, nul := 0, 0, 0, false, false
		for _, o := range g.Script {
			switch o.Op {
			case "write":
				nw++
			case "inj":
				ninj++
				coll = coll || o.K == "fds" || o.K == "fes"
				nul = nul || o.K == "fdn" || o.K == "fen"
			default:
				nend++
			}
		}
		core := nw <= 1 && ninj <= 1 && nend == 1
		sim := len(src) >= 3 && src[:3] == "sim"
		if !core && !sim && h%1000 >= keepPermille(env, src) {
			return nil
		}
		idks := []string{idClasses[(h>>10)%uint64(len(idClasses))]}
		if core && coll {
			idks = []string{"long", "short"}
		}
		if core && nul { // ids that agree up to a NUL byte: every id class
			idks = idClasses
		}
		start := []string{"live", "late"}[(h>>11)%2]
		for _, idk := range idks {
			out = append(out, fw.MustJSON(streamBeh{Kind: "stream", Rsz: g.Rsz, Idk: idk, Start: start, Salt: salt, Script: g.Script}))
		}
	case "dec":
		var c decClass
		if err := json.Unmarshal(g.C, &c); err != nil {
			panic(err)
		}
		if c.Hdr != "full" && (c.Ty != "known" || c.Decl != "0" || c.Avail != "none") {
			return nil // without a complete header the other dimensions do not exist
		}
		if c.Decl == "U32" && (c.Avail == "all" || c.Avail == "extra") {
			return nil // a 4 GiB payload is not supplied
		}
		if c.Decl == "0" && c.Avail == "part" {
			return nil
		}
		for _, ch := range []string{"all", "one"} {
			out = append(out, fw.MustJSON(decBeh{Kind: "dec", C: c, Chunk: ch, Salt: salt, E: g.E}))
		}
	case "rt":
		// an encoded frame must decode to itself through every entry point that returns frames
		for _, e := range []string{"rfr", "sessrfr", "tcp", "sess"} {
			for _, ch := range []string{"all", "one"} {
				out = append(out, fw.MustJSON(decBeh{Kind: "rt", Len: g.Len, Ty: g.Ty, Chunk: ch, Salt: salt, E: e}))
			}
		}
	case "listener":
		var l struct {
			Dsz  string   `json:"dsz"`
			Cuts []string `json:"cuts"`
		}
		if err := json.Unmarshal(raw, &l); err != nil {
			panic(err)
		}
		dszs := []string{l.Dsz}
		if l.Dsz == "many" {
			dszs = []string{"small", "big"}
		}
		for _, d := range dszs {
			// no cut: everything is in the socket before the listener reads (the sharpest case)
			pre := len(l.Cuts) == 0 || (h>>12)%2 == 0
			out = append(out, fw.MustJSON(listenerBeh{Kind: "listener", Dsz: d, Cuts: l.Cuts, Pre: pre, Salt: salt}))
		}
	case "fwd":
		out = append(out, fw.MustJSON(fwdBeh{Kind: "fwd", Pat: g.Pat, Req: g.Req, Resp: g.Resp, Cnt: g.Cnt, Eofs: g.Eofs, Idk: []string{"long", "short"}[(h>>10)%2], Salt: salt}))
	case "par":
		// our writer issues the Write often enough for a few thousand frame boundaries to be exposed
		// to the other tunnels' writers (large frames: fewer, the payload write is long)
		var pc string
		if err := json.Unmarshal(g.C, &pc); err != nil {
			panic(err)
		}
		rep, frames := 6000, 1500
		if pc != "one" {
			rep = 100
		}
		if g.Pl == "M" {
			frames = 40
		}
		for v := 0; v < 2; v++ {
			end := []string{"eof", "close"}[(int(h>>13)+v)%2]
			out = append(out, fw.MustJSON(streamBeh{Kind: "stream", Rsz: []string{"one", "small", "big"}[(int(h>>14)+v)%3], Idk: "long", Start: "live",
				Salt: salt + int64(v), Script: []op{{Op: "write", C: pc, Exp: "ok", Rep: rep}, {Op: end}}, Par: g.Nw, ParFrames: frames, ParPl: g.Pl}))
		}
	case "bidi":
		// schedules of spec/CrossFrameForward.tla: every one-tunnel schedule, a seeded share of the
		// two-tunnel ones; each with both kinds of local endpoint, with and without traffic counters
		overlap := false // a Read of one copy loop completes while another loop's Write is in progress
		infl := map[string]bool{}
		for _, st := range g.Steps {
			k := fmt.Sprint(st.T, st.D)
			switch st.A {
			case "R":
				for o, v := range infl {
					overlap = overlap || (v && o != k)
				}
				infl[k] = true
			case "W":
				infl[k] = false
			}
		}
		keep := uint64(120)
		if env.Tier == "thorough" {
			keep = 1000
			if strings.HasSuffix(src, "C=2") {
				keep = 150
			}
		}
		if overlap {
			keep *= 2
		}
		if g.Nt > 1 && h%1000 >= keep {
			return nil
		}
		for v, lk := range []string{"gate", "tcp"} {
			for w, cnt := range []string{"off", "on"} {
				out = append(out, fw.MustJSON(bidiBeh{Kind: "bidi", Nt: g.Nt, Steps: g.Steps, Lk: lk, Cnt: cnt, Mode: "sched", Salt: salt + int64(2*v+w)}))
			}
		}
	case "pool":
		for v, c := range []string{"one", "Mp1"} {
			out = append(out, fw.MustJSON(poolBeh{Kind: "pool", Styles: g.Styles, C: c, Salt: salt + int64(v)}))
		}
	default:
		panic("unknown behaviour kind " + g.Kind)
	}
	return out
}

func drive(env *fw.Env, b fw.Behaviour) *fw.Trace {
	var k struct {
		Kind string `json:"kind"`
	}
	if err := json.Unmarshal(b.Data, &k); err != nil {
		return &fw.Trace{Status: fw.DriverError, Note: err.Error()}
	}
	switch k.Kind {
	case "stream":
		var sb streamBeh
		if err := json.Unmarshal(b.Data, &sb); err != nil {
			return &fw.Trace{Status: fw.DriverError, Note: err.Error()}
		}
		quiet.RLock()
		defer quiet.RUnlock()
		return driveStream(env, &sb)
	case "dec", "rt":
		var db decBeh
		if err := json.Unmarshal(b.Data, &db); err != nil {
			return &fw.Trace{Status: fw.DriverError, Note: err.Error()}
		}
		if k.Kind == "dec" {
			return driveDec(env, &db)
		}
		return driveRt(env, &db)
	case "pool":
		var pb poolBeh
		if err := json.Unmarshal(b.Data, &pb); err != nil {
			return &fw.Trace{Status: fw.DriverError, Note: err.Error()}
		}
		quiet.RLock()
		defer quiet.RUnlock()
		return drivePool(env, &pb)
	case "listener":
		var lb listenerBeh
		if err := json.Unmarshal(b.Data, &lb); err != nil {
			return &fw.Trace{Status: fw.DriverError, Note: err.Error()}
		}
		quiet.RLock()
		defer quiet.RUnlock()
		return driveListener(env, &lb)
	case "bidi":
		var bb bidiBeh
		if err := json.Unmarshal(b.Data, &bb); err != nil {
			return &fw.Trace{Status: fw.DriverError, Note: err.Error()}
		}
		quiet.RLock()
		defer quiet.RUnlock()
		return driveBidi(env, &bb)
	case "fwd":
		var fb fwdBeh
		if err := json.Unmarshal(b.Data, &fb); err != nil {
			return &fw.Trace{Status: fw.DriverError, Note: err.Error()}
		}
		quiet.RLock()
		defer quiet.RUnlock()
		return driveFwd(env, &fb)
	}
	return &fw.Trace{Status: fw.DriverError, Note: "kind " + k.Kind}
}

// ---- self-test: corrupted copies of accepted traces must be rejected --------------------------

func cloneTrace(t *fw.Trace, id int) *fw.Trace {
	c := &fw.Trace{Beh: t.Beh, Status: t.Status}
	c.Beh.ID = id
	for _, e := range t.Events {
		ne := fw.Event{}
		for k, v := range e {
			ne[k] = v
		}
		c.Events = append(c.Events, ne)
	}
	return c
}

func kindOf(t *fw.Trace) string {
	if len(t.Events) > 0 {
		if k, ok := t.Events[0]["kind"].(string); ok {
			return k
		}
	}
	return ""
}

func selfTest(env *fw.Env, accepted []*fw.Trace) []*fw.Trace {
	var out []*fw.Trace
	id := 10_000_000
	next := func(t *fw.Trace) *fw.Trace { id++; return cloneTrace(t, id) }
	find := func(t *fw.Trace, ev string, pred func(fw.Event) bool) int {
		for i, e := range t.Events {
			if e["ev"] == ev && (pred == nil || pred(e)) {
				return i
			}
		}
		return -1
	}
	done := map[string]int{}
	for _, t := range accepted {
		switch kindOf(t) {
		case "stream":
			own := func(e fw.Event) bool { return e["src"] == "own" }
			i := find(t, "D", own)
			if i < 0 || done["stream"] >= 3 {
				continue
			}
			done["stream"]++
			c := next(t) // corrupted content
			c.Events[i]["eq"] = false
			out = append(out, c)
			c = next(t) // a delivery is lost
			c.Events = append(c.Events[:i:i], c.Events[i+1:]...)
			out = append(out, c)
			c = next(t) // the reader never saw end-of-stream
			c.Events[find(c, "REnd", nil)]["how"] = "hung"
			out = append(out, c)
			c = next(t) // a foreign-tunnel payload reached the caller
			j := find(c, "REnd", nil)
			c.Events = append(c.Events[:j:j], append([]fw.Event{{"ev": "D", "src": "inj", "k": "fd", "off": 0, "len": 1, "eq": false}}, c.Events[j:]...)...)
			out = append(out, c)
			if k := find(t, "W", func(e fw.Event) bool { return e["op"] == "write" && e["err"] == false }); k >= 0 {
				c = next(t) // a Write on the open stream was refused
				c.Events[k]["err"] = true
				out = append(out, c)
				c = next(t) // ... or came back short
				c.Events[k]["ret"] = c.Events[k]["ret"].(int) - 1
				out = append(out, c)
			}
			c = next(t) // end-of-stream although the writer never closed
			for k := len(c.Events) - 1; k >= 0; k-- {
				if c.Events[k]["ev"] == "W" && c.Events[k]["op"] != "write" {
					c.Events = append(c.Events[:k:k], c.Events[k+1:]...)
				}
			}
			out = append(out, c)
		case "dec":
			if done["dec"] >= 2 {
				continue
			}
			done["dec"]++
			i := find(t, "Dec", nil)
			c := next(t)
			c.Events[i]["res"] = "panic"
			out = append(out, c)
			c = next(t)
			c.Events[i]["alloc"] = 65536 + 4096 + 1
			out = append(out, c)
		case "rt":
			i := find(t, "Rt", func(e fw.Event) bool { return e["enc"] == "ok" })
			if i < 0 || done["rt"] >= 2 {
				continue
			}
			done["rt"]++
			c := next(t)
			c.Events[i]["eq"] = false
			out = append(out, c)
		case "pool":
			i := find(t, "PT", func(e fw.Event) bool { return e["sent"].(int) > 0 && e["needEof"] == true })
			if i < 0 || done["pool"] >= 2 {
				continue
			}
			done["pool"]++
			c := next(t) // the reused connection delivered nothing
			c.Events[i]["len"] = 0
			out = append(out, c)
			c = next(t)
			c.Events[i]["eof"] = false
			out = append(out, c)
		case "listener":
			i := find(t, "LD", func(e fw.Event) bool { return e["sent"].(int) > 0 })
			if i < 0 || done["listener"] >= 2 {
				continue
			}
			done["listener"]++
			c := next(t) // the first byte behind the frame was swallowed
			c.Events[i]["len"] = c.Events[i]["len"].(int) - 1
			out = append(out, c)
			c = next(t)
			c.Events[i]["eq"] = false
			out = append(out, c)
		case "bidi":
			i := find(t, "BD", func(e fw.Event) bool { return e["sent"].(int) > 0 })
			if i < 0 || done["bidi"] >= 3 {
				continue
			}
			done["bidi"]++
			c := next(t) // a byte is missing at the end of a direction
			c.Events[i]["len"] = c.Events[i]["len"].(int) - 1
			out = append(out, c)
			c = next(t) // the bytes that arrived are not the bytes that were sent
			c.Events[i]["eq"] = false
			out = append(out, c)
			c = next(t) // no end-of-stream behind them
			c.Events[i]["eof"] = false
			out = append(out, c)
			c = next(t) // the forwarder never returned
			c.Events[i]["hung"] = true
			out = append(out, c)
			if k := find(t, "BW", nil); k >= 0 {
				c = next(t) // the slice changed while the sink's Write was in progress
				c.Events[k]["eq"], c.Events[k]["stable"], c.Events[k]["by"] = false, false, "otherdir"
				out = append(out, c)
				c = next(t) // a sink was handed bytes nobody produced
				c.Events[k]["off"] = c.Events[k]["off"].(int) + 100000
				out = append(out, c)
			}
		case "fwd":
			i := find(t, "FD", func(e fw.Event) bool { return e["sent"].(int) > 0 })
			if i < 0 || done["fwd"] >= 2 {
				continue
			}
			done["fwd"]++
			c := next(t)
			c.Events[i]["len"] = c.Events[i]["len"].(int) - 1
			out = append(out, c)
			c = next(t)
			c.Events[i]["eof"] = false
			out = append(out, c)
			c = next(t)
			c.Events[find(c, "FE", func(e fw.Event) bool { return e["who"] == "S" })]["eq"] = false
			out = append(out, c)
		}
	}
	return out
}

// started together with the model jobs, collected after the drive
var showResult chan error

// showDeviations: under each named deviation of spec/CrossFrameForward.tla TLC must exhibit the violation of the
// clauses it breaks (CrossFrameForward_show_*.cfg) - the model really contains the mechanism, the invariants are
// not vacuous. Quick tier: the seeded deviation and one clause per neighbour; thorough: every clause.
func showDeviations(env *fw.Env) error {
	// the decoder's entry points (spec/CrossFrame.tla): with the length check on the reader path only, the bound no
	// longer holds for every entry point
	for _, inv := range []string{"DecoderBounded", "EntriesAgree"} {
		r, err := fw.RunTLC(fw.TLCJob{Name: "show:limitpath:" + inv, Module: "CrossFrame", Cfg: "CrossFrame_show_limitpath.cfg", Workers: 1, Consts: map[string]string{"INV": inv}})
		if err != nil {
			return err
		}
		if r.OK || !(strings.Contains(r.Violation, inv) || strings.Contains(r.Out, "invariant of "+inv+" is equal to FALSE")) {
			return fmt.Errorf("deviation cfg CrossFrame_show_limitpath.cfg no longer exhibits %s violated (ok=%v violation=%q)", inv, r.OK, r.Violation)
		}
		if env.Tier != "thorough" {
			break
		}
	}
	type show struct{ cfg, inv string }
	shows := []show{{"shared", "Unchanged"}, {"shared", "BufferOwned"}, {"firstdone", "PoolSound"}, {"earlyput", "Unchanged"}, {"global", "Unchanged"}}
	if env.Tier == "thorough" {
		shows = nil
		for _, c := range []string{"shared", "firstdone", "earlyput", "global"} {
			for _, inv := range []string{"Unchanged", "BufferOwned", "NoClobber"} {
				shows = append(shows, show{c, inv})
			}
		}
		shows = append(shows, show{"firstdone", "PoolSound"}, show{"earlyput", "PoolSound"})
	}
	errs := make([]error, len(shows))
	var wg sync.WaitGroup
	sem := make(chan struct{}, 3)
	for i, sh := range shows {
		wg.Add(1)
		go func(i int, sh show) {
			defer wg.Done()
			sem <- struct{}{}
			defer func() { <-sem }()
			r, err := fw.RunTLC(fw.TLCJob{Name: "show:" + sh.cfg + ":" + sh.inv, Module: "CrossFrameForward", Cfg: "CrossFrameForward_show_" + sh.cfg + ".cfg",
				Workers: 1, Consts: map[string]string{"INV": sh.inv}})
			if err != nil {
				errs[i] = err
			} else if r.OK || !strings.Contains(r.Violation, sh.inv) {
				errs[i] = fmt.Errorf("deviation cfg CrossFrameForward_show_%s.cfg no longer exhibits %s violated (ok=%v violation=%q)", sh.cfg, sh.inv, r.OK, r.Violation)
			}
		}(i, sh)
	}
	wg.Wait()
	for _, err := range errs {
		if err != nil {
			return err
		}
	}
	fmt.Printf("[model] %d named-deviation runs of spec/CrossFrameForward.tla: TLC exhibits the violated clause for each (expected)\n", len(shows))
	return nil
}

func main() {
	corelog.SetDefault(corelog.NewNopLogger())
	fw.Main(&fw.Property{
		ID:        "C10",
		DesignRef: "DESIGN.md §5 C10",
		ModelJobs: func(env *fw.Env) []fw.TLCJob {
			// All runs with Concurrent = TRUE (other tunnels' frames may land between the frames of one Write).
			// quick: <=2 writes, one injected kind per id relation / frame type (fd/fdn and fe/fen behave
			// alike in the model: both header fields differ from ours): 0.55M states, 8-20 s.
			// thorough: <=3 writes with those five kinds, <=2 writes with all seven kinds, the strict
			// clauses without colliding ids (<=2 writes) and the pool model with the proposed probe fix.
			// Larger bounds pass too (<=3 writes / seven kinds: 10M states; <=4 writes: >20M) but do not
			// fit the thorough budget on a loaded machine; scripts with 4 writes come from the -simulate job.
			inj5, inj7 := `{"fd", "fds", "fen", "fes", "unk"}`, `{"fd", "fdn", "fds", "fe", "fen", "fes", "unk"}`
			showResult = make(chan error, 1)
			go func() { showResult <- showDeviations(env) }()
			// the bidirectional forwarder with its copy buffers as state, the code as it is: two tunnels with <=2 chunks
			// per direction (60k states up to buffer symmetry) / thorough: <=3 chunks (0.2M states)
			fwdMC := func(ch string) fw.TLCJob {
				return fw.TLCJob{Name: "mc:CrossFrameForward_mc.cfg(T=2,C=" + ch + ")", Module: "CrossFrameForward", Cfg: "CrossFrameForward_mc.cfg", Workers: 2,
					Consts: map[string]string{"TUN": "{1, 2}", "CH": ch, "EMIT": "FALSE"}, Timeout: 14 * time.Minute}
			}
			jobs := []fw.TLCJob{{Name: "mc:CrossFrame_mc.cfg(W=2)", Module: "CrossFrame", Cfg: "CrossFrame_mc.cfg",
				Consts: map[string]string{"MAXW": "2", "INJ": inj5}}, fwdMC("2")}
			if env.Tier == "thorough" {
				jobs = []fw.TLCJob{
					{Name: "mc:CrossFrame_mc.cfg(W=3)", Module: "CrossFrame", Cfg: "CrossFrame_mc.cfg",
						Consts: map[string]string{"MAXW": "3", "INJ": inj5}, Timeout: 14 * time.Minute},
					{Name: "mc:CrossFrame_mc.cfg(W=2,all kinds)", Module: "CrossFrame", Cfg: "CrossFrame_mc.cfg",
						Consts: map[string]string{"MAXW": "2", "INJ": inj7}, Timeout: 14 * time.Minute},
					{Name: "mc:CrossFrame_strict.cfg(W=2)", Module: "CrossFrame", Cfg: "CrossFrame_strict.cfg", Consts: map[string]string{"MAXW": "2"}, Timeout: 14 * time.Minute},
					{Name: "mc:CrossFramePool_fixed.cfg", Module: "CrossFramePool", Cfg: "CrossFramePool_fixed.cfg", Workers: 1},
					fwdMC("3"),
				}
			}
			return jobs
		},
		GenJobs: func(env *fw.Env) []fw.TLCJob {
			gen := func(w, i int) fw.TLCJob {
				return fw.TLCJob{Name: fmt.Sprintf("gen:W=%d,I=%d", w, i), Module: "CrossFrame", Cfg: "CrossFrame_gen.cfg", Workers: 4,
					Consts: map[string]string{"MAXW": strconv.Itoa(w), "MAXI": strconv.Itoa(i)}}
			}
			sim := func(n int) fw.TLCJob {
				return fw.TLCJob{Name: "sim:W=4,I=2", Module: "CrossFrame", Cfg: "CrossFrame_gen.cfg", Workers: 1,
					Simulate: fmt.Sprintf("num=%d", n), Depth: 40, Seed: env.Seed,
					Consts: map[string]string{"MAXW": "4", "MAXI": "2"}}
			}
			// the listener hand-over model is tiny: one run checks its invariants exhaustively and prints its behaviours
			lst := fw.TLCJob{Name: "mc+gen:CrossFrameListener", Module: "CrossFrameListener", Cfg: "CrossFrameListener.cfg", Workers: 2,
				Consts: map[string]string{"EMIT": "TRUE"}}
			pl := fw.TLCJob{Name: "mc+gen:CrossFramePool", Module: "CrossFramePool", Cfg: "CrossFramePool.cfg", Workers: 1,
				Consts: map[string]string{"EMIT": "TRUE", "REJ": "FALSE"}} // FALSE: IsHealthy as coded before fix C10-1; the invariants checked hold for both
			// schedules of the bidirectional forwarder: one tunnel with <=3 chunks per direction, two tunnels with one
			bidi := func(tun, ch string) fw.TLCJob {
				return fw.TLCJob{Name: "gen:bidi:T=" + tun + ",C=" + ch, Module: "CrossFrameForward", Cfg: "CrossFrameForward_gen.cfg", Workers: 1,
					Consts: map[string]string{"TUN": tun, "CH": ch, "EMIT": "TRUE"}}
			}
			if env.Tier == "thorough" {
				return []fw.TLCJob{gen(2, 2), gen(3, 1), sim(6000), lst, pl, bidi("{1}", "3"), bidi("{1, 2}", "1"), bidi("{1, 2}", "2")}
			}
			return []fw.TLCJob{gen(2, 1), sim(400), lst, pl, bidi("{1}", "3"), bidi("{1, 2}", "1")}
		},
		ExtraBeh: func(env *fw.Env) []json.RawMessage {
			// free-running: both directions of every tunnel pump chunks at the same time, no schedule
			var out []json.RawMessage
			reps, n := 2, 60
			if env.Tier == "thorough" {
				reps, n = 6, 200
			}
			for rep := 0; rep < reps; rep++ {
				for nt := 1; nt <= 2; nt++ {
					for _, lk := range []string{"gate", "tcp"} {
						for _, cnt := range []string{"off", "on"} {
							out = append(out, fw.MustJSON(bidiBeh{Kind: "bidi", Nt: nt, Lk: lk, Cnt: cnt, Mode: "free", N: n,
								Salt: int64(h64(env.Seed, fmt.Sprint("free", rep, nt, lk, cnt)) >> 1)}))
						}
					}
				}
			}
			return out
		},
		PostDrive: func(env *fw.Env, traces []*fw.Trace) error {
			if showResult == nil { // replay: the model jobs were not run
				return nil
			}
			return <-showResult
		},
		Expand:      expand,
		Drive:       drive,
		Parallel:    12,
		JudgeModule: "CrossFrameTrace",
		JudgeCfg:    "CrossFrameTrace.cfg",
		SelfTest:    selfTest,
		NonTrivial:  func(t *fw.Trace) bool { return len(t.Events) > 2 || kindOf(t) == "dec" || kindOf(t) == "rt" },
		Rule: "stream: every writer script up to the generation bounds in the core set (<=1 write, <=1 injected frame) plus a seeded share of the larger enumerated scripts and random deep scripts (<=4 writes, <=2 injected frames), each with a caller buffer class; " +
			"dec/rt/fwd: every class once per chunking; bidi: one schedule per (control state, step) of spec/CrossFrameForward.tla - all one-tunnel schedules (<=3 chunks per direction), a seeded share of the two-tunnel ones - " +
			"each with a gated in-memory and a bare TCP local endpoint, with and without traffic counters, plus free-running two-way pumps; non-trivial = realised trace with a delivery/decoder observation",
		Assumptions: []string{
			"model frame limit MAX=3 stands for crossnode.MaxFrameSize; size classes are mapped to {0,1,MAX-1,MAX,MAX+1,2*MAX+1} real bytes",
			"a reader that makes no progress for 5 s after the writer script finished is recorded as hung",
			"allocation is measured as the minimum runtime.MemStats.TotalAlloc delta of three decoder calls while no other behaviour runs",
			"frames are injected between Write calls, not between the frames of one Write (equivalent on the wire)",
			"bidi: a sink may look at the slice it was handed until its Write returns (io.Writer contract); the gated sinks look at it on entry and again on return; a bare *net.TCPConn sink cannot be held, its direction is judged on what the client received",
			"bidi: a forwarder that has not returned 10 s after both of its sources ended is recorded as hung; a schedule step that does not complete within 10 s ends the schedule (diverged run, still judged on what was delivered)",
		},
		TrustedBase: []string{"TLC", "spec/CrossFrameTrace.tla as the reading of the statement", "byte classification and content comparison in drivers/c10",
			"go:linkname binding to session.runBidirectionalForward"},
	})
}
