package main

import (
	_ "unsafe" // go:linkname

	"tunnox-core/internal/protocol/session"
)

// runBidirectionalForward is the real, unexported forwarding loop of package session
// (cross_node_forward_helper.go). It is bound by symbol name, so no export shim / hook patch in
// tunnox-core is needed; if the function is renamed or its signature changes the driver stops
// linking and the check reports INCONCLUSIVE (exit 2), never a verdict.
// The empty.s file in this directory allows the body-less declaration.
//
//go:linkname runBidirectionalForward tunnox-core/internal/protocol/session.runBidirectionalForward
func runBidirectionalForward(config *session.BidirectionalForwardConfig)
