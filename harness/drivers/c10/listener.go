package main

import (
	"bytes"
	"context"
	"fmt"
	"net"
	"reflect"
	"strings"
	"sync"
	"sync/atomic"
	"time"
	"unsafe"

	"tunnox-core/internal/core/idgen"
	"tunnox-core/internal/core/storage"
	"tunnox-core/internal/protocol/session"
	"tunnox-core/internal/protocol/session/crossnode"
	"tunnox-core/verifharness/fw"
)

// handleConnection is the real, unexported (*session.CrossNodeListener).handleConnection: what the
// listener's accept loop runs for every accepted cross-node connection (first frame, then for a
// TargetReady frame handleTargetReady -> runBridgeForward). Bound by symbol name like
// runBidirectionalForward (forward_link.go); a rename makes the driver stop linking => exit 2.
//
//go:linkname handleConnection tunnox-core/internal/protocol/session.(*CrossNodeListener).handleConnection
func handleConnection(l *session.CrossNodeListener, ctx context.Context, conn net.Conn)

type listenerBeh struct {
	Kind string   `json:"kind"`
	Dsz  string   `json:"dsz"`  // z | one | small | big : tunnel bytes written right behind the TargetReady frame
	Cuts []string `json:"cuts"` // chunk boundaries of the sender: hdr | hp | payload | after | data
	Pre  bool     `json:"pre"`  // the first chunk is in the socket before the listener starts reading
	Salt int64    `json:"salt"`
}

var (
	smOnce sync.Once
	smMgr  *session.SessionManager
	smLock *sync.RWMutex
	smMap  map[string]*session.TunnelBridge
	smErr  error
	tunSeq atomic.Int64
)

// sourceManager builds one real SessionManager for all listener behaviours and obtains access to
// its bridge table (unexported fields tunnelBridges / bridgeLock; the only code that fills the
// table needs a full cloud-control set-up, which is not what is under test here).
func sourceManager() error {
	smOnce.Do(func() {
		defer func() {
			if r := recover(); r != nil {
				smErr = fmt.Errorf("session manager access: %v", r)
			}
		}()
		ctx := context.Background()
		smMgr = session.NewSessionManager(idgen.NewIDManager(storage.NewMemoryStorage(ctx), ctx), ctx)
		v := reflect.ValueOf(smMgr).Elem()
		fm, fl := v.FieldByName("tunnelBridges"), v.FieldByName("bridgeLock")
		if !fm.IsValid() || !fl.IsValid() {
			smErr = fmt.Errorf("SessionManager has no tunnelBridges/bridgeLock field")
			return
		}
		m, ok := reflect.NewAt(fm.Type(), unsafe.Pointer(fm.UnsafeAddr())).Elem().Interface().(map[string]*session.TunnelBridge)
		l, ok2 := reflect.NewAt(fl.Type(), unsafe.Pointer(fl.UnsafeAddr())).Interface().(*sync.RWMutex)
		if !ok || !ok2 || m == nil {
			smErr = fmt.Errorf("SessionManager bridge table has an unexpected type")
			return
		}
		smMap, smLock = m, l
	})
	return smErr
}

func driveListener(env *fw.Env, b *listenerBeh) *fw.Trace {
	if err := sourceManager(); err != nil {
		return &fw.Trace{Status: fw.DriverError, Note: err.Error()}
	}
	rnd := fw.NewRand(b.Salt)
	tunnelID := fmt.Sprintf("tcp-tunnel-%d-%d", int64(1758900000000000000)+b.Salt%1000000007, 7000+tunSeq.Add(1))
	var dlen int
	switch b.Dsz {
	case "z":
		dlen = 0
	case "one":
		dlen = 1
	case "small":
		dlen = 2 + rnd.Intn(6000) // around the size of a typical read-ahead buffer
	case "big":
		dlen = 2*maxFrame + 1
	default:
		return &fw.Trace{Status: fw.DriverError, Note: "dsz " + b.Dsz}
	}
	data := ownStream(b.Salt, dlen)

	// the byte stream of the target node: TargetReady frame, then tunnel bytes, no framing
	tid, _ := crossnode.TunnelIDFromString(tunnelID)
	ready := crossnode.EncodeTargetReadyMessage(tunnelID, "node-target")
	var wire bytes.Buffer
	if err := crossnode.WriteFrameToWriter(&wire, tid, crossnode.FrameTypeTargetReady, ready); err != nil {
		return &fw.Trace{Status: fw.DriverError, Note: err.Error()}
	}
	frameLen := wire.Len()
	wire.Write(data)
	stream := wire.Bytes()
	var cutAt []int
	prev := 0
	for _, c := range b.Cuts {
		var p int
		switch c {
		case "hdr":
			p = 1 + rnd.Intn(crossnode.FrameHeaderSize-1)
		case "hp":
			p = crossnode.FrameHeaderSize
		case "payload":
			p = crossnode.FrameHeaderSize + 1 + rnd.Intn(len(ready)-1)
		case "after":
			p = frameLen
		case "data":
			lo := frameLen + 1
			if prev >= lo {
				lo = prev + 1
			}
			if lo >= len(stream) {
				return &fw.Trace{Status: fw.Unrealisable, Note: "no room for another cut inside the data"}
			}
			p = lo + rnd.Intn(len(stream)-lo)
		default:
			return &fw.Trace{Status: fw.DriverError, Note: "cut " + c}
		}
		if p <= prev || p >= len(stream) {
			return &fw.Trace{Status: fw.Unrealisable, Note: "cut outside the stream"}
		}
		cutAt = append(cutAt, p)
		prev = p
	}

	// source side: the bridge owns srcEnd, srcPeer plays the listen-side client
	srcEnd, srcPeer, err := tcpPair()
	if err != nil {
		return &fw.Trace{Status: fw.DriverError, Note: err.Error()}
	}
	cross, accepted, err := tcpPair() // target node's end / the connection the listener accepted
	if err != nil {
		srcEnd.Close()
		srcPeer.Close()
		return &fw.Trace{Status: fw.DriverError, Note: err.Error()}
	}
	ctx, cancel := context.WithCancel(context.Background())
	defer cancel()
	bridge := session.NewTunnelBridge(ctx, &session.TunnelBridgeConfig{TunnelID: tunnelID, MappingID: "m-verif", SourceConn: srcEnd})
	smLock.Lock()
	smMap[tunnelID] = bridge
	smLock.Unlock()
	defer func() {
		smLock.Lock()
		delete(smMap, tunnelID)
		smLock.Unlock()
		bridge.Close()
	}()
	lst := session.NewCrossNodeListener(smMgr, 0)

	var helpers sync.WaitGroup
	defer helpers.Wait()
	defer func() { cross.Close(); accepted.Close(); srcPeer.Close(); srcEnd.Close() }()

	var prog atomic.Int64
	writerDone := make(chan error, 1)
	firstOut := make(chan struct{})
	helpers.Add(1)
	go func() { // the target node: chunks with pauses so that each arrives on its own, then half-close
		defer helpers.Done()
		from := 0
		for i, p := range append(append([]int{}, cutAt...), len(stream)) {
			if _, err := cross.Write(stream[from:p]); err != nil {
				writerDone <- err
				if i == 0 {
					close(firstOut)
				}
				return
			}
			from = p
			if i == 0 {
				close(firstOut)
			}
			if p < len(stream) {
				time.Sleep(30 * time.Millisecond)
			}
		}
		cross.CloseWrite()
		writerDone <- nil
	}()
	if b.Pre {
		<-firstOut
		time.Sleep(20 * time.Millisecond)
	}
	handlerDone := make(chan struct{})
	go func() { // the listener's per-connection goroutine (acceptLoop: go l.handleConnection(ctx, conn))
		defer close(handlerDone)
		handleConnection(lst, ctx, accepted)
	}()

	var res epRes
	readDone := make(chan struct{})
	helpers.Add(1)
	go func() {
		defer helpers.Done()
		defer close(readDone)
		res = readPipe(srcPeer, data, true, &prog)
	}()
	last, quiet0 := prog.Load(), time.Now()
	tick := time.NewTicker(50 * time.Millisecond)
	defer tick.Stop()
wait:
	for {
		select {
		case <-readDone:
			break wait
		case <-tick.C:
			if p := prog.Load(); p != last {
				last, quiet0 = p, time.Now()
			}
			if time.Since(quiet0) > hangAfter {
				srcPeer.SetReadDeadline(time.Now())
				<-readDone
				break wait
			}
		}
	}
	var werr error
	select {
	case werr = <-writerDone:
	case <-time.After(writerWait):
		return &fw.Trace{Status: fw.Inconclusive, Note: "target-node writer did not finish"}
	}
	if werr != nil {
		return &fw.Trace{Status: fw.DriverError, Note: "target-node write: " + werr.Error()}
	}
	srcPeer.Close()
	cross.Close()
	returned := true
	select {
	case <-handlerDone:
	case <-time.After(3 * time.Second):
		returned = false
	}
	t := &fw.Trace{Status: fw.Realised}
	cuts := strings.Join(b.Cuts, "+")
	if cuts == "" {
		cuts = "none"
	}
	t.Events = append(t.Events,
		fw.Event{"ev": "Cfg", "kind": "listener", "cuts": cuts, "dsz": b.Dsz, "pre": b.Pre, "cutAt": fmt.Sprint(cutAt), "frameLen": frameLen, "handlerReturned": returned},
		fw.Event{"ev": "LD", "sent": len(data), "len": res.got, "eq": res.eq, "eof": res.eof, "hung": res.hung})
	return t
}
