package main

import (
	"context"
	"fmt"
	"net"
	"sync/atomic"
	"time"

	"tunnox-core/internal/protocol/session/crossnode"
	"tunnox-core/verifharness/fw"
)

type poolBeh struct {
	Kind   string   `json:"kind"`
	Styles []string `json:"styles"` // per tunnel: clean | residual (the peer's last frame is left unread)
	C      string   `json:"c"`      // data size class per direction
	Salt   int64    `json:"salt"`
}

// watched runs f (a blocking read phase) and kicks the given connections' read deadlines when
// prog has not moved for hangAfter. It returns true if it had to kick.
func watched(prog *atomic.Int64, conns []*net.TCPConn, f func()) bool {
	done := make(chan struct{})
	go func() { defer close(done); f() }()
	last, quiet0 := prog.Load(), time.Now()
	tick := time.NewTicker(50 * time.Millisecond)
	defer tick.Stop()
	for {
		select {
		case <-done:
			return false
		case <-tick.C:
			if p := prog.Load(); p != last {
				last, quiet0 = p, time.Now()
			}
			if time.Since(quiet0) > hangAfter {
				for _, c := range conns {
					if c != nil {
						c.SetReadDeadline(time.Now())
					}
				}
				<-done
				return true
			}
		}
	}
}

// drivePool runs a history of tunnels, one after the other, over connections obtained from a real
// crossnode.NodeConnectionPool (Get / Release), each tunnel being a real FrameStream pair.
func drivePool(env *fw.Env, b *poolBeh) *fw.Trace {
	lst, err := net.Listen("tcp", "127.0.0.1:0")
	if err != nil {
		return &fw.Trace{Status: fw.DriverError, Note: err.Error()}
	}
	defer lst.Close()
	accepted := make(chan *net.TCPConn, 8)
	go func() {
		for {
			c, err := lst.Accept()
			if err != nil {
				close(accepted)
				return
			}
			accepted <- c.(*net.TCPConn)
		}
	}()
	ctx, cancel := context.WithCancel(context.Background())
	defer cancel()
	var created int64
	pool := crossnode.NewNodeConnectionPool(ctx, "node-s", lst.Addr().String(),
		crossnode.PoolConfig{MinConns: 0, MaxConns: 4, IdleTimeout: 10 * time.Minute, DialTimeout: 3 * time.Second}, &created)
	defer pool.CloseAll()
	server := map[*crossnode.Conn]*crossnode.Conn{} // pooled side -> server side of the same TCP connection
	var serverTCP []*net.TCPConn
	defer func() {
		for _, c := range serverTCP {
			c.Close()
		}
	}()

	n := sizeOf(b.C)
	t := &fw.Trace{Status: fw.Realised}
	t.Events = append(t.Events, fw.Event{"ev": "Cfg", "kind": "pool", "styles": fmt.Sprint(b.Styles), "c": b.C})
	prev := "first"
	var lastConn *crossnode.Conn
	var prog atomic.Int64
	for i, style := range b.Styles {
		pc, err := pool.Get(ctx)
		if err != nil {
			return &fw.Trace{Status: fw.DriverError, Note: fmt.Sprintf("pool.Get for tunnel %d: %v", i+1, err)}
		}
		sc, known := server[pc]
		if !known {
			select {
			case tc, ok := <-accepted:
				if !ok {
					return &fw.Trace{Status: fw.DriverError, Note: "listener closed"}
				}
				serverTCP = append(serverTCP, tc)
				sc = crossnode.NewConn(ctx, "node-p", tc, nil)
				server[pc] = sc
			case <-time.After(3 * time.Second):
				return &fw.Trace{Status: fw.DriverError, Note: "pool returned a connection the server side never accepted"}
			}
		}
		reused := pc == lastConn
		lastConn = pc
		ptcp, stcp := pc.GetTCPConn(), sc.GetTCPConn()
		if ptcp == nil || stcp == nil {
			return &fw.Trace{Status: fw.DriverError, Note: "nil tcp conn"}
		}
		// ids of successive tunnels differ inside the first 16 bytes (the 16-byte finding is not the topic here)
		id, _ := crossnode.TunnelIDFromString(fmt.Sprintf("t%d-%d-pool", i+1, b.Salt%100000))
		ps, ss := crossnode.NewFrameStream(pc, id), crossnode.NewFrameStream(sc, id)
		sp, psd := ownStream(b.Salt+int64(i)*31, n), ownStream(b.Salt+int64(i)*31+17, n)
		time.Sleep(20 * time.Millisecond) // a tunnel starts reading some time after Get, not within a millisecond

		// server -> pooled side
		var spRes, psRes epRes
		swErr := make(chan error, 1)
		go func() {
			var err error
			if n > 0 {
				_, err = ss.Write(sp)
			}
			if err == nil && style == "clean" {
				err = ss.CloseWrite()
			}
			swErr <- err
		}()
		toEOF := style == "clean"
		kicked := watched(&prog, []*net.TCPConn{ptcp}, func() { spRes = readPipe(ps, sp, toEOF, &prog) })
		ptcp.SetReadDeadline(time.Time{})
		spRes.hung = spRes.hung || kicked
		select {
		case e := <-swErr:
			if e != nil && !spRes.hung {
				return &fw.Trace{Status: fw.DriverError, Note: "server-side write: " + e.Error()}
			}
		case <-time.After(writerWait):
			return &fw.Trace{Status: fw.Inconclusive, Note: "server-side writer did not finish"}
		}
		t.Events = append(t.Events, fw.Event{"ev": "PT", "i": i + 1, "dir": "sp", "c": b.C, "prev": prev, "reused": reused,
			"sent": n, "len": spRes.got, "eq": spRes.eq, "eof": spRes.eof, "hung": spRes.hung, "needEof": toEOF})

		// pooled side -> server, then the pooled side closes the tunnel
		pwErr := make(chan error, 1)
		go func() {
			var err error
			if n > 0 {
				_, err = ps.Write(psd)
			}
			if err == nil {
				err = ps.Close()
			}
			pwErr <- err
		}()
		kicked = watched(&prog, []*net.TCPConn{stcp}, func() { psRes = readPipe(ss, psd, true, &prog) })
		stcp.SetReadDeadline(time.Time{})
		psRes.hung = psRes.hung || kicked
		select {
		case e := <-pwErr:
			if e != nil && !psRes.hung {
				return &fw.Trace{Status: fw.DriverError, Note: "pooled-side write: " + e.Error()}
			}
		case <-time.After(writerWait):
			return &fw.Trace{Status: fw.Inconclusive, Note: "pooled-side writer did not finish"}
		}
		t.Events = append(t.Events, fw.Event{"ev": "PT", "i": i + 1, "dir": "ps", "c": b.C, "prev": prev, "reused": reused,
			"sent": n, "len": psRes.got, "eq": psRes.eq, "eof": psRes.eof, "hung": psRes.hung, "needEof": true})

		if style == "residual" {
			// the server answers the Close with its own Close frame; the pooled side has already
			// finished with the tunnel and does not read it: it stays in the socket
			if err := ss.Close(); err != nil && !psRes.hung {
				return &fw.Trace{Status: fw.DriverError, Note: "server-side close: " + err.Error()}
			}
			time.Sleep(30 * time.Millisecond)
		}
		pc.Release()
		prev = style
		if spRes.hung || psRes.hung {
			break // the history beyond a failed tunnel is not meaningful
		}
	}
	return t
}
