package main

// bidi behaviours: schedules of spec/CrossFrameForward.tla driven on the real
// session.runBidirectionalForward.
//
// One forwarder per tunnel, RemoteConn = a real crossnode.FrameStream (over a loopback
// crossnode.Conn of its own) behind a tap, peer = the FrameStream on the other end of that
// connection, LocalConn = either a gate-controlled in-memory endpoint (any io.ReadWriter) or a bare
// *net.TCPConn, with or without traffic counters (CountingReadWriter wrapper).
//
// The schedule's steps:
//   S t      runBidirectionalForward is called for tunnel t
//   R t d    the source of direction d produces its next chunk (up: the local endpoint's Read
//            returns it / the client writes it into the TCP connection; down: the peer node writes
//            it to the cross-node stream) and the copy loop gets as far as the sink's Write, which
//            PARKS holding the slice it was handed (gated sinks: the tap's Write for `up`, the
//            in-memory endpoint's Write for `down`)
//   W t d    the parked Write is released: the sink looks at its slice once more (what a sink does
//            whose Write takes a while: full socket buffer, slow peer) and returns
//   E t d    the source is at end-of-stream (local half-close / the peer's CloseWrite)
// After the script everything runs free, every source ends and the forwarders must return.
// Mode "free": no schedule, both directions of every tunnel pump N chunks at the same time.
//
// Observations: BR (a chunk was produced), BW (a Write at a gated sink: the slice on return compared
// with the direction's own byte stream, and whether it changed while the Write was in progress),
// BD (per direction, at the end: what arrived - at the peer FrameStream for `up`, at the local
// endpoint for `down` - and whether end-of-stream followed).

import (
	"context"
	"fmt"
	"io"
	"net"
	"runtime"
	"sync"
	"sync/atomic"
	"time"

	"tunnox-core/internal/protocol/session"
	"tunnox-core/internal/protocol/session/crossnode"
	"tunnox-core/verifharness/fw"
)

type bidiStep struct {
	A string `json:"a"`
	T int    `json:"t"`
	D string `json:"d"`
}

type bidiBeh struct {
	Kind  string     `json:"kind"`
	Nt    int        `json:"nt"`
	Steps []bidiStep `json:"steps"`
	Lk    string     `json:"lk"`   // gate: in-memory io.ReadWriter with a parkable Write; tcp: bare *net.TCPConn
	Cnt   string     `json:"cnt"`  // on: traffic counters configured
	Mode  string     `json:"mode"` // sched | free
	N     int        `json:"n,omitempty"`
	Salt  int64      `json:"salt"`
}

const (
	bidiStepWait = 10 * time.Second // a schedule step that does not complete in this time: the run leaves the schedule (diverged)
	copyBufSize  = 32 * 1024        // constants.CopyBufferSize, io.Copy's default as well
)

var bidiSizes = []int{1, 100, 4096, copyBufSize, 40000}

// byte classes: every (tunnel, direction) stream has its own top three bits, the low five bits
// depend on the position, so a delivered slice can be checked at any offset and a wrong slice can
// be attributed to the stream it came from.
func bidiCls(t, d int) byte { return byte(((t-1)*2 + d) & 7) }

func bidiByte(cls byte, seed uint64, i int) byte {
	x := (uint64(i) + seed) * 0x9E3779B97F4A7C15
	return cls<<5 | byte(x>>40)&0x1f
}

func bidiFill(p []byte, cls byte, seed uint64, off int) {
	for i := range p {
		p[i] = bidiByte(cls, seed, off+i)
	}
}

func bidiCheck(p []byte, cls byte, seed uint64, off int) bool {
	for i := range p {
		if p[i] != bidiByte(cls, seed, off+i) {
			return false
		}
	}
	return true
}

// whose bytes are these: own (right stream, wrong place), otherdir, othertunnel, mixed
func bidiWhose(p []byte, t, d int) string {
	seen := map[byte]bool{}
	for _, c := range p {
		seen[c>>5] = true
	}
	res := ""
	set := func(s string) {
		if res == "" || res == s {
			res = s
		} else {
			res = "mixed"
		}
	}
	for c := range seen {
		ct, cd := int(c)/2+1, int(c)%2
		switch {
		case ct == t && cd == d:
			set("own")
		case ct == t:
			set("otherdir")
		default:
			set("othertunnel")
		}
	}
	return res
}

type bidiRun struct {
	b      *bidiBeh
	free   atomic.Bool
	freeCh chan struct{}
	mu     sync.Mutex
	events []fw.Event
	prog   chan struct{} // poked by every sink
	rnd    atomic.Uint64
}

func (r *bidiRun) rec(e fw.Event) { r.mu.Lock(); r.events = append(r.events, e); r.mu.Unlock() }
func (r *bidiRun) poke() {
	select {
	case r.prog <- struct{}{}:
	default:
	}
}

type bidiDir struct {
	name     string
	cls      byte
	seed     uint64
	k        int // chunks produced
	produced int
	ended    bool
	consumed atomic.Int64 // bytes the final sink got (up: peer FrameStream reader; down: local endpoint)
	bad      atomic.Bool  // ... and not all of them were the stream's bytes
	eof      atomic.Bool  // the final sink saw end-of-stream
	// gated sink
	arrive  chan struct{}
	tok     chan struct{}
	sinkOff int
}

type bidiTunnel struct {
	r       *bidiRun
	t       int
	id      string
	dir     [2]*bidiDir // 0 up, 1 down
	started bool
	ret     chan struct{}
	conns   []*net.TCPConn
	fsA     *crossnode.FrameStream
	fsB     *crossnode.FrameStream
	ca, cb  *crossnode.Conn
	local   *bidiLocal   // lk = gate
	c1, la  *net.TCPConn // lk = tcp: client end, forwarder end
	readers sync.WaitGroup
	cancel  context.CancelFunc
}

// sinkWrite is the body of a gated sink's Write: remember the slice, park, look again.
func (bt *bidiTunnel) sinkWrite(d int, p []byte) {
	ds := bt.dir[d]
	snap := append([]byte(nil), p...)
	select {
	case ds.arrive <- struct{}{}:
	default:
	}
	if bt.r.free.Load() {
		// free running: a Write takes a moment, as a Write on a real connection does
		for i, n := 0, int(bt.r.rnd.Add(0x9E3779B97F4A7C15)>>61); i < n; i++ {
			runtime.Gosched()
		}
	} else {
		select {
		case <-ds.tok:
		case <-bt.r.freeCh:
		}
	}
	stable := string(snap) == string(p)
	eq := bidiCheck(p, ds.cls, ds.seed, ds.sinkOff)
	ev := fw.Event{"ev": "BW", "t": bt.t, "d": ds.name, "off": ds.sinkOff, "n": len(p), "eq": eq, "stable": stable, "by": "own"}
	if !eq {
		ev["by"] = bidiWhose(p, bt.t, d)
	}
	bt.r.rec(ev)
	ds.sinkOff += len(p)
}

// bidiLocal: the in-memory local endpoint (an io.ReadWriter that is not a *net.TCPConn)
type bidiLocal struct {
	bt      *bidiTunnel
	grant   chan []byte // nil = end-of-stream
	pend    []byte
	sawEOF  bool
	closeCh chan struct{}
	once    sync.Once
}

func (l *bidiLocal) Read(p []byte) (int, error) {
	if len(l.pend) == 0 {
		if l.sawEOF {
			return 0, io.EOF
		}
		select {
		case g := <-l.grant:
			if g == nil {
				l.sawEOF = true
				return 0, io.EOF
			}
			l.pend = g
		case <-l.closeCh:
			return 0, io.ErrClosedPipe
		}
	}
	n := copy(p, l.pend)
	l.pend = l.pend[n:]
	return n, nil
}

func (l *bidiLocal) Write(p []byte) (int, error) {
	select {
	case <-l.closeCh:
		return 0, io.ErrClosedPipe
	default:
	}
	ds := l.bt.dir[1]
	l.bt.sinkWrite(1, p)
	if !bidiCheck(p, ds.cls, ds.seed, int(ds.consumed.Load())) {
		ds.bad.Store(true)
	}
	ds.consumed.Add(int64(len(p)))
	l.bt.r.poke()
	return len(p), nil
}

func (l *bidiLocal) Close() error {
	l.once.Do(func() { close(l.closeCh); l.bt.dir[1].eof.Store(true); l.bt.r.poke() })
	return nil
}

// bidiTap: RemoteConn = the real FrameStream; Write is a gated sink
type bidiTap struct {
	bt *bidiTunnel
}

func (t *bidiTap) Read(p []byte) (int, error) { return t.bt.fsA.Read(p) }
func (t *bidiTap) Write(p []byte) (int, error) {
	t.bt.sinkWrite(0, p)
	return t.bt.fsA.Write(p)
}
func (t *bidiTap) Close() error      { return t.bt.fsA.Close() }
func (t *bidiTap) CloseWrite() error { return t.bt.fsA.CloseWrite() }

// readTo: a final sink (the peer's FrameStream for `up`, the client's TCP end for `down`)
func (bt *bidiTunnel) readTo(src io.Reader, ds *bidiDir) {
	defer bt.readers.Done()
	buf := make([]byte, 64*1024)
	for {
		n, err := src.Read(buf)
		if n > 0 {
			if !bidiCheck(buf[:n], ds.cls, ds.seed, int(ds.consumed.Load())) {
				ds.bad.Store(true)
			}
			ds.consumed.Add(int64(n))
			bt.r.poke()
		}
		if err != nil {
			if err == io.EOF {
				ds.eof.Store(true)
				bt.r.poke()
			}
			return
		}
	}
}

func newBidiTunnel(r *bidiRun, t int) (*bidiTunnel, error) {
	b := r.b
	bt := &bidiTunnel{r: r, t: t, ret: make(chan struct{})}
	bt.id = fmt.Sprintf("tcp-tunnel-%d-%d", int64(1758900000000000000)+b.Salt%1000000007+int64(t)*7919, 8080+t)
	for d, name := range []string{"up", "down"} {
		bt.dir[d] = &bidiDir{name: name, cls: bidiCls(t, d), seed: h64(b.Salt, fmt.Sprint("bidi", t, d)),
			arrive: make(chan struct{}, 1024), tok: make(chan struct{}, 1024)}
	}
	xa, xb, err := tcpPair()
	if err != nil {
		return nil, err
	}
	bt.conns = append(bt.conns, xa, xb)
	ctx, cancel := context.WithCancel(context.Background())
	bt.cancel = cancel
	bt.ca = crossnode.NewConn(ctx, "node-b", xa, nil)
	bt.cb = crossnode.NewConn(ctx, "node-a", xb, nil)
	id, _ := crossnode.TunnelIDFromString(bt.id)
	bt.fsA = crossnode.NewFrameStream(bt.ca, id)
	bt.fsB = crossnode.NewFrameStream(bt.cb, id)
	if b.Lk == "tcp" {
		c1, la, err := tcpPair()
		if err != nil {
			bt.close()
			return nil, err
		}
		bt.c1, bt.la = c1, la
		bt.conns = append(bt.conns, c1, la)
	} else {
		bt.local = &bidiLocal{bt: bt, grant: make(chan []byte, 1), closeCh: make(chan struct{})}
	}
	return bt, nil
}

func (bt *bidiTunnel) close() {
	for _, c := range bt.conns {
		c.Close()
	}
	if bt.local != nil {
		bt.local.once.Do(func() { close(bt.local.closeCh) })
	}
	bt.ca.Close()
	bt.cb.Close()
	bt.cancel()
}

func (bt *bidiTunnel) start() {
	bt.started = true
	cfg := &session.BidirectionalForwardConfig{TunnelID: bt.id, LogPrefix: "verif", RemoteConn: &bidiTap{bt: bt}}
	if bt.local != nil {
		cfg.LocalConn = bt.local
	} else {
		cfg.LocalConn = bt.la
	}
	if bt.r.b.Cnt == "on" {
		cfg.BytesSentCounter, cfg.BytesReceivedCounter = &atomic.Int64{}, &atomic.Int64{}
	}
	bt.readers.Add(1)
	go bt.readTo(bt.fsB, bt.dir[0])
	if bt.c1 != nil {
		bt.readers.Add(1)
		go bt.readTo(bt.c1, bt.dir[1])
	}
	go func() {
		runBidirectionalForward(cfg) // the real forwarding loop of package session
		close(bt.ret)
	}()
	bt.r.rec(fw.Event{"ev": "BS", "t": bt.t})
}

// waitFor waits until cond holds; every arrival at gate `auto` (a further Write of a chunk that
// is delivered in pieces) is released on the way.
func (bt *bidiTunnel) waitFor(cond func() bool, auto *bidiDir, arrival *bidiDir) bool {
	deadline := time.NewTimer(bidiStepWait)
	defer deadline.Stop()
	tick := time.NewTicker(2 * time.Millisecond)
	defer tick.Stop()
	var autoCh, arrCh chan struct{}
	if auto != nil {
		autoCh = auto.arrive
	}
	if arrival != nil {
		arrCh = arrival.arrive
	}
	for !cond() {
		select {
		case <-arrCh:
			return true
		case <-autoCh:
			auto.tok <- struct{}{}
		case <-bt.r.prog:
		case <-tick.C:
		case <-deadline.C:
			return cond()
		}
	}
	return true
}

func (bt *bidiTunnel) gatedSink(d int) bool { return d == 0 || bt.local != nil }

func (bt *bidiTunnel) nextChunk(d int) []byte {
	ds := bt.dir[d]
	n := bidiSizes[h64(bt.r.b.Salt, fmt.Sprint("sz", bt.t, d, ds.k))%uint64(len(bidiSizes))]
	p := make([]byte, n)
	bidiFill(p, ds.cls, ds.seed, ds.produced)
	bt.r.rec(fw.Event{"ev": "BR", "t": bt.t, "d": ds.name, "k": ds.k + 1, "n": n})
	ds.k++
	ds.produced += n
	return p
}

// produce hands the next chunk to the source of direction d (does not wait for the copy loop)
func (bt *bidiTunnel) produce(d int) bool {
	p := bt.nextChunk(d)
	if d == 1 {
		_, err := bt.fsB.Write(p) // the peer node writes to the cross-node stream
		return err == nil
	}
	if bt.local != nil {
		select {
		case bt.local.grant <- p:
			return true
		case <-time.After(bidiStepWait):
			return false
		}
	}
	bt.c1.SetWriteDeadline(time.Now().Add(bidiStepWait))
	_, err := bt.c1.Write(p)
	return err == nil
}

func (bt *bidiTunnel) end(d int) bool {
	ds := bt.dir[d]
	if ds.ended {
		return true
	}
	ds.ended = true
	if d == 1 {
		return bt.fsB.CloseWrite() == nil
	}
	if bt.local != nil {
		select {
		case bt.local.grant <- nil:
			return true
		case <-time.After(bidiStepWait):
			return false
		}
	}
	return bt.c1.CloseWrite() == nil
}

func (bt *bidiTunnel) delivered(d int) bool {
	return int(bt.dir[d].consumed.Load()) >= bt.dir[d].produced
}

// step executes one schedule step; false = the real code did not follow
func (bt *bidiTunnel) step(s bidiStep) bool {
	d := 0
	if s.D == "down" {
		d = 1
	}
	ds := bt.dir[d]
	switch s.A {
	case "R":
		if !bt.produce(d) {
			return false
		}
		if bt.gatedSink(d) {
			// the Read has returned when the loop's Write has arrived at the sink's gate
			return bt.waitFor(func() bool { return false }, nil, ds)
		}
		return bt.waitFor(func() bool { return bt.delivered(d) }, nil, nil)
	case "W":
		if !bt.gatedSink(d) {
			return true // the bare TCP endpoint's Write cannot be held: it completed with the R step
		}
		ds.tok <- struct{}{}
		return bt.waitFor(func() bool { return bt.delivered(d) }, ds, nil)
	case "E":
		if !bt.end(d) {
			return false
		}
		if d == 0 {
			return bt.waitFor(func() bool { return bt.dir[0].eof.Load() }, nil, nil)
		}
		return true
	}
	return false
}

func driveBidi(env *fw.Env, b *bidiBeh) *fw.Trace {
	r := &bidiRun{b: b, freeCh: make(chan struct{}), prog: make(chan struct{}, 1)}
	r.rnd.Store(uint64(b.Salt))
	tun := map[int]*bidiTunnel{}
	var order []*bidiTunnel
	for t := 1; t <= b.Nt; t++ {
		bt, err := newBidiTunnel(r, t)
		if err != nil {
			for _, x := range order {
				x.close()
			}
			return &fw.Trace{Status: fw.DriverError, Note: err.Error()}
		}
		tun[t] = bt
		order = append(order, bt)
	}
	r.rec(fw.Event{"ev": "Cfg", "kind": "bidi", "lk": b.Lk, "cnt": b.Cnt, "nt": b.Nt, "mode": b.Mode})
	status, note := fw.Realised, ""
	if b.Mode == "free" {
		r.free.Store(true)
		close(r.freeCh)
		var wg sync.WaitGroup
		var failed atomic.Bool
		for _, bt := range order {
			bt.start()
		}
		for _, bt := range order {
			for d := 0; d < 2; d++ {
				wg.Add(1)
				go func(bt *bidiTunnel, d int) {
					defer wg.Done()
					for i := 0; i < b.N; i++ {
						if !bt.produce(d) {
							failed.Store(true)
							return
						}
						if i%4 == 3 { // a pause now and then lets the other direction get ahead
							runtime.Gosched()
						}
					}
				}(bt, d)
			}
		}
		wg.Wait()
		if failed.Load() {
			status, note = fw.Diverged, "a source could not hand over its chunk"
		}
	} else {
		for i, s := range b.Steps {
			bt := tun[s.T]
			if bt == nil {
				return &fw.Trace{Status: fw.DriverError, Note: fmt.Sprintf("step %d: tunnel %d", i, s.T)}
			}
			if s.A == "S" {
				bt.start()
				continue
			}
			if !bt.started {
				return &fw.Trace{Status: fw.DriverError, Note: fmt.Sprintf("step %d before start", i)}
			}
			if !bt.step(s) {
				status, note = fw.Diverged, fmt.Sprintf("step %d (%s %d %s) did not complete", i, s.A, s.T, s.D)
				break
			}
		}
		r.free.Store(true)
		close(r.freeCh)
	}
	// everything runs free now: every source ends, everything produced must arrive, the forwarders return
	hung := map[int]bool{}
	for _, bt := range order {
		if !bt.started {
			continue
		}
		bt.end(0)
		bt.end(1)
	}
	for _, bt := range order {
		if !bt.started {
			continue
		}
		select {
		case <-bt.ret:
		case <-time.After(2 * hangAfter):
			hung[bt.t] = true
		}
		if !hung[bt.t] { // the closing frames are on their way: let the final sinks see end-of-stream
			bt.waitFor(func() bool { return bt.dir[0].eof.Load() && bt.dir[1].eof.Load() }, nil, nil)
		}
	}
	for _, bt := range order {
		bt.close()
		if bt.started {
			select { // no goroutine of this behaviour outlives it
			case <-bt.ret:
			case <-time.After(2 * time.Second):
			}
			bt.readers.Wait()
		}
	}
	for _, bt := range order {
		if !bt.started {
			continue
		}
		for d := 0; d < 2; d++ {
			ds := bt.dir[d]
			r.rec(fw.Event{"ev": "BD", "t": bt.t, "d": ds.name, "sent": ds.produced, "len": int(ds.consumed.Load()),
				"eq": !ds.bad.Load(), "eof": ds.eof.Load(), "hung": hung[bt.t]})
		}
	}
	r.mu.Lock()
	defer r.mu.Unlock()
	return &fw.Trace{Status: status, Note: note, Events: r.events}
}
