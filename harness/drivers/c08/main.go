// C08 driver: replays TLC-generated session histories (spec/ConnState.tla) on two or three REAL
// SessionManagers (srvkit assemblies, one per node) whose connstate.Store instances share ONE
// store, in the three wirings internal/app/server/storage.go builds (package wire: memory,
// redis, tiered).
//
// Events are the session layer's own: AcceptConnection, the two-phase control handshake
// (HandlePacket -> handleHandshake), the same handshake with a transport that dies at the write of
// the final response (AuthLost), heartbeat packets (handleHeartbeat) and the end of a connection by
// cause - read loop ended, Disconnect command, KickOldControlConnection, stale sweep after a
// heartbeat timeout - each ending in CloseConnection; the connstate calls are whatever the real
// SessionManager makes.  After every event the driver asks
// every node's connstate.Store.FindClientNode for every client and records the routing decision
// of SessionManager.SendCommandToClient; spec/ConnStateTrace.tla judges them.
package main

import (
	"context"
	"encoding/json"
	"errors"
	"fmt"
	"net"
	"sort"
	"strings"
	"sync"
	"time"

	"tunnox-core/internal/cloud/repos"
	"tunnox-core/internal/core/storage"
	"tunnox-core/internal/packet"
	"tunnox-core/internal/protocol/session"
	"tunnox-core/verifharness/drivers/c08/wire"
	"tunnox-core/verifharness/fw"
	"tunnox-core/verifharness/sched"
	"tunnox-core/verifharness/srvkit"
)

// gatedReads puts a scheduler gate in front of reads of connection records
// (tunnox:conn_state:<conn>).  Only goroutines the driver started through the scheduler park
// there - a two-step lookup (LkBegin .. LkEnd): FindClientNode has read the client index and
// waits before reading the record the index named; everything else passes straight through.
//
// It embeds the concrete *hybrid.Storage so that every optional interface the code may probe for
// (CASStore, ListStore, ...) is still visible through the wrapper exactly as on the real storage.
type gatedReads struct {
	*storage.HybridStorage
	s *sched.Sched
}

func (g *gatedReads) Get(key string) (any, error) {
	if strings.HasPrefix(key, "tunnox:conn_state:") {
		g.s.Gate("cs.GetRecord", map[string]any{"key": key})
		defer g.s.After()
	}
	return g.HybridStorage.Get(key)
}

func gate(st storage.Storage, s *sched.Sched) storage.Storage {
	h, ok := st.(*storage.HybridStorage)
	if !ok {
		panic(fmt.Sprintf("wiring storage is %T, expected *hybrid.Storage", st))
	}
	return &gatedReads{HybridStorage: h, s: s}
}

// Discrete clock of the model -> real time.  Registration lifetime = 2 ticks.
//
//	a record written in tick t must be readable during the whole of tick t+1:
//	  real age at any observation of tick t+1 <= (segment t) + tickSleep + (segment t+1)
//	  which must stay below regTTL; the driver discards the behaviour when two consecutive
//	  segments plus the sleep between them took more than spanBudget (100 ms short of regTTL,
//	  i.e. segments may use 100 ms where they normally need < 10 ms)
//	and is gone in tick t+2 (age >= 2*tickSleep = 600 ms > regTTL) - nothing the judge demands
//	depends on that side.
//
// miniredis keeps virtual time: every tick fast-forwards it by tickSleep as well (the explicit
// ExpiresAt check of connstate uses the wall clock on every backend, so the sleep is real).
const (
	regTTL     = 500 * time.Millisecond
	tickSleep  = 300 * time.Millisecond
	spanBudget = 400 * time.Millisecond
	lifeTicks  = 2
)

type step struct {
	A string `json:"a"`
	N string `json:"n"`
	C string `json:"c"`
	X string `json:"x"`
	W string `json:"w"` // cause of a Close: peer | cmd | sweep | kick
}

type behaviour struct {
	Be    string `json:"be"`
	Steps []step `json:"steps"`
}

// ---- cluster ----------------------------------------------------------------------------------

type cred struct {
	id     int64
	secret string
}

type cluster struct {
	nodes   []string
	srv     map[string]*srvkit.Server
	w       *wire.Wiring
	creds   map[string]cred // client name -> identity known to every node
	byID    map[int64]string
	conns   map[string]*srvkit.Conn // model connection name -> accepted connection
	connOf  map[string]string       // real connection id -> model name
	nodeOf  map[string]string       // real node id -> model node name
	peers   map[string]*peer
	sch     *sched.Sched
	lkProc  string // scheduler process of the two-step lookup in flight
	nLk     int
	cancel  context.CancelFunc
	closers []func()
}

func (cl *cluster) Close() {
	if cl.sch != nil {
		cl.sch.Drain(2 * time.Second)
	}
	for _, p := range cl.peers {
		p.ln.Close()
	}
	for _, s := range cl.srv {
		s.Close()
	}
	for _, f := range cl.closers {
		f()
	}
	cl.w.Close()
	cl.cancel()
}

// peer stands in for a node's CrossNodeListener: it accepts the connections another node's
// CrossNodePool dials, records the command frames it receives and answers each with a success
// response, so that SendCommandToClient's forwarding decision is observable.
type peer struct {
	node string
	ln   net.Listener
	mu   sync.Mutex
	got  []int64 // target client ids of received command frames
}

func (p *peer) serve() {
	for {
		c, err := p.ln.Accept()
		if err != nil {
			return
		}
		go func(c net.Conn) {
			defer c.Close()
			for {
				_, ft, data, err := session.ReadFrameFromReader(c)
				if err != nil {
					return
				}
				if ft != session.FrameTypeCommand {
					continue
				}
				var m session.CommandMessage
				if json.Unmarshal(data, &m) != nil {
					return
				}
				p.mu.Lock()
				p.got = append(p.got, m.TargetClientID)
				p.mu.Unlock()
				body, _ := json.Marshal(session.CommandResponseMessage{CommandID: m.CommandID, Success: true, CommandType: m.CommandType})
				var id [16]byte
				if session.WriteFrameToWriter(c, id, session.FrameTypeCommandResponse, body) != nil {
					return
				}
			}
		}(c)
	}
}

func (p *peer) take() []int64 {
	p.mu.Lock()
	defer p.mu.Unlock()
	g := p.got
	p.got = nil
	return g
}

func newCluster(be string, nodes, clients []string) (*cluster, error) {
	ctx, cancel := context.WithCancel(context.Background())
	w, err := wire.New(ctx, be, nodes)
	if err != nil {
		cancel()
		return nil, err
	}
	cl := &cluster{nodes: nodes, srv: map[string]*srvkit.Server{}, w: w, creds: map[string]cred{}, byID: map[int64]string{},
		conns: map[string]*srvkit.Conn{}, connOf: map[string]string{}, nodeOf: map[string]string{}, peers: map[string]*peer{}, cancel: cancel, sch: sched.New(false)}
	cl.sch.Watchdog = 2 * time.Second
	for _, n := range nodes {
		s, err := srvkit.NewServer(srvkit.Options{NodeID: "node-" + n, HeartbeatTimeout: time.Hour, CleanupInterval: time.Hour})
		if err != nil {
			cl.Close()
			return nil, err
		}
		cl.srv[n] = s
		cl.nodeOf["node-"+n] = n
	}
	// identities: issued by the first node (real first-connect handshake), then made known to the
	// other nodes' client-config repositories (in production all nodes read one repository)
	first := cl.srv[nodes[0]]
	for _, x := range clients {
		c, err := first.NewConn("10.9.9.9")
		if err != nil {
			cl.Close()
			return nil, err
		}
		id, secret, _, err := c.FirstConnect("control")
		if err != nil || id == 0 {
			cl.Close()
			return nil, fmt.Errorf("provisioning %s failed: %v", x, err)
		}
		c.Disconnect()
		if err := cl.shareIdentity(nodes[0], x, id, secret); err != nil {
			cl.Close()
			return nil, err
		}
	}
	// now hand every node the store under test: connstate.Store with a short lifetime over the
	// shared wiring, a CrossNodePool over the same storage, and the node addresses (peer listeners)
	for _, n := range nodes {
		ln, err := net.Listen("tcp", "127.0.0.1:0")
		if err != nil {
			cl.Close()
			return nil, err
		}
		p := &peer{node: n, ln: ln}
		cl.peers[n] = p
		go p.serve()
	}
	for _, n := range nodes {
		s := cl.srv[n]
		st := w.Stores[n]
		rt := session.NewTunnelRoutingTable(st, time.Hour)
		if err := rt.RegisterNodeAddress("node-"+n, cl.peers[n].ln.Addr().String()); err != nil {
			cl.Close()
			return nil, err
		}
		s.SM.SetConnectionStateStore(session.NewConnectionStateStore(gate(st, cl.sch), "node-"+n, regTTL))
		pc := session.DefaultCrossNodePoolConfig()
		pc.MinConns, pc.MaxConns, pc.DialTimeout = 0, 4, 2*time.Second
		pool := session.NewCrossNodePool(s.Ctx, st, "node-"+n, pc)
		s.SM.SetCrossNodePool(pool)
		cl.closers = append(cl.closers, func() { pool.Close() })
	}
	return cl, nil
}

// closeBy closes connection c of node n the way the given cause does in the server; every path
// ends with the read loop over and SessionManager.CloseConnection done (srvkit Reap/Disconnect).
// Returns a reason when the cause is not applicable to the connection as the server holds it.
func (cl *cluster) closeBy(n string, c *srvkit.Conn, x, why string) string {
	s := cl.srv[n]
	switch why {
	case "", "-", "peer":
		// the peer closed the socket (or the server had closed it and the read loop now ends):
		// adapter cleanupConnection -> CloseConnection
		c.Disconnect()
	case "cmd":
		// the client announces its departure: JsonCommand Disconnect -> handleDisconnectCommand ->
		// CloseConnection; then the socket goes away
		if c.Closed() {
			return "disconnect command on a closed transport"
		}
		if _, _, err := c.Send(&packet.TransferPacket{PacketType: packet.JsonCommand, CommandPacket: &packet.CommandPacket{CommandType: packet.Disconnect, CommandId: "bye", CommandBody: "{}"}}); err != nil {
			return "disconnect command: " + err.Error()
		}
		c.Disconnect() // the socket goes away, the read loop ends
	case "kick":
		// KickOldControlConnection(client, "") removes the registry entry and closes the stream;
		// the read loop ends -> CloseConnection
		if cc := s.SM.GetControlConnectionByClientID(cl.creds[x].id); cc == nil || cc.ConnID != c.ID {
			return "kick: the registry does not hold this connection for the client"
		}
		s.Kick(cl.creds[x].id, "")
		c.Disconnect() // the read loop ends on the closed stream: cleanupConnection -> CloseConnection
	case "sweep":
		// the client went silent: its last activity is an hour old, everybody else's is recent, and
		// the stale sweep runs (ClientRegistry.CleanupStale with the callback cleanupStaleConnections
		// passes: entry removed FIRST, then SessionManager.CloseConnection, then the stream is closed)
		cc := s.SM.GetClientRegistry().GetByConnID(c.ID)
		if cc == nil {
			return "sweep: connection is not in the control registry"
		}
		cc.LastActiveAt = time.Now().Add(-time.Hour)
		swept := s.SM.GetClientRegistry().CleanupStale(30*time.Minute, func(connID string, clientID int64, authenticated bool) error {
			return s.SM.CloseConnection(connID)
		})
		if swept != 1 {
			return fmt.Sprintf("sweep removed %d connections", swept)
		}
		c.Disconnect() // the read loop ends on the closed stream (CloseConnection a second time is a no-op)
	default:
		return "unknown close cause " + why
	}
	return ""
}

// shareIdentity makes the identity that node `from` issued to client x known to every other node's
// client-config repository and to the driver.
func (cl *cluster) shareIdentity(from, x string, id int64, secret string) error {
	cfg, err := repos.NewClientConfigRepository(cl.srv[from].Repo).GetConfig(id)
	if err != nil {
		return fmt.Errorf("provisioning %s: %v", x, err)
	}
	for _, n := range cl.nodes {
		if n == from {
			continue
		}
		cp := *cfg
		enc, err := cl.srv[n].Keys.Encrypt(secret)
		if err != nil {
			return err
		}
		cp.SecretKeyEncrypted = enc
		if err := repos.NewClientConfigRepository(cl.srv[n].Repo).CreateConfig(&cp); err != nil {
			return fmt.Errorf("provisioning %s on %s: %v", x, n, err)
		}
	}
	cl.creds[x] = cred{id, secret}
	cl.byID[id] = x
	return nil
}

func (cl *cluster) observe() fw.Event {
	ctx := context.Background()
	var clients []string
	for x := range cl.creds {
		clients = append(clients, x)
	}
	sort.Strings(clients)
	finds := []any{}
	routes := []any{}
	for _, n := range cl.nodes {
		s := cl.srv[n]
		for _, x := range clients {
			id := cl.creds[x].id
			node, conn, err := s.SM.GetConnectionStateStore().FindClientNode(ctx, id)
			f := map[string]any{"from": n, "x": x, "node": "-", "conn": "-"}
			switch {
			case err == nil:
				f["r"] = "found"
				if m, ok := cl.nodeOf[node]; ok {
					f["node"] = m
				} else {
					f["node"] = "?" + node
				}
				if m, ok := cl.connOf[conn]; ok {
					f["conn"] = m
				} else {
					f["conn"] = "?" + conn
				}
			case errors.Is(err, session.ErrConnectionNotFound):
				f["r"] = "notfound"
			case errors.Is(err, session.ErrConnectionExpired):
				f["r"] = "expired"
			case strings.Contains(err.Error(), "unexpected value type"):
				f["r"] = "error"
				f["err"] = "type"
			default:
				f["r"] = "error"
				f["err"] = err.Error()
			}
			finds = append(finds, f)
			routes = append(routes, cl.route(n, x))
		}
	}
	return fw.Event{"ev": "Obs", "finds": finds, "routes": routes}
}

// route records what SendCommandToClient(x) does on node n: deliver locally, forward to a node,
// or refuse.
func (cl *cluster) route(n, x string) map[string]any {
	s := cl.srv[n]
	id := cl.creds[x].id
	r := map[string]any{"from": n, "x": x, "node": "-"}
	for _, p := range cl.peers {
		p.take()
	}
	local := s.SM.GetControlConnectionByClientID(id)
	if local != nil && local.Stream != nil {
		// the local branch writes the command to that connection and waits for the client's
		// answer; the decision itself is the registry lookup above - do not wait for a timeout
		r["r"] = "local"
		if m, ok := cl.connOf[local.ConnID]; ok {
			r["conn"] = m
		}
		return r
	}
	ctx, cancel := context.WithTimeout(context.Background(), 2*time.Second)
	defer cancel()
	cmd := &packet.CommandPacket{CommandType: packet.ConfigGet, CommandId: fmt.Sprintf("verif-%s-%s-%d", n, x, time.Now().UnixNano()), CommandBody: "{}"}
	_, err := s.SM.SendCommandToClient(ctx, id, cmd, 2*time.Second)
	var hit []string
	for m, p := range cl.peers {
		for _, got := range p.take() {
			if got == id {
				hit = append(hit, m)
			}
		}
	}
	sort.Strings(hit)
	switch {
	case len(hit) == 1:
		// the command frame reached that node: the decision is made whatever became of the answer
		r["r"], r["node"] = "forward", hit[0]
	case len(hit) == 0 && err != nil && (strings.Contains(err.Error(), "not connected") || strings.Contains(err.Error(), "state inconsistent")):
		r["r"] = "none" // refused: the lookup found nobody (or only this node itself)
		r["err"] = short(err.Error())
	case len(hit) == 0 && err != nil:
		r["r"] = "neterr" // dialling / talking to the peer listener failed: environment, not a decision
		r["err"] = short(err.Error())
	default:
		r["r"] = "odd"
		r["err"] = fmt.Sprintf("hit=%v err=%v", hit, err)
	}
	return r
}

func short(s string) string {
	if len(s) > 120 {
		return s[:120]
	}
	return s
}

func names(steps []step) (nodes, clients []string) {
	ns, xs := map[string]bool{"A": true, "B": true}, map[string]bool{}
	for _, s := range steps {
		if s.N != "-" && s.N != "" {
			ns[s.N] = true
		}
		if s.X != "-" && s.X != "" {
			xs[s.X] = true
		}
	}
	for n := range ns {
		nodes = append(nodes, n)
	}
	for x := range xs {
		clients = append(clients, x)
	}
	if len(clients) == 0 {
		clients = []string{"X"}
	}
	sort.Strings(nodes)
	sort.Strings(clients)
	return
}

func drive(env *fw.Env, b fw.Behaviour) *fw.Trace {
	var beh behaviour
	if err := json.Unmarshal(b.Data, &beh); err != nil {
		return &fw.Trace{Status: fw.DriverError, Note: err.Error()}
	}
	nodes, clients := names(beh.Steps)
	// clients whose identity is issued by a first-connection handshake of the behaviour are not provisioned
	var known []string
	for _, x := range clients {
		issued := false
		for _, s := range beh.Steps {
			issued = issued || (s.A == "Auth" && s.X == x && s.W == "new")
		}
		if !issued {
			known = append(known, x)
		}
	}
	cl, err := newCluster(beh.Be, nodes, known)
	if err != nil {
		return &fw.Trace{Status: fw.DriverError, Note: "cluster: " + err.Error()}
	}
	defer cl.Close()
	t := &fw.Trace{Status: fw.Realised}
	t.Events = append(t.Events, fw.Event{"ev": "Cfg", "be": beh.Be, "ttl": lifeTicks})
	segStart := time.Now() // start of the previous segment (two consecutive segments share a budget)
	curStart := segStart
	for i, s := range beh.Steps {
		ev := fw.Event{"ev": s.A, "n": s.N, "c": s.C, "x": s.X}
		switch s.A {
		case "Tick":
			time.Sleep(tickSleep)
			cl.w.Advance(tickSleep)
			segStart, curStart = curStart, time.Now()
			ev = fw.Event{"ev": "Tick"}
		case "Connect":
			c, err := cl.srv[s.N].NewConn("10.0.0." + fmt.Sprint(10+i))
			if err != nil {
				return &fw.Trace{Status: fw.DriverError, Note: "accept: " + err.Error()}
			}
			cl.conns[s.C] = c
			cl.connOf[c.ID] = s.C
		case "Auth":
			c := cl.conns[s.C]
			if c == nil || c.Closed() {
				return &fw.Trace{Status: fw.Unrealisable, Note: "handshake on a connection the server closed"}
			}
			open := map[string]bool{}
			for m, k := range cl.conns {
				open[m] = !k.Closed()
			}
			if s.W == "new" {
				// first-connection handshake: the request names no client, ServerAuthHandler allocates the
				// identity and binds it to the connection.  The other nodes learn the identity afterwards
				// (in production all nodes read one client-config repository).
				if _, known := cl.creds[s.X]; known {
					return &fw.Trace{Status: fw.DriverError, Note: "first-connection handshake of a client that already has an identity"}
				}
				id, secret, _, err := c.FirstConnect("control")
				if err != nil || id == 0 {
					return &fw.Trace{Status: fw.DriverError, Note: fmt.Sprintf("step %d: first-connection handshake on %s refused (id=%d err=%v)", i, s.C, id, err)}
				}
				if err := cl.shareIdentity(s.N, s.X, id, secret); err != nil {
					return &fw.Trace{Status: fw.DriverError, Note: err.Error()}
				}
				ev["w"] = "new"
			} else {
				ok, err := c.Login(cl.creds[s.X].id, cl.creds[s.X].secret, "control")
				if err != nil || !ok {
					return &fw.Trace{Status: fw.DriverError, Note: fmt.Sprintf("step %d: handshake of %s on %s refused (ok=%v err=%v)", i, s.X, s.C, ok, err)}
				}
			}
			evicted := []any{}
			for m, k := range cl.conns {
				if open[m] && k.Closed() {
					evicted = append(evicted, m)
				}
			}
			ev["evicted"] = evicted
		case "AuthLost":
			// the credential check passes but the response cannot be delivered: the peer is gone.
			// Phase 1 (challenge) is answered normally; the transport dies at the first byte the
			// server tries to write in answer to phase 2.
			c := cl.conns[s.C]
			if c == nil || c.Closed() {
				return &fw.Trace{Status: fw.Unrealisable, Note: "handshake on a connection the server closed"}
			}
			cr := cl.creds[s.X]
			ch, _, err := c.Phase1(cr.id, "control")
			if err != nil || ch == "" {
				return &fw.Trace{Status: fw.DriverError, Note: fmt.Sprintf("step %d: no challenge for %s on %s (err=%v)", i, s.X, s.C, err)}
			}
			c.T.BeforeNextWrite(func() { c.T.Close() })
			body, _ := json.Marshal(&packet.HandshakeRequest{ClientID: cr.id, Version: "3.0", Protocol: "tcp", ConnectionType: "control",
				ChallengeResponse: srvkit.HMAC(cr.secret, ch)})
			out, herr, err := c.Send(&packet.TransferPacket{PacketType: packet.Handshake, Payload: body})
			if err != nil {
				return &fw.Trace{Status: fw.DriverError, Note: "AuthLost: " + err.Error()}
			}
			if herr == nil || len(out) != 0 || !c.Closed() {
				return &fw.Trace{Status: fw.DriverError, Note: fmt.Sprintf("step %d: the response write did not fail (herr=%v, %d packets written)", i, herr, len(out))}
			}
		case "LkBegin":
			// FindClientNode on node s.N as a scheduled process: it reads the client index and parks
			// in front of the read of the record the index named
			if cl.lkProc != "" {
				return &fw.Trace{Status: fw.DriverError, Note: "two lookups in flight"}
			}
			cl.nLk++
			name := fmt.Sprintf("lk%d", cl.nLk)
			store, id := cl.srv[s.N].SM.GetConnectionStateStore(), cl.creds[s.X].id
			st := cl.sch.Start(name, func() any {
				node, conn, err := store.FindClientNode(context.Background(), id)
				if err != nil {
					return "err:" + short(err.Error())
				}
				return node + "/" + conn
			})
			if st != sched.Parked {
				return &fw.Trace{Status: fw.Unrealisable, Note: "the lookup did not reach its second read (" + st + ": " + fmt.Sprint(cl.sch.Result(name)) + ")"}
			}
			cl.lkProc = name
			ev = fw.Event{"ev": "LkBegin", "m": s.N, "x": s.X}
		case "LkEnd":
			if cl.lkProc == "" {
				return &fw.Trace{Status: fw.DriverError, Note: "no lookup in flight"}
			}
			if st, _ := cl.sch.Step(cl.lkProc); st != sched.Done {
				return &fw.Trace{Status: fw.DriverError, Note: "the parked lookup did not finish: " + st}
			}
			ev = fw.Event{"ev": "LkEnd", "m": s.N, "x": s.X, "res": fmt.Sprint(cl.sch.Result(cl.lkProc))}
			cl.lkProc = ""
		case "HB":
			c := cl.conns[s.C]
			if c == nil || c.Closed() {
				return &fw.Trace{Status: fw.Unrealisable, Note: "heartbeat on a connection the server closed"}
			}
			if err := c.Heartbeat(); err != nil {
				return &fw.Trace{Status: fw.DriverError, Note: "heartbeat: " + err.Error()}
			}
		case "Close", "Late":
			c := cl.conns[s.C]
			if c == nil {
				return &fw.Trace{Status: fw.DriverError, Note: "close of unknown connection " + s.C}
			}
			if why := cl.closeBy(s.N, c, s.X, s.W); why != "" {
				return &fw.Trace{Status: fw.Unrealisable, Note: why}
			}
			if _, still := cl.srv[s.N].SM.GetConnection(c.ID); still || !c.Closed() {
				return &fw.Trace{Status: fw.DriverError, Note: fmt.Sprintf("step %d: connection %s survived close by %s", i, s.C, s.W)}
			}
			ev["ev"], ev["why"] = "Close", s.W
		default:
			return &fw.Trace{Status: fw.DriverError, Note: "unknown step " + s.A}
		}
		t.Events = append(t.Events, ev)
		obs := cl.observe()
		for _, r := range obs["routes"].([]any) {
			if m := r.(map[string]any); m["r"] == "neterr" || m["r"] == "odd" {
				return &fw.Trace{Status: fw.Inconclusive, Note: fmt.Sprintf("peer listener trouble while observing the routing decision: %v", m["err"])}
			}
		}
		t.Events = append(t.Events, obs)
		if time.Since(segStart) > spanBudget {
			return &fw.Trace{Status: fw.Inconclusive, Note: fmt.Sprintf("two segments and a tick took %v (> %v)", time.Since(segStart).Round(time.Millisecond), spanBudget)}
		}
	}
	return t
}

// ---- generation plumbing --------------------------------------------------------------------

var seenBeh = map[string]bool{}
var expandK int

var allFixes = `{"ptrShape", "condIdxDelete", "hbRefresh", "successOnly"}`
var firstThree = `{"ptrShape", "condIdxDelete", "hbRefresh"}` // repaired by patches C08-1..3

// exhaustive design check: every behaviour first fixes the backend shape (ptr/str/map) and the
// set of repairs, so one TLC run covers the as-is, the partly and the fully repaired code
func mcJob(name, nodes string, nconns int, clients, shapes, fixsets string) fw.TLCJob {
	return fw.TLCJob{Name: name, Module: "ConnState", Cfg: "ConnState_mc.cfg", Workers: 8, Timeout: 14 * time.Minute, Consts: map[string]string{
		"NODES": nodes, "NCONNS": fmt.Sprint(nconns), "CLIENTS": clients, "SHAPES": shapes, "FIXSETS": fixsets,
		"LOOKUPS": "FALSE", "WLOOKUP": "FALSE", "KEEPCA": "FALSE", "USEREQ": "FALSE", "INVS": "Repaired LookupPure"}}
}

// altJob checks one of the other designs (KEEPCA: expiry derived from the first registration,
// USEREQ: record filled from the request's client id): FindLive fails there only through its deviation
func altJob(name, which string) fw.TLCJob {
	j := mcJob(name, two, 2, `{"X"}`, `{"str"}`, "{"+allFixes+"}")
	j.Consts[which], j.Consts["INVS"] = "TRUE", ""
	return j
}

func genJob(name, nodes string, nconns int, clients string, maxClock, maxHist int, shapes, fixes, only string) fw.TLCJob {
	lookups := "FALSE"
	if only == "lookup" {
		lookups = "TRUE"
	}
	return fw.TLCJob{Name: name, Module: "ConnState", Cfg: "ConnState_gen.cfg", Workers: 1, Consts: map[string]string{
		"NODES": nodes, "NCONNS": fmt.Sprint(nconns), "CLIENTS": clients, "MAXCLOCK": fmt.Sprint(maxClock), "MAXHIST": fmt.Sprint(maxHist),
		"SHAPES": shapes, "FIXES": fixes, "ONLY": only, "LOOKUPS": lookups}}
}

// two-step lookups: read-only as-is (LookupPure), and the writing-lookup design whose only route to
// a violation is the deviation "lookupErased"
func lkJob(name, nodes string, nconns int, fixsets string, writing bool) fw.TLCJob {
	j := mcJob(name, nodes, nconns, `{"X"}`, `{"str"}`, fixsets)
	j.Consts["LOOKUPS"], j.Consts["WLOOKUP"], j.Consts["INVS"] = "TRUE", "FALSE", "Repaired LookupPure"
	if writing {
		j.Consts["WLOOKUP"], j.Consts["INVS"] = "TRUE", ""
	}
	return j
}

const (
	two   = `{"A", "B"}`
	three = `{"A", "B", "C"}`
)

var (
	// no repair, every single repair, the three of C08-1..3, all four
	someSubsets = `{{}, {"ptrShape"}, {"condIdxDelete"}, {"hbRefresh"}, {"successOnly"}, ` + firstThree + ", " + allFixes + "}"
)

func main() {
	fw.Main(&fw.Property{
		ID:        "C08",
		DesignRef: "DESIGN.md §5 C08",
		ModelJobs: func(env *fw.Env) []fw.TLCJob {
			if env.Tier == "thorough" {
				both := "{" + firstThree + ", " + allFixes + "}"
				return []fw.TLCJob{
					mcJob("mc:1x3:str:fix-subsets", two, 3, `{"X"}`, `{"str"}`, someSubsets),
					mcJob("mc:1x3:ptr+map", two, 3, `{"X"}`, `{"ptr", "map"}`, `{{}, {"ptrShape"}, `+firstThree+", "+allFixes+"}"),
					mcJob("mc:2x3", two, 3, `{"X", "Y"}`, `{"str"}`, both),
					mcJob("mc:3nodes:1x3", three, 3, `{"X"}`, `{"str"}`, both),
					mcJob("mc:1x4", two, 4, `{"X"}`, `{"str"}`, "{"+allFixes+"}"),
					lkJob("mc:lookup:1x3", two, 3, both, false),
					lkJob("mc:lookup:3nodes:1x2", three, 2, both, false),
					lkJob("mc:writing-lookup:1x3", two, 3, "{"+allFixes+"}", true),
					lkJob("mc:writing-lookup:1x2", two, 2, "{"+allFixes+"}", true),
					altJob("mc:keep-created-at:1x2", "KEEPCA"),
					altJob("mc:request-id:1x2", "USEREQ"),
				}
			}
			// quick: the string shape with the three repairs of C08-1..3 and with all four (the code
			// without any repair, the pointer and map shapes: thorough; their routes to a violation
			// are also driven from gen:dev)
			return []fw.TLCJob{
				mcJob("mc:1x3", two, 3, `{"X"}`, `{"str"}`, "{"+allFixes+"}"), // the tree as it is now (C08-1..4 applied); other fix sets: thorough
				lkJob("mc:lookup:1x2", two, 2, "{"+allFixes+"}", false),
				// the alternative designs (writing lookup, expiry from first registration, record from
				// the request id) are checked in the thorough tier
			}
		},
		// Histories are generated from the as-is model: event enabledness does not depend on the
		// store, and the as-is state graph distinguishes more states (deviation flags), so its
		// transition cover contains the repaired model's.
		GenJobs: func(env *fw.Env) []fw.TLCJob {
			// gen:lost / gen:close are targeted covers (from the repaired model, whose store keeps a
			// heart-beating client findable): every behaviour of gen:lost contains a handshake whose
			// response is undeliverable while the client is connected elsewhere, every behaviour of
			// gen:close ends with a close by command / kick / stale sweep of the client's last
			// connection while the lookup still found it.
			if env.Tier == "thorough" {
				return []fw.TLCJob{
					genJob("gen:first", three, 3, `{"X"}`, 2, 8, `{"str"}`, allFixes, "first"),
					genJob("gen:dev", two, 3, `{"X", "Y"}`, 3, 8, `{"str", "ptr"}`, "{}", "dev"),
					genJob("gen:lost", two, 3, `{"X", "Y"}`, 3, 8, `{"str"}`, allFixes, "lost"),
					genJob("gen:close", two, 3, `{"X", "Y"}`, 3, 8, `{"str"}`, allFixes, "close"),
					genJob("gen:lookup", three, 3, `{"X"}`, 2, 9, `{"str"}`, allFixes, "lookup"),
					genJob("gen:reauth", two, 3, `{"X", "Y"}`, 3, 8, `{"str"}`, allFixes, "reauth"),
					genJob("gen:long", two, 3, `{"X"}`, 3, 9, `{"str"}`, allFixes, "long"),
					genJob("gen:longre", two, 3, `{"X"}`, 3, 9, `{"str"}`, allFixes, "longre"),
					genJob("gen:asis", two, 3, `{"X", "Y"}`, 3, 7, `{"str"}`, "{}", "all"),
					genJob("gen:asis-ptr", two, 3, `{"X"}`, 3, 8, `{"ptr"}`, "{}", "all"),
					genJob("gen:3nodes", three, 3, `{"X"}`, 3, 7, `{"str"}`, "{}", "all"),
				}
			}
			// quick: the targeted covers share TLC runs where the sample cannot starve either part
			// (lost+close, long+longre); the two-client cover is left to the thorough tier
			return []fw.TLCJob{
				genJob("gen:dev", two, 3, `{"X"}`, 3, 6, `{"str", "ptr"}`, "{}", "dev"),
				genJob("gen:lost+close", two, 3, `{"X"}`, 3, 7, `{"str"}`, allFixes, "lostclose"),
				genJob("gen:lookup", two, 2, `{"X"}`, 2, 8, `{"str"}`, allFixes, "lookup"),
				genJob("gen:re+long", two, 3, `{"X"}`, 3, 7, `{"str"}`, allFixes, "relong"),
				genJob("gen:asis", two, 3, `{"X"}`, 3, 7, `{"str"}`, "{}", "all"),
			}
		},
		MaxBehSrc: func(env *fw.Env, src string) int {
			// counts are per generation job AFTER expansion to the three wirings
			if env.Tier == "thorough" {
				return 420
			}
			switch src {
			case "gen:asis":
				return 30
			case "gen:lost+close":
				return 60
			case "gen:re+long":
				return 84
			}
			return 36
		},
		Expand: func(env *fw.Env, src string, raw json.RawMessage) []json.RawMessage {
			var steps []step
			if err := json.Unmarshal(raw, &steps); err != nil {
				panic(err)
			}
			key := string(fw.MustJSON(steps)) // TLC prints record fields in varying order
			if seenBeh[key] {
				return nil
			}
			seenBeh[key] = true
			// A client's first successful handshake may equally be a first-connection handshake
			// (AuthOK(n,c,x,"new"): same store effect in the model, enabled whenever x was never seen):
			// every second behaviour takes that variant for each client that allows it.
			if expandK++; expandK%2 == 0 {
				seen := map[string]bool{}
				for i, st := range steps {
					if (st.A == "Auth" || st.A == "AuthLost") && !seen[st.X] {
						seen[st.X] = true
						if st.A == "Auth" {
							steps[i].W = "new"
						}
					}
				}
			}
			// a behaviour without a successful handshake never touches the registry
			auth := false
			for _, s := range steps {
				auth = auth || s.A == "Auth"
			}
			if !auth {
				return nil
			}
			var out []json.RawMessage
			for _, be := range wire.Names {
				out = append(out, fw.MustJSON(behaviour{Be: be, Steps: steps}))
			}
			return out
		},
		SelfTest:    selfTest,
		Drive:       drive,
		Parallel:    24,
		JudgeModule: "ConnStateTrace",
		JudgeCfg:    "ConnStateTrace.cfg",
		NonTrivial: func(t *fw.Trace) bool {
			n := 0
			for _, e := range t.Events {
				if e["ev"] != "Obs" && e["ev"] != "Cfg" {
					n++
				}
			}
			return n >= 3
		},
		Rule: "one behaviour per transition (state, session event incl. undeliverable handshakes and closes by cause peer/cmd/sweep/kick) of the bounded ConnState state graph (shortest history to the state + the event), plus targeted covers: every model-predicted route to a deviation (gen:dev), undeliverable handshakes while connected elsewhere (gen:lost), closes of the last connection by command/kick/sweep (gen:close), two-step lookups overtaken by a handshake elsewhere / a cleanup and followed by a heartbeat (gen:lookup), successful re-handshakes on an authenticated connection that the store no longer names (gen:reauth), sessions (gen:long) and re-handshakes (gen:longre) on a connection older than one registration lifetime, first-connection handshakes with a server-allocated identity (gen:first); each replayed on the memory, Redis and tiered wirings; non-trivial = at least 3 session events",
		Assumptions: []string{
			"nodes are SessionManager assemblies in one process sharing a store (srvkit); client identities are provisioned on every node's config repository",
			"registration lifetime 500 ms = 2 model ticks of 300 ms; behaviours whose steps overran the margin are discarded as inconclusive",
			"miniredis stands in for Redis; its virtual clock is advanced together with the real sleep",
			"a two-step lookup is FindClientNode run as a scheduler process whose read of the connection record is parked at a gate in front of the node's storage (harness/sched); nothing is demanded of its own answer",
			"a peer listener per node stands in for CrossNodeListener to make the forwarding decision of SendCommandToClient observable",
			"an undeliverable handshake response is a transport that dies at the server's first write after the challenge phase; a heartbeat timeout is the victim's LastActiveAt moved one hour back followed by ClientRegistry.CleanupStale with the sweep's CloseConnection callback; every close cause ends with the read loop over (CloseConnection)",
		},
		TrustedBase: []string{"TLC", "spec/ConnStateTrace.tla as the reading of the statement", "srvkit (server assembly with fake transports)", "miniredis"},
	})
}

func selfTest(env *fw.Env, acc []*fw.Trace) []*fw.Trace {
	// (1) right after a successful handshake the client is connected: turn that observation's
	// "found" into "notfound" / into another node; (2) after the last Close turn "notfound" into a
	// stale "found".  The judge must reject each corrupted copy.
	var out []*fw.Trace
	id := 1 << 24
	for _, t := range acc {
		if len(out) >= 40 {
			break
		}
		idx, kind := -1, ""
		for i, e := range t.Events {
			if e["ev"] == "Auth" && i+1 < len(t.Events) {
				obs := t.Events[i+1]
				for _, f := range obs["finds"].([]any) {
					m := f.(map[string]any)
					if m["x"] == e["x"] && m["r"] == "found" {
						idx, kind = i+1, "drop:"+e["x"].(string)
					}
				}
			}
		}
		if idx < 0 {
			continue
		}
		c := &fw.Trace{Status: fw.Realised, Beh: t.Beh}
		id++
		c.Beh.ID = id
		x := strings.TrimPrefix(kind, "drop:")
		for i, e := range t.Events {
			if i != idx {
				c.Events = append(c.Events, e)
				continue
			}
			ne := fw.Event{"ev": "Obs", "routes": e["routes"]}
			var fs []any
			for j, f := range e["finds"].([]any) {
				m := f.(map[string]any)
				if m["x"] == x {
					if (id+j)%2 == 0 {
						m = map[string]any{"from": m["from"], "x": x, "r": "notfound", "node": "-", "conn": "-"}
					} else {
						m = map[string]any{"from": m["from"], "x": x, "r": "found", "node": "Z", "conn": m["conn"]}
					}
				}
				fs = append(fs, m)
			}
			ne["finds"] = fs
			c.Events = append(c.Events, ne)
		}
		out = append(out, c)
	}
	// (2) stale hit after the close of the client's only authenticated connection
	stale := 0
	for _, t := range acc {
		if stale >= 20 {
			break
		}
		authed := map[string]map[string]bool{} // client -> connections it authenticated on
		closed := map[string]bool{}
		idx, who, where, conn := -1, "", "", ""
		for i, e := range t.Events {
			switch e["ev"] {
			case "Auth":
				x := e["x"].(string)
				if authed[x] == nil {
					authed[x] = map[string]bool{}
				}
				authed[x][e["c"].(string)] = true
				for _, v := range e["evicted"].([]any) {
					closed[v.(string)] = true
				}
			case "Close":
				closed[e["c"].(string)] = true
				x, _ := e["x"].(string)
				all := len(authed[x]) > 0 && authed[x][e["c"].(string)]
				for c := range authed[x] {
					all = all && closed[c]
				}
				if all && i+1 < len(t.Events) && t.Events[i+1]["ev"] == "Obs" {
					idx, who, where, conn = i+1, x, e["n"].(string), e["c"].(string)
				}
			}
		}
		if idx < 0 {
			continue
		}
		c := &fw.Trace{Status: fw.Realised, Beh: t.Beh}
		id++
		c.Beh.ID = id
		for i, e := range t.Events {
			if i != idx {
				c.Events = append(c.Events, e)
				continue
			}
			ne := fw.Event{"ev": "Obs", "routes": e["routes"]}
			var fs []any
			for _, f := range e["finds"].([]any) {
				m := f.(map[string]any)
				if m["x"] == who {
					m = map[string]any{"from": m["from"], "x": who, "r": "found", "node": where, "conn": conn}
				}
				fs = append(fs, m)
			}
			ne["finds"] = fs
			c.Events = append(c.Events, ne)
		}
		out = append(out, c)
		stale++
	}
	return out
}
