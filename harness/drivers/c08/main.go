// C08 driver: replays TLC-generated session histories (spec/ConnState.tla) on two or three REAL
// SessionManagers (srvkit assemblies, one per node), each holding the storage its wiring gives it
// over ONE shared store, in the three wirings internal/app/server/storage.go builds (package wire:
// memory, redis, tiered).  Client configs, the cloud-control client runtime state and the id
// generators are shared as in a deployment.
//
// Events are the session layer's own: AcceptConnection, the two-phase control handshake
// (HandlePacket -> handleHandshake), the same handshake with a transport that dies at the write of
// the final response (AuthLost), heartbeat packets (handleHeartbeat) and the end of a connection by
// cause - read loop ended, Disconnect command, KickOldControlConnection, the server's own stale
// sweep after a heartbeat timeout - each ending in CloseConnection; the connstate calls are whatever
// the real SessionManager makes.  A heartbeat, a close or a handshake can also be driven with its
// connstate operation IN FLIGHT (OpBegin / OpStep): the event runs as a scheduler process that parks
// in front of every storage call on the registry's keys, and other events run in between.
// After every event the driver asks every node's connstate.Store.FindClientNode for every client,
// records the routing decision of SessionManager.SendCommandToClient and of
// SessionManager.SendHTTPProxyRequest, and reads the client runtime state through every node's
// ClientStateRepository / GetClientNodeID; spec/ConnStateTrace.tla judges them.
package main

import (
	"context"
	"crypto/rand"
	"encoding/base64"
	"encoding/json"
	"errors"
	"fmt"
	"net"
	"sort"
	"strings"
	"sync"
	"time"

	"tunnox-core/internal/cloud/repos"
	"tunnox-core/internal/core/storage"
	"tunnox-core/internal/packet"
	"tunnox-core/internal/protocol/httptypes"
	"tunnox-core/internal/protocol/session"
	"tunnox-core/verifharness/drivers/c08/wire"
	"tunnox-core/verifharness/fw"
	"tunnox-core/verifharness/sched"
	"tunnox-core/verifharness/srvkit"
)

// gatedStore puts a scheduler gate in front of every keyed storage call on the location registry's
// keys (tunnox:conn_state:<conn>, tunnox:client_conn:<client>).  Only goroutines the driver started
// through the scheduler park there: a two-step lookup (LkBegin .. LkEnd: FindClientNode has read the
// client index and waits before reading the record the index named) and a store operation in flight
// (OpBegin .. OpStep*: a heartbeat's RefreshConnection, a close's UnregisterConnection, a handshake's
// RegisterConnection, one storage call per OpStep); everything else passes straight through.
//
// It embeds the concrete *hybrid.Storage so that every optional interface the code may probe for
// (CASStore, ListStore, ...) is still visible through the wrapper exactly as on the real storage.
type gatedStore struct {
	*storage.HybridStorage
	s *sched.Sched
}

const (
	recPrefix = "tunnox:conn_state:"
	idxPrefix = "tunnox:client_conn:"
)

func (g *gatedStore) gate(op, key string) func() {
	if strings.HasPrefix(key, recPrefix) || strings.HasPrefix(key, idxPrefix) {
		g.s.Gate("cs."+op, map[string]any{"key": key})
		return g.s.After
	}
	return func() {}
}

func (g *gatedStore) Get(key string) (any, error) {
	defer g.gate("Get", key)()
	return g.HybridStorage.Get(key)
}

func (g *gatedStore) Set(key string, value any, ttl time.Duration) error {
	defer g.gate("Set", key)()
	return g.HybridStorage.Set(key, value, ttl)
}

func (g *gatedStore) Delete(key string) error {
	defer g.gate("Delete", key)()
	return g.HybridStorage.Delete(key)
}

func (g *gatedStore) Exists(key string) (bool, error) {
	defer g.gate("Exists", key)()
	return g.HybridStorage.Exists(key)
}

func (g *gatedStore) SetExpiration(key string, ttl time.Duration) error {
	defer g.gate("SetExpiration", key)()
	return g.HybridStorage.SetExpiration(key, ttl)
}

func (g *gatedStore) SetNX(key string, value any, ttl time.Duration) (bool, error) {
	defer g.gate("SetNX", key)()
	return g.HybridStorage.SetNX(key, value, ttl)
}

func (g *gatedStore) CompareAndSwap(key string, oldValue, newValue any, ttl time.Duration) (bool, error) {
	defer g.gate("CompareAndSwap", key)()
	return g.HybridStorage.CompareAndSwap(key, oldValue, newValue, ttl)
}

func gate(st storage.Storage, s *sched.Sched) storage.Storage {
	h, ok := st.(*storage.HybridStorage)
	if !ok {
		panic(fmt.Sprintf("wiring storage is %T, expected *hybrid.Storage", st))
	}
	return &gatedStore{HybridStorage: h, s: s}
}

// Discrete clock of the model -> real time.  Registration lifetime = 2 ticks.
//
//	a record written in tick t must be readable during the whole of tick t+1:
//	  real age at any observation of tick t+1 <= (segment t) + tickSleep + (segment t+1)
//	  which must stay below regTTL; the driver discards the behaviour when two consecutive
//	  segments plus the sleep between them took more than spanBudget (100 ms short of regTTL,
//	  i.e. segments may use 100 ms where they normally need < 10 ms)
//	and is gone in tick t+2 (age >= 2*tickSleep = 600 ms > regTTL) - nothing the judge demands
//	depends on that side.
//
// miniredis keeps virtual time: every tick fast-forwards it by tickSleep as well (the explicit
// ExpiresAt check of connstate uses the wall clock on every backend, so the sleep is real).
const (
	regTTL     = 500 * time.Millisecond
	tickSleep  = 300 * time.Millisecond
	spanBudget = 400 * time.Millisecond
	lifeTicks  = 2
)

type step struct {
	A string `json:"a"`
	N string `json:"n"`
	C string `json:"c"`
	X string `json:"x"`
	W string `json:"w"` // cause of a Close: peer | cmd | sweep | kick
}

type behaviour struct {
	Be    string `json:"be"`
	Steps []step `json:"steps"`
}

// ---- cluster ----------------------------------------------------------------------------------

type cred struct {
	id     int64
	secret string
}

type cluster struct {
	nodes   []string
	srv     map[string]*srvkit.Server
	w       *wire.Wiring
	creds   map[string]cred // client name -> identity known to every node
	byID    map[int64]string
	conns   map[string]*srvkit.Conn // model connection name -> accepted connection
	connOf  map[string]string       // real connection id -> model name
	nodeOf  map[string]string       // real node id -> model node name
	peers   map[string]*peer
	sch     *sched.Sched
	states  map[string]*repos.ClientStateRepository // node -> client runtime state as that node's storage presents it
	lkProc  string // scheduler process of the two-step lookup in flight
	nLk     int
	op      *inFlight // the store operation in flight (OpBegin .. OpEnd)
	nOp     int
	cancel  context.CancelFunc
	closers []func()
}

func (cl *cluster) Close() {
	if cl.sch != nil {
		cl.sch.Drain(2 * time.Second)
	}
	for _, p := range cl.peers {
		p.ln.Close()
	}
	for _, s := range cl.srv {
		s.Close()
	}
	for _, f := range cl.closers {
		f()
	}
	cl.w.Close()
	cl.cancel()
}

// peer stands in for a node's CrossNodeListener: it accepts the connections another node's
// CrossNodePool dials, records the command frames it receives and answers each with a success
// response, so that SendCommandToClient's forwarding decision is observable.
type peer struct {
	node string
	ln   net.Listener
	mu   sync.Mutex
	got  []int64 // target client ids of received command frames
	http []int64 // target client ids of received HTTP proxy frames
}

func (p *peer) serve() {
	for {
		c, err := p.ln.Accept()
		if err != nil {
			return
		}
		go func(c net.Conn) {
			defer c.Close()
			for {
				_, ft, data, err := session.ReadFrameFromReader(c)
				if err != nil {
					return
				}
				if ft == session.FrameTypeHTTPProxy {
					var m session.HTTPProxyMessage
					if json.Unmarshal(data, &m) != nil {
						return
					}
					p.mu.Lock()
					p.http = append(p.http, m.ClientID)
					p.mu.Unlock()
					resp, _ := json.Marshal(httptypes.HTTPProxyResponse{RequestID: m.RequestID, StatusCode: 204})
					body, _ := json.Marshal(session.HTTPProxyResponseMessage{RequestID: m.RequestID, Response: resp})
					var id [16]byte
					if session.WriteFrameToWriter(c, id, session.FrameTypeHTTPResponse, body) != nil {
						return
					}
					continue
				}
				if ft != session.FrameTypeCommand {
					continue
				}
				var m session.CommandMessage
				if json.Unmarshal(data, &m) != nil {
					return
				}
				p.mu.Lock()
				p.got = append(p.got, m.TargetClientID)
				p.mu.Unlock()
				body, _ := json.Marshal(session.CommandResponseMessage{CommandID: m.CommandID, Success: true, CommandType: m.CommandType})
				var id [16]byte
				if session.WriteFrameToWriter(c, id, session.FrameTypeCommandResponse, body) != nil {
					return
				}
			}
		}(c)
	}
}

func (p *peer) take() []int64 {
	p.mu.Lock()
	defer p.mu.Unlock()
	g := p.got
	p.got = nil
	return g
}

func (p *peer) takeHTTP() []int64 {
	p.mu.Lock()
	defer p.mu.Unlock()
	g := p.http
	p.http = nil
	return g
}

func newCluster(be string, nodes, clients []string) (*cluster, error) {
	ctx, cancel := context.WithCancel(context.Background())
	w, err := wire.New(ctx, be, nodes)
	if err != nil {
		cancel()
		return nil, err
	}
	cl := &cluster{nodes: nodes, srv: map[string]*srvkit.Server{}, w: w, creds: map[string]cred{}, byID: map[int64]string{},
		conns: map[string]*srvkit.Conn{}, connOf: map[string]string{}, nodeOf: map[string]string{}, peers: map[string]*peer{}, cancel: cancel, sch: sched.New(false),
		states: map[string]*repos.ClientStateRepository{}}
	cl.sch.Watchdog = 2 * time.Second
	// every node's server holds the storage its wiring gives it - ONE shared store behind all of them,
	// as in a deployment: client configs, the cloud-control client runtime state, id generators are
	// shared, and so is the master key the stored credentials are encrypted with
	mk := make([]byte, 32)
	if _, err := rand.Read(mk); err != nil {
		cancel()
		return nil, err
	}
	for _, n := range nodes {
		s, err := srvkit.NewServer(srvkit.Options{NodeID: "node-" + n, HeartbeatTimeout: time.Hour, CleanupInterval: time.Hour,
			Storage: w.Stores[n], MasterKey: base64.StdEncoding.EncodeToString(mk)})
		if err != nil {
			cl.Close()
			return nil, err
		}
		cl.srv[n] = s
		cl.nodeOf["node-"+n] = n
		cl.states[n] = repos.NewClientStateRepository(s.Ctx, s.Storage)
	}
	// identities: issued by the first node (real first-connect handshake); the other nodes read the
	// same client-config repository
	first := cl.srv[nodes[0]]
	for _, x := range clients {
		c, err := first.NewConn("10.9.9.9")
		if err != nil {
			cl.Close()
			return nil, err
		}
		id, secret, _, err := c.FirstConnect("control")
		if err != nil || id == 0 {
			cl.Close()
			return nil, fmt.Errorf("provisioning %s failed: %v", x, err)
		}
		c.Disconnect()
		if err := cl.shareIdentity(nodes[0], x, id, secret); err != nil {
			cl.Close()
			return nil, err
		}
	}
	// now hand every node the store under test: connstate.Store with a short lifetime over the
	// shared wiring, a CrossNodePool over the same storage, and the node addresses (peer listeners)
	for _, n := range nodes {
		ln, err := net.Listen("tcp", "127.0.0.1:0")
		if err != nil {
			cl.Close()
			return nil, err
		}
		p := &peer{node: n, ln: ln}
		cl.peers[n] = p
		go p.serve()
	}
	for _, n := range nodes {
		s := cl.srv[n]
		st := w.Stores[n]
		rt := session.NewTunnelRoutingTable(st, time.Hour)
		if err := rt.RegisterNodeAddress("node-"+n, cl.peers[n].ln.Addr().String()); err != nil {
			cl.Close()
			return nil, err
		}
		s.SM.SetConnectionStateStore(session.NewConnectionStateStore(gate(st, cl.sch), "node-"+n, regTTL))
		pc := session.DefaultCrossNodePoolConfig()
		pc.MinConns, pc.MaxConns, pc.DialTimeout = 0, 4, 2*time.Second
		pool := session.NewCrossNodePool(s.Ctx, st, "node-"+n, pc)
		s.SM.SetCrossNodePool(pool)
		cl.closers = append(cl.closers, func() { pool.Close() })
	}
	return cl, nil
}

// closeBy closes connection c of node n the way the given cause does in the server; every path
// ends with the read loop over and SessionManager.CloseConnection done (srvkit Reap/Disconnect).
// Returns a reason when the cause is not applicable to the connection as the server holds it.
func (cl *cluster) closeBy(n string, c *srvkit.Conn, x, why string) string {
	s := cl.srv[n]
	switch why {
	case "", "-", "peer":
		// the peer closed the socket (or the server had closed it and the read loop now ends):
		// adapter cleanupConnection -> CloseConnection
		c.Disconnect()
	case "cmd":
		// the client announces its departure: JsonCommand Disconnect -> handleDisconnectCommand ->
		// CloseConnection; then the socket goes away
		if c.Closed() {
			return "disconnect command on a closed transport"
		}
		if _, _, err := c.Send(&packet.TransferPacket{PacketType: packet.JsonCommand, CommandPacket: &packet.CommandPacket{CommandType: packet.Disconnect, CommandId: "bye", CommandBody: "{}"}}); err != nil {
			return "disconnect command: " + err.Error()
		}
		c.Disconnect() // the socket goes away, the read loop ends
	case "kick":
		// KickOldControlConnection(client, "") removes the registry entry and closes the stream;
		// the read loop ends -> CloseConnection
		if cc := s.SM.GetControlConnectionByClientID(cl.creds[x].id); cc == nil || cc.ConnID != c.ID {
			return "kick: the registry does not hold this connection for the client"
		}
		s.Kick(cl.creds[x].id, "")
		c.Disconnect() // the read loop ends on the closed stream: cleanupConnection -> CloseConnection
	case "sweep":
		// the client went silent: its last activity is two hours old (heartbeat timeout of the assembly:
		// one hour), everybody else's is recent, and the server's own stale sweep runs
		// (SessionManager.cleanupStaleConnections: ClientRegistry.CleanupStale removes the entry FIRST,
		// then the callback - DisconnectClientIfMatch, SessionManager.CloseConnection -, then the stream
		// is closed)
		cc := s.SM.GetClientRegistry().GetByConnID(c.ID)
		if cc == nil {
			return "sweep: connection is not in the control registry"
		}
		cc.LastActiveAt = time.Now().Add(-2 * time.Hour)
		swept := cleanupStaleConnections(s.SM)
		if swept != 1 {
			return fmt.Sprintf("sweep removed %d connections", swept)
		}
		c.Disconnect() // the read loop ends on the closed stream (CloseConnection a second time is a no-op)
	default:
		return "unknown close cause " + why
	}
	return ""
}

// shareIdentity records the identity that node `from` issued to client x and makes sure every other
// node reads it from the shared client-config repository.
func (cl *cluster) shareIdentity(from, x string, id int64, secret string) error {
	for _, n := range cl.nodes {
		cfg, err := repos.NewClientConfigRepository(cl.srv[n].Repo).GetConfig(id)
		if err != nil || cfg == nil {
			return fmt.Errorf("provisioning %s: node %s does not see the identity node %s issued: %v", x, n, from, err)
		}
	}
	cl.creds[x] = cred{id, secret}
	cl.byID[id] = x
	return nil
}

func (cl *cluster) observe() fw.Event {
	ctx := context.Background()
	var clients []string
	for x := range cl.creds {
		clients = append(clients, x)
	}
	sort.Strings(clients)
	finds := []any{}
	routes := []any{}
	states := []any{}
	for _, n := range cl.nodes {
		s := cl.srv[n]
		for _, x := range clients {
			id := cl.creds[x].id
			states = append(states, cl.stateOf(n, x))
			node, conn, err := s.SM.GetConnectionStateStore().FindClientNode(ctx, id)
			f := map[string]any{"from": n, "x": x, "node": "-", "conn": "-"}
			switch {
			case err == nil:
				f["r"] = "found"
				if m, ok := cl.nodeOf[node]; ok {
					f["node"] = m
				} else {
					f["node"] = "?" + node
				}
				if m, ok := cl.connOf[conn]; ok {
					f["conn"] = m
				} else {
					f["conn"] = "?" + conn
				}
			case errors.Is(err, session.ErrConnectionNotFound):
				f["r"] = "notfound"
			case errors.Is(err, session.ErrConnectionExpired):
				f["r"] = "expired"
			case strings.Contains(err.Error(), "unexpected value type"):
				f["r"] = "error"
				f["err"] = "type"
			default:
				f["r"] = "error"
				f["err"] = err.Error()
			}
			finds = append(finds, f)
			routes = append(routes, cl.route(n, x), cl.routeHTTP(n, x))
		}
	}
	return fw.Event{"ev": "Obs", "finds": finds, "routes": routes, "states": states}
}

// stateOf records the other answer the shared store gives node n to "where is client x": the
// cloud-control client runtime state (ClientStateRepository.GetState on the node's storage) and what
// the node's cloud control makes of it (GetClientNodeID).
func (cl *cluster) stateOf(n, x string) map[string]any {
	id := cl.creds[x].id
	f := map[string]any{"from": n, "x": x, "node": "-", "conn": "-", "svc": "-"}
	name := func(m map[string]string, v string) string {
		if k, ok := m[v]; ok {
			return k
		}
		return "?" + v
	}
	st, err := cl.states[n].GetState(id)
	switch {
	case err != nil:
		f["r"], f["err"] = "error", short(err.Error())
	case st == nil || !st.IsOnline():
		f["r"] = "none"
	default:
		f["r"], f["node"], f["conn"] = "found", name(cl.nodeOf, st.NodeID), name(cl.connOf, st.ConnID)
	}
	if node, err := cl.srv[n].Cloud.GetClientNodeID(id); err != nil {
		f["svc"] = "!" + short(err.Error())
	} else if node != "" {
		f["svc"] = name(cl.nodeOf, node)
	}
	return f
}

// route records what SendCommandToClient(x) does on node n: deliver locally, forward to a node,
// or refuse.
func (cl *cluster) route(n, x string) map[string]any {
	s := cl.srv[n]
	id := cl.creds[x].id
	r := map[string]any{"from": n, "x": x, "node": "-", "via": "cmd"}
	for _, p := range cl.peers {
		p.take()
	}
	local := s.SM.GetControlConnectionByClientID(id)
	if local != nil && local.Stream != nil {
		// the local branch writes the command to that connection and waits for the client's
		// answer; the decision itself is the registry lookup above - do not wait for a timeout
		r["r"] = "local"
		if m, ok := cl.connOf[local.ConnID]; ok {
			r["conn"] = m
		}
		return r
	}
	ctx, cancel := context.WithTimeout(context.Background(), 2*time.Second)
	defer cancel()
	cmd := &packet.CommandPacket{CommandType: packet.ConfigGet, CommandId: fmt.Sprintf("verif-%s-%s-%d", n, x, time.Now().UnixNano()), CommandBody: "{}"}
	_, err := s.SM.SendCommandToClient(ctx, id, cmd, 2*time.Second)
	var hit []string
	for m, p := range cl.peers {
		for _, got := range p.take() {
			if got == id {
				hit = append(hit, m)
			}
		}
	}
	sort.Strings(hit)
	switch {
	case len(hit) == 1:
		// the command frame reached that node: the decision is made whatever became of the answer
		r["r"], r["node"] = "forward", hit[0]
	case len(hit) == 0 && err != nil && (strings.Contains(err.Error(), "not connected") || strings.Contains(err.Error(), "state inconsistent")):
		r["r"] = "none" // refused: the lookup found nobody (or only this node itself)
		r["err"] = short(err.Error())
	case len(hit) == 0 && err != nil:
		r["r"] = "neterr" // dialling / talking to the peer listener failed: environment, not a decision
		r["err"] = short(err.Error())
	default:
		r["r"] = "odd"
		r["err"] = fmt.Sprintf("hit=%v err=%v", hit, err)
	}
	return r
}

// routeHTTP records what SendHTTPProxyRequest(x) (http_proxy.go: its own lookup and its own
// local / forward / refuse decision) does on node n.
func (cl *cluster) routeHTTP(n, x string) map[string]any {
	s := cl.srv[n]
	id := cl.creds[x].id
	r := map[string]any{"from": n, "x": x, "node": "-", "via": "http"}
	for _, p := range cl.peers {
		p.takeHTTP()
	}
	local := s.SM.GetControlConnectionByClientID(id)
	if local != nil && local.Stream != nil {
		// the local branch writes the request to that connection and waits for the client's answer;
		// the decision itself is the registry lookup above
		r["r"] = "local"
		if m, ok := cl.connOf[local.ConnID]; ok {
			r["conn"] = m
		}
		return r
	}
	req := &httptypes.HTTPProxyRequest{RequestID: fmt.Sprintf("verif-http-%s-%s-%d", n, x, time.Now().UnixNano()), Method: "GET", URL: "http://verif.invalid/", Timeout: 2}
	_, err := s.SM.SendHTTPProxyRequest(id, req)
	var hit []string
	for m, p := range cl.peers {
		for _, got := range p.takeHTTP() {
			if got == id {
				hit = append(hit, m)
			}
		}
	}
	sort.Strings(hit)
	switch {
	case len(hit) == 1:
		r["r"], r["node"] = "forward", hit[0]
	case len(hit) == 0 && err != nil && strings.Contains(err.Error(), "not connected"):
		r["r"] = "none"
		r["err"] = short(err.Error())
	case len(hit) == 0 && err != nil:
		r["r"] = "neterr"
		r["err"] = short(err.Error())
	default:
		r["r"] = "odd"
		r["err"] = fmt.Sprintf("hit=%v err=%v", hit, err)
	}
	return r
}

func short(s string) string {
	if len(s) > 120 {
		return s[:120]
	}
	return s
}

func names(steps []step) (nodes, clients []string) {
	ns, xs := map[string]bool{"A": true, "B": true}, map[string]bool{}
	for _, s := range steps {
		if s.N != "-" && s.N != "" {
			ns[s.N] = true
		}
		if s.X != "-" && s.X != "" {
			xs[s.X] = true
		}
	}
	for n := range ns {
		nodes = append(nodes, n)
	}
	for x := range xs {
		clients = append(clients, x)
	}
	if len(clients) == 0 {
		clients = []string{"X"}
	}
	sort.Strings(nodes)
	sort.Strings(clients)
	return
}

// inFlight is a session event whose connstate operation runs storage call by storage call.
type inFlight struct {
	proc  string
	kind  string // hb | close | auth
	st    step
	evicted []any         // connections whose transport the server closed in the handshake's session-layer part
	state string          // scheduler state of the process after the latest release
}

// beginOp starts the event as a scheduler process; it runs until its first gated storage call
// (for a handshake: until the first call of RegisterConnection(c) - the eviction of the node's older
// connection of the client is part of the handshake's session-layer section).
func (cl *cluster) beginOp(s step) (*inFlight, string) {
	c := cl.conns[s.C]
	if c == nil {
		return nil, "operation on unknown connection " + s.C
	}
	o := &inFlight{st: s, kind: "close", evicted: []any{}}
	open := map[string]bool{}
	for m, k := range cl.conns {
		open[m] = !k.Closed()
	}
	var fn func() any
	switch s.W {
	case "hb":
		o.kind = "hb"
		if c.Closed() {
			return nil, "heartbeat on a connection the server closed"
		}
		fn = func() any {
			if err := c.Heartbeat(); err != nil {
				return "heartbeat: " + err.Error()
			}
			return ""
		}
	case "auth":
		o.kind = "auth"
		if c.Closed() {
			return nil, "handshake on a connection the server closed"
		}
		cr := cl.creds[s.X]
		fn = func() any {
			if ok, err := c.Login(cr.id, cr.secret, "control"); err != nil || !ok {
				return fmt.Sprintf("handshake of %s on %s refused (ok=%v err=%v)", s.X, s.C, ok, err)
			}
			return ""
		}
	default:
		fn = func() any { return cl.closeBy(s.N, c, s.X, s.W) }
	}
	cl.nOp++
	o.proc = fmt.Sprintf("op%d", cl.nOp)
	o.state = cl.sch.Start(o.proc, fn)
	if o.kind == "auth" {
		own := recPrefix + c.ID
		for i := 0; o.state == sched.Parked && i < 16; i++ {
			if _, g := cl.sch.State(o.proc); g.Point == "cs.Set" && g.Info["key"] == own {
				break
			}
			o.state, _ = cl.sch.Step(o.proc)
		}
	}
	if o.state != sched.Parked && o.state != sched.Done {
		return nil, "the operation neither reached a storage call nor returned (" + o.state + ")"
	}
	if o.kind == "auth" {
		for m, k := range cl.conns {
			if open[m] && k.Closed() {
				o.evicted = append(o.evicted, m)
			}
		}
	}
	return o, ""
}

// endOp is called once the process has returned: the OpEnd event (or why the event did not apply).
func (cl *cluster) endOp() (fw.Event, string, bool) {
	o := cl.op
	cl.op = nil
	if why, _ := cl.sch.Result(o.proc).(string); why != "" {
		if o.kind == "close" {
			return nil, why, false // the close cause is not applicable to the connection as the server holds it
		}
		return nil, why, true
	}
	ev := fw.Event{"ev": "OpEnd", "k": o.kind, "n": o.st.N, "c": o.st.C, "x": o.st.X, "why": o.st.W}
	if o.kind == "close" {
		c := cl.conns[o.st.C]
		if _, still := cl.srv[o.st.N].SM.GetConnection(c.ID); still || !c.Closed() {
			return nil, fmt.Sprintf("connection %s survived close by %s", o.st.C, o.st.W), true
		}
	}
	return ev, "", false
}

func drive(env *fw.Env, b fw.Behaviour) *fw.Trace {
	var beh behaviour
	if err := json.Unmarshal(b.Data, &beh); err != nil {
		return &fw.Trace{Status: fw.DriverError, Note: err.Error()}
	}
	nodes, clients := names(beh.Steps)
	// clients whose identity is issued by a first-connection handshake of the behaviour are not provisioned
	var known []string
	for _, x := range clients {
		issued := false
		for _, s := range beh.Steps {
			issued = issued || (s.A == "Auth" && s.X == x && s.W == "new")
		}
		if !issued {
			known = append(known, x)
		}
	}
	cl, err := newCluster(beh.Be, nodes, known)
	if err != nil {
		return &fw.Trace{Status: fw.DriverError, Note: "cluster: " + err.Error()}
	}
	defer cl.Close()
	t := &fw.Trace{Status: fw.Realised}
	t.Events = append(t.Events, fw.Event{"ev": "Cfg", "be": beh.Be, "ttl": lifeTicks})
	segStart := time.Now() // start of the previous segment (two consecutive segments share a budget)
	curStart := segStart
	// record appends an event and what every node's lookup and routing decision say right after it
	record := func(ev fw.Event) *fw.Trace {
		t.Events = append(t.Events, ev)
		obs := cl.observe()
		for _, r := range obs["routes"].([]any) {
			if m := r.(map[string]any); m["r"] == "neterr" || m["r"] == "odd" {
				return &fw.Trace{Status: fw.Inconclusive, Note: fmt.Sprintf("peer listener trouble while observing the routing decision: %v", m["err"])}
			}
		}
		t.Events = append(t.Events, obs)
		if time.Since(segStart) > spanBudget {
			return &fw.Trace{Status: fw.Inconclusive, Note: fmt.Sprintf("two segments and a tick took %v (> %v)", time.Since(segStart).Round(time.Millisecond), spanBudget)}
		}
		return nil
	}
	// finish records the end of the operation in flight once its process has returned
	finish := func() *fw.Trace {
		ev, why, bug := cl.endOp()
		switch {
		case why != "" && bug:
			return &fw.Trace{Status: fw.DriverError, Note: why}
		case why != "":
			return &fw.Trace{Status: fw.Unrealisable, Note: why}
		}
		return record(ev)
	}
	for i, s := range beh.Steps {
		ev := fw.Event{"ev": s.A, "n": s.N, "c": s.C, "x": s.X}
		switch s.A {
		case "Tick":
			time.Sleep(tickSleep)
			cl.w.Advance(tickSleep)
			segStart, curStart = curStart, time.Now()
			ev = fw.Event{"ev": "Tick"}
		case "Connect":
			c, err := cl.srv[s.N].NewConn("10.0.0." + fmt.Sprint(10+i))
			if err != nil {
				return &fw.Trace{Status: fw.DriverError, Note: "accept: " + err.Error()}
			}
			cl.conns[s.C] = c
			cl.connOf[c.ID] = s.C
		case "Auth":
			c := cl.conns[s.C]
			if c == nil || c.Closed() {
				return &fw.Trace{Status: fw.Unrealisable, Note: "handshake on a connection the server closed"}
			}
			open := map[string]bool{}
			for m, k := range cl.conns {
				open[m] = !k.Closed()
			}
			if s.W == "new" {
				// first-connection handshake: the request names no client, ServerAuthHandler allocates the
				// identity and binds it to the connection.  The other nodes learn the identity afterwards
				// (in production all nodes read one client-config repository).
				if _, known := cl.creds[s.X]; known {
					return &fw.Trace{Status: fw.DriverError, Note: "first-connection handshake of a client that already has an identity"}
				}
				id, secret, _, err := c.FirstConnect("control")
				if err != nil || id == 0 {
					return &fw.Trace{Status: fw.DriverError, Note: fmt.Sprintf("step %d: first-connection handshake on %s refused (id=%d err=%v)", i, s.C, id, err)}
				}
				if err := cl.shareIdentity(s.N, s.X, id, secret); err != nil {
					return &fw.Trace{Status: fw.DriverError, Note: err.Error()}
				}
				ev["w"] = "new"
			} else {
				ok, err := c.Login(cl.creds[s.X].id, cl.creds[s.X].secret, "control")
				if err != nil || !ok {
					return &fw.Trace{Status: fw.DriverError, Note: fmt.Sprintf("step %d: handshake of %s on %s refused (ok=%v err=%v)", i, s.X, s.C, ok, err)}
				}
			}
			evicted := []any{}
			for m, k := range cl.conns {
				if open[m] && k.Closed() {
					evicted = append(evicted, m)
				}
			}
			ev["evicted"] = evicted
		case "AuthLost":
			// the credential check passes but the response cannot be delivered: the peer is gone.
			// Phase 1 (challenge) is answered normally; the transport dies at the first byte the
			// server tries to write in answer to phase 2.
			c := cl.conns[s.C]
			if c == nil || c.Closed() {
				return &fw.Trace{Status: fw.Unrealisable, Note: "handshake on a connection the server closed"}
			}
			cr := cl.creds[s.X]
			ch, _, err := c.Phase1(cr.id, "control")
			if err != nil || ch == "" {
				return &fw.Trace{Status: fw.DriverError, Note: fmt.Sprintf("step %d: no challenge for %s on %s (err=%v)", i, s.X, s.C, err)}
			}
			c.T.BeforeNextWrite(func() { c.T.Close() })
			body, _ := json.Marshal(&packet.HandshakeRequest{ClientID: cr.id, Version: "3.0", Protocol: "tcp", ConnectionType: "control",
				ChallengeResponse: srvkit.HMAC(cr.secret, ch)})
			out, herr, err := c.Send(&packet.TransferPacket{PacketType: packet.Handshake, Payload: body})
			if err != nil {
				return &fw.Trace{Status: fw.DriverError, Note: "AuthLost: " + err.Error()}
			}
			if herr == nil || len(out) != 0 || !c.Closed() {
				return &fw.Trace{Status: fw.DriverError, Note: fmt.Sprintf("step %d: the response write did not fail (herr=%v, %d packets written)", i, herr, len(out))}
			}
		case "LkBegin":
			// FindClientNode on node s.N as a scheduled process: it reads the client index and parks
			// in front of the read of the record the index named
			if cl.lkProc != "" || cl.op != nil {
				return &fw.Trace{Status: fw.DriverError, Note: "two lookups / operations in flight"}
			}
			cl.nLk++
			name := fmt.Sprintf("lk%d", cl.nLk)
			store, id := cl.srv[s.N].SM.GetConnectionStateStore(), cl.creds[s.X].id
			st := cl.sch.Start(name, func() any {
				node, conn, err := store.FindClientNode(context.Background(), id)
				if err != nil {
					return "err:" + short(err.Error())
				}
				return node + "/" + conn
			})
			if _, g := cl.sch.State(name); st == sched.Parked && g.Point == "cs.Get" && strings.HasPrefix(fmt.Sprint(g.Info["key"]), idxPrefix) {
				st, _ = cl.sch.Step(name) // the read of the client index
			}
			if _, g := cl.sch.State(name); st != sched.Parked || !strings.HasPrefix(fmt.Sprint(g.Info["key"]), recPrefix) {
				return &fw.Trace{Status: fw.Unrealisable, Note: "the lookup did not reach its second read (" + st + ": " + fmt.Sprint(cl.sch.Result(name)) + ")"}
			}
			cl.lkProc = name
			ev = fw.Event{"ev": "LkBegin", "m": s.N, "x": s.X}
		case "LkEnd":
			if cl.lkProc == "" {
				return &fw.Trace{Status: fw.DriverError, Note: "no lookup in flight"}
			}
			st, _ := cl.sch.Step(cl.lkProc)
			for k := 0; st == sched.Parked && k < 4; k++ { // a lookup that also writes (e.g. drops an expired record)
				st, _ = cl.sch.Step(cl.lkProc)
			}
			if st != sched.Done {
				return &fw.Trace{Status: fw.DriverError, Note: "the parked lookup did not finish: " + st}
			}
			ev = fw.Event{"ev": "LkEnd", "m": s.N, "x": s.X, "res": fmt.Sprint(cl.sch.Result(cl.lkProc))}
			cl.lkProc = ""
		case "OpBegin":
			// the event starts; its connstate operation is parked in front of its first storage call
			if cl.lkProc != "" || cl.op != nil {
				return &fw.Trace{Status: fw.DriverError, Note: "two lookups / operations in flight"}
			}
			o, why := cl.beginOp(s)
			if o == nil {
				return &fw.Trace{Status: fw.Unrealisable, Note: why}
			}
			cl.op = o
			if bad := record(fw.Event{"ev": "OpBegin", "k": o.kind, "n": s.N, "c": s.C, "x": s.X, "why": s.W, "evicted": o.evicted}); bad != nil {
				return bad
			}
			if o.state == sched.Done { // no storage call at all: the model's calls do not happen
				t.Status = fw.Diverged
				if bad := finish(); bad != nil {
					return bad
				}
			}
			continue
		case "OpStep":
			// the next storage call of the operation in flight; with w = "end" the model expects it to
			// be the last one: whatever the event still does (e.g. the second CloseConnection of a
			// connection closed by command / sweep, when its read loop ends) runs now, uninterrupted
			if cl.op == nil {
				t.Status = fw.Diverged // the real operation made fewer calls than the model's
				continue
			}
			o := cl.op
			o.state, _ = cl.sch.Step(o.proc)
			if bad := record(fw.Event{"ev": "OpStep"}); bad != nil {
				return bad
			}
			if s.W == "end" {
				extra := 0
				for ; o.state == sched.Parked && extra < 12; extra++ {
					o.state, _ = cl.sch.Step(o.proc)
				}
				if extra > 0 && o.kind != "close" {
					t.Status = fw.Diverged // the real operation made more calls than the model's
				}
			}
			switch o.state {
			case sched.Done:
				if bad := finish(); bad != nil {
					return bad
				}
			case sched.Parked:
				if s.W == "end" {
					return &fw.Trace{Status: fw.Unrealisable, Note: "the operation in flight did not come to an end"}
				}
			default:
				return &fw.Trace{Status: fw.Unrealisable, Note: "the operation in flight is stuck (" + o.state + ")"}
			}
			continue
		case "HB":
			c := cl.conns[s.C]
			if c == nil || c.Closed() {
				return &fw.Trace{Status: fw.Unrealisable, Note: "heartbeat on a connection the server closed"}
			}
			if err := c.Heartbeat(); err != nil {
				return &fw.Trace{Status: fw.DriverError, Note: "heartbeat: " + err.Error()}
			}
		case "Close", "Late":
			c := cl.conns[s.C]
			if c == nil {
				return &fw.Trace{Status: fw.DriverError, Note: "close of unknown connection " + s.C}
			}
			if why := cl.closeBy(s.N, c, s.X, s.W); why != "" {
				return &fw.Trace{Status: fw.Unrealisable, Note: why}
			}
			if _, still := cl.srv[s.N].SM.GetConnection(c.ID); still || !c.Closed() {
				return &fw.Trace{Status: fw.DriverError, Note: fmt.Sprintf("step %d: connection %s survived close by %s", i, s.C, s.W)}
			}
			ev["ev"], ev["why"] = "Close", s.W
		default:
			return &fw.Trace{Status: fw.DriverError, Note: "unknown step " + s.A}
		}
		if bad := record(ev); bad != nil {
			return bad
		}
	}
	if cl.op != nil { // a behaviour that ends inside the window: let the event return
		o := cl.op
		for k := 0; o.state == sched.Parked && k < 16; k++ {
			o.state, _ = cl.sch.Step(o.proc)
		}
		if o.state != sched.Done {
			return &fw.Trace{Status: fw.Unrealisable, Note: "the operation in flight did not come to an end"}
		}
		if bad := finish(); bad != nil {
			return bad
		}
	}
	return t
}

// ---- generation plumbing --------------------------------------------------------------------

var seenBeh = map[string]bool{}
var expandK int

// treeFixes: what /repo has (patches C08-1..4); allFixes adds the repairs the tree does not have
// (compare-and-renew / compare-and-delete of the client index; client runtime state written only after a
// delivered response / cleared by a kick - see spec/ConnState.tla)
var treeFixes = `{"ptrShape", "condIdxDelete", "hbRefresh", "successOnly"}`
var allFixes = `{"ptrShape", "condIdxDelete", "hbRefresh", "successOnly", "atomicRenew", "atomicDelete", "stateAfterDelivery", "kickDisconnects"}`
var firstThree = `{"ptrShape", "condIdxDelete", "hbRefresh"}` // repaired by patches C08-1..3

// exhaustive design check: every behaviour first fixes the backend shape (ptr/str/map) and the
// set of repairs, so one TLC run covers the as-is, the partly and the fully repaired code
func mcJob(name, nodes string, nconns int, clients, shapes, fixsets string) fw.TLCJob {
	return fw.TLCJob{Name: name, Module: "ConnState", Cfg: "ConnState_mc.cfg", Workers: 8, Timeout: 14 * time.Minute, Consts: map[string]string{
		"NODES": nodes, "NCONNS": fmt.Sprint(nconns), "CLIENTS": clients, "SHAPES": shapes, "FIXSETS": fixsets,
		"LOOKUPS": "FALSE", "WLOOKUP": "FALSE", "KEEPCA": "FALSE", "USEREQ": "FALSE", "IDXRENEW": "checkSet", "RECRENEW": "set", "INFLIGHT": "FALSE", "CAUSES": `{"peer", "sweep"}`, "CSTATE": "FALSE",
		"INVS": "Repaired RepairedTree LookupPure"}}
}

// flightJob: store operations running storage call by storage call between the events of other
// connections.  The tree as it is reaches a violation only through staleIdxWrite / staleIdxDelete
// (RepairedTree); with compare-and-renew / compare-and-delete none is reachable (Repaired).
// withState switches the cloud-control client runtime state sub-model on (StateLiveOrDev / StateClosedOrDev /
// StateRepaired) and adds the close cause that leaves that state behind (kick)
func withState(j fw.TLCJob) fw.TLCJob {
	j.Consts["CAUSES"], j.Consts["CSTATE"] = `{"peer", "sweep", "kick"}`, "TRUE"
	return j
}

func flightJob(name, nodes string, nconns int, fixsets string) fw.TLCJob {
	j := mcJob(name, nodes, nconns, `{"X"}`, `{"str"}`, fixsets)
	j.Consts["INFLIGHT"] = "TRUE"
	return j
}

// renewJob checks another design of the heartbeat refresh (IDXRENEW / RECRENEW): FindLive fails there
// only through the design's named deviation
func renewJob(name, idx, rec string) fw.TLCJob {
	j := mcJob(name, two, 2, `{"X"}`, `{"str"}`, "{"+treeFixes+"}")
	j.Consts["IDXRENEW"], j.Consts["RECRENEW"], j.Consts["INVS"] = idx, rec, ""
	return j
}

// altJob checks one of the other designs (KEEPCA: expiry derived from the first registration,
// USEREQ: record filled from the request's client id): FindLive fails there only through its deviation
func altJob(name, which string) fw.TLCJob {
	j := mcJob(name, two, 2, `{"X"}`, `{"str"}`, "{"+treeFixes+"}")
	j.Consts[which], j.Consts["INVS"] = "TRUE", ""
	return j
}

func genJob(name, nodes string, nconns int, clients string, maxClock, maxHist int, shapes, fixes, only string) fw.TLCJob {
	lookups, inflight := "FALSE", "FALSE"
	if only == "lookup" {
		lookups = "TRUE"
	}
	if only == "race" {
		inflight = "TRUE"
	}
	return fw.TLCJob{Name: name, Module: "ConnState", Cfg: "ConnState_gen.cfg", Workers: 1, Consts: map[string]string{
		"NODES": nodes, "NCONNS": fmt.Sprint(nconns), "CLIENTS": clients, "MAXCLOCK": fmt.Sprint(maxClock), "MAXHIST": fmt.Sprint(maxHist),
		"SHAPES": shapes, "FIXES": fixes, "ONLY": only, "LOOKUPS": lookups, "INFLIGHT": inflight}}
}

// two-step lookups: read-only as-is (LookupPure), and the writing-lookup design whose only route to
// a violation is the deviation "lookupErased"
func lkJob(name, nodes string, nconns int, fixsets string, writing bool) fw.TLCJob {
	j := mcJob(name, nodes, nconns, `{"X"}`, `{"str"}`, fixsets)
	j.Consts["LOOKUPS"], j.Consts["WLOOKUP"] = "TRUE", "FALSE"
	if writing {
		j.Consts["WLOOKUP"], j.Consts["INVS"] = "TRUE", ""
	}
	return j
}

const (
	two   = `{"A", "B"}`
	three = `{"A", "B", "C"}`
)

var (
	// no repair, every single repair, the three of C08-1..3, all four
	// (the four single-repair sets were checked in rounds 1-2; the thorough budget now goes to the in-flight
	// and client-state jobs)
	someSubsets = `{{}, ` + firstThree + ", " + treeFixes + ", " + allFixes + "}"
)

func main() {
	fw.Main(&fw.Property{
		ID:        "C08",
		DesignRef: "DESIGN.md §5 C08",
		ModelJobs: func(env *fw.Env) []fw.TLCJob {
			if env.Tier == "thorough" {
				both := "{" + firstThree + ", " + treeFixes + "}"
				tree := "{" + treeFixes + "}"
				onlyPeer := func(j fw.TLCJob) fw.TLCJob { j.Consts["CAUSES"] = `{"peer"}`; return j }
				return []fw.TLCJob{
					mcJob("mc:1x3:str:fix-subsets", two, 3, `{"X"}`, `{"str"}`, someSubsets),
					withState(mcJob("mc:state:1x3", two, 3, `{"X"}`, `{"str"}`, "{"+treeFixes+", "+allFixes+"}")),
					withState(mcJob("mc:state:2x2", two, 2, `{"X", "Y"}`, `{"str"}`, "{"+treeFixes+", "+allFixes+"}")),
					withState(flightJob("mc:state:inflight:1x2", two, 2, "{"+treeFixes+"}")),
					mcJob("mc:1x3:ptr+map", two, 3, `{"X"}`, `{"ptr", "map"}`, `{{}, `+treeFixes+"}"),
					mcJob("mc:2x3", two, 3, `{"X", "Y"}`, `{"str"}`, tree),
					mcJob("mc:3nodes:1x3", three, 3, `{"X"}`, `{"str"}`, tree),
					onlyPeer(mcJob("mc:1x4", two, 4, `{"X"}`, `{"str"}`, tree)),
					lkJob("mc:lookup:1x3", two, 3, tree, false),
					lkJob("mc:lookup:3nodes:1x2", three, 2, both, false),
					lkJob("mc:writing-lookup:1x3", two, 3, "{"+treeFixes+"}", true),
					lkJob("mc:writing-lookup:1x2", two, 2, "{"+treeFixes+"}", true),
					flightJob("mc:inflight:1x2", two, 2, "{"+treeFixes+", "+allFixes+"}"),
					flightJob("mc:inflight:3nodes:1x2", three, 2, "{"+treeFixes+", "+allFixes+"}"),
					altJob("mc:keep-created-at:1x2", "KEEPCA"),
					altJob("mc:request-id:1x2", "USEREQ"),
					renewJob("mc:renew-idx-cas-stub:1x2", "cas", "set"),
					renewJob("mc:renew-idx-blind:1x2", "blind", "set"),
					renewJob("mc:renew-idx-none:1x2", "none", "set"),
					renewJob("mc:renew-rec-none:1x2", "checkSet", "none"),
					renewJob("mc:renew-rec-from-created:1x2", "checkSet", "fromCreated"),
				}
			}
			// quick: the string shape with the three repairs of C08-1..3 and with all four (the code
			// without any repair, the pointer and map shapes: thorough; their routes to a violation
			// are also driven from gen:dev)
			return []fw.TLCJob{
				withState(mcJob("mc:1x3", two, 3, `{"X"}`, `{"str"}`, "{"+treeFixes+"}")), // the tree as it is now (C08-1..4 applied); other fix sets: thorough
				lkJob("mc:lookup:1x2", two, 2, "{"+treeFixes+"}", false),
				flightJob("mc:inflight:1x2", two, 2, "{"+treeFixes+"}"),
				// the alternative designs (writing lookup, expiry from first registration, record from
				// the request id) are checked in the thorough tier
			}
		},
		// Histories are generated from the as-is model: event enabledness does not depend on the
		// store, and the as-is state graph distinguishes more states (deviation flags), so its
		// transition cover contains the repaired model's.
		GenJobs: func(env *fw.Env) []fw.TLCJob {
			// gen:lost / gen:close are targeted covers (from the repaired model, whose store keeps a
			// heart-beating client findable): every behaviour of gen:lost contains a handshake whose
			// response is undeliverable while the client is connected elsewhere, every behaviour of
			// gen:close ends with a close by command / kick / stale sweep of the client's last
			// connection while the lookup still found it.
			if env.Tier == "thorough" {
				return []fw.TLCJob{
					genJob("gen:first", three, 3, `{"X"}`, 2, 8, `{"str"}`, treeFixes, "first"),
					genJob("gen:dev", two, 3, `{"X", "Y"}`, 3, 8, `{"str", "ptr"}`, "{}", "dev"),
					genJob("gen:lost", two, 3, `{"X", "Y"}`, 3, 8, `{"str"}`, treeFixes, "lost"),
					genJob("gen:close", two, 3, `{"X", "Y"}`, 3, 8, `{"str"}`, treeFixes, "close"),
					genJob("gen:lookup", three, 3, `{"X"}`, 2, 9, `{"str"}`, treeFixes, "lookup"),
					genJob("gen:reauth", two, 3, `{"X", "Y"}`, 3, 8, `{"str"}`, treeFixes, "reauth"),
					genJob("gen:long", two, 3, `{"X"}`, 3, 9, `{"str"}`, treeFixes, "long"),
					genJob("gen:longre", two, 3, `{"X"}`, 3, 9, `{"str"}`, treeFixes, "longre"),
					genJob("gen:asis", two, 3, `{"X", "Y"}`, 3, 7, `{"str"}`, "{}", "all"),
					genJob("gen:asis-ptr", two, 3, `{"X"}`, 3, 8, `{"ptr"}`, "{}", "all"),
					genJob("gen:3nodes", three, 3, `{"X"}`, 3, 7, `{"str"}`, "{}", "all"),
					genJob("gen:race", two, 2, `{"X"}`, 1, 10, `{"str"}`, treeFixes, "race"),
					genJob("gen:race3", three, 3, `{"X"}`, 0, 9, `{"str"}`, treeFixes, "race"),
				}
			}
			// quick: the targeted covers share TLC runs where the sample cannot starve either part
			// (lost+close, long+longre); the two-client cover is left to the thorough tier
			return []fw.TLCJob{
				genJob("gen:dev", two, 3, `{"X"}`, 3, 6, `{"str", "ptr"}`, "{}", "dev"),
				genJob("gen:lost+close", two, 3, `{"X"}`, 3, 7, `{"str"}`, treeFixes, "lostclose"),
				genJob("gen:lookup", two, 2, `{"X"}`, 2, 8, `{"str"}`, treeFixes, "lookup"),
				genJob("gen:re+long", two, 3, `{"X"}`, 3, 7, `{"str"}`, treeFixes, "relong"),
				genJob("gen:asis", two, 3, `{"X"}`, 3, 7, `{"str"}`, "{}", "all"),
				genJob("gen:race", two, 2, `{"X"}`, 1, 10, `{"str"}`, treeFixes, "race"),
			}
		},
		MaxBehSrc: func(env *fw.Env, src string) int {
			// counts are per generation job AFTER expansion to the three wirings
			if env.Tier == "thorough" {
				return 420
			}
			switch src {
			case "gen:asis":
				return 30
			case "gen:lost+close":
				return 60
			case "gen:re+long":
				return 84
			case "gen:race":
				return 72
			}
			return 36
		},
		Expand: func(env *fw.Env, src string, raw json.RawMessage) []json.RawMessage {
			var steps []step
			if err := json.Unmarshal(raw, &steps); err != nil {
				panic(err)
			}
			key := string(fw.MustJSON(steps)) // TLC prints record fields in varying order
			if seenBeh[key] {
				return nil
			}
			seenBeh[key] = true
			if strings.HasPrefix(src, "gen:race") {
				return expandRace(env, steps)
			}
			// A client's first successful handshake may equally be a first-connection handshake
			// (AuthOK(n,c,x,"new"): same store effect in the model, enabled whenever x was never seen):
			// every second behaviour takes that variant for each client that allows it.
			if expandK++; expandK%2 == 0 {
				seen := map[string]bool{}
				for i, st := range steps {
					if (st.A == "Auth" || st.A == "AuthLost") && !seen[st.X] {
						seen[st.X] = true
						if st.A == "Auth" {
							steps[i].W = "new"
						}
					}
				}
			}
			// a behaviour without a successful handshake never touches the registry
			auth := false
			for _, s := range steps {
				auth = auth || s.A == "Auth"
			}
			if !auth {
				return nil
			}
			var out []json.RawMessage
			for _, be := range wire.Names {
				out = append(out, fw.MustJSON(behaviour{Be: be, Steps: steps}))
			}
			return out
		},
		SelfTest:    selfTest,
		Drive:       drive,
		Parallel:    24,
		JudgeModule: "ConnStateTrace",
		JudgeCfg:    "ConnStateTrace.cfg",
		NonTrivial: func(t *fw.Trace) bool {
			n := 0
			for _, e := range t.Events {
				if e["ev"] != "Obs" && e["ev"] != "Cfg" {
					n++
				}
			}
			return n >= 3
		},
		Rule: "one behaviour per transition (state, session event incl. undeliverable handshakes and closes by cause peer/cmd/sweep/kick) of the bounded ConnState state graph (shortest history to the state + the event), plus targeted covers: every model-predicted route to a deviation (gen:dev), undeliverable handshakes while connected elsewhere (gen:lost), closes of the last connection by command/kick/sweep (gen:close), two-step lookups overtaken by a handshake elsewhere / a cleanup and followed by a heartbeat (gen:lookup), successful re-handshakes on an authenticated connection that the store no longer names (gen:reauth), sessions (gen:long) and re-handshakes (gen:longre) on a connection older than one registration lifetime, first-connection handshakes with a server-allocated identity (gen:first); each replayed on the memory, Redis and tiered wirings; plus store operations in flight (gen:race): a heartbeat's RefreshConnection, a close's UnregisterConnection or a handshake's RegisterConnection released storage call by storage call with events of the same client on other connections in between - a bounded number per class (operation kind x calls made before the window's first event x what fell into the window), each on one wiring (rotating); non-trivial = at least 3 session events",
		Assumptions: []string{
			"nodes are SessionManager assemblies in one process (srvkit), each holding the storage its wiring gives it over ONE shared store: client configs, the cloud-control client runtime state and the id generators are shared as in a deployment; all nodes use one master key",
			"the cloud-control client runtime state (StateLive / StateClosed) is read through ClientStateRepository.GetState on every node's storage and through GetClientNodeID; its 90 s lifetime is not scaled down, so no behaviour meets its expiry",
			"a store operation in flight is the real event (heartbeat packet, close by its cause, two-phase handshake) run as a scheduler process that parks in front of every storage call on tunnox:conn_state:/tunnox:client_conn: keys of the node's storage; nothing is demanded for the client while it is in flight; a heartbeat counts from its begin, a handshake is the most recent one from the moment RegisterConnection starts (the response has been delivered), a close counts from its end",
			"routing decisions are observed at two call sites: SendCommandToClient and SendHTTPProxyRequest (the peer listener answers command and HTTP-proxy frames)",
			"the stale sweep is the server's own cleanupStaleConnections (bound by go:linkname) after the victim's LastActiveAt was moved two hours back",
			"registration lifetime 500 ms = 2 model ticks of 300 ms; behaviours whose steps overran the margin are discarded as inconclusive",
			"miniredis stands in for Redis; its virtual clock is advanced together with the real sleep",
			"a two-step lookup is FindClientNode run as a scheduler process whose read of the connection record is parked at a gate in front of the node's storage (harness/sched); nothing is demanded of its own answer",
			"a peer listener per node stands in for CrossNodeListener to make the forwarding decision of SendCommandToClient observable",
			"an undeliverable handshake response is a transport that dies at the server's first write after the challenge phase; every close cause ends with the read loop over (CloseConnection)",
		},
		TrustedBase: []string{"TLC", "spec/ConnStateTrace.tla as the reading of the statement", "srvkit (server assembly with fake transports)", "miniredis"},
	})
}

// expandRace thins the cover of in-flight operations: the behaviours are classed by the kind of the
// operation, by how many storage calls it had made when the window's first event happened and by
// what fell into the window; every class keeps a bounded number of behaviours (more in the thorough
// tier), each on ONE wiring (rotating), so that the sample spreads over classes and wirings.
var (
	raceClass = map[string]int{}
	raceK     int
)

func expandRace(env *fw.Env, steps []step) []json.RawMessage {
	begin := -1
	for i, st := range steps {
		if st.A == "OpBegin" {
			begin = i
		}
	}
	if begin < 0 {
		return nil
	}
	kind := steps[begin].W
	if kind != "hb" && kind != "auth" {
		kind = "close:" + kind
	}
	before, inner := 0, []string{}
	for _, st := range steps[begin+1:] {
		switch {
		case st.A == "OpStep" && len(inner) == 0:
			before++
		case st.A != "OpStep":
			e := st.A
			if st.C == steps[begin].C {
				e += "@same"
			}
			if st.N == steps[begin].N {
				e += "@node"
			}
			inner = append(inner, e)
		}
	}
	class := fmt.Sprintf("%s|%d|%s", kind, before, strings.Join(inner, ","))
	keep := 2
	if env.Tier == "thorough" {
		keep = 6
	}
	if raceClass[class] >= keep {
		return nil
	}
	raceClass[class]++
	raceK++
	return []json.RawMessage{fw.MustJSON(behaviour{Be: wire.Names[raceK%len(wire.Names)], Steps: steps})}
}

func selfTest(env *fw.Env, acc []*fw.Trace) []*fw.Trace {
	// (1) right after a successful handshake the client is connected: turn that observation's
	// "found" into "notfound" / into another node; (2) after the last Close turn "notfound" into a
	// stale "found".  The judge must reject each corrupted copy.
	var out []*fw.Trace
	id := 1 << 24
	// traces with a store operation in flight have their own corruption (3): inside the window the
	// judge demands nothing for the client, so (1) and (2) could hit an observation without a demand
	var plain, flights []*fw.Trace
	for _, t := range acc {
		inflight := false
		for _, e := range t.Events {
			inflight = inflight || e["ev"] == "OpBegin"
		}
		if inflight {
			flights = append(flights, t)
		} else {
			plain = append(plain, t)
		}
	}
	acc = plain
	for _, t := range acc {
		if len(out) >= 40 {
			break
		}
		idx, kind := -1, ""
		for i, e := range t.Events {
			if e["ev"] == "Auth" && i+1 < len(t.Events) {
				obs := t.Events[i+1]
				for _, f := range obs["finds"].([]any) {
					m := f.(map[string]any)
					if m["x"] == e["x"] && m["r"] == "found" {
						idx, kind = i+1, "drop:"+e["x"].(string)
					}
				}
			}
		}
		if idx < 0 {
			continue
		}
		c := &fw.Trace{Status: fw.Realised, Beh: t.Beh}
		id++
		c.Beh.ID = id
		x := strings.TrimPrefix(kind, "drop:")
		for i, e := range t.Events {
			if i != idx {
				c.Events = append(c.Events, e)
				continue
			}
			ne := fw.Event{"ev": "Obs", "routes": e["routes"], "states": e["states"]}
			var fs []any
			for j, f := range e["finds"].([]any) {
				m := f.(map[string]any)
				if m["x"] == x {
					if (id+j)%2 == 0 {
						m = map[string]any{"from": m["from"], "x": x, "r": "notfound", "node": "-", "conn": "-"}
					} else {
						m = map[string]any{"from": m["from"], "x": x, "r": "found", "node": "Z", "conn": m["conn"]}
					}
				}
				fs = append(fs, m)
			}
			ne["finds"] = fs
			c.Events = append(c.Events, ne)
		}
		out = append(out, c)
	}
	// (2) stale hit after the close of the client's only authenticated connection
	stale := 0
	for _, t := range acc {
		if stale >= 20 {
			break
		}
		authed := map[string]map[string]bool{} // client -> connections it authenticated on
		closed := map[string]bool{}
		idx, who, where, conn := -1, "", "", ""
		for i, e := range t.Events {
			switch e["ev"] {
			case "Auth":
				x := e["x"].(string)
				if authed[x] == nil {
					authed[x] = map[string]bool{}
				}
				authed[x][e["c"].(string)] = true
				for _, v := range e["evicted"].([]any) {
					closed[v.(string)] = true
				}
			case "Close":
				closed[e["c"].(string)] = true
				x, _ := e["x"].(string)
				all := len(authed[x]) > 0 && authed[x][e["c"].(string)]
				for c := range authed[x] {
					all = all && closed[c]
				}
				if all && i+1 < len(t.Events) && t.Events[i+1]["ev"] == "Obs" {
					idx, who, where, conn = i+1, x, e["n"].(string), e["c"].(string)
				}
			}
		}
		if idx < 0 {
			continue
		}
		c := &fw.Trace{Status: fw.Realised, Beh: t.Beh}
		id++
		c.Beh.ID = id
		for i, e := range t.Events {
			if i != idx {
				c.Events = append(c.Events, e)
				continue
			}
			ne := fw.Event{"ev": "Obs", "routes": e["routes"], "states": e["states"]}
			var fs []any
			for _, f := range e["finds"].([]any) {
				m := f.(map[string]any)
				if m["x"] == who {
					m = map[string]any{"from": m["from"], "x": who, "r": "found", "node": where, "conn": conn}
				}
				fs = append(fs, m)
			}
			ne["finds"] = fs
			c.Events = append(c.Events, ne)
		}
		out = append(out, c)
		stale++
	}
	// (4) the client runtime state right after a successful handshake (no undeliverable handshake before
	// it in the trace): turn "found" into "none" / into another node, leaving the lookups alone
	nstate := 0
	for _, t := range acc {
		if nstate >= 20 {
			break
		}
		idx, who := -1, ""
		for i, e := range t.Events {
			if e["ev"] == "AuthLost" {
				break
			}
			if e["ev"] == "Auth" && i+1 < len(t.Events) {
				obs := t.Events[i+1]
				sts, _ := obs["states"].([]any)
				for _, f := range sts {
					if m := f.(map[string]any); m["x"] == e["x"] && m["r"] == "found" {
						idx, who = i+1, e["x"].(string)
					}
				}
			}
		}
		if idx < 0 {
			continue
		}
		c := &fw.Trace{Status: fw.Realised, Beh: t.Beh}
		id++
		c.Beh.ID = id
		for i, e := range t.Events {
			if i != idx {
				c.Events = append(c.Events, e)
				continue
			}
			ne := fw.Event{"ev": "Obs", "routes": e["routes"], "finds": e["finds"]}
			var ss []any
			for j, f := range e["states"].([]any) {
				m := f.(map[string]any)
				if m["x"] == who {
					if (id+j)%2 == 0 {
						m = map[string]any{"from": m["from"], "x": who, "r": "none", "node": "-", "conn": "-", "svc": "-"}
					} else {
						m = map[string]any{"from": m["from"], "x": who, "r": "found", "node": "Z", "conn": m["conn"], "svc": "Z"}
					}
				}
				ss = append(ss, m)
			}
			ne["states"] = ss
			c.Events = append(c.Events, ne)
		}
		out = append(out, c)
		nstate++
	}
	// (3) right after the end of an in-flight operation the usual demands apply again: where the
	// client's latest handshake (atomic or in flight) is on a connection still open and no tick has
	// passed since, turn that observation's "found" into "notfound"
	races := 0
	for _, t := range flights {
		if races >= 20 {
			break
		}
		last, closed := map[string]string{}, map[string]bool{}
		fresh := map[string]bool{} // no tick since the client's latest handshake
		opKind, opConn := "", ""
		idx, who := -1, ""
		for i, e := range t.Events {
			switch e["ev"] {
			case "Auth":
				x := e["x"].(string)
				last[x], fresh[x] = e["c"].(string), true
				for _, v := range e["evicted"].([]any) {
					closed[v.(string)] = true
				}
			case "OpBegin":
				opKind, opConn = e["k"].(string), e["c"].(string)
				for _, v := range e["evicted"].([]any) {
					closed[v.(string)] = true
				}
				if opKind == "auth" {
					x := e["x"].(string)
					last[x], fresh[x] = opConn, true
				}
				if opKind == "close" {
					closed[opConn] = true
				}
			case "Close":
				closed[e["c"].(string)] = true
			case "AuthLost":
				closed[e["c"].(string)] = true
			case "Tick":
				for x := range fresh {
					fresh[x] = false
				}
			case "OpEnd":
				x, _ := e["x"].(string)
				if c := last[x]; c != "" && !closed[c] && fresh[x] && i+1 < len(t.Events) && t.Events[i+1]["ev"] == "Obs" {
					for _, f := range t.Events[i+1]["finds"].([]any) {
						if m := f.(map[string]any); m["x"] == x && m["r"] == "found" {
							idx, who = i+1, x
						}
					}
				}
			}
		}
		if idx < 0 {
			continue
		}
		c := &fw.Trace{Status: fw.Realised, Beh: t.Beh}
		id++
		c.Beh.ID = id
		for i, e := range t.Events {
			if i != idx {
				c.Events = append(c.Events, e)
				continue
			}
			ne := fw.Event{"ev": "Obs", "routes": e["routes"], "states": e["states"]}
			var fs []any
			for _, f := range e["finds"].([]any) {
				m := f.(map[string]any)
				if m["x"] == who {
					m = map[string]any{"from": m["from"], "x": who, "r": "notfound", "node": "-", "conn": "-"}
				}
				fs = append(fs, m)
			}
			ne["finds"] = fs
			c.Events = append(c.Events, ne)
		}
		out = append(out, c)
		races++
	}
	return out
}
