package main

import (
	_ "unsafe" // go:linkname

	"tunnox-core/internal/protocol/session"
)

// cleanupStaleConnections is the real, unexported stale-connection sweep of SessionManager
// (control_connection_mgr.go; run by the cleanup ticker): ClientRegistry.CleanupStale with the
// server's own callback - DisconnectClientIfMatch on the cloud-control client state, then
// CloseConnection.  Bound by symbol name, so no export shim in tunnox-core is needed; if the method is
// renamed or its signature changes the driver stops linking and the check reports INCONCLUSIVE
// (exit 2), never a verdict.  The empty.s file in this directory allows the body-less declaration.
//
//go:linkname cleanupStaleConnections tunnox-core/internal/protocol/session.(*SessionManager).cleanupStaleConnections
func cleanupStaleConnections(s *session.SessionManager) int
