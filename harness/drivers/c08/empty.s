// intentionally empty: permits the body-less go:linkname declaration in sweep_link.go
