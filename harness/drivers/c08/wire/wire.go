// Package wire builds the three storage wirings of internal/app/server/storage.go for the C08 and
// C09 drivers: several "nodes" of one process, each holding the hybrid storage its server would
// hold, all backed by ONE shared store.
//
//	memory  hybrid{cache = memory}                               (createMemoryStorage; a memory-backed
//	        deployment is one process, so every node holds the same storage object)
//	redis   hybrid{cache = shared = Redis storage on miniredis}  (createRedisStorage; one client per node)
//	tiered  hybrid{cache = memory per node, shared = Redis on miniredis, persistent = store double}
//	        (createRemoteStorage with the gRPC tier replaced by doubles.Pers)
package wire

import (
	"context"
	"fmt"
	"time"

	"github.com/alicebob/miniredis/v2"

	"tunnox-core/internal/core/storage"
	"tunnox-core/verifharness/doubles"
)

// Names lists the wirings in the order behaviours are expanded.
var Names = []string{"memory", "redis", "tiered"}

// Wiring is one shared store seen through one hybrid storage per node.
type Wiring struct {
	Name   string
	Stores map[string]storage.Storage // node -> the hybrid storage that node's server would hold
	Redis  *miniredis.Miniredis       // nil for the memory wiring
	Pers   *doubles.Store             // persistent tier double (tiered wiring only)
	close  []func()
}

// Close releases storages, Redis clients and the miniredis server.
func (w *Wiring) Close() {
	for i := len(w.close) - 1; i >= 0; i-- {
		w.close[i]()
	}
}

// Advance moves the virtual clock of miniredis (its TTLs never run on their own); the memory
// backend and every explicit ExpiresAt check use the wall clock, so callers sleep as well.
func (w *Wiring) Advance(d time.Duration) {
	if w.Redis != nil {
		w.Redis.FastForward(d)
	}
}

// New builds wiring `name` for the given nodes.
func New(ctx context.Context, name string, nodes []string) (*Wiring, error) {
	w := &Wiring{Name: name, Stores: map[string]storage.Storage{}}
	factory := storage.NewStorageFactory(ctx)
	switch name {
	case "memory":
		hc := &storage.HybridStorageConfig{CacheType: "memory", EnablePersistent: false, HybridConfig: storage.DefaultHybridConfig()}
		hc.HybridConfig.EnablePersistent = false
		st, err := factory.CreateStorage(hc)
		if err != nil {
			return nil, err
		}
		w.close = append(w.close, func() { st.Close() })
		for _, n := range nodes {
			w.Stores[n] = st
		}
	case "redis", "tiered":
		mr, err := miniredis.Run()
		if err != nil {
			return nil, err
		}
		w.Redis = mr
		w.close = append(w.close, mr.Close)
		if name == "tiered" {
			w.Pers = doubles.NewStore("pers", nil)
		}
		for _, n := range nodes {
			var st storage.Storage
			if name == "redis" {
				hc := &storage.HybridStorageConfig{CacheType: "redis", EnablePersistent: false, HybridConfig: storage.DefaultHybridConfig(),
					RedisConfig: &storage.RedisConfig{Addr: mr.Addr(), PoolSize: 10}}
				hc.HybridConfig.EnablePersistent = false
				st, err = factory.CreateStorage(hc)
				if err != nil {
					w.Close()
					return nil, err
				}
			} else {
				shared, err := storage.NewRedisStorage(ctx, &storage.RedisConfig{Addr: mr.Addr(), PoolSize: 10})
				if err != nil {
					w.Close()
					return nil, err
				}
				cfg := storage.DefaultHybridConfig()
				cfg.EnablePersistent = true
				local, ok := storage.NewMemoryStorage(ctx).(storage.CacheStorage)
				if !ok {
					w.Close()
					return nil, fmt.Errorf("memory storage is not a CacheStorage")
				}
				st = storage.NewHybridStorageWithSharedCache(ctx, local, shared, doubles.Pers{St: w.Pers}, cfg)
			}
			s := st
			w.close = append(w.close, func() { s.Close() })
			w.Stores[n] = st
		}
	default:
		return nil, fmt.Errorf("unknown wiring %q", name)
	}
	return w, nil
}
