// C07 driver: replays TLC-generated registry/session operation histories (spec/Session.tla,
// Session_c07*.cfg) on the real SessionManager + ClientRegistry + ServerAuthHandler assembled by
// srvkit, logs the full projection of the registries after every operation and lets the
// property-level judge (spec/SessionTraceReg.tla) check the C07 statement on each of them.
// Histories of spec/SessionReg.tla hold a kick (KickBegin/KickEnd: the kick goroutine is parked in the write of
// the kick command) or a heartbeat-timeout sweep (SweepBegin/SweepEnd: the server's sweep goroutine is parked in the
// offline notification of its callback) between the locked registry section and the I/O that follows, with logins,
// closes and kicks inside the window.
// A second mode runs two or three connections' logins concurrently (goroutines released together
// at the moment their success response is written, i.e. right before handleHandshake's registry
// section) and judges the quiescent projection after every round.
package main

import (
	"encoding/json"
	"fmt"
	"reflect"
	"runtime"
	"runtime/debug"
	"sort"
	"strings"
	"sync"
	"sync/atomic"
	"time"

	"tunnox-core/internal/packet"
	"tunnox-core/internal/protocol/session"
	"tunnox-core/internal/security"
	"tunnox-core/internal/stream"
	"tunnox-core/verifharness/fw"
	"tunnox-core/verifharness/srvkit"
)

const (
	hbTimeout  = 120 * time.Millisecond // HeartbeatTimeout of servers whose behaviour contains a Tick
	hbSweep    = 10 * time.Millisecond  // CleanupInterval (the real sweep ticker)
	tickLength = 3 * hbTimeout          // a Tick = three timeouts of silence for everybody not kept alive
	hbEvery    = hbTimeout / 6          // heartbeat period of the connections kept alive during a Tick
	segBudget  = hbTimeout / 3          // a tick-free segment must finish well inside one timeout
)

type expT struct {
	Auth map[string]string `json:"auth"`
	Idx  map[string]string `json:"idx"`
	Reg  []string          `json:"reg"`
	Sess []string          `json:"sess"`
	Tcl  []string          `json:"tcl"`
	Cap  int               `json:"cap"` // ClientRegistry cap of the configuration (0 = none)
}

type opT struct {
	Op   string   `json:"op"`
	C    string   `json:"c"`
	ID   string   `json:"id"`
	Type string   `json:"type"`
	New  string   `json:"new"`
	Keep []string `json:"keep"`
	Out  string   `json:"out"`
	How  string   `json:"how,omitempty"` // Close: "command" = the client announces its disconnect (JsonCommand Disconnect)
	Exp  *expT    `json:"exp"`
	To   string   `json:"to,omitempty"`     // Cloud: "down" | "up"
	NB   bool     `json:"nb,omitempty"`     // concurrent mode: this Login does not wait at the rendezvous
	Jit  int      `json:"jitter,omitempty"` // concurrent mode: random busy-wait of up to Jit ns after the rendezvous
}

type parT struct {
	Par     [][]opT `json:"par"`     // one script per goroutine
	Rounds  int     `json:"rounds"`  // repetitions on one server (fresh connections per round)
	Barrier bool    `json:"barrier"` // release the goroutines together right before the registry section
	Name    string  `json:"name"`
}

func keys(m map[string]string) []string {
	out := make([]string, 0, len(m))
	for k := range m {
		out = append(out, k)
	}
	sort.Strings(out)
	return out
}

func hasTick(ops []opT) bool {
	for _, o := range ops {
		if o.Op == "Tick" || o.Op == "SweepBegin" {
			return true
		}
	}
	return false
}

var bindingMismatch, bindingSteps, codePanics atomic.Int64
var firstPanic atomic.Pointer[string]

// binding compares the real projection with the state the implementation-shaped model predicts
// (informational: keeps the model honest; never a verdict).
func binding(p map[string]any, e *expT) bool {
	if e == nil {
		return true
	}
	conns := p["conns"].(map[string]any)
	lookup := p["lookup"].(map[string]any)
	set := func(field string) []string {
		var s []string
		for n, v := range conns {
			if v.(map[string]any)[field].(bool) {
				s = append(s, n)
			}
		}
		sort.Strings(s)
		return s
	}
	eq := func(a, b []string) bool {
		a, b = append([]string{}, a...), append([]string{}, b...)
		sort.Strings(a)
		sort.Strings(b)
		return reflect.DeepEqual(a, b)
	}
	if !eq(set("reg"), e.Reg) || !eq(set("sess"), e.Sess) || !eq(set("tcl"), e.Tcl) {
		return false
	}
	for x, want := range e.Idx {
		if lookup[x].(map[string]any)["c"].(string) != want {
			return false
		}
	}
	for c, want := range e.Auth {
		got := "none"
		if v, ok := conns[c]; ok {
			m := v.(map[string]any)
			if m["authd"].(bool) {
				got = m["cid"].(string)
			}
		}
		if got != want {
			return false
		}
	}
	return true
}

type runner struct {
	w         *srvkit.World
	segStart  time.Time
	timed     bool
	overrun   bool
	cloudDown bool
	kick      *pendingKick  // a KickOldConnection whose I/O part is held back (KickBegin .. KickEnd)
	hold      *pendingLogin // a login held between the auth handler and handleHandshake's registry section (LoginHold .. LoginResume)
	sweep     *pendingSweep // a heartbeat-timeout sweep held between its registry section and its callback's CloseConnection
}

// pendingSweep: the server's own sweep goroutine (startConnectionCleanup -> cleanupStaleConnections ->
// ClientRegistry.CleanupStale) has taken the stale connection out of the registry and is parked in the
// offline notification of its callback (a slow cloud-control store). While it is parked no other sweep runs.
// pendingLogin: the goroutine delivering the second handshake packet of a correct control-type login is parked
// right after the last Write of the success response (the last thing sendHandshakeResponse does before
// handleHandshake's registry section): the connection is authenticated, not yet indexed.
type pendingLogin struct {
	conn    string
	release chan struct{}
	done    chan bool // login result as the client sees it
}

func (r *runner) finishLogin() (ok, returned bool) {
	k := r.hold
	if k == nil {
		return false, true
	}
	r.hold = nil
	close(k.release)
	select {
	case ok = <-k.done:
		return ok, true
	case <-time.After(10 * time.Second):
		return false, false
	}
}

type pendingSweep struct {
	conn    string
	release chan struct{}
	resumed chan struct{}
}

// finishSweep lets the held sweep go on and waits until its callback has closed the connection.
func (r *runner) finishSweep() bool {
	k := r.sweep
	if k == nil {
		return true
	}
	r.sweep = nil
	close(k.release)
	select {
	case <-k.resumed:
	case <-time.After(10 * time.Second):
		return false
	}
	tc := r.w.Conn(k.conn)
	for grace := time.Now().Add(2 * time.Second); time.Now().Before(grace); time.Sleep(hbEvery / 10) {
		if v := r.w.S.View(tc); !v.InSession && !v.InControl && v.Closed {
			break // anything left after the grace period is left to the judge
		}
	}
	return true
}

// beatAll: every open registered connection except skip sends a heartbeat.
func (r *runner) beatAll(skip string) {
	for _, n := range r.w.ConnNames {
		if tc := r.w.Conn(n); tc != nil && n != skip && !tc.Closed() && r.w.S.View(tc).InControl {
			_ = tc.Heartbeat()
		}
	}
}

// pendingKick: the goroutine running SessionManager.KickOldControlConnection is parked in the write
// of the kick command to the old peer's transport (a peer that does not drain its socket).
type pendingKick struct {
	conn    string // name of the connection whose transport holds the kick back ("" = nothing pending)
	release chan struct{}
	done    chan struct{}
}

func (r *runner) finishKick() bool {
	k := r.kick
	if k == nil {
		return true
	}
	r.kick = nil
	close(k.release)
	select {
	case <-k.done:
		return true
	case <-time.After(10 * time.Second):
		return false
	}
}

func (r *runner) seg() {
	if r.sweep != nil {
		return // the only sweep goroutine is parked: nobody can go stale unnoticed until it is released
	}
	if r.timed && time.Since(r.segStart) > segBudget {
		r.overrun = true
	}
}

// authState describes the connection's authentication before a login, for violation details.
func (r *runner) prev(c *srvkit.Conn, id int64) string {
	v := r.w.S.View(c)
	switch {
	case !v.InControl || !v.Authd:
		return "fresh"
	case v.ClientID == id:
		return "same"
	default:
		return "switch"
	}
}

func (r *runner) safeStep(o opT) (ev fw.Event, why string, px any) {
	defer func() {
		if x := recover(); x != nil {
			px = x
		}
	}()
	ev, why = r.step(o)
	return
}

// step executes one operation; returns the event (nil = not realisable on this server state).
func (r *runner) step(o opT) (fw.Event, string) {
	w := r.w
	ev := fw.Event{"ev": "Op", "op": o.Op, "shape": "-"}
	var c *srvkit.Conn
	cmdClosed := false
	if o.C != "" && o.Op != "Accept" {
		c = w.Conn(o.C)
		if c == nil {
			return nil, "operation on a connection that was never accepted"
		}
		ev["c"] = o.C
	}
	needOpen := func() string {
		if c.Closed() {
			return "the server closed " + o.C + " earlier than the model expects"
		}
		return ""
	}
	switch o.Op {
	case "Accept":
		if _, err := w.Accept(o.C); err != nil {
			return nil, "accept refused: " + err.Error()
		}
		ev["c"] = o.C
	case "FirstLogin":
		if s := needOpen(); s != "" {
			return nil, s
		}
		ev["shape"] = o.Type + ":" + r.prev(c, -1)
		id, secret, resp, err := c.FirstConnect(o.Type)
		if err != nil {
			return nil, err.Error()
		}
		ok := resp != nil && resp.Success && id != 0
		if ok {
			w.AddClient(id, secret) // names follow issue order; a refused first connect consumes none
		}
		ev["ok"] = ok
		if ok {
			if o.Type == "control" {
				ev["okctl"] = o.C
			} else {
				ev["oktun"] = o.C
			}
		}
	case "Login":
		if s := needOpen(); s != "" {
			return nil, s
		}
		cred := w.Cred(o.ID)
		if cred == nil {
			return nil, "login for an identity the server never issued (model and server disagree on issuance)"
		}
		ev["id"] = o.ID
		ev["shape"] = o.Type + ":" + r.prev(c, cred.ID)
		ok, err := c.Login(cred.ID, cred.Secret, o.Type)
		if err != nil {
			return nil, err.Error()
		}
		ev["ok"] = ok
		if ok {
			if o.Type == "control" {
				ev["okctl"] = o.C
			} else {
				ev["oktun"] = o.C
			}
		}
	case "Knock":
		// a handshake that cannot authenticate: phase 1 for an identity nobody was issued
		if s := needOpen(); s != "" {
			return nil, s
		}
		if _, _, err := c.Phase1(900000777, "control"); err != nil {
			return nil, err.Error()
		}
	case "Close":
		if s := needOpen(); s != "" {
			return nil, s
		}
		if r.cloudDown {
			ev["shape"] = "cloud-down"
		}
		if o.How == "command" {
			// the client announces that it is leaving; the socket stays open on its side
			if _, _, err := c.Send(&packet.TransferPacket{PacketType: packet.JsonCommand,
				CommandPacket: &packet.CommandPacket{CommandType: packet.Disconnect, CommandBody: "{}"}}); err != nil {
				return nil, err.Error()
			}
			if v := w.S.View(c); v.InSession && v.InControl && !v.Closed {
				// the server took no notice: the connection is simply still open, nothing is demanded of it;
				// the peer closes the socket as in the plain Close
				ev["shape"] = "command-ignored"
			} else {
				// the server closed the connection by itself: the result is observed before the peer closes
				// the socket and before any read loop gets a chance to tidy up
				ev["shape"] = "command"
				if r.cloudDown {
					ev["shape"] = "command:cloud-down"
				}
				ev["closed"] = o.C
				cmdClosed = true
				break
			}
		}
		c.Disconnect()
		ev["closed"] = o.C
	case "Kick":
		nid := ""
		if o.New != "none" {
			nc := w.Conn(o.New)
			if nc == nil {
				nid = "not-accepted-" + o.New
			} else {
				nid = nc.ID
			}
			ev["shape"] = "new=conn"
		} else {
			ev["shape"] = "new=none"
		}
		ev["id"] = o.ID
		w.S.Kick(w.ClientID(o.ID), nid)
	case "KickBegin":
		nid := ""
		if o.New != "none" {
			if nc := w.Conn(o.New); nc != nil {
				nid = nc.ID
			} else {
				nid = "not-accepted-" + o.New
			}
			ev["shape"] = "new=conn"
		} else {
			ev["shape"] = "new=none"
		}
		ev["id"] = o.ID
		// whichever transport the kick command is written to holds it back (one-shot hooks on all
		// open transports; nothing else writes while only the kick goroutine runs)
		k := &pendingKick{release: make(chan struct{}), done: make(chan struct{})}
		parked := make(chan string, 1)
		var claimed atomic.Bool
		for _, n := range w.ConnNames {
			if tc := w.Conn(n); tc != nil && !tc.Closed() {
				name := n
				tc.T.BeforeNextWrite(func() {
					if claimed.CompareAndSwap(false, true) {
						parked <- name
						<-k.release
					}
				})
			}
		}
		id := w.ClientID(o.ID)
		go func() {
			defer close(k.done)
			defer func() { _ = recover() }() // a panic of the code under test must not kill the check; the judge sees the state
			w.S.Kick(id, nid)
		}()
		select {
		case k.conn = <-parked:
			r.kick = k
		case <-k.done:
			claimed.Store(true) // nothing to deliver: the kick is complete
		case <-time.After(10 * time.Second):
			return nil, "kick neither reached a transport nor returned"
		}
		for _, n := range w.ConnNames {
			if tc := w.Conn(n); tc != nil && n != k.conn {
				tc.T.BeforeNextWrite(nil)
			}
		}
	case "KickEnd":
		if r.kick == nil {
			return nil, "no kick outstanding (model and server disagree)"
		}
		ev["kicked"] = r.kick.conn
		if !r.finishKick() {
			return nil, "the held-back kick did not return after its transport was released"
		}
	case "SweepBegin":
		// o.C falls silent, everybody else registered keeps heartbeating: the server's own sweep goroutine
		// finds exactly o.C stale, takes it out of the registry (locked section of CleanupStale) and is held
		// in the offline notification of its callback, before CloseConnection
		r.seg()
		if !w.S.View(c).Authd {
			return nil, "sweep window on a connection that is not authenticated (model and server disagree)"
		}
		k := &pendingSweep{conn: o.C, release: make(chan struct{}), resumed: make(chan struct{})}
		parked := make(chan string, 1)
		w.S.HoldNextDisconnect(func(clientID int64, connID string) {
			parked <- connID
			<-k.release
			close(k.resumed)
		})
		last := time.Now()
		deadline := time.Now().Add(tickLength + 2*time.Second)
		got := ""
		for got == "" && time.Now().Before(deadline) {
			began := time.Now()
			r.beatAll(o.C)
			if time.Since(last) > hbTimeout/2 {
				r.overrun = true // a kept connection may have gone stale
			}
			last = began // the oldest heartbeat of this round
			select {
			case got = <-parked:
			case <-time.After(hbEvery):
			}
		}
		if got == "" {
			w.S.HoldNextDisconnect(nil)
			select {
			case got = <-parked: // it fired while we gave up
			default:
				r.overrun = true // the sweep did not come inside the timing margin: nothing of this trace is judged
				return ev, ""
			}
		}
		r.sweep = k
		if time.Since(last) > hbTimeout/2 {
			// the driver was not scheduled for too long right before the sweep came: a kept connection may have gone
			// stale and been taken out of the registry in the same pass (its callback runs after ours): not the modelled schedule
			r.overrun = true
			return ev, ""
		}
		if got != c.ID {
			r.overrun = true // the sweep reached another connection first: not the modelled schedule
			return ev, ""
		}
	case "ReReg":
		// a second ControlConnection object is registered under the connection's id (ClientRegistry.Register
		// "already exists, replacing"): with the stream of the registered object, or with a stream of its own over the same socket
		if s := needOpen(); s != "" {
			return nil, s
		}
		old := w.S.SM.GetControlConnection(c.ID)
		if old == nil {
			return nil, "re-registration of a connection that is not registered (model and server disagree)"
		}
		ev["shape"] = o.How + ":" + r.prev(c, -1)
		st := old.Stream
		if o.How != "same" {
			st = stream.NewStreamProcessor(c.T, c.T, w.S.Ctx)
		}
		w.S.SM.RegisterControlConnection(session.NewControlConnection(c.ID, st, old.RemoteAddr, "tcp"))
	case "LoginLost", "LoginHold":
		if s := needOpen(); s != "" {
			return nil, s
		}
		cred := w.Cred(o.ID)
		if cred == nil {
			return nil, "login for an identity the server never issued (model and server disagree on issuance)"
		}
		ev["id"] = o.ID
		ch, _, err := c.Phase1(cred.ID, "control")
		if err != nil || ch == "" {
			return nil, fmt.Sprintf("no challenge for a correct login (%v)", err)
		}
		if o.Op == "LoginLost" {
			// the success response cannot be delivered: the send side of the socket is broken, the transport stays open
			ev["shape"] = "control:response-lost"
			c.T.FailNextWrite()
			resp, err := c.Phase2(cred.ID, srvkit.HMAC(cred.Secret, ch), "control")
			if err != nil {
				return nil, err.Error()
			}
			if resp != nil {
				return nil, "the response was delivered although its write was made to fail"
			}
			ev["ok"] = false
			break
		}
		ev["shape"] = "control:response-held"
		k := &pendingLogin{conn: o.C, release: make(chan struct{}), done: make(chan bool, 1)}
		parked := make(chan struct{}, 1)
		c.T.AfterNextPacket(func() {
			parked <- struct{}{}
			<-k.release
		})
		go func() {
			defer func() {
				if x := recover(); x != nil { // a panic of the code under test must not kill the check; the judge sees the state
					k.done <- false
				}
			}()
			resp, err := c.Phase2(cred.ID, srvkit.HMAC(cred.Secret, ch), "control")
			k.done <- err == nil && resp != nil && resp.Success
		}()
		select {
		case <-parked:
			r.hold = k
		case <-k.done:
			return nil, "the held login returned without writing a response packet"
		case <-time.After(10 * time.Second):
			return nil, "the held login neither wrote its response nor returned"
		}
	case "LoginResume":
		if r.hold == nil {
			return nil, "no login held (model and server disagree)"
		}
		ev["c"] = r.hold.conn
		ev["shape"] = "control:resumed"
		name := r.hold.conn
		ok, returned := r.finishLogin()
		if !returned {
			return nil, "the held login did not return after its response write was released"
		}
		ev["ok"] = ok
		if ok {
			ev["okctl"] = name
		}
	case "SweepEnd":
		if r.sweep == nil {
			return nil, "no sweep outstanding (model and server disagree)"
		}
		ev["kicked"] = r.sweep.conn
		r.beatAll(r.sweep.conn) // the window may have lasted longer than a timeout: everybody is fresh when the sweeper resumes
		if !r.finishSweep() {
			return nil, "the held sweep did not resume after its notification was released"
		}
		r.beatAll("")
		r.segStart = time.Now()
	case "Cloud":
		// outage of the cloud-control runtime-state calls (fault point of close / sweep / heartbeat)
		r.cloudDown = o.To == "down"
		w.S.SetCloudOutage(r.cloudDown)
		ev["shape"] = o.To
	case "Heartbeat":
		if s := needOpen(); s != "" {
			return nil, s
		}
		if err := c.Heartbeat(); err != nil {
			return nil, err.Error()
		}
	case "Unregister":
		w.S.UnregisterForTunnel(c.ID)
		ev["unreg"] = o.C
	case "Tick":
		r.seg()
		ev["shape"] = fmt.Sprintf("keep=%d", len(o.Keep))
		keep := map[string]bool{}
		for _, n := range o.Keep {
			keep[n] = true
		}
		// everybody registered and not kept alive goes stale and must be swept by the server's own
		// sweep goroutine during the tick
		var targets []*srvkit.Conn
		for _, n := range w.ConnNames {
			if tc := w.Conn(n); tc != nil && !keep[n] && w.S.View(tc).InControl {
				targets = append(targets, tc)
			}
		}
		last := time.Now()
		beat := func() {
			for _, n := range o.Keep {
				if kc := w.Conn(n); kc != nil && !kc.Closed() {
					_ = kc.Heartbeat()
				}
			}
			if time.Since(last) > hbTimeout/2 {
				r.overrun = true // a kept connection may have gone stale: nothing of this trace is judged
			}
			last = time.Now()
		}
		end := time.Now().Add(tickLength)
		for time.Now().Before(end) {
			beat()
			time.Sleep(hbEvery)
		}
		// The sweep is a multi-step operation of a server goroutine (drop from the registry, then
		// CloseConnection). A projection taken in the middle of it is not "after the connection
		// was evicted": wait until it is over. Still registered after the grace period = the sweep
		// did not run inside the timing margin (inconclusive); dropped from the registry but
		// transport/session entry still there after the grace period = left to the judge.
		grace := time.Now().Add(2 * time.Second)
		for {
			pending, registered := false, false
			for _, tc := range targets {
				v := w.S.View(tc)
				if v.InControl {
					registered = true
				}
				if v.InControl || v.InSession || !v.Closed {
					pending = true
				}
			}
			if !pending {
				break
			}
			if time.Now().After(grace) {
				if registered {
					r.overrun = true
				}
				break
			}
			beat()
			time.Sleep(hbEvery / 3)
		}
		beat()
		r.segStart = time.Now()
	default:
		return nil, "unknown operation " + o.Op
	}
	if r.kick != nil {
		ev["kicking"] = r.kick.conn // the eviction of this connection is in progress, not completed
	}
	if r.sweep != nil {
		ev["kicking"] = r.sweep.conn // likewise: swept out of the registry, its callback has not closed it yet
	}
	if cmdClosed {
		ev["proj"] = w.Projection()
		c.T.Close() // now the peer's end
		w.S.Reap()
		return ev, ""
	}
	if o.Op == "Tick" {
		// The heartbeat-timeout sweep evicts connections whose peer is silent; it must finish the
		// eviction itself (cleanupStaleConnections calls CloseConnection for every stale entry):
		// its result is observed before any read loop gets a chance to tidy up after it.
		ev["proj"] = w.Projection()
		w.S.Reap()
		return ev, ""
	}
	w.S.Reap()
	ev["proj"] = w.Projection()
	return ev, ""
}

func newServer(timed bool, cap int, maxFail int) (*srvkit.Server, error) {
	// sequential behaviours: brute-force threshold = model constant MaxFail (Session_c07*.cfg)
	o := srvkit.Options{MaxControlConnections: cap, BruteForce: &security.BruteForceConfig{MaxFailures: maxFail,
		TimeWindow: time.Hour, BanDuration: time.Hour, PermanentBanAt: 1000, CleanupInterval: time.Hour}}
	if timed {
		o.HeartbeatTimeout, o.CleanupInterval = hbTimeout, hbSweep
	} else {
		o.HeartbeatTimeout, o.CleanupInterval = time.Hour, time.Hour
	}
	return srvkit.NewServer(o)
}

func driveSeq(ops []opT) *fw.Trace {
	if len(ops) == 0 || ops[0].Exp == nil {
		return &fw.Trace{Status: fw.DriverError, Note: "behaviour without model projection"}
	}
	timed := hasTick(ops)
	s, err := newServer(timed, ops[0].Exp.Cap, 3)
	if err != nil {
		return &fw.Trace{Status: fw.DriverError, Note: err.Error()}
	}
	defer s.Close()
	r := &runner{w: srvkit.NewWorld(s, keys(ops[0].Exp.Auth), keys(ops[0].Exp.Idx)), timed: timed, segStart: time.Now()}
	defer r.finishKick()
	defer r.finishSweep()
	defer r.finishLogin()
	if len(ops[0].Exp.Sess) > 0 && ops[0].Op != "Accept" { // configurations with PreAccept = TRUE
		for _, n := range r.w.ConnNames {
			if _, err := r.w.Accept(n); err != nil {
				return &fw.Trace{Status: fw.DriverError, Note: err.Error()}
			}
		}
	}
	t := &fw.Trace{Status: fw.Realised}
	mism := 0
	for i, o := range ops {
		ev, why, px := r.safeStep(o)
		if px != nil {
			if timed {
				// the server's own sweep goroutine runs beside the driver in these behaviours; tunnox-core
				// panics when it closes a stream that an operation is writing to (known finding of C16,
				// StreamProcessor teardown) - which only happens when a connection went stale although the
				// model keeps it alive, i.e. after a timing overrun: nothing of this trace is judged
				codePanics.Add(1)
				msg := fmt.Sprint(px)
				firstPanic.CompareAndSwap(nil, &msg)
				return &fw.Trace{Status: fw.Inconclusive, Note: "tunnox-core panicked beside the sweep goroutine (timing margin overrun): " + msg}
			}
			return &fw.Trace{Status: fw.DriverError, Note: fmt.Sprintf("panic in step %d (%s): %v\n%s", i+1, o.Op, px, debug.Stack())}
		}
		if ev == nil {
			// the real server is in a state from which the model's next operation cannot be
			// performed (it diverged from the model earlier): judge the prefix
			t.Note = fmt.Sprintf("stopped before step %d (%s): %s", i+1, o.Op, why)
			break
		}
		if r.overrun {
			return &fw.Trace{Status: fw.Inconclusive, Note: "timing margin overrun"}
		}
		bindingSteps.Add(1)
		if !binding(ev["proj"].(map[string]any), o.Exp) {
			mism++
		}
		t.Events = append(t.Events, ev)
	}
	r.seg()
	if r.overrun {
		return &fw.Trace{Status: fw.Inconclusive, Note: "timing margin overrun"}
	}
	if mism > 0 {
		bindingMismatch.Add(1)
		t.Note += fmt.Sprintf(" [binding: %d steps differ from the model]", mism)
	}
	if len(t.Events) == 0 {
		return &fw.Trace{Status: fw.Unrealisable, Note: t.Note}
	}
	return t
}

// ---------------------------------------------------------------------------------------------
// concurrent mode

// rendezvous releases n goroutines together: busy-wait on a flag (a channel wake-up goes
// through the scheduler and spreads the goroutines over microseconds), then an optional random
// busy-wait so that over many rounds every relative offset of the racing sections occurs.
type rendezvous struct {
	n    int32
	seen atomic.Int32
	open atomic.Bool
	rnd  *lockedRand
}

type lockedRand struct {
	mu sync.Mutex
	r  interface{ Intn(int) int }
}

func (l *lockedRand) intn(n int) int {
	l.mu.Lock()
	defer l.mu.Unlock()
	return l.r.Intn(n)
}

func (b *rendezvous) wait(jitter int) {
	if b.seen.Add(1) >= b.n {
		b.open.Store(true)
	}
	start := time.Now()
	for i := 0; !b.open.Load(); i++ {
		if i%64 == 63 {
			if time.Since(start) > 200*time.Millisecond { // a partner failed before it got here: do not hang
				break
			}
			runtime.Gosched()
		}
	}
	if jitter > 0 {
		d := time.Duration(b.rnd.intn(jitter))
		for t0 := time.Now(); time.Since(t0) < d; {
		}
	}
}

func drivePar(env *fw.Env, p parT) *fw.Trace {
	t := &fw.Trace{Status: fw.Realised}
	clientNames := []string{"A", "B"}
	type cred struct {
		id     int64
		secret string
	}
	var s *srvkit.Server
	creds := map[string]cred{}
	// boot: a fresh server (rounds with losing handshakes must never add up to a ban: threshold out
	// of reach) with one identity per client name, issued on a bootstrap connection that is closed
	boot := func() error {
		if s != nil {
			s.Close()
		}
		var err error
		if s, err = newServer(false, 0, 1<<30); err != nil {
			return err
		}
		for i, n := range clientNames {
			bc, err := s.NewConn(fmt.Sprintf("10.8.0.%d", i+1))
			if err != nil {
				return err
			}
			id, secret, _, err := bc.FirstConnect("control")
			if err != nil || id == 0 {
				return fmt.Errorf("bootstrap first connect failed")
			}
			creds[n] = cred{id, secret}
			bc.Disconnect()
		}
		return nil
	}
	if err := boot(); err != nil {
		return &fw.Trace{Status: fw.DriverError, Note: err.Error()}
	}
	defer func() { s.Close() }()
	rnd := &lockedRand{r: fw.NewRand(env.Seed*7919 + int64(len(p.Name)))}
	for round := 0; round < p.Rounds; round++ {
		if round > 0 && round%300 == 0 { // the kit remembers every connection it accepted: start afresh now and then
			if err := boot(); err != nil {
				return &fw.Trace{Status: fw.DriverError, Note: err.Error()}
			}
		}
		connNames := []string{}
		for gi := range p.Par {
			connNames = append(connNames, fmt.Sprintf("c%d", gi+1))
		}
		w := srvkit.NewWorld(s, connNames, clientNames)
		// the world's name table is per round: register the identities under their names
		for _, n := range clientNames {
			w.AddClient(creds[n].id, creds[n].secret)
		}
		for _, n := range connNames {
			if _, err := w.Accept(n); err != nil {
				return &fw.Trace{Status: fw.DriverError, Note: err.Error()}
			}
		}
		// participants of the rendezvous: scripts with a waiting Login (Barrier scenarios) or a Sync
		parts := int32(0)
		for _, script := range p.Par {
			for _, o := range script {
				if o.Op == "Sync" || (o.Op == "Login" && p.Barrier && !o.NB) {
					parts++
					break
				}
			}
		}
		rv := &rendezvous{n: parts, rnd: rnd}
		var mu sync.Mutex
		logged, closed, ctl := []string{}, []string{}, []string{}
		var panics []string
		var wg sync.WaitGroup
		for gi, script := range p.Par {
			wg.Add(1)
			go func(gi int, script []opT) {
				defer wg.Done()
				defer func() {
					// a panic of the code under test in a goroutine of ours would kill the whole
					// check; it is not a C07 observation (the real server would have crashed): the
					// round is dropped and the panic reported as a note
					if x := recover(); x != nil {
						mu.Lock()
						panics = append(panics, fmt.Sprint(x))
						mu.Unlock()
					}
				}()
				c := w.Conn(connNames[gi])
				for _, o := range script {
					switch o.Op {
					case "Login":
						cr := creds[o.ID]
						ch, _, err := c.Phase1(cr.id, "control")
						if err != nil || ch == "" {
							continue
						}
						if p.Barrier && !o.NB {
							// the next packet on this transport is the success response; its last Write is
							// the last thing sendHandshakeResponse does before the registry section
							jit := o.Jit
							c.T.AfterNextPacket(func() { rv.wait(jit) })
						}
						resp, err := c.Phase2(cr.id, srvkit.HMAC(cr.secret, ch), "control")
						if err == nil && resp != nil && resp.Success {
							mu.Lock()
							logged = append(logged, connNames[gi])
							ctl = append(ctl, connNames[gi])
							mu.Unlock()
						}
					case "Close":
						if !c.Closed() {
							c.Disconnect()
						}
						mu.Lock()
						closed = append(closed, connNames[gi])
						mu.Unlock()
					case "Heartbeat":
						_ = c.Heartbeat()
					case "Sync":
						rv.wait(o.Jit)
					case "CloseConn":
						// what the stale sweep does to connection o.C from its own goroutine:
						// SessionManager.CloseConnection (registry entry, session entry, transport)
						if tc := w.Conn(o.C); tc != nil {
							tc.Disconnect()
							mu.Lock()
							closed = append(closed, o.C)
							mu.Unlock()
						}
					case "SweepNow":
						s.SweepNow()
					case "Kick":
						s.Kick(creds[o.ID].id, "")
					}
				}
			}(gi, script)
		}
		wg.Wait()
		if len(panics) > 0 {
			codePanics.Add(int64(len(panics)))
			firstPanic.CompareAndSwap(nil, &panics[0])
			// the panicking call may have skipped its clean-up: continue on a fresh server
			if err := boot(); err != nil {
				return &fw.Trace{Status: fw.DriverError, Note: err.Error()}
			}
			continue
		}
		s.Reap()
		sort.Strings(logged)
		sort.Strings(closed)
		sort.Strings(ctl)
		t.Events = append(t.Events, fw.Event{"ev": "Par", "shape": p.Name, "round": round,
			"ctlset": ctl, "closedset": closed, "loggedin": logged, "proj": w.Projection()})
		// leave a clean server for the next round
		for _, n := range connNames {
			if c := w.Conn(n); !c.Closed() {
				c.Disconnect()
			}
		}
		s.Reap()
	}
	return t
}

// ---------------------------------------------------------------------------------------------

func drive(env *fw.Env, b fw.Behaviour) *fw.Trace {
	if len(b.Data) > 0 && b.Data[0] == '{' {
		var p parT
		if err := json.Unmarshal(b.Data, &p); err != nil {
			return &fw.Trace{Status: fw.DriverError, Note: err.Error()}
		}
		return drivePar(env, p)
	}
	var ops []opT
	if err := json.Unmarshal(b.Data, &ops); err != nil {
		return &fw.Trace{Status: fw.DriverError, Note: err.Error()}
	}
	return driveSeq(ops)
}

func login(id string) opT { return opT{Op: "Login", ID: id, Type: "control"} }

func parBehaviours(env *fw.Env) []json.RawMessage {
	rounds, races := 120, 1500
	if env.Tier == "thorough" {
		rounds, races = 1500, 20000
	}
	const j = 3000 // ns of random offset between the racing sections
	lj := func(id string) opT { return opT{Op: "Login", ID: id, Type: "control", Jit: j} }
	first := opT{Op: "Login", ID: "A", Type: "control", NB: true}
	sync := opT{Op: "Sync", Jit: j}
	ps := []parT{
		{Name: "2xLogin(A)+barrier", Barrier: true, Rounds: rounds, Par: [][]opT{{login("A")}, {login("A")}}},
		{Name: "3xLogin(A)+barrier", Barrier: true, Rounds: rounds, Par: [][]opT{{login("A")}, {login("A")}, {login("A")}}},
		{Name: "2xLogin(A)+barrier+jitter", Barrier: true, Rounds: races / 2, Par: [][]opT{{lj("A")}, {lj("A")}}},
		{Name: "Login(A)|Login(A);Close", Rounds: rounds, Par: [][]opT{{login("A")}, {login("A"), {Op: "Close"}}}},
		{Name: "Login(A)|Login(B)|Kick(A)", Rounds: rounds, Par: [][]opT{{login("A")}, {login("B")}, {{Op: "Kick", ID: "A"}, {Op: "Heartbeat"}}}},
		{Name: "Login(A);Heartbeat|Login(A);Close|Kick(A)", Rounds: rounds, Par: [][]opT{{login("A"), {Op: "Heartbeat"}}, {login("A"), {Op: "Close"}}, {{Op: "Kick", ID: "A"}}}},
		// handshake completion of c1 racing with the removal of the SAME connection by another goroutine
		// (released together right before c1's registry section, random offsets)
		{Name: "Login(c1,A)+barrier|SweepNow", Barrier: true, Rounds: races, Par: [][]opT{{lj("A")}, {sync, {Op: "SweepNow"}}}},
		{Name: "Login(c1,A);Login(c1,A)+barrier|Kick(A)", Barrier: true, Rounds: races, Par: [][]opT{{first, lj("A")}, {sync, {Op: "Kick", ID: "A"}}}},
		{Name: "Login(c1,A)+barrier|CloseConn(c1)", Barrier: true, Rounds: races / 3, Par: [][]opT{{lj("A")}, {sync, {Op: "CloseConn", C: "c1"}}}},
	}
	var out []json.RawMessage
	for _, p := range ps {
		out = append(out, fw.MustJSON(p))
	}
	return out
}

func clone(t *fw.Trace, id int) *fw.Trace {
	var evs []fw.Event
	if err := json.Unmarshal(fw.MustJSON(t.Events), &evs); err != nil {
		panic(err)
	}
	return &fw.Trace{Beh: fw.Behaviour{ID: id, Src: "selftest", Data: t.Beh.Data}, Status: fw.Realised, Events: evs}
}

// selfTest corrupts accepted traces in ways every one of which contradicts the C07 statement.
func selfTest(env *fw.Env, acc []*fw.Trace) []*fw.Trace {
	var out []*fw.Trace
	id := 9000000
	kinds := 0
	// an eviction in two parts (kick / sweep window) that has ended without closing the evicted transport
	windows := 0
	for _, t := range acc {
		if windows >= 6 {
			break
		}
		for i, e := range t.Events {
			k, _ := e["kicked"].(string)
			p, _ := e["proj"].(map[string]any)
			if k == "" || p == nil {
				continue
			}
			cv, _ := p["conns"].(map[string]any)[k].(map[string]any)
			if cv == nil || cv["tcl"] != true || cv["reg"] == true {
				continue
			}
			id++
			c := clone(t, id)
			c.Events[i]["proj"].(map[string]any)["conns"].(map[string]any)[k].(map[string]any)["tcl"] = false
			out = append(out, c)
			windows++
			break
		}
	}
	for _, t := range acc {
		if len(out) >= 30 {
			break
		}
		for i := len(t.Events) - 1; i >= 0; i-- {
			p, _ := t.Events[i]["proj"].(map[string]any)
			if p == nil || t.Events[i]["ev"] != "Op" {
				continue
			}
			var hit, regc string
			for x, v := range p["lookup"].(map[string]any) {
				if v.(map[string]any)["c"] != "none" {
					hit = x
				}
			}
			for c, v := range p["conns"].(map[string]any) {
				if v.(map[string]any)["reg"] == true {
					regc = c
				}
			}
			if hit == "" || regc == "" {
				continue
			}
			mut := func(f func(p map[string]any)) {
				id++
				c := clone(t, id)
				f(c.Events[i]["proj"].(map[string]any))
				out = append(out, c)
			}
			switch kinds % 5 {
			case 0: // lookup returns a connection that belongs to somebody else
				mut(func(p map[string]any) { p["lookup"].(map[string]any)[hit].(map[string]any)["cid"] = "Z" })
			case 1: // lookup returns an unauthenticated connection
				mut(func(p map[string]any) { p["lookup"].(map[string]any)[hit].(map[string]any)["authd"] = false })
			case 2: // a registered connection's transport is closed
				mut(func(p map[string]any) { p["conns"].(map[string]any)[regc].(map[string]any)["tcl"] = true })
			case 4: // the index points at something else than the registered connection of that id (by id it is not authenticated)
				mut(func(p map[string]any) {
					c := p["lookup"].(map[string]any)[hit].(map[string]any)["c"].(string)
					p["conns"].(map[string]any)[c].(map[string]any)["authd"] = false
				})
			case 3: // a count is off by one
				mut(func(p map[string]any) { p["total"] = p["total"].(float64) + 1 })
			}
			kinds++
			break
		}
	}
	return out
}

func withTimeout(d time.Duration, jobs []fw.TLCJob) []fw.TLCJob {
	for i := range jobs {
		jobs[i].Timeout = d
	}
	return jobs
}

func main() {
	// the tree the model describes: tunnox-core with patches/C07-1 and C07-2 (the configurations
	// with FIXES = {} / {"oneIdentity"} document the tree before them, invariants masked by the
	// named deviations)
	fixes := `{"oneIdentity", "atomicEvict"}`
	fw.Main(&fw.Property{
		ID:        "C07",
		DesignRef: "DESIGN.md §5 C07",
		ModelJobs: func(env *fw.Env) []fw.TLCJob {
			to := 40 * time.Minute // generous: the machine may be shared
			strict := "C07Inv C07One"
			if env.Tier != "thorough" {
				return withTimeout(to, []fw.TLCJob{
					{Name: "registry ops depth 8 (strict invariants)", Module: "SessionReg", Cfg: "SessionReg_c07.cfg",
						Consts: map[string]string{"FIXES": fixes, "LEVEL": "8", "EMIT": `"no"`, "INV": strict}},
					{Name: "registry ops at the control-connection cap depth 8", Module: "Session", Cfg: "Session_cap.cfg",
						Consts: map[string]string{"FIXES": fixes, "LEVEL": "8", "EMIT": `"no"`}},
					{Name: "kick in two parts (locked section, then I/O), complete", Module: "Session", Cfg: "Session_kick.cfg",
						Consts: map[string]string{"FIXES": fixes, "FAULTS": "{}", "CLIENT": "Client2", "VIEW": "VIEW view", "LEVEL": "99", "EMIT": `"no"`}},
					{Name: "interleaved critical sections depth 8 (strict invariants)", Module: "Session", Cfg: "Session_split.cfg",
						Consts: map[string]string{"FIXES": fixes, "FAULTS": "{}", "LEVEL": "8", "INV": strict}},
					{Name: "sweep in two parts (locked section, then callback) with kicks, and sweep under a cloud outage, one client, complete", Module: "SessionReg", Cfg: "SessionReg_sweep.cfg",
						Consts: map[string]string{"FIXES": fixes, "FAULTS": "{}", "CLIENT": "Client1", "VIEW": "VIEW viewX", "LEVEL": "99", "EMIT": `"no"`,
							"OPS": `{"FirstLogin", "Login", "Close", "Kick", "SweepBegin", "TickX", "Cloud"}`}},
					{Name: "re-registration of an existing connection id, one client, complete", Module: "SessionReg", Cfg: "SessionReg_rereg.cfg",
						Consts: map[string]string{"FIXES": fixes, "FAULTS": "{}", "CLIENT": "Client1", "VIEW": "VIEW viewX", "LEVEL": "99", "EMIT": `"no"`}},
					{Name: "authenticated-but-unindexed connections (tunnel type, lost / held response) and every removal path, one client, complete", Module: "SessionReg", Cfg: "SessionReg_dup.cfg",
						Consts: map[string]string{"FIXES": fixes, "FAULTS": "{}", "CLIENT": "Client1", "VIEW": "VIEW viewX", "LEVEL": "99", "EMIT": `"no"`, "OPS": `{"FirstLogin", "Login", "LoginLost", "LoginHold", "Close", "CloseCmd", "Kick", "SweepBegin"}`}},
				})
			}
			return withTimeout(to, []fw.TLCJob{ // LEVEL 99 = complete state graph
				{Name: "registry ops depth 10 (strict invariants)", Module: "SessionReg", Cfg: "SessionReg_c07.cfg",
					Consts: map[string]string{"FIXES": fixes, "LEVEL": "10", "EMIT": `"no"`, "INV": strict}},
				{Name: "registry ops at the control-connection cap, complete", Module: "Session", Cfg: "Session_cap.cfg",
					Consts: map[string]string{"FIXES": fixes, "LEVEL": "99", "EMIT": `"no"`}},
				{Name: "kick in two parts (locked section, then I/O), complete", Module: "Session", Cfg: "Session_kick.cfg",
					Consts: map[string]string{"FIXES": fixes, "FAULTS": "{}", "CLIENT": "Client2", "VIEW": "VIEW view", "LEVEL": "99", "EMIT": `"no"`}},
				{Name: "interleaved critical sections, complete (strict invariants)", Module: "Session", Cfg: "Session_split.cfg",
					Consts: map[string]string{"FIXES": fixes, "FAULTS": "{}", "LEVEL": "99", "INV": strict}},
				{Name: "sweep in two parts (locked section, then callback) with kicks, and sweep under a cloud outage, two clients, complete", Module: "SessionReg", Cfg: "SessionReg_sweep.cfg",
					Consts: map[string]string{"FIXES": fixes, "FAULTS": "{}", "CLIENT": "Client2", "VIEW": "VIEW viewX", "LEVEL": "99", "EMIT": `"no"`,
						"OPS": `{"FirstLogin", "Login", "Close", "Kick", "SweepBegin", "TickX", "Cloud"}`}},
				{Name: "authenticated-but-unindexed connections (tunnel type, lost / held response) and every removal path, two clients, complete", Module: "SessionReg", Cfg: "SessionReg_dup.cfg",
					Consts: map[string]string{"FIXES": fixes, "FAULTS": "{}", "CLIENT": "Client2", "VIEW": "VIEW viewX", "LEVEL": "99", "EMIT": `"no"`, "OPS": `{"FirstLogin", "Login", "LoginLost", "LoginHold", "Close", "CloseCmd", "Kick", "SweepBegin"}`}},
				{Name: "re-registration of an existing connection id, two clients, complete", Module: "SessionReg", Cfg: "SessionReg_rereg.cfg",
					Consts: map[string]string{"FIXES": fixes, "FAULTS": "{}", "CLIENT": "Client2", "VIEW": "VIEW viewX", "LEVEL": "99", "EMIT": `"no"`}},
				{Name: "tree before patches C07-1/C07-2, depth 8 (invariants masked by the named deviations)", Module: "Session", Cfg: "Session_c07.cfg",
					Consts: map[string]string{"FIXES": "{}", "LEVEL": "8", "EMIT": `"no"`, "INV": "C07InvMasked C07OneMasked"}},
				{Name: "interleaved critical sections before C07-2, depth 14 (login race masked)", Module: "Session", Cfg: "Session_split.cfg",
					Consts: map[string]string{"FIXES": `{"oneIdentity"}`, "FAULTS": "{}", "LEVEL": "14", "INV": "C07Inv C07OneMasked"}},
			})
		},
		GenJobs: func(env *fw.Env) []fw.TLCJob {
			lv, lvCap, lvKick, lvSweep, cfg, sims, depth := "6", "6", "5", "6", "SessionReg_c07.cfg", "num=300", 14
			if env.Tier == "thorough" {
				lv, lvCap, lvKick, lvSweep, cfg, sims, depth = "7", "8", "6", "7", "SessionReg_c07t.cfg", "num=3000", 20
			}
			sweepOps := `{"FirstLogin", "Login", "Close", "CloseCmd", "SweepBegin"}`
			jobs := []fw.TLCJob{
				{Name: "gen:transitions", Module: "SessionReg", Cfg: cfg, Workers: 8,
					Consts: map[string]string{"FIXES": fixes, "LEVEL": lv, "EMIT": `"all"`, "INV": "C07Inv C07One"}},
				{Name: "gen:cap", Module: "Session", Cfg: "Session_cap.cfg", Workers: 8,
					Consts: map[string]string{"FIXES": fixes, "LEVEL": lvCap, "EMIT": `"all"`}},
				// all operation histories to the depth bound (no VIEW: path-dependent faults), one client, one
				// representative per renaming of the pre-accepted connections (EMIT "canon"): the whole set is driven
				{Name: "gen:kick", Module: "SessionReg", Cfg: "SessionReg_kick.cfg", Workers: 8,
					Consts: map[string]string{"FIXES": fixes, "FAULTS": "{}", "CLIENT": "Client1", "VIEW": "", "LEVEL": lvKick, "EMIT": `"canon"`}},
				{Name: "gen:sweep", Module: "SessionReg", Cfg: "SessionReg_sweep.cfg", Workers: 8,
					Consts: map[string]string{"FIXES": fixes, "FAULTS": "{}", "CLIENT": "Client1", "VIEW": "", "LEVEL": lvSweep, "EMIT": `"canon"`, "OPS": sweepOps}},
				// (base module: TLC's simulator picks one action instance per step there; the conjunction in SessionReg!NextX
				// would make it enumerate and print every successor of the last step)
				{Name: "gen:simulate", Module: "Session", Cfg: strings.Replace(cfg, "SessionReg_", "Session_", 1), Workers: 4, Simulate: sims, Depth: depth + 1, Seed: env.Seed,
					Consts: map[string]string{"FIXES": fixes, "LEVEL": fmt.Sprint(depth), "EMIT": `"last"`, "INV": "C07Inv C07One"}},
			}
			// connections authenticated for a client but not indexed, next to the client's indexed one: all canonical histories
			jobs = append(jobs, fw.TLCJob{Name: "gen:dup", Module: "SessionReg", Cfg: "SessionReg_dup.cfg", Workers: 8,
				Consts: map[string]string{"FIXES": fixes, "FAULTS": "{}", "CLIENT": "Client1", "VIEW": "", "LEVEL": "4", "EMIT": `"canon"`, "OPS": `{"FirstLogin", "Login", "LoginLost", "LoginHold", "Close", "CloseCmd", "Kick", "SweepBegin"}`}})
			// re-registration of an existing connection id, all canonical histories
			jobs = append(jobs, fw.TLCJob{Name: "gen:rereg", Module: "SessionReg", Cfg: "SessionReg_rereg.cfg", Workers: 8,
				Consts: map[string]string{"FIXES": fixes, "FAULTS": "{}", "CLIENT": "Client1", "VIEW": "", "LEVEL": "4", "EMIT": `"canon"`}})
			if env.Tier == "thorough" {
				jobs = append(jobs, fw.TLCJob{Name: "gen:dup5", Module: "SessionReg", Cfg: "SessionReg_dup.cfg", Workers: 8,
					Consts: map[string]string{"FIXES": fixes, "FAULTS": "{}", "CLIENT": "Client1", "VIEW": "", "LEVEL": "5", "EMIT": `"canon"`,
						"OPS": `{"FirstLogin", "Login", "LoginLost", "LoginHold", "Close", "CloseCmd", "SweepBegin"}`}})
			}
			if env.Tier == "thorough" { // kicks inside the sweep window as well
				jobs = append(jobs, fw.TLCJob{Name: "gen:sweepkick", Module: "SessionReg", Cfg: "SessionReg_sweep.cfg", Workers: 8,
					Consts: map[string]string{"FIXES": fixes, "FAULTS": "{}", "CLIENT": "Client1", "VIEW": "", "LEVEL": "5", "EMIT": `"canon"`,
						"OPS": `{"FirstLogin", "Login", "Close", "Kick", "SweepBegin"}`}})
			}
			return withTimeout(40*time.Minute, jobs)
		},
		MaxBehSrc: func(env *fw.Env, src string) int {
			if env.Tier == "thorough" {
				return map[string]int{"gen:transitions": 30000, "gen:cap": 12000, "gen:kick": 15000, "gen:simulate": 8000, "gen:sweep": 6000, "gen:sweepkick": 6000, "gen:dup": 6000, "gen:dup5": 8000, "gen:rereg": 6000}[src]
			}
			return map[string]int{"gen:transitions": 2600, "gen:cap": 900, "gen:kick": 2000, "gen:simulate": 600, "gen:sweep": 1200, "gen:dup": 6000, "gen:rereg": 6000}[src]
		},
		ExtraBeh:    parBehaviours,
		Drive:       drive,
		Parallel:    48,
		JudgeModule: "SessionTraceReg",
		JudgeCfg:    "SessionTraceReg.cfg",
		SelfTest:    selfTest,
		PostDrive: func(env *fw.Env, ts []*fw.Trace) error {
			fmt.Printf("[binding] %d of %d sequential behaviours left the model's predicted state at some step (%d steps compared)\n",
				bindingMismatch.Load(), len(ts), bindingSteps.Load())
			if n := codePanics.Load(); n > 0 {
				fmt.Printf("[note] %d concurrent rounds / timed behaviours dropped because tunnox-core panicked in a driver goroutine (not a C07 observation), first: %s\n", n, *firstPanic.Load())
			}
			return nil
		},
		NonTrivial: func(t *fw.Trace) bool { return len(t.Events) >= 3 },
		Rule: "one behaviour per transition (state, operation) of the Session registry state graph to the depth bound, plus random deep histories, " +
			"each replayed on the real SessionManager with the full registry projection judged after every operation; " +
			"all canonical operation histories to the depth bound with a kick or a heartbeat-timeout sweep held between its locked section and its I/O (SessionReg.tla); " +
			"concurrent login/close/kick rounds judged at quiescence; non-trivial = at least 3 operations",
		Assumptions: []string{
			"the protocol adapter's read loop is emulated: HandlePacket per packet, CloseConnection when the transport is closed (adapter.cleanupConnection)",
			"heartbeat timeouts are realised with HeartbeatTimeout=120ms and the real sweep ticker; behaviours that overran the margin are discarded",
			"the control-connection cap is exercised with MaxControlConnections = 2 (Session_cap.cfg); the brute-force threshold is 3 failures (model constant MaxFail)",
			"concurrent rounds racing a handshake with the removal of the same connection use ClientRegistry.CleanupStale(0, CloseConnection) for the sweep at a chosen instant",
			"a kick is held between its locked section and its I/O by a one-shot hook in the old peer's fake transport (KickBegin/KickEnd); a cloud-control outage fails DisconnectClient(IfMatch)/EnsureClientOnline of the session layer's adapter",
			"UnregisterForTunnel is driven through ClientRegistry.Unregister directly (what handleTunnelOpen calls), not through a full tunnel open",
			"the sweep window is realised on the server's own sweep goroutine: it is parked in the offline notification of its callback (DisconnectClientIfMatch of the session layer's cloud-control adapter, one-shot hold) for one stale authenticated connection; other connections are kept alive by heartbeats",
			"LoginLost = a correct control-type login whose success response write is made to fail once by the fake transport (send side broken, transport open); LoginHold/LoginResume = the same login with its goroutine parked right after the response write, before handleHandshake's registry section; operations in that window concern other connections only",
			"ReReg registers a second ControlConnection object under an existing connection id through SessionManager.RegisterControlConnection (same stream object, or a new StreamProcessor over the same fake transport)",
			"Close with how=command is the client's Disconnect command (handleDisconnectCommand -> CloseConnection), observed before the peer closes its socket; a command the server ignores demands nothing",
			"a panic of tunnox-core beside the sweep goroutine in a timed behaviour (stream closed under a writer after a timing overrun; StreamProcessor teardown, known finding of C16) discards the behaviour as inconclusive",
		},
		TrustedBase: []string{"TLC", "spec/SessionTraceReg.tla as the reading of the C07 statement", "srvkit fake transport and name mapping"},
	})
}
