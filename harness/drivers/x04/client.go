package main

// Client world: a real TunnoxClient whose control connection is an in-memory socket to a fake server
// that speaks the real stream protocol.  The client's own readLoop goroutine reads the responses and
// runs the real ResponseManager.HandleResponse; callers run the real sendCommandAndWaitResponseWithContext.

import (
	"context"
	"encoding/json"
	"errors"
	"fmt"
	"io"
	"math/rand"
	"net"
	"runtime"
	"runtime/debug"
	"strings"
	"sync"
	"sync/atomic"
	"time"
	"unsafe"
	_ "unsafe" // go:linkname

	"tunnox-core/internal/client"
	clientcmd "tunnox-core/internal/client/command"
	"tunnox-core/internal/packet"
	"tunnox-core/internal/stream"
	"tunnox-core/verifharness/fw"
	"tunnox-core/verifharness/sched"
)

//go:linkname sendCommandAndWait tunnox-core/internal/client.(*TunnoxClient).sendCommandAndWaitResponseWithContext
func sendCommandAndWait(c *client.TunnoxClient, ctx context.Context, req *client.CommandRequest) (*client.CommandResponseData, error)

// ---------------------------------------------------------------------------------------------
// in-memory socket

type half struct {
	mu      sync.Mutex
	cond    *sync.Cond
	buf     []byte
	closed  bool
	waiting int // readers blocked on an empty buffer
}

func newHalf() *half { h := &half{}; h.cond = sync.NewCond(&h.mu); return h }

func (h *half) write(p []byte) (int, error) {
	h.mu.Lock()
	defer h.mu.Unlock()
	if h.closed {
		return 0, net.ErrClosed
	}
	h.buf = append(h.buf, p...)
	h.cond.Broadcast()
	return len(p), nil
}

func (h *half) read(p []byte) (int, error) {
	h.mu.Lock()
	defer h.mu.Unlock()
	for len(h.buf) == 0 {
		if h.closed {
			return 0, io.EOF
		}
		h.waiting++
		h.cond.Wait()
		h.waiting--
	}
	n := copy(p, h.buf)
	h.buf = h.buf[n:]
	return n, nil
}

func (h *half) close() {
	h.mu.Lock()
	h.closed = true
	h.cond.Broadcast()
	h.mu.Unlock()
}

// idle: nothing to read and somebody is blocked waiting for more
func (h *half) idle() bool {
	h.mu.Lock()
	defer h.mu.Unlock()
	return len(h.buf) == 0 && h.waiting > 0
}

type memConn struct {
	in, out *half
	onRead  func()
	name    string
}

func (c *memConn) Read(p []byte) (int, error) {
	if c.onRead != nil {
		c.onRead()
	}
	return c.in.read(p)
}
func (c *memConn) Write(p []byte) (int, error)      { return c.out.write(p) }
func (c *memConn) Close() error                     { c.in.close(); c.out.close(); return nil }
func (c *memConn) LocalAddr() net.Addr              { return &net.TCPAddr{IP: net.IPv4(127, 0, 0, 1), Port: 1} }
func (c *memConn) RemoteAddr() net.Addr             { return &net.TCPAddr{IP: net.IPv4(127, 0, 0, 1), Port: 2} }
func (c *memConn) SetDeadline(time.Time) error      { return nil }
func (c *memConn) SetReadDeadline(time.Time) error  { return nil }
func (c *memConn) SetWriteDeadline(time.Time) error { return nil }

// ---------------------------------------------------------------------------------------------

type request struct {
	id   string
	kind packet.CommandType
	call int // the driver's call number, carried in the request body
}

type cworld struct {
	base
	addr    string
	cl      *client.TunnoxClient
	rm      *clientcmd.ResponseManager
	cli     *memConn // the client's end
	srvEnd  *memConn // the fake server's end
	sp      stream.PackageStreamer
	reqs    chan request
	auto    func(w *cworld, r request) // free-running: the fake server answers by itself
	dials   atomic.Int32
	rdGid   atomic.Int64
	gids    []int64
	gmu     sync.Mutex
	free    atomic.Bool
	rmu     sync.Mutex
	rdAt    string
	rdRel   chan struct{}
	curN    atomic.Int32 // response the reader is handling
	panics  atomic.Int32
	foreign atomic.Int32 // panics inside StreamProcessor teardown (C16 known finding), not judged here
	badPad  int          // extra length of unparsable bodies
	stopped bool
	dropped bool
	rng     *rand.Rand
	rngMu   sync.Mutex
}

var (
	worlds   sync.Map // address -> *cworld
	gidWorld sync.Map // goroutine id -> *cworld
	worldSeq atomic.Int64
)

func (w *cworld) bind() {
	id := goid()
	gidWorld.Store(id, w)
	w.gmu.Lock()
	w.gids = append(w.gids, id)
	w.gmu.Unlock()
}

// dialX04 is the transport's dial function: one in-memory socket per world; a second dial (the client
// reconnecting after its read loop died) is refused.
func dialX04(ctx context.Context, address string) (net.Conn, error) {
	v, ok := worlds.Load(address)
	if !ok {
		return nil, errors.New("x04: unknown world")
	}
	w := v.(*cworld)
	if w.dials.Add(1) > 1 {
		return nil, errors.New("x04: no second connection")
	}
	return w.cli, nil
}

func newClientWorld(free bool, timeout time.Duration, seed int64) (*cworld, error) {
	w := &cworld{reqs: make(chan request, 256), rng: rand.New(rand.NewSource(seed))}
	w.init(free, seed)
	w.free.Store(free)
	if free {
		w.s.FreeDelay = func(string, sched.GateInfo) { w.jitter() }
	}
	w.addr = fmt.Sprintf("w%d", worldSeq.Add(1))
	c2s, s2c := newHalf(), newHalf()
	w.cli = &memConn{in: s2c, out: c2s, name: "cli"}
	w.srvEnd = &memConn{in: c2s, out: s2c, name: "srv"}
	w.cli.onRead = func() {
		// the goroutine that reads the control connection after the handshake is the read loop
		id := goid()
		if w.rdGid.Load() != id {
			w.rdGid.Store(id)
			w.bind()
		}
	}
	worlds.Store(w.addr, w)
	cc := &client.ClientConfig{}
	cc.Server.Address = w.addr
	cc.Server.Protocol = "x04"
	w.cl = client.NewClient(context.Background(), cc)
	w.rm = *(field(w.cl, "commandResponseManager").Addr().Interface().(**clientcmd.ResponseManager))
	field(w.rm, "timeout").SetInt(int64(timeout)) // the 30 s of NewResponseManager, shortened for the timer scenarios
	w.sp = stream.NewDefaultStreamFactory(context.Background()).CreateStreamProcessor(w.srvEnd, w.srvEnd)
	go w.serve()
	if err := w.cl.Connect(); err != nil {
		w.destroy()
		return nil, fmt.Errorf("connect: %w", err)
	}
	// the read loop must be in its read before anything happens (a Close before its first iteration would be a
	// schedule of its own: the loop then leaves without clearing the connection)
	if !waitFor(settleMax, func() bool { return w.rdState() == "idle" }) {
		w.destroy()
		return nil, errors.New("read loop did not start")
	}
	w.log(fw.Event{"ev": "Cfg", "tag": "client"})
	return w, nil
}

func (w *cworld) jitter() {
	w.rngMu.Lock()
	d := w.rng.Intn(4)
	n := w.rng.Intn(200)
	w.rngMu.Unlock()
	switch d {
	case 0:
	case 1:
		runtime.Gosched()
	default:
		time.Sleep(time.Duration(n) * time.Microsecond)
	}
}

// serve is the fake server: handshake, then it records every command the client sends.
func (w *cworld) serve() {
	defer func() { recover() }()
	for {
		pkt, _, err := w.sp.ReadPacket()
		if err != nil {
			return
		}
		if pkt == nil {
			continue
		}
		switch pkt.PacketType & 0x3F {
		case packet.Handshake:
			b, _ := json.Marshal(&packet.HandshakeResponse{Success: true})
			if _, err := w.sp.WritePacket(&packet.TransferPacket{PacketType: packet.HandshakeResp, Payload: b}, false, 0); err != nil {
				return
			}
		case packet.JsonCommand:
			if pkt.CommandPacket == nil || pkt.CommandPacket.CommandType == packet.Disconnect {
				continue
			}
			r := request{id: pkt.CommandPacket.CommandId, kind: pkt.CommandPacket.CommandType}
			var body struct {
				C int `json:"c"`
			}
			json.Unmarshal([]byte(pkt.CommandPacket.CommandBody), &body)
			r.call = body.C
			if w.auto != nil {
				w.auto(w, r)
			} else {
				w.reqs <- r
			}
		}
	}
}

// respond sends response number n for id; kind ok = `{"success":true,"data":"n=<n>"}`, bad = a body that is not JSON
func (w *cworld) respond(id string, n int, kind string) error {
	body := fmt.Sprintf(`{"success":true,"data":"n=%d"}`, n)
	if kind == "bad" {
		// not JSON, and (stress) long enough that json.Unmarshal spends a while before it fails
		body = fmt.Sprintf(`{"success":true,"data":"n=%d"`, n) + strings.Repeat(" ", 64+w.badPad) + "]"
	}
	_, err := w.sp.WritePacket(&packet.TransferPacket{PacketType: packet.CommandResp,
		CommandPacket: &packet.CommandPacket{CommandType: packet.HealthCheck, CommandId: id, CommandBody: body}}, false, 0)
	return err
}

func (w *cworld) destroy() {
	defer func() { recover() }()
	w.free.Store(true)
	w.rdRelease()
	w.s.Drain(time.Millisecond)
	done := make(chan struct{})
	go func() { defer close(done); defer func() { recover() }(); w.cl.Close() }()
	select {
	case <-done:
	case <-time.After(5 * time.Second):
	}
	w.cli.Close()
	w.srvEnd.Close()
	worlds.Delete(w.addr)
	w.gmu.Lock()
	for _, id := range w.gids {
		gidWorld.Delete(id)
	}
	w.gmu.Unlock()
}

// ---- reader gate (the read loop is the client's own goroutine) ---------------------------------

func (w *cworld) rdPark(name string) {
	if w.free.Load() {
		w.jitter()
		return
	}
	w.rmu.Lock()
	ch := make(chan struct{})
	w.rdAt, w.rdRel = name, ch
	w.rmu.Unlock()
	<-ch
}

func (w *cworld) rdRelease() {
	w.rmu.Lock()
	ch := w.rdRel
	w.rdAt, w.rdRel = "", nil
	w.rmu.Unlock()
	if ch != nil {
		close(ch)
	}
}

// loopRunning: is the client's read loop alive? Older trees keep a flag (readLoopRunning); since the loops are bound to
// their connection (X05-1) there is no flag any more and the goroutine itself is looked for: its entry frame carries the
// client as receiver, `client.(*TunnoxClient).readLoop(0x<client>, ...`.
func (w *cworld) loopRunning() bool {
	if f, ok := fieldOpt(w.cl, "readLoopRunning"); ok {
		return f.Addr().Interface().(*atomic.Bool).Load()
	}
	return strings.Contains(allStacks(), fmt.Sprintf("client.(*TunnoxClient).readLoop(0x%x", uintptr(unsafe.Pointer(w.cl))))
}

var (
	stackMu   sync.Mutex
	stackAt   time.Time
	stackSnap string
)

// allStacks returns a dump of all goroutine stacks that is at most 3 ms old (shared by the parallel worlds).
func allStacks() string {
	stackMu.Lock()
	defer stackMu.Unlock()
	if time.Since(stackAt) < 3*time.Millisecond && stackSnap != "" {
		return stackSnap
	}
	buf := make([]byte, 4<<20)
	n := runtime.Stack(buf, true)
	stackSnap, stackAt = string(buf[:n]), time.Now()
	return stackSnap
}

// rdState: found | checked (parked at that yield point), idle (blocked in its read, nothing buffered),
// dead (the read loop has ended), busy
func (w *cworld) rdState() string {
	w.rmu.Lock()
	at := w.rdAt
	w.rmu.Unlock()
	switch at {
	case gRdFound:
		return "found"
	case gRdCheck:
		return "checked"
	}
	if !w.loopRunning() {
		if w.stopped || w.dropped {
			return "idle" // the loop ended because the client / the connection was closed: nothing is being handled
		}
		return "dead"
	}
	if w.cli.in.idle() {
		return "idle"
	}
	return "busy"
}

func (w *cworld) waitReader() string {
	st := "busy"
	waitFor(settleMax, func() bool { st = w.rdState(); return st != "busy" })
	return st
}

// hook is the verifhook handler part of the client worlds.
func (w *cworld) hook(name string) {
	switch name {
	case gRdFound, gRdCheck:
		if goid() == w.rdGid.Load() {
			w.rdPark(name)
		}
	case gCliReg, gCliWait:
		w.s.Gate(name, nil)
	}
}

// readLoopPanic is called by the log capture when readLoop's recover reports a panic on this world's goroutine.
func (w *cworld) readLoopPanic(msg string) {
	w.panics.Add(1)
	w.log(fw.Event{"ev": "Panic", "n": int(w.curN.Load()), "msg": msg})
}

// ---- calls ---------------------------------------------------------------------------------------

func (w *cworld) pending() int { return mapLen(w.rm, "pendingRequests", "mu") }

func (w *cworld) obs() {
	q := len(w.inflight()) == 0
	w.log(fw.Event{"ev": "Obs", "pending": w.pending(), "alive": w.loopRunning(), "q": q})
}

func parseN(s string) int {
	var n int
	if i := strings.Index(s, "n="); i >= 0 {
		fmt.Sscanf(s[i:], "n=%d", &n)
	}
	return n
}

// doSend is one call of the real sendCommandAndWaitResponseWithContext.
func (w *cworld) doSend(c *callRec, ctx context.Context) (res string) {
	w.bind()
	defer func() {
		if r := recover(); r != nil {
			st := string(debug.Stack())
			if strings.Contains(st, "stream.(*StreamProcessor).WritePacket") {
				// StreamProcessor.Close racing a WritePacket (the client is being closed): the open known finding of
				// C16 (NoPanic/stream:pendingWrite, stream:inflight) - another component, not reported again here
				w.foreign.Add(1)
				w.ret(c, "err", 0)
				res = "err"
				return
			}
			w.log(fw.Event{"ev": "Panic", "n": 0, "msg": fmt.Sprint("caller: ", r, " ", st)})
			w.ret(c, "err", 0)
			res = "panic"
		}
	}()
	data, err := sendCommandAndWait(w.cl, ctx, &client.CommandRequest{CommandType: packet.HealthCheck, RequestBody: map[string]int{"c": c.c}})
	r, n := errClass(err), 0
	if err == nil && data != nil {
		n = parseN(data.Data)
	}
	w.ret(c, r, n)
	return r
}

func (w *cworld) startCall(p int) *callRec {
	c := w.newCall(p)
	ctx, cancel := context.WithCancel(w.cl.Ctx())
	c.cancel = cancel
	w.s.Start(c.name, func() any { return w.doSend(c, ctx) })
	return c
}

// sentBy waits for the request of call c to arrive at the fake server.
func (w *cworld) sentBy(c *callRec) bool {
	select {
	case r := <-w.reqs:
		w.mu.Lock()
		c.id = r.id
		w.events = append(w.events, fw.Event{"ev": "Sent", "c": c.c, "id": r.id})
		w.mu.Unlock()
		return true
	case <-time.After(settleMax):
		return false
	}
}

// ---------------------------------------------------------------------------------------------
// scheduled behaviours

func modelRes(r string) string {
	switch r {
	case "timeout", "cancelled":
		return "expired"
	case "parse":
		return "resp"
	}
	return r
}

func driveClient(env *fw.Env, b *behaviour) *fw.Trace {
	w, err := newClientWorld(false, time.Hour, 1)
	if err != nil {
		return &fw.Trace{Status: fw.Inconclusive, Note: err.Error()}
	}
	defer w.destroy()
	status := fw.Realised
	diverge := func(format string, a ...any) {
		status = fw.Diverged
		w.note = fmt.Sprintf(format, a...)
	}
	// where a caller should be after a step of the model
	callerAt := func(c *callRec, st string) bool {
		switch st {
		case "reg":
			if !hooksOn {
				return w.sentBy(c) // no yield point: the call runs on through its write
			}
			return w.waitProc(c.name, gCliReg, settleMax) == "parked:"+gCliReg
		case "took":
			if !hooksOn {
				return w.waitProc(c.name, "", settleMax) == "done"
			}
			return w.waitProc(c.name, gCliWait, settleMax) == "parked:"+gCliWait
		case "idle":
			return w.waitProc(c.name, "", settleMax) == "done"
		}
		return true
	}
	woken := func(i int, s step) bool {
		for _, k := range s.Wk {
			c := w.cur[k.P]
			if c == nil || !callerAt(c, k.St) {
				diverge("step %d %s: woken caller %d is not at %s", i, s.A, k.P, k.St)
				return false
			}
		}
		return true
	}
steps:
	for i, s := range b.Steps {
		switch s.A {
		case "Reg", "NotConn":
			c := w.startCall(s.P)
			if s.A == "Reg" {
				w.byReq[s.ID] = c
			}
			if !callerAt(c, s.St) {
				diverge("step %d %s: caller %d is not at %s (%s)", i, s.A, s.P, s.St, w.waitProc(c.name, "", 0))
				break steps
			}
		case "Write", "WriteFail":
			c := w.cur[s.P]
			if hooksOn {
				w.s.Step(c.name)
				if s.A == "Write" && !w.sentBy(c) {
					diverge("step %d Write: the request of caller %d did not arrive", i, s.P)
					break steps
				}
			}
			if s.A == "WriteFail" && !callerAt(c, "took") {
				diverge("step %d WriteFail: caller %d is not at took", i, s.P)
				break steps
			}
		case "Expire":
			c := w.cur[s.P]
			w.mu.Lock()
			c.expired = true
			w.events = append(w.events, fw.Event{"ev": "Expire", "c": c.c})
			w.mu.Unlock()
			c.cancel()
			if !callerAt(c, "took") {
				diverge("step %d Expire: caller %d is not at took", i, s.P)
				break steps
			}
		case "Unreg":
			c := w.cur[s.P]
			if hooksOn {
				w.s.Step(c.name)
			}
			if !callerAt(c, "idle") {
				diverge("step %d Unreg: caller %d did not return", i, s.P)
				break steps
			}
			if got := modelRes(c.r); got != s.R || (s.R == "resp" && c.r == "resp" && c.n != s.N) {
				diverge("step %d Unreg: caller %d returned %s/%d, model says %s/%d", i, s.P, c.r, c.n, s.R, s.N)
				break steps
			}
		case "Arrive":
			w.nresp++
			n := w.nresp
			id, k := fmt.Sprintf("unknown-%d", n), "unknown"
			if s.ID != 0 {
				c := w.byReq[s.ID]
				if c == nil || c.id == "" {
					diverge("step %d Arrive: request %d has no id yet", i, s.ID)
					break steps
				}
				id, k = c.id, s.K
			}
			w.curN.Store(int32(n))
			w.log(fw.Event{"ev": "Resp", "n": n, "id": id, "k": k})
			if err := w.respond(id, n, s.K); err != nil {
				diverge("step %d Arrive: write failed: %v", i, err)
				break steps
			}
			st := w.waitReader()
			if st == "idle" {
				w.handled(n)
			}
			// without the yield points the reader runs through Recheck and Send at once: those steps then only check
			if hooksOn && st != s.St {
				diverge("step %d Arrive: reader is %s, model says %s", i, st, s.St)
				break steps
			}
			if st == "busy" {
				diverge("step %d Arrive: reader still busy", i)
				break steps
			}
		case "Recheck", "Send":
			if hooksOn {
				if st := w.rdState(); st == "found" || (st == "checked" && s.A == "Send") {
					w.rdRelease()
				} else if !(st == "checked" && s.A == "Recheck") { // repaired code may have no second stop on this path
					diverge("step %d %s: reader is %s", i, s.A, st)
					break steps
				}
				st := w.waitReader()
				if st == "idle" {
					w.handled(int(w.curN.Load()))
				}
				if st != s.St {
					diverge("step %d %s: reader is %s, model says %s", i, s.A, st, s.St)
					break steps
				}
			}
			if !woken(i, s) {
				break steps
			}
		case "Stop":
			w.stopped = true
			w.log(fw.Event{"ev": "Stop"})
			closed := make(chan struct{})
			go func() { defer close(closed); defer func() { recover() }(); w.cl.Close() }()
			select {
			case <-closed:
			case <-time.After(settleMax):
			}
			if st := w.rdState(); st != "found" && st != "checked" {
				// the read loop notices the closed socket and clears the connection
				waitFor(settleMax, func() bool { return !w.cl.IsConnected() })
			}
			if !woken(i, s) {
				break steps
			}
		case "Drop":
			w.dropped = true
			w.log(fw.Event{"ev": "Drop"})
			w.srvEnd.Close()
			if !waitFor(settleMax, func() bool { return !w.cl.IsConnected() }) {
				diverge("step %d Drop: the client still reports a connection", i)
				break steps
			}
		default:
			return &fw.Trace{Status: fw.DriverError, Note: "unknown step " + s.A}
		}
		w.obs()
	}
	if !w.finish() {
		return &fw.Trace{Status: fw.Inconclusive, Note: "finish: " + w.note, Events: nil}
	}
	return &fw.Trace{Status: status, Note: w.note, Events: w.snapshot()}
}

// handled: the reader is back at its read after response n; a pending, unexpired call with that id is owed it
func (w *cworld) handled(n int) {
	w.mu.Lock()
	defer w.mu.Unlock()
	var id, k string
	for _, e := range w.events {
		if e["ev"] == "Resp" && e["n"] == n {
			id, _ = e["id"].(string)
			k, _ = e["k"].(string)
		}
	}
	for _, c := range w.calls {
		if c.id == id && id != "" && !c.done && !c.expired && !w.stopped && !w.dropped && (k == "ok" || k == "bad") {
			// the response was sent after the request arrived (Sent precedes Resp by construction of the drivers)
			c.owed = true
		}
	}
	w.events = append(w.events, fw.Event{"ev": "Handled", "n": n})
}

// finish: let everything run, give owed calls their time, cancel the rest, observe.
func (w *cworld) finish() bool {
	w.free.Store(true)
	w.rdRelease()
	w.s.Drain(time.Millisecond)
	return finishCalls(&w.base, func() { w.obs() }, func() (int, bool) { return w.pending(), w.loopRunning() })
}

// slowMachine measures how long a parked goroutine takes to be woken (worst of 5): the deadlines of finishCalls only
// mean something when that is far below them.
func slowMachine() bool {
	worst := time.Duration(0)
	for i := 0; i < 5; i++ {
		ch := make(chan time.Time)
		back := make(chan time.Duration)
		go func() { t := <-ch; back <- time.Since(t) }()
		time.Sleep(time.Millisecond)
		ch <- time.Now()
		if d := <-back; d > worst {
			worst = d
		}
	}
	return worst > settleMax/30
}

// finishCalls is shared by the worlds: owed calls get settleMax to return (Stuck otherwise), every other call in
// flight is cancelled (Expire) and given finalMax; then Obs and Final.
func finishCalls(b *base, obs func(), state func() (int, bool)) bool {
	owed := func() []*callRec {
		var out []*callRec
		for _, c := range b.inflight() {
			b.mu.Lock()
			o := c.owed && !c.expired
			b.mu.Unlock()
			if o {
				out = append(out, c)
			}
		}
		return out
	}
	if !waitFor(settleMax, func() bool { return len(owed()) == 0 }) {
		if slowMachine() {
			return false // a goroutine needs longer than settleMax/30 to be woken right now: no verdict from a deadline
		}
		for _, c := range owed() {
			b.log(fw.Event{"ev": "Stuck", "c": c.c})
		}
	}
	for _, c := range b.inflight() {
		b.mu.Lock()
		c.expired = true
		b.events = append(b.events, fw.Event{"ev": "Expire", "c": c.c})
		b.mu.Unlock()
		if c.cancel != nil {
			c.cancel()
		}
	}
	if !waitFor(finalMax, func() bool { return len(b.inflight()) == 0 }) && slowMachine() {
		return false
	}
	open := []int{}
	for _, c := range b.inflight() {
		open = append(open, c.c)
	}
	// the deferred unregister of a call that has just logged its return may still be running
	waitFor(settleMax, func() bool { p, _ := state(); return p == 0 || len(open) > 0 })
	obs()
	p, alive := state()
	b.log(fw.Event{"ev": "Final", "pending": p, "alive": alive, "open": open})
	return true
}

// ---------------------------------------------------------------------------------------------
// scripted real-time scenarios (ExtraBeh): free-running world, the code's own 30 s timer shortened

func (w *cworld) setTimeout(d time.Duration) { field(w.rm, "timeout").SetInt(int64(d)) }

// scripted runs one call; when: now | twice | bad | unknown (an unknown id first, then the answer) | late | never
func (w *cworld) scripted(p int, timeout time.Duration, when string) bool {
	w.setTimeout(timeout)
	c := w.newCall(p)
	ctx, cancel := context.WithCancel(w.cl.Ctx())
	c.cancel = cancel
	if when == "late" || when == "never" {
		w.mu.Lock()
		c.expired = true
		w.events = append(w.events, fw.Event{"ev": "Expire", "c": c.c})
		w.mu.Unlock()
	}
	t0 := time.Now()
	done := make(chan struct{})
	go func() { defer close(done); w.doSend(c, ctx) }()
	got := false
	select {
	case r := <-w.reqs:
		w.mu.Lock()
		c.id = r.id
		w.events = append(w.events, fw.Event{"ev": "Sent", "c": c.c, "id": r.id})
		w.mu.Unlock()
		got = true
	case <-done:
	case <-time.After(settleMax):
	}
	answer := func(id, kind string) {
		w.nresp++
		n := w.nresp
		k := kind
		if id != c.id {
			k = "unknown"
		}
		w.curN.Store(int32(n))
		w.log(fw.Event{"ev": "Resp", "n": n, "id": id, "k": k})
		if w.respond(id, n, kind) != nil {
			return
		}
		if w.waitReader() == "idle" {
			w.handled(n)
		}
	}
	fine := true
	if got {
		switch when {
		case "now":
			answer(c.id, "ok")
		case "twice":
			answer(c.id, "ok")
			answer(c.id, "ok")
		case "bad":
			answer(c.id, "bad")
		case "unknown":
			answer(fmt.Sprintf("unknown-%d", c.c), "ok")
			answer(c.id, "ok")
		case "late":
			select {
			case <-done:
			case <-time.After(timeout + finalMax):
			}
			answer(c.id, "ok")
		}
		if when != "late" && when != "never" && time.Since(t0) > timeout/3 {
			fine = false
		}
	}
	select {
	case <-done:
	case <-time.After(timeout + finalMax):
	}
	w.obs()
	return fine
}

func driveClientScript(env *fw.Env, b *behaviour) *fw.Trace {
	w, err := newClientWorld(true, time.Hour, b.Seed)
	if err != nil {
		return &fw.Trace{Status: fw.Inconclusive, Note: err.Error()}
	}
	defer w.destroy()
	long, short := 6*time.Second, 400*time.Millisecond
	ok := true
	run := func(p int, d time.Duration, when string) {
		if !w.scripted(p, d, when) {
			ok = false
		}
	}
	switch b.Extra {
	case "ok":
		run(1, long, "now")
		run(2, long, "now")
	case "late":
		run(1, short, "late")
		run(1, long, "now")
	case "dup":
		run(1, long, "twice")
		run(1, long, "now")
	case "bad":
		run(1, long, "bad")
		run(1, long, "now")
	case "unknown":
		run(1, long, "unknown")
	case "never":
		run(1, short, "never")
		run(2, long, "now")
	case "stop":
		// a call is waiting when the client is closed: it must return (cancelled), nothing stays registered
		w.setTimeout(time.Hour)
		c := w.newCall(1)
		ctx, cancel := context.WithCancel(w.cl.Ctx())
		c.cancel = cancel
		done := make(chan struct{})
		go func() { defer close(done); w.doSend(c, ctx) }()
		if !w.sentBy(c) {
			return &fw.Trace{Status: fw.Inconclusive, Note: "request did not arrive"}
		}
		w.stopped = true
		w.log(fw.Event{"ev": "Stop"})
		w.cl.Close()
		select {
		case <-done:
		case <-time.After(finalMax):
		}
		w.obs()
	case "drop":
		// the server closes the connection while a call waits: the call ends with its timer, the next one fails fast
		w.setTimeout(short)
		c := w.newCall(1)
		ctx, cancel := context.WithCancel(w.cl.Ctx())
		c.cancel = cancel
		done := make(chan struct{})
		go func() { defer close(done); w.doSend(c, ctx) }()
		if !w.sentBy(c) {
			return &fw.Trace{Status: fw.Inconclusive, Note: "request did not arrive"}
		}
		w.dropped = true
		w.log(fw.Event{"ev": "Drop"})
		w.srvEnd.Close()
		select {
		case <-done:
		case <-time.After(short + finalMax):
		}
		w.obs()
		run(2, short, "never")
	default:
		return &fw.Trace{Status: fw.DriverError, Note: "unknown scenario " + b.Extra}
	}
	if !ok {
		return &fw.Trace{Status: fw.Inconclusive, Note: "an answer took longer than a third of the call's timeout"}
	}
	if !w.finish() {
		return &fw.Trace{Status: fw.Inconclusive, Note: "machine too slow for the driver's deadlines"}
	}
	return &fw.Trace{Status: fw.Realised, Events: w.snapshot()}
}

// ---------------------------------------------------------------------------------------------
// free-running stress: callers with short random deadlines against a fake server that answers after a random
// delay, sometimes twice, sometimes with a broken body, sometimes for an id nobody has.  The yield points (when
// present) are seeded random delays, which is what opens the windows between look-up and send.

func stressClient(env *fw.Env, b *behaviour) *fw.Trace {
	w, err := newClientWorld(true, time.Hour, b.Seed)
	if err != nil {
		return &fw.Trace{Status: fw.Inconclusive, Note: err.Error()}
	}
	defer w.destroy()
	w.badPad = 256 << 10
	var wmu sync.Mutex // one writer at a time on the fake server's side
	var rmu sync.Mutex
	rng := rand.New(rand.NewSource(b.Seed*7919 + 13))
	rnd := func(n int) int { rmu.Lock(); defer rmu.Unlock(); return rng.Intn(n) }
	var timers sync.WaitGroup
	w.auto = func(w *cworld, r request) {
		// which call? the fake server matches by arrival: callers log Sent themselves through byID
		w.mu.Lock()
		w.events = append(w.events, fw.Event{"ev": "Sent", "c": r.call, "id": r.id})
		if r.call >= 1 && r.call <= len(w.calls) {
			w.calls[r.call-1].id = r.id
		}
		w.mu.Unlock()
		send := func(id, kind string, after time.Duration) {
			timers.Add(1)
			time.AfterFunc(after, func() {
				defer timers.Done()
				wmu.Lock()
				defer wmu.Unlock()
				w.mu.Lock()
				w.nresp++
				n := w.nresp
				k := kind
				if id != r.id {
					k = "unknown"
				}
				w.events = append(w.events, fw.Event{"ev": "Resp", "n": n, "id": id, "k": k})
				w.mu.Unlock()
				w.curN.Store(int32(n))
				w.respond(id, n, kind)
			})
		}
		d := time.Duration(rnd(1500)) * time.Microsecond
		switch x := rnd(20); {
		case x < 4:
			send(r.id, "bad", d)
		case x < 6:
			send(fmt.Sprintf("unknown-%d", r.call), "ok", d)
			send(r.id, "ok", d+time.Duration(rnd(300))*time.Microsecond)
		case x < 11:
			send(r.id, "ok", d)
			send(r.id, "ok", d+time.Duration(rnd(300))*time.Microsecond)
		case x < 12:
			// no answer at all
		default:
			send(r.id, "ok", d)
		}
	}
	callers, rounds := 3, b.N
	var wg sync.WaitGroup
	for p := 1; p <= callers; p++ {
		wg.Add(1)
		go func(p int) {
			defer wg.Done()
			prng := rand.New(rand.NewSource(b.Seed*131 + int64(p)))
			for i := 0; i < rounds; i++ {
				if w.panics.Load() > 0 {
					return // the read loop is gone: what follows shows nothing new
				}
				c := w.newCall(p)
				ctx, cancel := context.WithCancel(w.cl.Ctx())
				c.cancel = cancel
				d := time.Duration(prng.Intn(2500)) * time.Microsecond
				t := time.AfterFunc(d, func() {
					w.mu.Lock()
					if !c.done {
						c.expired = true
						w.events = append(w.events, fw.Event{"ev": "Expire", "c": c.c})
					}
					w.mu.Unlock()
					cancel()
				})
				w.doSend(c, ctx)
				t.Stop()
			}
		}(p)
	}
	wg.Wait()
	timers.Wait()
	waitFor(settleMax, func() bool { st := w.rdState(); return st == "idle" || st == "dead" })
	if !w.finish() {
		return &fw.Trace{Status: fw.Inconclusive, Note: "machine too slow for the driver's deadlines"}
	}
	return &fw.Trace{Status: fw.Realised, Events: w.snapshot()}
}
