package main

// Server world: the real SessionManager of an in-process server assembly (harness/srvkit) with one fake
// control connection per caller; callers run the real SendCommandToClient, the fake clients' CommandResp
// packets enter through the real SessionManager.HandlePacket (mode "wired") or through the exported
// DeliverCommandResponse, the function "for the read loop to call" (mode "api").
// Cross-node world: two assemblies, A (origin: CrossNodePool + connection state store) and B (target:
// CrossNodeListener, the client's control connection) over one store and loopback TCP.

import (
	"bytes"
	"context"
	"encoding/json"
	"fmt"
	"io"
	"sync"
	"sync/atomic"
	"time"

	coretypes "tunnox-core/internal/core/types"
	"tunnox-core/internal/packet"
	"tunnox-core/internal/protocol/session"
	"tunnox-core/internal/stream"
	"tunnox-core/verifharness/fw"
	"tunnox-core/verifharness/sched"
	"tunnox-core/verifharness/srvkit"
)

type sworld struct {
	base
	srv   *srvkit.Server // the node the callers run on
	tgt   *srvkit.Server // the node the clients are connected to (== srv unless cross-node)
	cross *srvkit.CrossNode
	pool  *session.CrossNodePool
	mode  string
	conns map[int]*srvkit.Conn
	cids  map[int]int64
	seq   int64
	free  bool
	// cross-node: a forwarder on the target node may legitimately still hold its registration (its 30 s wait)
	zombie atomic.Bool
	gmu    sync.Mutex
	gids   []int64
}

var srvSeq atomic.Int64

func newServerWorld(mode string, free bool, callers int, xnode bool, seed int64) (*sworld, error) {
	w := &sworld{mode: mode, conns: map[int]*srvkit.Conn{}, cids: map[int]int64{}, free: free}
	w.init(free, seed)
	w.seq = srvSeq.Add(1)
	if free {
		rng := fw.NewRand(seed)
		ch := make(chan int, 1024)
		go func() {
			for {
				ch <- rng.Intn(800)
			}
		}()
		w.s.FreeDelay = func(string, sched.GateInfo) {
			if n := <-ch; n >= 200 {
				time.Sleep(time.Duration(n-200) * time.Microsecond / 3)
			}
		}
	}
	opt := srvkit.Options{HeartbeatTimeout: time.Hour, CleanupInterval: time.Hour, KeepLogs: true}
	var err error
	if xnode {
		opt.NodeID = "node-b"
		if w.tgt, err = srvkit.NewServer(opt); err != nil {
			return nil, err
		}
		if w.cross, err = w.tgt.EnableCrossNode(); err != nil {
			w.tgt.Close()
			return nil, err
		}
		opt.NodeID, opt.NoConnState = "node-a", true
		if w.srv, err = srvkit.NewServer(opt); err != nil {
			w.cross.Close()
			w.tgt.Close()
			return nil, err
		}
		// both nodes see ONE store: the target node's
		w.srv.SM.SetConnectionStateStore(session.NewConnectionStateStore(w.tgt.Storage, "node-a", 5*time.Minute))
		pc := session.DefaultCrossNodePoolConfig()
		pc.MinConns, pc.MaxConns, pc.DialTimeout = 0, 4, 2*time.Second
		w.pool = session.NewCrossNodePool(w.srv.Ctx, w.tgt.Storage, "node-a", pc)
		w.srv.SM.SetCrossNodePool(w.pool)
	} else {
		if w.srv, err = srvkit.NewServer(opt); err != nil {
			return nil, err
		}
		w.tgt = w.srv
	}
	for p := 1; p <= callers; p++ {
		c, err := w.tgt.NewConn(fmt.Sprintf("10.4.%d.%d", w.seq%200, p))
		if err != nil {
			w.destroy()
			return nil, err
		}
		id, _, _, err := c.FirstConnect("control")
		if err != nil || id == 0 {
			w.destroy()
			return nil, fmt.Errorf("provisioning client %d failed: %v", p, err)
		}
		c.Drain()
		w.conns[p], w.cids[p] = c, id
	}
	tag := "server:" + mode
	if xnode {
		tag = "xnode"
	}
	w.log(fw.Event{"ev": "Cfg", "tag": tag})
	return w, nil
}

func (w *sworld) bind() {
	id := goid()
	srvWorlds.Store(id, w)
	w.gmu.Lock()
	w.gids = append(w.gids, id)
	w.gmu.Unlock()
}

func (w *sworld) destroy() {
	defer func() { recover() }()
	defer func() {
		w.gmu.Lock()
		for _, id := range w.gids {
			srvWorlds.Delete(id)
		}
		w.gmu.Unlock()
	}()
	w.s.Drain(time.Millisecond)
	if w.pool != nil {
		w.pool.Close()
	}
	if w.cross != nil {
		w.cross.Close()
	}
	if w.tgt != w.srv {
		w.tgt.Close()
	}
	w.srv.Close()
}

func (w *sworld) mgr(s *srvkit.Server) *session.CommandResponseManager {
	return *(field(s.SM, "commandResponseMgr").Addr().Interface().(**session.CommandResponseManager))
}

func (w *sworld) pending() int {
	n := mapLen(w.mgr(w.srv), "waiters", "mu")
	if w.tgt != w.srv && !w.zombie.Load() {
		n += mapLen(w.mgr(w.tgt), "waiters", "mu")
	}
	return n
}

func (w *sworld) obs() {
	w.log(fw.Event{"ev": "Obs", "pending": w.pending(), "alive": true, "q": len(w.inflight()) == 0})
}

// doSend is one call of the real SendCommandToClient to the fake client of caller c.p.
func (w *sworld) doSend(c *callRec, ctx context.Context, timeout time.Duration) (res string) {
	w.bind()
	defer func() {
		if r := recover(); r != nil {
			w.log(fw.Event{"ev": "Panic", "n": 0, "msg": fmt.Sprint("caller: ", r)})
			w.ret(c, "err", 0)
			res = "panic"
		}
	}()
	cmd := &packet.CommandPacket{CommandType: packet.HealthCheck, CommandId: c.id, CommandBody: fmt.Sprintf(`{"c":%d}`, c.c)}
	resp, err := w.srv.SM.SendCommandToClient(ctx, w.cids[c.p], cmd, timeout)
	r, n := errClass(err), 0
	if err == nil && resp != nil {
		var b struct {
			N int `json:"n"`
		}
		json.Unmarshal([]byte(resp.CommandBody), &b)
		n = b.N
	} else if err == nil {
		r = "err"
	}
	w.ret(c, r, n)
	return r
}

func (w *sworld) startCall(p int, timeout time.Duration) *callRec {
	c := w.newCall(p)
	c.id = fmt.Sprintf("x04-%d-%d", w.seq, c.c)
	ctx, cancel := context.WithCancel(context.Background())
	c.cancel = cancel
	w.s.Start(c.name, func() any { return w.doSend(c, ctx, timeout) })
	return c
}

// sentBy waits until the command of call c shows up on the wire of its client's control connection
// (gives up early when stop is closed).
func (w *sworld) sentBy(c *callRec, stop ...<-chan struct{}) bool {
	conn := w.conns[c.p]
	stopped := false
	ok := waitFor(settleMax, func() bool {
		for _, ch := range stop {
			select {
			case <-ch:
				stopped = true
				return true
			default:
			}
		}
		for _, p := range w.wire(conn) {
			if p.PacketType.IsJsonCommand() && p.CommandPacket != nil && p.CommandPacket.CommandId == c.id {
				return true
			}
		}
		return false
	})
	ok = ok && !stopped
	if ok {
		w.log(fw.Event{"ev": "Sent", "c": c.c, "id": c.id})
	}
	return ok
}

// wire decodes every COMPLETE packet the server has written to conn so far (nothing is consumed: a packet is
// written with several Write calls, taking the bytes in between would tear it).
func (w *sworld) wire(conn *srvkit.Conn) []*packet.TransferPacket {
	b := conn.T.Peek()
	if len(b) == 0 {
		return nil
	}
	sp := stream.NewStreamProcessor(bytes.NewReader(b), io.Discard, w.tgt.Ctx)
	defer sp.Close()
	var out []*packet.TransferPacket
	for {
		p, _, err := sp.ReadPacket()
		if err != nil || p == nil {
			return out
		}
		out = append(out, p)
	}
}

// deliver is what the read loop of connection `conn` does with the client's response n for id.
func (w *sworld) deliver(conn *srvkit.Conn, id string, n int) {
	w.bind()
	defer func() {
		if r := recover(); r != nil {
			w.log(fw.Event{"ev": "Panic", "n": n, "msg": fmt.Sprint(r)})
		}
	}()
	cp := &packet.CommandPacket{CommandType: packet.HealthCheck, CommandId: id, CommandBody: fmt.Sprintf(`{"n":%d}`, n)}
	if w.mode == "api" {
		w.tgt.SM.DeliverCommandResponse(id, cp)
		return
	}
	w.tgt.SM.HandlePacket(&coretypes.StreamPacket{ConnectionID: conn.ID, Timestamp: time.Now(),
		Packet: &packet.TransferPacket{PacketType: packet.CommandResp, CommandPacket: cp}})
}

func (w *sworld) handled(n int, id string) {
	w.mu.Lock()
	defer w.mu.Unlock()
	for _, c := range w.calls {
		if c.id == id && !c.done && !c.expired {
			c.owed = true
		}
	}
	w.events = append(w.events, fw.Event{"ev": "Handled", "n": n})
}

func (w *sworld) hook(name string) {
	switch name {
	case gSrvReg, gSrvWait, gSrvFound:
		w.s.Gate(name, nil)
	}
}

func driveServer(env *fw.Env, b *behaviour) *fw.Trace {
	np := 1
	for _, s := range b.Steps {
		if s.P > np && s.A != "Arrive" && s.A != "Send" && s.A != "Recheck" {
			np = s.P
		}
	}
	w, err := newServerWorld(b.Mode, false, np, false, 1)
	if err != nil {
		return &fw.Trace{Status: fw.Inconclusive, Note: err.Error()}
	}
	defer w.destroy()
	status := fw.Realised
	diverge := func(format string, a ...any) {
		status = fw.Diverged
		w.note = fmt.Sprintf(format, a...)
	}
	callerAt := func(c *callRec, st string) bool {
		switch st {
		case "reg":
			if !hooksOn {
				return w.sentBy(c)
			}
			return w.waitProc(c.name, gSrvReg, settleMax) == "parked:"+gSrvReg
		case "took":
			if !hooksOn {
				return w.waitProc(c.name, "", settleMax) == "done"
			}
			return w.waitProc(c.name, gSrvWait, settleMax) == "parked:"+gSrvWait
		case "idle":
			return w.waitProc(c.name, "", settleMax) == "done"
		}
		return true
	}
	rdName := map[int]string{} // reader -> scheduler name of the delivery it is running
	rdN := map[int]int{}
	rdID := map[int]string{}
steps:
	for i, s := range b.Steps {
		switch s.A {
		case "Reg":
			c := w.startCall(s.P, time.Hour)
			w.byReq[s.ID] = c
			if !callerAt(c, "reg") {
				diverge("step %d Reg: caller %d is not at reg", i, s.P)
				break steps
			}
		case "Write":
			c := w.cur[s.P]
			if hooksOn {
				w.s.Step(c.name)
				if !w.sentBy(c) {
					diverge("step %d Write: the command of caller %d did not reach the wire", i, s.P)
					break steps
				}
			}
		case "Expire":
			c := w.cur[s.P]
			w.mu.Lock()
			c.expired = true
			w.events = append(w.events, fw.Event{"ev": "Expire", "c": c.c})
			w.mu.Unlock()
			c.cancel()
			if !callerAt(c, "took") {
				diverge("step %d Expire: caller %d is not at took", i, s.P)
				break steps
			}
		case "Unreg":
			c := w.cur[s.P]
			if hooksOn {
				w.s.Step(c.name)
			}
			if !callerAt(c, "idle") {
				diverge("step %d Unreg: caller %d did not return", i, s.P)
				break steps
			}
			if got := modelRes(c.r); got != s.R || (s.R == "resp" && c.n != s.N) {
				diverge("step %d Unreg: caller %d returned %s/%d, model says %s/%d", i, s.P, c.r, c.n, s.R, s.N)
				break steps
			}
		case "Arrive":
			w.nresp++
			n := w.nresp
			id, k, conn := fmt.Sprintf("unknown-%d-%d", w.seq, n), "unknown", w.conns[1]
			if s.ID != 0 {
				c := w.byReq[s.ID]
				if c == nil {
					diverge("step %d Arrive: request %d unknown", i, s.ID)
					break steps
				}
				id, k, conn = c.id, "ok", w.conns[c.p]
			}
			w.log(fw.Event{"ev": "Resp", "n": n, "id": id, "k": k})
			name := fmt.Sprintf("r%d.%d", s.P, n)
			rdName[s.P], rdN[s.P], rdID[s.P] = name, n, id
			w.s.Start(name, func() any { w.deliver(conn, id, n); return nil })
			got := w.waitProc(name, "", settleMax)
			switch {
			case got == "done":
				w.handled(n, id)
				if hooksOn && s.St != "idle" {
					diverge("step %d Arrive: the response was not offered to a waiter, model says %s", i, s.St)
					break steps
				}
			case got == "parked:"+gSrvFound:
				if s.St != "checked" {
					diverge("step %d Arrive: reader found a waiter, model says %s", i, s.St)
					break steps
				}
			default:
				diverge("step %d Arrive: reader is %s", i, got)
				break steps
			}
		case "Send":
			name := rdName[s.P]
			if hooksOn {
				if st, _ := w.s.State(name); st != sched.Parked {
					diverge("step %d Send: reader %d is %s", i, s.P, st)
					break steps
				}
				w.s.Step(name)
				if w.waitProc(name, "", settleMax) != "done" {
					diverge("step %d Send: reader %d did not finish", i, s.P)
					break steps
				}
				w.handled(rdN[s.P], rdID[s.P])
			}
			for _, k := range s.Wk {
				if c := w.cur[k.P]; c == nil || !callerAt(c, k.St) {
					diverge("step %d Send: woken caller %d is not at %s", i, k.P, k.St)
					break steps
				}
			}
		default:
			return &fw.Trace{Status: fw.DriverError, Note: "unknown step " + s.A}
		}
		w.obs()
	}
	w.s.Drain(time.Millisecond)
	if !finishCalls(&w.base, w.obs, func() (int, bool) { return w.pending(), true }) {
		return &fw.Trace{Status: fw.Inconclusive, Note: "machine too slow for the driver's deadlines"}
	}
	return &fw.Trace{Status: status, Note: w.note, Events: w.snapshot()}
}

// ---------------------------------------------------------------------------------------------
// scripted real-time scenarios (ExtraBeh): the timers of the code run for real

// one free-running call: start, wait for the command on the wire, answer according to `when`, return the call record.
// when: "now" (as soon as the command is seen), "late" (after the call returned), "twice" (now, two copies), "never"
func (w *sworld) scripted(p int, timeout time.Duration, when string) (*callRec, bool) {
	c := w.newCall(p)
	c.id = fmt.Sprintf("x04-%d-%d", w.seq, c.c)
	ctx, cancel := context.WithCancel(context.Background())
	c.cancel = cancel
	if when == "late" || when == "never" {
		// the call is meant to run into its own timer
		w.mu.Lock()
		c.expired = true
		w.events = append(w.events, fw.Event{"ev": "Expire", "c": c.c})
		w.mu.Unlock()
	}
	t0 := time.Now()
	done := make(chan struct{})
	go func() { defer close(done); w.doSend(c, ctx, timeout) }()
	if !w.sentBy(c, done) {
		// nothing reached the client (e.g. it is not connected): the call must come back by itself
		select {
		case <-done:
		case <-time.After(timeout + finalMax):
		}
		return c, true
	}
	answer := func() {
		w.nresp++
		n := w.nresp
		w.log(fw.Event{"ev": "Resp", "n": n, "id": c.id, "k": "ok"})
		w.deliver(w.conns[p], c.id, n)
		w.handled(n, c.id)
	}
	switch when {
	case "now":
		answer()
	case "twice":
		answer()
		answer()
	case "late":
		select {
		case <-done:
		case <-time.After(timeout + finalMax):
		}
		answer()
	}
	if when == "now" || when == "twice" {
		// the answer was handled well within the call's timer? otherwise the run proves nothing
		if time.Since(t0) > timeout/3 {
			return c, false
		}
	}
	select {
	case <-done:
	case <-time.After(timeout + finalMax):
	}
	w.mu.Lock()
	gaveUp := c.done && c.r != "resp"
	w.mu.Unlock()
	if w.tgt != w.srv {
		// the origin gave up: the target node's forwarder keeps waiting (30 s) unless the answer has reached it
		if gaveUp && when != "late" {
			w.zombie.Store(true)
		}
	}
	return c, true
}

func driveScript(env *fw.Env, b *behaviour) *fw.Trace {
	xnode := b.Variant == "xnode"
	mode := b.Mode
	if mode == "" {
		mode = "wired"
	}
	w, err := newServerWorld(mode, true, 2, xnode, b.Seed)
	if err != nil {
		return &fw.Trace{Status: fw.Inconclusive, Note: err.Error()}
	}
	defer w.destroy()
	long, short := 6*time.Second, 400*time.Millisecond
	ok := true
	run := func(p int, d time.Duration, when string) {
		if _, fine := w.scripted(p, d, when); !fine {
			ok = false
		}
		// the forwarder on the target node returns a little after the origin's call
		waitFor(settleMax, func() bool { return w.pending() == 0 })
		w.obs()
	}
	switch b.Extra {
	case "ok":
		run(1, long, "now")
		run(2, long, "now")
		run(1, long, "now") // the cross-node link of the first call is back in the pool (or dead) by now
	case "late":
		run(1, short, "late")
		run(1, long, "now")
	case "dup":
		run(1, long, "twice")
		run(1, long, "now")
	case "never":
		run(1, short, "never")
		run(2, long, "now")
	case "gone":
		// the target client goes away: the call must still return, and nothing may stay registered
		w.conns[1].Disconnect()
		run(1, short, "never")
		run(2, long, "now")
	default:
		return &fw.Trace{Status: fw.DriverError, Note: "unknown scenario " + b.Extra}
	}
	if !ok {
		return &fw.Trace{Status: fw.Inconclusive, Note: "an answer took longer than a third of the call's timeout"}
	}
	if !finishCalls(&w.base, w.obs, func() (int, bool) { return w.pending(), true }) {
		return &fw.Trace{Status: fw.Inconclusive, Note: "machine too slow for the driver's deadlines"}
	}
	return &fw.Trace{Status: fw.Realised, Events: w.snapshot()}
}

// ---------------------------------------------------------------------------------------------
// free-running stress: callers with short random deadlines, fake clients that answer after a random delay through
// their own control connection, sometimes twice, sometimes with an id nobody waits for.

func stressServer(env *fw.Env, b *behaviour) *fw.Trace {
	callers := 3
	mode := b.Mode
	if mode == "" {
		mode = "wired"
	}
	w, err := newServerWorld(mode, true, callers, false, b.Seed)
	if err != nil {
		return &fw.Trace{Status: fw.Inconclusive, Note: err.Error()}
	}
	defer w.destroy()
	rng := fw.NewRand(b.Seed*7919 + 17)
	var rmu sync.Mutex
	rnd := func(n int) int { rmu.Lock(); defer rmu.Unlock(); return rng.Intn(n) }
	var timers sync.WaitGroup
	stop := make(chan struct{})
	var clients sync.WaitGroup
	for p := 1; p <= callers; p++ {
		clients.Add(1)
		go func(p int) {
			// the fake client of caller p: answers every command it is sent
			defer clients.Done()
			conn := w.conns[p]
			seen := 0
			for {
				select {
				case <-stop:
					return
				default:
				}
				all := w.wire(conn)
				fresh := all[seen:]
				seen = len(all)
				for _, pk := range fresh {
					if !pk.PacketType.IsJsonCommand() || pk.CommandPacket == nil {
						continue
					}
					id := pk.CommandPacket.CommandId
					var body struct {
						C int `json:"c"`
					}
					json.Unmarshal([]byte(pk.CommandPacket.CommandBody), &body)
					w.log(fw.Event{"ev": "Sent", "c": body.C, "id": id})
					send := func(id, k string, after time.Duration) {
						timers.Add(1)
						time.AfterFunc(after, func() {
							defer timers.Done()
							w.mu.Lock()
							w.nresp++
							n := w.nresp
							w.events = append(w.events, fw.Event{"ev": "Resp", "n": n, "id": id, "k": k})
							w.mu.Unlock()
							w.deliver(conn, id, n)
						})
					}
					d := time.Duration(rnd(1500)) * time.Microsecond
					switch x := rnd(20); {
					case x < 3:
						send(fmt.Sprintf("unknown-%d-%d", w.seq, body.C), "unknown", d)
						send(id, "ok", d+time.Duration(rnd(300))*time.Microsecond)
					case x < 9:
						send(id, "ok", d)
						send(id, "ok", d+time.Duration(rnd(300))*time.Microsecond)
					case x < 10:
					default:
						send(id, "ok", d)
					}
				}
				time.Sleep(50 * time.Microsecond)
			}
		}(p)
	}
	var wg sync.WaitGroup
	for p := 1; p <= callers; p++ {
		wg.Add(1)
		go func(p int) {
			defer wg.Done()
			prng := fw.NewRand(b.Seed*131 + int64(p))
			for i := 0; i < b.N; i++ {
				c := w.newCall(p)
				c.id = fmt.Sprintf("x04-%d-%d", w.seq, c.c)
				ctx, cancel := context.WithCancel(context.Background())
				c.cancel = cancel
				t := time.AfterFunc(time.Duration(prng.Intn(2500))*time.Microsecond, func() {
					w.mu.Lock()
					if !c.done {
						c.expired = true
						w.events = append(w.events, fw.Event{"ev": "Expire", "c": c.c})
					}
					w.mu.Unlock()
					cancel()
				})
				w.doSend(c, ctx, time.Hour)
				t.Stop()
			}
		}(p)
	}
	wg.Wait()
	timers.Wait()
	close(stop)
	clients.Wait()
	if !finishCalls(&w.base, w.obs, func() (int, bool) { return w.pending(), true }) {
		return &fw.Trace{Status: fw.Inconclusive, Note: "machine too slow for the driver's deadlines"}
	}
	return &fw.Trace{Status: fw.Realised, Events: w.snapshot()}
}
