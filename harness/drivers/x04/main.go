// X04 (extension): request/response matching and command forwarding.
//
//	client  internal/client/command/response_manager.go, command_sender.go, control_connection_read.go
//	server  internal/protocol/session/command_forwarder.go (CommandResponseManager, SendCommandToClient, local and
//	        cross-node), command_integration.go (handleCommandPacket), cross_node_listener.go (handleCommand)
//
// Model: spec/ReqResp.tla (ReqResp_mc.cfg, ReqResp_gen.cfg templates, ReqResp_show_*.cfg); judge: spec/ReqRespTrace.tla.
// The driver replays every generated behaviour on the REAL code:
//   - client world (client.go): a real TunnoxClient connected over an in-memory socket to a fake server that speaks
//     the real stream protocol; callers run the real sendCommandAndWaitResponseWithContext (go:linkname), the client's
//     own readLoop goroutine runs the real HandleResponse; the yield points of patch X04-0 are the gates
//     (Reg|Write, Take/Expire|Unreg, Arrive|Recheck|Send); a panic of the read loop is seen through readLoop's own
//     recover (log capture) and through TunnoxClient.readLoopRunning;
//   - server world (server.go): srvkit assembly, one fake control connection per caller, the real SendCommandToClient;
//     responses enter through SessionManager.HandlePacket (mode wired) or DeliverCommandResponse (mode api);
//   - scripted real-time scenarios (the code's own timers run, shortened where the code allows) for the client, the
//     server and the cross-node route (two assemblies, CrossNodePool -> CrossNodeListener over loopback TCP);
//   - free-running seeded stress for client and server.
//
// Without patch X04-0 only behaviours whose steps need no seam are scheduled (reduced coverage, printed at start);
// scripted scenarios and stress run regardless.
package main

import (
	"context"
	"encoding/json"
	"fmt"
	"os"
	"strings"
	"sync"
	"sync/atomic"
	"time"

	"tunnox-core/internal/client/transport"
	corelog "tunnox-core/internal/core/log"
	"tunnox-core/internal/verifhook"
	"tunnox-core/verifharness/fw"
)

var (
	hooksOn    bool // client and server yield points present
	hooksCli   bool
	hooksSrv   bool
	srvWorlds  sync.Map // goroutine id -> *sworld (callers and readers of server worlds are scheduler processes)
	probeSeen  sync.Map
	probing    atomic.Bool
	captureLog = &capture{}
)

// capture is the process-wide logger: silent, except that readLoop's recover message becomes a Panic event of the
// world whose read loop logged it.
type capture struct{}

func (capture) Debug(args ...interface{})                 {}
func (capture) Info(args ...interface{})                  {}
func (capture) Warn(args ...interface{})                  {}
func (capture) Error(args ...interface{})                 {}
func (capture) Debugf(format string, args ...interface{}) {}
func (capture) Infof(format string, args ...interface{})  {}
func (capture) Warnf(format string, args ...interface{})  {}
func (c capture) Errorf(format string, args ...interface{}) {
	if strings.Contains(format, "readLoop panic recovered") {
		if v, ok := gidWorld.Load(goid()); ok {
			v.(*cworld).readLoopPanic(fmt.Sprintf(format, args...))
		}
	}
}
func (c capture) WithField(key string, value interface{}) corelog.Logger  { return c }
func (c capture) WithFields(fields map[string]interface{}) corelog.Logger { return c }
func (c capture) WithError(err error) corelog.Logger                      { return c }
func (c capture) WithContext(ctx context.Context) corelog.Logger          { return c }

func hookHandler(name string, _ any) {
	if probing.Load() {
		probeSeen.Store(name, true)
		return
	}
	switch name {
	case gRdFound, gRdCheck, gCliReg, gCliWait:
		if v, ok := gidWorld.Load(goid()); ok {
			v.(*cworld).hook(name)
		}
	case gSrvReg, gSrvWait, gSrvFound:
		// server worlds: the scheduler knows its own goroutines; strangers pass
		if v, ok := srvWorlds.Load(goid()); ok {
			v.(*sworld).hook(name)
		}
	}
}

// probe runs one answered call in each world and notes which yield points were crossed.
func probe() {
	probing.Store(true)
	verifhook.Set(hookHandler)
	cw, err := newClientWorld(true, time.Hour, 1)
	if err != nil {
		fmt.Printf("INCONCLUSIVE: client world: %v\n", err)
		os.Exit(2)
	}
	if !cw.scripted(1, 10*time.Second, "now") {
		fmt.Println("INCONCLUSIVE: probe call on the client world took too long")
		os.Exit(2)
	}
	cw.mu.Lock()
	r := cw.calls[0].r
	cw.mu.Unlock()
	cw.destroy()
	if r != "resp" {
		fmt.Printf("INCONCLUSIVE: probe call on the client world returned %q: fake server / transport broken\n", r)
		os.Exit(2)
	}
	sw, err := newServerWorld("api", true, 1, false, 1)
	if err != nil {
		fmt.Printf("INCONCLUSIVE: server world: %v\n", err)
		os.Exit(2)
	}
	sw.scripted(1, 10*time.Second, "now")
	sw.mu.Lock()
	r = sw.calls[0].r
	sw.mu.Unlock()
	sw.destroy()
	if r != "resp" {
		fmt.Printf("INCONCLUSIVE: probe call on the server world (DeliverCommandResponse) returned %q\n", r)
		os.Exit(2)
	}
	probing.Store(false)
	has := func(names ...string) bool {
		for _, n := range names {
			if _, ok := probeSeen.Load(n); !ok {
				return false
			}
		}
		return true
	}
	hooksCli = has(gRdFound, gRdCheck, gCliReg, gCliWait)
	hooksSrv = has(gSrvReg, gSrvWait, gSrvFound)
	hooksOn = hooksCli && hooksSrv
	if os.Getenv("X04_NOHOOKS") != "" {
		// development switch: behave as if patch X04-0 were absent
		hooksCli, hooksSrv, hooksOn = false, false, false
		verifhook.Set(nil)
	}
}

func job(name, cfg string, c map[string]string) fw.TLCJob {
	consts := map[string]string{"VARIANT": `"client"`, "NW": "2", "NR": "1", "MAXREQ": "2", "MAXMSG": "3", "MAXEXP": "2", "MAXSTOP": "1", "MAXDROP": "1",
		"KINDS": `{"ok", "bad"}`, "UNKNOWN": "TRUE", "CROSS": "FALSE", "FIXED": "TRUE", "WIRED": "TRUE", "SPEC": "Spec", "PROPS": "",
		"INVS": "RightWaiter AtMostOnce NoLoss NoPanic NoLeak BufOwned ClosedUnreg NoDeviation"}
	for k, v := range c {
		consts[k] = v
	}
	return fw.TLCJob{Name: name, Module: "ReqResp", Cfg: cfg, Consts: consts, Workers: 4, Timeout: 15 * time.Minute}
}

const (
	invsClientAsIs = "RightWaiter AtMostOnce NoLoss NoPanicOrDev NoLeak BufOwned ClosedUnreg"
	invsServerAsIs = "RightWaiter AtMostOnce NoLossOrDev NoPanic NoLeak BufOwned ClosedUnreg"
)

func with(a, b map[string]string) map[string]string {
	m := map[string]string{}
	for k, v := range a {
		m[k] = v
	}
	for k, v := range b {
		m[k] = v
	}
	return m
}

func server(c map[string]string) map[string]string {
	m := map[string]string{"VARIANT": `"server"`, "NR": "2", "MAXMSG": "2", "MAXEXP": "3", "MAXSTOP": "0", "MAXDROP": "0", "KINDS": `{"ok"}`, "CROSS": "TRUE"}
	for k, v := range c {
		m[k] = v
	}
	return m
}

func main() {
	corelog.SetDefault(captureLog)
	transport.RegisterProtocol("x04", 1, dialX04)
	probe()
	fmt.Printf("[x04] yield points present: client=%v server=%v", hooksCli, hooksSrv)
	if !hooksOn {
		fmt.Printf("  (patch X04-0 absent: only behaviours that need no seam are scheduled - reduced coverage)")
	}
	fmt.Println()
	fw.Main(&fw.Property{
		ID:        "X04",
		DesignRef: "DESIGN.md §12 extensions: X04 request/response matching and command forwarding",
		ModelJobs: func(env *fw.Env) []fw.TLCJob {
			live := map[string]string{"SPEC": "LiveSpec", "INVS": "", "PROPS": "PROPERTIES Returns ReaderFree", "MAXMSG": "2", "MAXEXP": "4", "UNKNOWN": "FALSE"}
			liveS := server(map[string]string{"SPEC": "LiveSpec", "INVS": "", "PROPS": "PROPERTIES Returns ReaderFree", "NR": "1", "MAXEXP": "4", "UNKNOWN": "FALSE"})
			if env.Tier == "quick" {
				// one JVM round (the server as found and the server's liveness run in the thorough tier)
				return []fw.TLCJob{
					job("mc:client:fixed", "ReqResp_mc.cfg", map[string]string{"MAXMSG": "2"}),
					job("mc:client:asis", "ReqResp_mc.cfg", map[string]string{"MAXMSG": "2", "FIXED": "FALSE", "INVS": invsClientAsIs}),
					job("mc:server:fixed", "ReqResp_mc.cfg", server(nil)),
					job("live:client", "ReqResp_mc.cfg", with(live, map[string]string{"MAXMSG": "1", "MAXDROP": "0"})),
				}
			}
			big := map[string]string{"MAXREQ": "3"}
			bigS := server(map[string]string{"MAXREQ": "3", "MAXMSG": "3"})
			liveA := map[string]string{"FIXED": "FALSE"}
			for k, v := range live {
				liveA[k] = v
			}
			return []fw.TLCJob{
				job("mc:client:fixed", "ReqResp_mc.cfg", big),
				job("mc:client:asis", "ReqResp_mc.cfg", map[string]string{"MAXREQ": "3", "FIXED": "FALSE", "INVS": invsClientAsIs}),
				job("mc:server:fixed", "ReqResp_mc.cfg", bigS),
				job("mc:server:asis", "ReqResp_mc.cfg", server(map[string]string{"MAXREQ": "3", "MAXMSG": "3", "WIRED": "FALSE", "INVS": invsServerAsIs})),
				job("live:client", "ReqResp_mc.cfg", live),
				job("live:client:asis", "ReqResp_mc.cfg", liveA),
				job("live:server", "ReqResp_mc.cfg", liveS),
			}
		},
		GenJobs: func(env *fw.Env) []fw.TLCJob {
			g := map[string]string{"MAXMSG": "2", "MAXEXP": "1"}
			gl := map[string]string{"MAXMSG": "2", "MAXEXP": "1", "FIXED": "FALSE", "MAXDROP": "0", "UNKNOWN": "FALSE"}
			gs := server(map[string]string{"MAXEXP": "1"})
			jobs := []fw.TLCJob{
				job("gen:client", "ReqResp_gen.cfg", g),
				job("legacy:client", "ReqResp_gen.cfg", gl),
				job("gen:server", "ReqResp_gen.cfg", gs),
			}
			sim := job("gen:client:sim", "ReqResp_gen.cfg", map[string]string{"MAXREQ": "4", "MAXMSG": "5", "MAXEXP": "2", "NW": "3"})
			sim.Simulate, sim.Depth, sim.Seed, sim.Workers = "num=60", 30, env.Seed, 1
			lsim := job("legacy:client:sim", "ReqResp_gen.cfg", map[string]string{"MAXREQ": "4", "MAXMSG": "5", "MAXEXP": "2", "NW": "3", "FIXED": "FALSE"})
			lsim.Simulate, lsim.Depth, lsim.Seed, lsim.Workers = "num=60", 30, env.Seed, 1
			ssim := job("gen:server:sim", "ReqResp_gen.cfg", server(map[string]string{"MAXREQ": "4", "MAXMSG": "5", "MAXEXP": "2", "NW": "3"}))
			ssim.Simulate, ssim.Depth, ssim.Seed, ssim.Workers = "num=60", 30, env.Seed, 1
			if env.Tier == "thorough" {
				sim.Simulate, lsim.Simulate, ssim.Simulate = "num=300", "num=300", "num=300"
				jobs = append(jobs, job("gen:client:n3", "ReqResp_gen.cfg", map[string]string{"MAXREQ": "3", "MAXMSG": "3", "MAXEXP": "1", "MAXDROP": "0", "UNKNOWN": "FALSE"}))
			}
			if env.Tier == "quick" {
				jobs = append(jobs, sim)
			} else {
				jobs = append(jobs, sim, lsim, ssim)
			}
			for i := range jobs {
				jobs[i].Workers = 1 // with VIEW, which history reaches a state first depends on the worker interleaving
			}
			return jobs
		},
		Expand: func(env *fw.Env, src string, raw json.RawMessage) []json.RawMessage {
			var b behaviour
			if err := json.Unmarshal(raw, &b); err != nil {
				panic(err)
			}
			if strings.HasSuffix(src, ":sim") && len(b.Steps) < 12 {
				return nil // -simulate prints every prefix: keep the long ones
			}
			if !hooksOn && needsHooks(&b) {
				return nil
			}
			if b.Variant == "server" {
				var out []json.RawMessage
				for _, m := range []string{"wired", "api"} {
					b.Mode = m
					out = append(out, fw.MustJSON(b))
				}
				return out
			}
			return []json.RawMessage{raw}
		},
		MaxBehSrc: func(env *fw.Env, src string) int {
			q := env.Tier == "quick"
			switch {
			case strings.HasSuffix(src, ":sim"):
				if q {
					return 40
				}
				return 300
			case q:
				return 260
			}
			return 2500
		},
		ExtraBeh: func(env *fw.Env) []json.RawMessage {
			var out []json.RawMessage
			add := func(b behaviour) { out = append(out, fw.MustJSON(b)) }
			for _, x := range []string{"ok", "late", "dup", "bad", "unknown", "never", "stop", "drop"} {
				add(behaviour{Variant: "client", Extra: x, Seed: env.Seed})
			}
			for _, x := range []string{"ok", "late", "dup", "never", "gone"} {
				add(behaviour{Variant: "server", Mode: "wired", Extra: x, Seed: env.Seed})
				add(behaviour{Variant: "xnode", Mode: "wired", Extra: x, Seed: env.Seed})
			}
			n, rounds := 6, 60
			if env.Tier == "thorough" {
				n, rounds = 30, 150
			}
			for i := 0; i < n; i++ {
				add(behaviour{Variant: "client", Extra: "stress", Seed: env.Seed*1000 + int64(i), N: rounds})
				m := "wired"
				if i%3 == 2 {
					m = "api"
				}
				add(behaviour{Variant: "server", Mode: m, Extra: "stress", Seed: env.Seed*1000 + int64(i), N: rounds})
			}
			return out
		},
		Drive:       drive,
		Parallel:    12,
		JudgeModule: "ReqRespTrace",
		JudgeCfg:    "ReqRespTrace.cfg",
		NonTrivial: func(t *fw.Trace) bool {
			for _, e := range t.Events {
				if e["ev"] == "Ret" && e["r"] == "resp" {
					return true
				}
			}
			return false
		},
		Rule: "extension X04: every TLC-generated interleaving of callers (register, write, take/expire, unregister), readers (look-up, re-check, send), Stop and Drop is forced on the real client ResponseManager / read loop and on the real server CommandResponseManager / SendCommandToClient; scripted real-time scenarios cover the code's own timers and the cross-node route; the trace of calls, wire events and results must satisfy ReqRespTrace",
		Assumptions: []string{
			"ids are fresh per request (the client draws them itself, which the judge checks; on the server they are the caller's - reuse of a pending id by a caller is outside the contract)",
			"a response racing with the expiry of its call may be returned or dropped (Go's select); only responses completely handled while the call was neither expired nor stopped are demanded",
			"the cross-node route is driven by scripted scenarios with real timers (origin timeout 0.4 s / 6 s, the target node's 30 s wait is never waited for), not by scheduled interleavings",
			"the value Deliver / HandleResponse reports and which connection a response came from are not judged",
		},
		TrustedBase: []string{"TLC", "harness/fw", "harness/sched", "harness/srvkit", "fake server + in-memory socket in drivers/x04", "loopback TCP (cross-node scenarios)"},
		SelfTest:    selfTest,
	})
}

func drive(env *fw.Env, beh fw.Behaviour) *fw.Trace {
	var b behaviour
	if err := json.Unmarshal(beh.Data, &b); err != nil {
		return &fw.Trace{Status: fw.DriverError, Note: err.Error()}
	}
	switch {
	case b.Extra == "stress" && b.Variant == "client":
		return stressClient(env, &b)
	case b.Extra == "stress":
		return stressServer(env, &b)
	case b.Extra != "" && b.Variant == "client":
		return driveClientScript(env, &b)
	case b.Extra != "":
		return driveScript(env, &b)
	case b.Variant == "client":
		return driveClient(env, &b)
	case b.Variant == "server":
		return driveServer(env, &b)
	}
	return &fw.Trace{Status: fw.DriverError, Note: "unknown variant " + b.Variant}
}

// selfTest: corrupted copies of accepted traces that the judge must reject
func selfTest(env *fw.Env, acc []*fw.Trace) []*fw.Trace {
	var out []*fw.Trace
	id := 1 << 20
	clone := func(t *fw.Trace) *fw.Trace {
		n := &fw.Trace{Beh: t.Beh, Status: t.Status}
		for _, e := range t.Events {
			c := fw.Event{}
			for k, v := range e {
				c[k] = v
			}
			n.Events = append(n.Events, c)
		}
		id++
		n.Beh.ID = id
		return n
	}
	cnt := map[string]int{}
	for _, t := range acc {
		// (1) a call returns the response of another request (serial of a response with a different id)
		if cnt["wrong"] < 5 {
			ids := map[int]string{}
			for _, e := range t.Events {
				if e["ev"] == "Resp" {
					ids[e["n"].(int)], _ = e["id"].(string)
				}
			}
		w1:
			for i, e := range t.Events {
				if e["ev"] == "Ret" && e["r"] == "resp" {
					for m, mid := range ids {
						if mid != ids[e["n"].(int)] {
							n := clone(t)
							n.Events[i]["n"] = m
							out = append(out, n)
							cnt["wrong"]++
							break w1
						}
					}
				}
			}
		}
		// (2) the same response returned twice
		if cnt["twice"] < 5 {
			for i, e := range t.Events {
				if e["ev"] == "Ret" && e["r"] == "resp" {
					n := clone(t)
					d := fw.Event{}
					for k, v := range e {
						d[k] = v
					}
					n.Events = append(n.Events[:i+1:i+1], append([]fw.Event{d}, n.Events[i+1:]...)...)
					out = append(out, n)
					cnt["twice"]++
					break
				}
			}
		}
		// (3) an entry left behind when no call is in flight
		if cnt["leak"] < 5 {
			for i, e := range t.Events {
				if e["ev"] == "Obs" && e["q"] == true {
					n := clone(t)
					n.Events[i]["pending"] = e["pending"].(int) + 1
					out = append(out, n)
					cnt["leak"]++
					break
				}
			}
		}
		// (4) a call that was owed its response reports a timeout instead
		if cnt["lost"] < 5 {
			handled := map[int]bool{}
			expired := map[int]bool{}
			stopped := false
			for i, e := range t.Events {
				switch e["ev"] {
				case "Handled":
					handled[e["n"].(int)] = true
				case "Expire":
					expired[e["c"].(int)] = true
				case "Stop", "Drop":
					stopped = true
				case "Ret":
					if e["r"] == "resp" && handled[e["n"].(int)] && !expired[e["c"].(int)] && !stopped && cnt["lost"] < 5 {
						n := clone(t)
						n.Events[i]["r"], n.Events[i]["n"] = "timeout", 0
						out = append(out, n)
						cnt["lost"]++
					}
				}
				if cnt["lost"] >= 5 {
					break
				}
			}
		}
		// (5) the read loop reported dead at the end of a trace nobody stopped
		if cnt["dead"] < 5 {
			quiet := true
			for _, e := range t.Events {
				if e["ev"] == "Stop" || e["ev"] == "Drop" {
					quiet = false
				}
			}
			last := t.Events[len(t.Events)-1]
			if quiet && last["ev"] == "Final" {
				n := clone(t)
				n.Events[len(n.Events)-1]["alive"] = false
				out = append(out, n)
				cnt["dead"]++
			}
		}
		// (6) a call that never returned
		if cnt["open"] < 3 {
			last := t.Events[len(t.Events)-1]
			if last["ev"] == "Final" {
				n := clone(t)
				n.Events[len(n.Events)-1]["open"] = []int{1}
				out = append(out, n)
				cnt["open"]++
			}
		}
	}
	return out
}
