package main

import (
	"bytes"
	"fmt"
	"reflect"
	"runtime"
	"strconv"
	"strings"
	"sync"
	"time"
	"unsafe"

	"tunnox-core/verifharness/fw"
	"tunnox-core/verifharness/sched"
)

// yield points (patch X04-0)
const (
	gCliReg   = "cmdsender.registered"
	gCliWait  = "cmdsender.waited"
	gRdFound  = "respmgr.handle.found"
	gRdCheck  = "respmgr.handle.checked"
	gSrvReg   = "cmdfwd.registered"
	gSrvWait  = "cmdfwd.waited"
	gSrvFound = "cmdresp.deliver.found"

	settleMax = 3 * time.Second  // a goroutine that should reach a gate / return gets this long (>= 1000 x the usual)
	finalMax  = 10 * time.Second // after everything was cancelled
)

func goid() int64 {
	var buf [64]byte
	n := runtime.Stack(buf[:], false)
	b := buf[len("goroutine "):n]
	i := bytes.IndexByte(b, ' ')
	id, _ := strconv.ParseInt(string(b[:i]), 10, 64)
	return id
}

// ---------------------------------------------------------------------------------------------
// behaviours (spec/ReqResp.tla, Beh / Log)

type wake struct {
	P  int    `json:"p"`
	St string `json:"st"`
	R  string `json:"r"`
	N  int    `json:"n"`
}

type step struct {
	A  string `json:"a"`
	P  int    `json:"p"`
	ID int    `json:"id"`
	K  string `json:"k"`
	St string `json:"st"`
	R  string `json:"r"`
	N  int    `json:"n"`
	Wk []wake `json:"wk"`
	X  bool   `json:"x"`
}

type behaviour struct {
	Variant string `json:"variant"`
	Fixed   bool   `json:"fixed"`
	Wired   bool   `json:"wired"`
	Steps   []step `json:"steps"`
	Mode    string `json:"mode,omitempty"`  // server: wired (responses enter through HandlePacket) | api (DeliverCommandResponse)
	Extra   string `json:"extra,omitempty"` // driver-made scenario
	Seed    int64  `json:"seed,omitempty"`
	N       int    `json:"n,omitempty"`
}

// needsHooks: two steps of one goroutine that only a yield point can separate have something in between
func needsHooks(b *behaviour) bool {
	open := map[string]bool{} // goroutine sits at a yield point
	for _, s := range b.Steps {
		who := ""
		switch s.A {
		case "Reg", "Write", "WriteFail", "Expire", "Unreg", "Take", "NotConn":
			who = fmt.Sprintf("p%d", s.P)
		case "Arrive", "Recheck", "Send":
			who = fmt.Sprintf("r%d", s.P)
		}
		for q, o := range open {
			if o && q != who {
				return true
			}
		}
		if who == "" {
			// Stop / Drop wake callers that then sit at cmdsender.waited
			for _, k := range s.Wk {
				if k.St == "took" {
					open[fmt.Sprintf("p%d", k.P)] = true
				}
			}
			continue
		}
		switch s.St {
		case "reg", "took", "found", "checked":
			open[who] = true
		default:
			open[who] = false
		}
		for _, k := range s.Wk {
			if k.St == "took" {
				open[fmt.Sprintf("p%d", k.P)] = true
			}
		}
	}
	return false
}

// ---------------------------------------------------------------------------------------------
// event log + call bookkeeping shared by the worlds

type callRec struct {
	c, p    int
	name    string // scheduler name
	id      string // request id once known
	cancel  func()
	done    bool
	expired bool
	owed    bool // a response for it was sent after the request and handled while it was not expired
	r       string
	n       int
	start   time.Time
}

type base struct {
	s      *sched.Sched
	mu     sync.Mutex
	events []fw.Event
	calls  []*callRec       // index c-1
	cur    map[int]*callRec // caller -> current call
	byReq  map[int]*callRec // model request number -> call
	nresp  int
	note   string
}

func (b *base) init(free bool, seed int64) {
	b.s = sched.New(free)
	b.s.Watchdog = time.Millisecond // the driver polls for itself (settle): a blocked select is no gate
	b.cur = map[int]*callRec{}
	b.byReq = map[int]*callRec{}
}

func (b *base) log(e fw.Event) {
	b.mu.Lock()
	b.events = append(b.events, e)
	b.mu.Unlock()
}

func (b *base) newCall(p int) *callRec {
	b.mu.Lock()
	defer b.mu.Unlock()
	c := &callRec{c: len(b.calls) + 1, p: p, start: time.Now()}
	c.name = fmt.Sprintf("p%d.%d", p, c.c)
	b.calls = append(b.calls, c)
	b.cur[p] = c
	b.events = append(b.events, fw.Event{"ev": "Call", "c": c.c, "p": p})
	return c
}

func (b *base) ret(c *callRec, r string, n int) {
	b.mu.Lock()
	c.done, c.r, c.n = true, r, n
	b.events = append(b.events, fw.Event{"ev": "Ret", "c": c.c, "r": r, "n": n})
	b.mu.Unlock()
}

func (b *base) inflight() []*callRec {
	b.mu.Lock()
	defer b.mu.Unlock()
	var out []*callRec
	for _, c := range b.calls {
		if !c.done {
			out = append(out, c)
		}
	}
	return out
}

func (b *base) snapshot() []fw.Event {
	b.mu.Lock()
	defer b.mu.Unlock()
	return append([]fw.Event(nil), b.events...)
}

// waitFor polls cond until it holds or d passed.
func waitFor(d time.Duration, cond func() bool) bool {
	dl := time.Now().Add(d)
	for i := 0; ; i++ {
		if cond() {
			return true
		}
		if time.Now().After(dl) {
			return false
		}
		if i < 50 {
			runtime.Gosched()
		} else {
			time.Sleep(100 * time.Microsecond)
		}
	}
}

// waitProc waits until scheduler process name is parked at gate (gate != "") or done (gate == "").
// It returns what it found: "parked:<gate>", "done" or "running".
func (b *base) waitProc(name, gate string, d time.Duration) string {
	var got string
	waitFor(d, func() bool {
		st, at := b.s.State(name)
		switch st {
		case sched.Done:
			got = "done"
			return true
		case sched.Parked:
			got = "parked:" + at.Point
			return true
		}
		got = "running"
		return false
	})
	return got
}

// ---------------------------------------------------------------------------------------------
// reading unexported state of the components (observation only)

func field(obj any, name string) reflect.Value {
	v := reflect.ValueOf(obj)
	for v.Kind() == reflect.Ptr || v.Kind() == reflect.Interface {
		v = v.Elem()
	}
	f := v.FieldByName(name)
	if !f.IsValid() {
		panic("x04: no field " + name + " in " + v.Type().String())
	}
	return reflect.NewAt(f.Type(), unsafe.Pointer(f.UnsafeAddr())).Elem()
}

// fieldOpt is field for a field that only some trees have.
func fieldOpt(obj any, name string) (reflect.Value, bool) {
	v := reflect.ValueOf(obj)
	for v.Kind() == reflect.Ptr || v.Kind() == reflect.Interface {
		v = v.Elem()
	}
	f := v.FieldByName(name)
	if !f.IsValid() {
		return reflect.Value{}, false
	}
	return reflect.NewAt(f.Type(), unsafe.Pointer(f.UnsafeAddr())).Elem(), true
}

// mapLen reads len(obj.<mapField>) under obj.<muField> (a sync.RWMutex).
func mapLen(obj any, mapField, muField string) int {
	mu := field(obj, muField).Addr().Interface().(*sync.RWMutex)
	mu.RLock()
	defer mu.RUnlock()
	return field(obj, mapField).Len()
}

func errClass(err error) string {
	if err == nil {
		return "resp"
	}
	m := err.Error()
	switch {
	case strings.Contains(m, "failed to parse response"):
		return "parse"
	case strings.Contains(m, "timeout"):
		return "timeout"
	case strings.Contains(m, "cancelled") || strings.Contains(m, "canceled"):
		return "cancelled"
	case strings.Contains(m, "response channel closed"):
		return "closed"
	}
	return "err"
}
