// C04 driver: replays every cell of the open-tunnel product (spec/TunnelOpen.tla: identity x
// credential x mapping state x tunnel state at arrival x arrival order, printed by TLC) on the
// real SessionManager + ServerAuthHandler + ServerTunnelHandler + conncode.Service assembled by
// srvkit (one server per cell; two nodes over one store with a loopback cross-node listener for
// the "remote" cells), with clients authenticated through the real handshake, mappings created
// and revoked / expired / deactivated / deleted through the real services and real TunnelOpen
// packets through HandlePacket. It logs, per request, the TunnelOpenAck received, and after the
// script which connection objects the bridge holds and whether a marker written by the other
// ends is readable on each connection. The judge (spec/TunnelOpenTrace.tla) computes the
// property's "entitled" predicate from the logged cell and decides.
//
// Late cells (tunnel states lateLocal / lateRemote): the requester's TunnelOpen is served in its
// own goroutine; once it is past the dispatch the legitimate source registers the tunnel (same /
// other node), so that the request's routing-table poll (handleTargetBridge ->
// lookupTunnelRouting) finds it - the branch on which only processCrossNodeForward compares the
// presented mapping with the tunnel's mapping.
//
// Round 3. Mapping state "lapsed": the mapping carries an ExpiresAt lapseIn ahead from the start of
// the script; the SetMap step only waits until it has passed (natural expiry: no store write).
// Order "closeAfter": a served tunnel, the mapping is changed, then the Close step lets data cross
// both ways, hangs both ends up and waits until the bridge is gone and its final traffic report has
// been stored - a whole-record write AFTER the change - before the requester arrives. Tunnel
// states prefix*: two tunnel ids sharing their first 16 bytes (T = 16 bytes, T+ = the full id),
// either one the victim's, the requester naming the long one on the same / on another node.
package main

import (
	"bytes"
	"encoding/json"
	"fmt"
	"os"
	"strings"
	"sync/atomic"
	"time"

	"tunnox-core/internal/packet"
	"tunnox-core/verifharness/fw"
	"tunnox-core/verifharness/srvkit"
)

const (
	settle         = 5 * time.Second                        // upper bound for an expected asynchronous effect (bridge start, marker delivery)
	grace          = 40 * time.Millisecond                  // extra time after the expected effects before the final snapshot
	expiredJustAgo = 20 * time.Millisecond                  // "expiredJust": ExpiresAt this far in the past when it is written (the boundary of IsExpired)
	lapseIn        = 300 * time.Millisecond                 // "lapsed": the mapping's ExpiresAt lies this far ahead when the script starts
	lateGap        = 120 * time.Millisecond                 // late cells: the tunnel is registered this long after the request passed the dispatch
	tunnelID       = "tcp-tunnel-1758990000000000000-18080" // the shape client/mapping generateTunnelID produces
)

// the tree the generation model describes: tunnox-core with patches/C04-1..3.
// VERIF_C04_MODEL=asfound generates from the as-found model instead (development aid: the
// [binding] line then compares the real code with the model of the tree before the patches).
const patched = `{"validateJoin", "secretValidity", "bindMapping", "bindMappingPoll"}`

var fixes = func() string {
	if os.Getenv("VERIF_C04_MODEL") == "asfound" {
		return "{}"
	}
	return patched
}()

type cellT struct {
	ID      string `json:"id"`
	Cred    string `json:"cred"`
	MS      string `json:"ms"`
	TS      string `json:"ts"`
	Ord     string `json:"ord"`
	Shape   string `json:"shape,omitempty"` // "std" (default) | "noListen" | "noTarget": M without a listen / target client
	Keyless bool   `json:"keyless,omitempty"`
}

type expT struct {
	Ack string `json:"ack"`
	Att string `json:"att"`
}

type stepT struct {
	Op   string          `json:"op"`
	Who  string          `json:"who,omitempty"`
	Node string          `json:"node,omitempty"`
	ID   string          `json:"id,omitempty"`
	Cred string          `json:"cred,omitempty"`
	MS   string          `json:"ms,omitempty"`
	Tid  string          `json:"tid,omitempty"` // "T" (default) | "T+": the tunnel id the request names
	Via  string          `json:"via,omitempty"`
	Exp  json.RawMessage `json:"exp,omitempty"`
	Must bool            `json:"must,omitempty"` // a legitimate flow that has to work (else the kit is broken: exit 2)
}

type behT struct {
	Cell  cellT    `json:"cell"`
	Steps []stepT  `json:"steps"`
	Dev   []string `json:"dev,omitempty"`
}

type client struct {
	id     int64
	secret string
}

type party struct {
	who  string
	node string
	tid  string // "T" | "T+"
	c    *srvkit.Conn
	d    *srvkit.Duplex
	ack  string
	mark string
	// a request whose HandlePacket is still running (late cells: it polls the routing table)
	pending chan error
	ev      fw.Event
	st      stepT
	before  map[string]srvkit.BridgeView // bridges (by tunnel id name) before the request
	goid    int64                        // goroutine serving the request (held requests)
}

type world struct {
	nodes       map[string]*srvkit.Server
	tun         map[string]*srvkit.Tunnels
	xn          []*srvkit.CrossNode
	cl          map[string]client // L, T, X, X2
	m, m2       string            // mapping ids: M (L -> T), M2 (X -> X2)
	m3          string            // M3 (X2 -> X): the stranger is its target
	secret      string
	secret3     string
	parties     map[string]*party
	order       []string
	nconn       int
	tids        map[string]string // "T" / "T+" -> concrete tunnel id
	gate        *srvkit.WriteGate // slow mapping store (usage orders only)
	heldS       bool              // the source's open is still inside its usage write (in-flight)
	lapseAt     time.Time         // mapping state lapsed: the ExpiresAt the mapping carries from the start
	wroteExpiry time.Time         // the ExpiresAt the last SetMap wrote (expired, expiredJust)
}

func (w *world) close() {
	for _, x := range w.xn {
		x.Close()
	}
	for _, s := range w.nodes {
		s.Close()
	}
}

func newWorld(twoNodes, crossNode, keyless bool, shape string, cell cellT) (*world, error) {
	w := &world{nodes: map[string]*srvkit.Server{}, tun: map[string]*srvkit.Tunnels{}, cl: map[string]client{}, parties: map[string]*party{}}
	// tunnel ids: the shape client/mapping generateTunnelID produces. In the prefix class the
	// victim's id is its first 16 bytes (all the cross-node frame header has room for) and the
	// other mapping's tunnel carries the full, longer id
	w.tids = map[string]string{"T": tunnelID}
	if prefixState(cell.TS) {
		w.tids = map[string]string{"T": tunnelID[:16], "T+": tunnelID}
	}
	a, err := srvkit.NewServer(srvkit.Options{NodeID: "node-A"})
	if err != nil {
		return nil, err
	}
	w.nodes["A"] = a
	if usageOrder(cell.Ord) {
		w.tun["A"], w.gate = a.EnableTunnelsSlowStore()
	} else {
		w.tun["A"] = a.EnableTunnels()
	}
	if twoNodes {
		b, err := srvkit.NewPeer(a, srvkit.Options{NodeID: "node-B"})
		if err != nil {
			w.close()
			return nil, err
		}
		w.nodes["B"] = b
		w.tun["B"] = b.EnableTunnels()
	}
	if twoNodes || crossNode {
		for _, n := range []string{"A", "B"} {
			if w.nodes[n] == nil {
				continue
			}
			x, err := w.nodes[n].EnableCrossNode()
			if err != nil {
				w.close()
				return nil, err
			}
			w.xn = append(w.xn, x)
		}
	}
	// four clients, identities issued by a real first connect on node A. The connections are of
	// the tunnel type on purpose: a control-type login starts `go pushConfigToClient`, which may
	// still be writing when the cell is over and the server closes (StreamProcessor.WritePacket
	// dereferences the writer Close has just cleared - a crash of the whole check, not a C04 matter)
	for i, name := range []string{"L", "T", "X", "X2"} {
		c, err := a.NewConn(fmt.Sprintf("10.4.0.%d", i+1))
		if err != nil {
			w.close()
			return nil, err
		}
		id, sec, _, err := c.FirstConnect("tunnel")
		if err != nil || id == 0 || sec == "" {
			w.close()
			return nil, fmt.Errorf("first connect of %s failed: %v", name, err)
		}
		w.cl[name] = client{id, sec}
	}
	w.secret = srvkit.NewSecret()
	if keyless {
		w.secret = ""
	}
	lid, tid := w.cl["L"].id, w.cl["T"].id
	switch shape {
	case "noListen": // server-ingress / HTTP-domain mappings have no listen client
		lid = 0
	case "noTarget":
		tid = 0
	}
	m, err := w.tun["A"].CreateMapping(lid, tid, w.secret)
	if err != nil {
		w.close()
		return nil, err
	}
	m2, err := w.tun["A"].CreateMapping(w.cl["X"].id, w.cl["X2"].id, srvkit.NewSecret())
	if err != nil {
		w.close()
		return nil, err
	}
	w.secret3 = srvkit.NewSecret()
	m3, err := w.tun["A"].CreateMapping(w.cl["X2"].id, w.cl["X"].id, w.secret3)
	if err != nil {
		w.close()
		return nil, err
	}
	w.m, w.m2, w.m3 = m.ID, m2.ID, m3.ID
	return w, nil
}

// setMap administers the mapping and then waits until the change is visible to a read of the
// mapping store. (repos.GenericRepositoryImpl.Get shares one in-flight storage read among all
// callers - singleflight - so a Get issued AFTER a write returned can still be handed the value
// an earlier, descheduled reader fetched BEFORE it; under CPU load that window reaches
// milliseconds. A request racing with the change may be served either way; the cells are about
// requests that arrive after the change took effect.)
func (w *world) setMap(ms string) error {
	if err := w.administer(ms); err != nil {
		return err
	}
	// what to wait for is the WRITTEN RECORD, not the validity the code computes from it: for the
	// time-dependent states (expiredJust, lapsed) that computation is exactly what the cell tests,
	// and waiting for "invalid" would wait any tolerance out
	landed := func() bool {
		m := w.tun["A"].StoredMapping(w.m)
		switch ms {
		case "active", "lapsed": // nothing was written
			return true
		case "missing":
			return m == nil
		case "revoked":
			return m != nil && m.IsRevoked
		case "expired", "expiredJust":
			return m != nil && m.ExpiresAt != nil && m.ExpiresAt.Equal(w.wroteExpiry)
		}
		return m != nil && string(m.Status) == ms // inactive, error, suspended, ...: the status string
	}
	deadline := time.Now().Add(300 * time.Millisecond)
	for !landed() && time.Now().Before(deadline) {
		time.Sleep(200 * time.Microsecond)
	}
	return nil
}

func (w *world) administer(ms string) error {
	t := w.tun["A"]
	switch ms {
	case "active":
		return nil
	case "revoked":
		if err := t.Revoke(w.m, w.cl["L"].id); err != nil { // a party of the mapping revokes it
			return t.Revoke(w.m, w.cl["T"].id)
		}
		return nil
	case "expired":
		w.wroteExpiry = time.Now().Add(-time.Hour)
		return t.ExpireAt(w.m, w.wroteExpiry)
	case "expiredJust": // the boundary: expired a moment ago
		w.wroteExpiry = time.Now().Add(-expiredJustAgo)
		return t.ExpireAt(w.m, w.wroteExpiry)
	case "lapsed": // natural expiry: nothing is written, the ExpiresAt set at the start passes
		if w.lapseAt.IsZero() {
			return fmt.Errorf("mapping state lapsed without an expiry set at the start")
		}
		if d := time.Until(w.lapseAt.Add(2 * time.Millisecond)); d > 0 {
			time.Sleep(d)
		}
		return nil
	case "inactive":
		return t.Deactivate(w.m)
	case "missing":
		return t.Delete(w.m)
	case "":
		return fmt.Errorf("empty mapping state")
	}
	// any other status string: models.MappingStatusError ("error"), a free-form one ("suspended")
	return t.SetStatus(w.m, ms)
}

// login brings the connection to the identity of the cell through the real handshake.
func (w *world) login(c *srvkit.Conn, id string) error {
	var cl client
	switch id {
	case "none":
		return nil
	case "noneHs": // announces the listen client's id, answers the challenge without the key
		l := w.cl["L"]
		ch, _, err := c.Phase1(l.id, "tunnel")
		if err != nil || ch == "" {
			return fmt.Errorf("phase1: %v", err)
		}
		r, err := c.Phase2(l.id, srvkit.HMAC("not-the-key", ch), "tunnel")
		if err != nil {
			return err
		}
		if r != nil && r.Success {
			return fmt.Errorf("handshake with a wrong key succeeded")
		}
		return nil
	case "listen":
		cl = w.cl["L"]
	case "target":
		cl = w.cl["T"]
	case "stranger":
		cl = w.cl["X"]
	default:
		return fmt.Errorf("identity %q?", id)
	}
	ok, err := c.Login(cl.id, cl.secret, "tunnel")
	if err != nil || !ok {
		return fmt.Errorf("login as %s failed: ok=%v err=%v", id, ok, err)
	}
	return nil
}

func usageOrder(ord string) bool { return ord == "slowUsage" || ord == "inflightUsage" }

// histOrder: orders that are a history class of their own in the judge's detail.
func histOrder(ord string) bool { return usageOrder(ord) || ord == "closeAfter" }

func prefixState(ts string) bool { return strings.HasPrefix(ts, "prefix") }

func (w *world) request(cred, tid string) *packet.TunnelOpenRequest {
	r := &packet.TunnelOpenRequest{TunnelID: w.tids[tid]}
	switch cred {
	case "idOnly":
		r.MappingID = w.m
	case "rightSecret":
		r.MappingID, r.SecretKey = w.m, w.secret
	case "wrongSecret":
		r.MappingID, r.SecretKey = w.m, "not-"+w.secret
	case "resume":
		r.MappingID, r.ResumeToken = w.m, "bogus.resume.token"
	case "nothing":
	case "otherId":
		r.MappingID = w.m2
	case "otherSecret":
		r.MappingID, r.SecretKey = w.m3, w.secret3
	}
	return r
}

type bridgeAt struct {
	node, tid, mapping string
	v                  srvkit.BridgeView
}

// bridges lists the bridges registered under the cell's tunnel ids, whichever mapping / node.
func (w *world) bridges() (out []bridgeAt) {
	for _, n := range []string{"A", "B"} {
		s := w.nodes[n]
		if s == nil {
			continue
		}
		for _, m := range []struct{ name, id string }{{"M", w.m}, {"M2", w.m2}, {"M3", w.m3}} {
			b := s.Bridge(m.id)
			if !b.Exists {
				continue
			}
			for name, id := range w.tids {
				if b.TunnelID == id {
					out = append(out, bridgeAt{n, name, m.name, b})
				}
			}
		}
	}
	return out
}

// bridge finds the bridge registered under the named tunnel id.
func (w *world) bridge(tid string) (node, mapping string, v srvkit.BridgeView) {
	for _, b := range w.bridges() {
		if b.tid == tid {
			return b.node, b.mapping, b.v
		}
	}
	return "", "-", srvkit.BridgeView{}
}

func (w *world) arrival(node, tid string) (ts, tm string) {
	n, m, b := w.bridge(tid)
	switch {
	case n == "":
		return "none", "-"
	case n != node:
		return "remote", m
	case b.TargetReady:
		return "served", m
	}
	return "waiting", m
}

// attached: the bridge a party is attached to as the servers' books have it (nil: none).
func (w *world) attached(p *party) (kind string, at *bridgeAt) {
	if p.d == nil {
		return "none", nil
	}
	bs := w.bridges()
	for i := range bs {
		switch b := &bs[i]; {
		case b.v.Source == p.d:
			return "src", b
		case b.v.Target == p.d:
			return "tgt", b
		}
	}
	// forwarded from another node: the source node's bridge holds a cross-node connection (the
	// scripts forward at most one connection per cell)
	for i := range bs {
		if b := &bs[i]; p.node != b.node && p.ack == "ok" && b.v.CrossNode {
			return "fwd", b
		}
	}
	return "none", nil
}

func (w *world) attachment(p *party) string { k, _ := w.attached(p); return k }

func waitFor(cond func() bool) bool {
	deadline := time.Now().Add(settle)
	for i := 0; ; i++ {
		if cond() {
			return true
		}
		if time.Now().After(deadline) {
			return false
		}
		if i < 200 {
			time.Sleep(200 * time.Microsecond)
		} else {
			time.Sleep(2 * time.Millisecond)
		}
	}
}

func (w *world) duplexOf(c interface{}) *srvkit.Duplex {
	for _, p := range w.parties {
		if p.d != nil && c == interface{}(p.d) {
			return p.d
		}
	}
	return nil
}

var bindSteps, bindMismatch atomic.Int64
var firstMismatch atomic.Pointer[string]

func (w *world) before() map[string]srvkit.BridgeView {
	m := map[string]srvkit.BridgeView{}
	for _, b := range w.bridges() {
		m[b.tid] = b.v
	}
	return m
}

func (w *world) anyCross() bool {
	for _, b := range w.bridges() {
		if b.v.CrossNode {
			return true
		}
	}
	return false
}

func (w *world) open(st stepT, cell cellT, t *fw.Trace) (err error) {
	s := w.nodes[st.Node]
	if s == nil {
		return fmt.Errorf("node %q not assembled", st.Node)
	}
	if st.Tid == "" {
		st.Tid = "T"
	}
	if st.Who == "T" {
		if n, _, _ := w.bridge("T"); n == "" {
			return nil // the target is told to connect only once a bridge exists
		}
	}
	w.nconn++
	c, d, err := s.NewDuplexConn(fmt.Sprintf("10.4.1.%d", w.nconn))
	if err != nil {
		return err
	}
	if err := w.login(c, st.ID); err != nil {
		return err
	}
	p := &party{who: st.Who, node: st.Node, tid: st.Tid, c: c, d: d, ack: "none", mark: fmt.Sprintf("<<MARK-%s-%d>>", st.Who, time.Now().UnixNano())}
	w.parties[st.Who] = p
	w.order = append(w.order, st.Who)
	ts, tm := w.arrival(st.Node, st.Tid)
	p.before = w.before()
	late := strings.HasPrefix(cell.TS, "late") && st.Who == "R"
	if late {
		ts = cell.TS // nothing registered at arrival; the tunnel appears while the request is served
	}
	if prefixState(cell.TS) && st.Who == "R" {
		ts = cell.TS // the named id shares its 16-byte prefix with another tunnel on the source node
	}
	ms := cell.MS
	if st.MS != "" {
		ms = st.MS
	}
	p.st = st
	p.ev = fw.Event{"ev": "Open", "who": st.Who, "id": st.ID, "cred": st.Cred, "ms": ms, "ts": ts, "tm": tm, "node": st.Node, "tid": st.Tid, "via": st.Via}
	if cell.Keyless {
		p.ev["keyless"] = true
	}
	if cell.Shape != "" && cell.Shape != "std" {
		p.ev["shape"] = cell.Shape
	}
	if histOrder(cell.Ord) {
		p.ev["ord"] = cell.Ord
	}
	req := w.request(st.Cred, st.Tid)
	send := func() error {
		ack, _, _, err := c.TunnelOpen(req)
		if err != nil {
			return err
		}
		if ack != nil {
			p.ack = "fail"
			if ack.Success {
				p.ack = "ok"
			}
		}
		return nil
	}
	if late {
		// the request is served in its own goroutine (as the connection's read loop would); the
		// script goes on once it is past the dispatch - the acknowledgement is on the wire, or
		// HandlePacket has returned - so that what the next step registers is found by the
		// request's routing-table poll, not by the dispatcher's look at arrival
		p.pending = make(chan error, 1)
		go func() { p.pending <- send() }()
		waitFor(func() bool { return len(c.T.Peek()) > 0 || len(p.pending) > 0 })
		time.Sleep(lateGap)
		return nil
	}
	if w.gate != nil && st.Who == "S" {
		return w.openSlowStore(p, cell, t, send)
	}
	if err := send(); err != nil {
		return err
	}
	return w.finish(p, cell, t, st.Exp)
}

// openSlowStore: the source's open against a slow mapping store. The next whole-record write
// (RecordMappingUsage's write-back: its read has happened) parks at the gate. Where it parks
// tells how the tree does the write:
//   - on the goroutine serving the request: the write is part of HandleTunnelOpen, the open cannot
//     be acknowledged before it has landed. Order slowUsage (mapping changed AFTER the
//     acknowledgement): let it land now. Order inflightUsage: keep it parked, the mapping is
//     changed while the open is still in flight.
//   - on another goroutine: the open is acknowledged with the write still pending; it stays
//     parked until the UsageLand step, i.e. until after the mapping was changed.
func (w *world) openSlowStore(p *party, cell cellT, t *fw.Trace, send func() error) error {
	w.gate.Arm()
	p.pending = make(chan error, 1)
	ids := make(chan int64, 1)
	go func() { ids <- srvkit.GoID(); p.pending <- send() }()
	p.goid = <-ids
	returned := false
	select {
	case <-w.gate.Hit():
	case err := <-p.pending:
		if err != nil {
			return err
		}
		returned = true
		// acknowledged without a write at the gate: either nothing is written, or the write runs
		// in the background and has not reached the store yet - give it a moment
		if p.ack == "ok" {
			select {
			case <-w.gate.Hit():
			case <-time.After(time.Second):
			}
		}
		if parked, _ := w.gate.Parked(); !parked {
			w.gate.Release() // disarm: nothing will be held
		}
	case <-time.After(settle):
		return inconclusiveErr("the source's open neither returned nor reached the mapping store")
	}
	if parked, goid := w.gate.Parked(); !returned && parked && goid == p.goid {
		if cell.Ord == "inflightUsage" {
			w.heldS = true
			return nil
		}
		w.gate.Release()
	}
	if !returned {
		select {
		case err := <-p.pending:
			if err != nil {
				return err
			}
		case <-time.After(settle):
			return inconclusiveErr("the source's open did not return")
		}
	}
	p.pending = nil
	return w.finish(p, cell, t, p.st.Exp)
}

// usageLand: the slow store completes the held write (if one is held).
func (w *world) usageLand(st stepT, cell cellT, t *fw.Trace) error {
	if w.gate == nil {
		return fmt.Errorf("no slow store in this cell")
	}
	w.gate.Release()
	if w.heldS {
		w.heldS = false
		p := w.parties["S"]
		select {
		case err := <-p.pending:
			if err != nil {
				return err
			}
		case <-time.After(settle):
			return inconclusiveErr("the source's open did not return after its usage write")
		}
		p.pending = nil
		if err := w.finish(p, cell, t, p.st.Exp); err != nil {
			return err
		}
	}
	if len(st.Exp) > 0 {
		var e struct {
			Valid bool `json:"valid"`
		}
		if json.Unmarshal(st.Exp, &e) == nil {
			bindSteps.Add(1)
			got := w.tun["A"].StoredValid(w.m)
			for dl := time.Now().Add(100 * time.Millisecond); got != e.Valid && time.Now().Before(dl); got = w.tun["A"].StoredValid(w.m) {
				time.Sleep(200 * time.Microsecond) // a read that joined an older in-flight read (see setMap)
			}
			if got != e.Valid {
				bindMismatch.Add(1)
				s := fmt.Sprintf("UsageLand %s:%s:%s:%s: model stored-valid=%v, store %v", cell.ID, cell.Cred, cell.MS, cell.Ord, e.Valid, got)
				firstMismatch.CompareAndSwap(nil, &s)
			}
		}
	}
	return nil
}

// resolve waits for a request that was left running (late cells) and takes its outcome.
func (w *world) resolve(st stepT, cell cellT, t *fw.Trace) error {
	p := w.parties[st.Who]
	if p == nil || p.pending == nil {
		return fmt.Errorf("nothing pending for %s", st.Who)
	}
	select {
	case err := <-p.pending:
		if err != nil {
			return err
		}
	case <-time.After(15 * time.Second): // lookupTunnelRouting gives up after 10 s
		return inconclusiveErr("pending TunnelOpen did not return")
	}
	return w.finish(p, cell, t, st.Exp)
}

// finish records the request's outcome and lets the asynchronous part of a successful open
// finish, so that the next step meets a definite tunnel state: a joiner that made a bridge
// ready => the copy loops (or the cross-node forwarders) have taken both sockets over.
func (w *world) finish(p *party, cell cellT, t *fw.Trace, exp json.RawMessage) error {
	st := p.st
	st.Exp = exp
	p.ev["ack"], p.ev["closed"] = p.ack, p.c.Closed()
	t.Events = append(t.Events, p.ev)
	if p.ack != "ok" {
		w.bind(st, p, cell)
		return nil
	}
	if bn, _, _ := w.bridge(p.tid); bn != "" && bn != st.Node {
		was := false
		for _, b := range p.before {
			was = was || b.CrossNode
		}
		if !was {
			waitFor(w.anyCross) // TargetReady frame handled on the source node
		}
	}
	if kind, at := w.attached(p); at != nil && kind != "src" && !p.before[at.tid].TargetReady && at.v.TargetReady {
		src := w.duplexOf(at.v.Source)
		ok := waitFor(func() bool { return p.d.Waiting() > 0 && (src == nil || src.Waiting() > 0) })
		if !ok {
			return inconclusiveErr("bridge did not take the sockets over within the margin")
		}
	}
	w.bind(st, p, cell)
	if st.Must && w.attachment(p) == "none" && w.lapsing() {
		return inconclusiveErr("the build steps were too slow for the mapping's expiry")
	}
	if st.Must && w.attachment(p) == "none" {
		return fmt.Errorf("legitimate flow does not work: %s (%s, %s) acknowledged but not attached", st.Who, st.ID, st.Cred)
	}
	return nil
}

// lapsing: the mapping carries an expiry that has (nearly) passed - a legitimate flow that fails
// now says nothing about the kit.
func (w *world) lapsing() bool {
	return !w.lapseAt.IsZero() && time.Now().After(w.lapseAt.Add(-50*time.Millisecond))
}

// closeTunnel is the Close step: the served tunnel of mapping M carries data both ways, both ends
// hang up, the bridge goes away and its final traffic report (read the mapping, add the byte
// counts, write the whole record) reaches the store.
func (w *world) closeTunnel(st stepT, cell cellT, t *fw.Trace) error {
	s, tg := w.parties["S"], w.parties["T"]
	if n, _, v := w.bridge("T"); n != "" && s != nil && tg != nil && s.ack == "ok" && tg.ack == "ok" && v.TargetReady {
		ms, mt := []byte("<<DATA-S>>"), []byte("<<DATA-T>>")
		s.d.Feed(ms)
		tg.d.Feed(mt)
		if !waitFor(func() bool {
			return bytes.Contains(tg.c.T.Peek(), ms) && bytes.Contains(s.c.T.Peek(), mt)
		}) {
			return inconclusiveErr("data did not cross the served tunnel within the margin")
		}
		// these bytes crossed the tunnel of M between its two legitimate ends; the final snapshot
		// is about what reaches a connection from here on
		s.c.TakeRaw()
		tg.c.TakeRaw()
		before := w.tun["A"].TrafficBytes(w.m)
		s.d.Close()
		tg.d.Close()
		if !waitFor(func() bool { n, _, _ := w.bridge("T"); return n == "" }) {
			return inconclusiveErr("the bridge did not go away after both ends hung up")
		}
		// the report runs on the bridge's own goroutine once its context is done; a deleted
		// mapping has no record to report to
		if cell.MS != "missing" {
			if !waitFor(func() bool { return w.tun["A"].TrafficBytes(w.m) > before }) {
				return inconclusiveErr("the closed bridge's traffic report did not reach the store within the margin")
			}
		}
		time.Sleep(grace)
	} // else: no served tunnel (the legitimate flow was refused) - nothing to close
	if len(st.Exp) > 0 {
		var e struct {
			Valid bool `json:"valid"`
		}
		if json.Unmarshal(st.Exp, &e) == nil {
			bindSteps.Add(1)
			if got := w.tun["A"].StoredValid(w.m); got != e.Valid {
				bindMismatch.Add(1)
				s := fmt.Sprintf("Close %s:%s:%s:%s: model stored-valid=%v, store %v", cell.ID, cell.Cred, cell.MS, cell.Ord, e.Valid, got)
				firstMismatch.CompareAndSwap(nil, &s)
			}
		}
	}
	return nil
}

type inconclusiveErr string

func (e inconclusiveErr) Error() string { return string(e) }

// bind compares what the real code did with what the implementation-shaped model predicted
// (informational: it keeps the model honest on the tree it describes; never a verdict).
func (w *world) bind(st stepT, p *party, cell cellT) {
	if len(st.Exp) == 0 {
		return
	}
	var e expT
	if json.Unmarshal(st.Exp, &e) != nil {
		return
	}
	bindSteps.Add(1)
	got := expT{Ack: p.ack, Att: w.attachment(p)}
	if got != e {
		bindMismatch.Add(1)
		s := fmt.Sprintf("%s %s:%s:%s:%s:%s via %s: model %+v, code %+v", st.Who, cell.ID, cell.Cred, cell.MS, cell.TS, cell.Ord, st.Via, e, got)
		firstMismatch.CompareAndSwap(nil, &s)
	}
}

// markers: every acknowledged end writes its marker into its socket; then the final snapshot.
func (w *world) markers(t *fw.Trace, cell cellT, legitServed bool) error {
	var writers []*party
	for _, who := range w.order {
		if p := w.parties[who]; p.ack == "ok" && !p.c.Closed() {
			writers = append(writers, p)
			p.d.Feed([]byte(p.mark))
		}
	}
	// whose marker a party read ("" none)
	from := func(p *party) *party {
		raw := p.c.T.Peek()
		for _, q := range writers {
			if q != p && bytes.Contains(raw, []byte(q.mark)) {
				return q
			}
		}
		return nil
	}
	// expected deliveries, from the servers' own books: a ready bridge forwards its source's bytes
	// to somebody and somebody's bytes to its source
	for _, b := range w.bridges() {
		if !b.v.TargetReady {
			continue
		}
		src := w.duplexOf(b.v.Source)
		var sp *party
		for _, p := range w.parties {
			if p.d == src && src != nil {
				sp = p
			}
		}
		if sp != nil && sp.ack == "ok" {
			ok := waitFor(func() bool {
				if from(sp) == nil {
					return false
				}
				for _, p := range w.parties {
					if p != sp && bytes.Contains(p.c.T.Peek(), []byte(sp.mark)) {
						return true
					}
				}
				return false
			})
			if !ok {
				return inconclusiveErr("markers did not cross a ready bridge within the margin")
			}
		}
	}
	time.Sleep(grace)
	att, am, marker, lm, stray := map[string]any{}, map[string]any{}, map[string]any{}, map[string]any{}, map[string]any{}
	mapOf := func(p *party) string {
		if _, at := w.attached(p); at != nil {
			return at.mapping
		}
		return "-"
	}
	for who, p := range w.parties {
		att[who], am[who] = w.attachment(p), mapOf(p)
		q := from(p)
		marker[who], lm[who] = q != nil, "-"
		if q != nil {
			lm[who] = mapOf(q) // the tunnel the bytes came from is the one their writer is attached to
		}
		stray[who] = len(p.c.T.Peek()) > 0 // Send drained the acknowledgement; anything here came later
	}
	rt := "T"
	if r := w.parties["R"]; r != nil {
		rt = r.tid
	}
	_, bm, _ := w.bridge(rt)
	t.Events = append(t.Events, fw.Event{"ev": "Obs", "bm": bm, "att": att, "am": am, "marker": marker, "lm": lm, "stray": stray})
	if legitServed {
		s, tg := w.parties["S"], w.parties["T"]
		if (s == nil || tg == nil || marker["S"] != true || marker["T"] != true) && !w.lapseAt.IsZero() {
			return inconclusiveErr("the build steps were too slow for the mapping's expiry")
		}
		if s == nil || tg == nil || marker["S"] != true || marker["T"] != true {
			return fmt.Errorf("legitimate flow does not work: no data between the legitimate source and target (att=%v marker=%v)", att, marker)
		}
	}
	return nil
}

var legitOK atomic.Int64

func drive(env *fw.Env, b fw.Behaviour) *fw.Trace {
	var beh behT
	if err := json.Unmarshal(b.Data, &beh); err != nil {
		return &fw.Trace{Status: fw.DriverError, Note: err.Error()}
	}
	two := false
	for _, st := range beh.Steps {
		if st.Node == "B" {
			two = true
		}
	}
	w, err := newWorld(two, strings.HasPrefix(beh.Cell.TS, "late"), beh.Cell.Keyless, beh.Cell.Shape, beh.Cell)
	if err != nil {
		return &fw.Trace{Status: fw.DriverError, Note: "world: " + err.Error()}
	}
	defer w.close()
	t := &fw.Trace{Status: fw.Realised}
	t.Events = append(t.Events, fw.Event{"ev": "Cell", "id": beh.Cell.ID, "cred": beh.Cell.Cred, "ms": beh.Cell.MS, "ts": beh.Cell.TS, "ord": beh.Cell.Ord})
	cur := "active"
	legit := beh.Cell.Ord == "legitFirst" || beh.Cell.Ord == "closeAfter"
	if beh.Cell.MS == "lapsed" {
		// the mapping expires by itself: it has carried this ExpiresAt since before the first request
		w.lapseAt = time.Now().Add(lapseIn)
		if err := w.tun["A"].ExpireAt(w.m, w.lapseAt); err != nil {
			return &fw.Trace{Status: fw.DriverError, Note: "lapsing mapping: " + err.Error()}
		}
	}
	defer func() {
		if w.gate != nil {
			w.gate.Release() // never leave a request parked in the slow store
		}
	}()
	for _, st := range beh.Steps {
		var err error
		switch st.Op {
		case "Skip":
		case "SetMap":
			err = w.setMap(st.MS)
			cur = st.MS
			legit = false
		case "Open":
			st.MS = cur
			// the plain legitimate flows on an untouched active mapping have to work
			st.Must = st.Must || (legit && st.Who != "R") || (beh.Cell.Ord == "slowUsage" && st.Who == "S")
			err = w.open(st, beh.Cell, t)
		case "Resolve":
			err = w.resolve(st, beh.Cell, t)
		case "Marker":
			err = w.markers(t, beh.Cell, beh.Cell.Ord == "legitFirst" && beh.Cell.TS == "served")
		case "UsageLand":
			err = w.usageLand(st, beh.Cell, t)
		case "Close":
			err = w.closeTunnel(st, beh.Cell, t)
		default:
			err = fmt.Errorf("step %q?", st.Op)
		}
		if ie, ok := err.(inconclusiveErr); ok {
			return &fw.Trace{Status: fw.Inconclusive, Note: string(ie)}
		}
		if err != nil {
			return &fw.Trace{Status: fw.DriverError, Note: fmt.Sprintf("cell %+v step %s %s: %v", beh.Cell, st.Op, st.Who, err)}
		}
	}
	if beh.Cell.Ord == "legitFirst" && beh.Cell.TS == "served" {
		legitOK.Add(1)
	}
	return t
}

// ---- driver-made cells: a mapping without a secret (what connection-code activation creates) --
func extra(env *fw.Env) []json.RawMessage {
	open := func(who, node, id, cred string, must bool) stepT {
		return stepT{Op: "Open", Who: who, Node: node, ID: id, Cred: cred, Must: must}
	}
	mk := func(id, cred, ms string, must bool) json.RawMessage {
		return fw.MustJSON(behT{Cell: cellT{ID: id, Cred: cred, MS: ms, TS: "waiting", Ord: "legitFirst", Keyless: true},
			Steps: []stepT{open("S", "A", "listen", "idOnly", true), {Op: "SetMap", MS: ms}, open("R", "A", id, cred, must), {Op: "Marker"}}})
	}
	return []json.RawMessage{
		mk("target", "idOnly", "active", true), // the server's own TunnelOpenRequest command carries secret_key ""
		mk("stranger", "idOnly", "active", false),
		mk("target", "idOnly", "revoked", false),
		mk("none", "idOnly", "active", false),
	}
}

// ---- self-test: corrupted copies of accepted traces -------------------------------------------
func clone(t *fw.Trace, id int) *fw.Trace {
	var evs []fw.Event
	if err := json.Unmarshal(fw.MustJSON(t.Events), &evs); err != nil {
		panic(err)
	}
	return &fw.Trace{Beh: fw.Behaviour{ID: id, Src: "selftest", Data: t.Beh.Data}, Status: fw.Realised, Events: evs}
}

func selfTest(env *fw.Env, acc []*fw.Trace) []*fw.Trace {
	var out []*fw.Trace
	id := 7000000
	kinds := [5]int{}
	for _, t := range acc {
		var open, obs fw.Event
		for _, e := range t.Events {
			if e["ev"] == "Open" && e["who"] == "R" {
				open = e
			}
			if e["ev"] == "Obs" {
				obs = e
			}
		}
		if open == nil || obs == nil {
			continue
		}
		att := obs["att"].(map[string]any)["R"]
		refused := open["ack"] == "fail" && att == "none"
		attached := open["ack"] == "ok" && att != "none" && open["ms"] == "active"
		mut := func(k int, f func(o, b fw.Event)) {
			if kinds[k] >= 8 {
				return
			}
			kinds[k]++
			id++
			c := clone(t, id)
			var o, b fw.Event
			for _, e := range c.Events {
				if e["ev"] == "Open" && e["who"] == "R" {
					o = e
				}
				if e["ev"] == "Obs" {
					b = e
				}
			}
			f(o, b)
			out = append(out, c)
		}
		if refused {
			mut(0, func(o, b fw.Event) { b["att"].(map[string]any)["R"] = "tgt" })   // the bridge holds a refused connection
			mut(1, func(o, b fw.Event) { b["marker"].(map[string]any)["R"] = true }) // a refused connection reads the marker
			mut(2, func(o, b fw.Event) { o["ack"] = "ok" })                          // a refused request is acknowledged as success
			mut(3, func(o, b fw.Event) { o["ack"] = "none" })                        // ... or not acknowledged at all
		}
		if attached {
			mut(4, func(o, b fw.Event) { o["ms"] = "revoked" }) // the same attachment on a revoked mapping
		}
	}
	return out
}

func main() {
	all := `{"none", "waiting", "served", "remote", "lateLocal", "lateRemote", "prefixRemote", "prefixRemoteRev", "prefixLocal", "prefixLocalRev"}`
	local := `{"none", "waiting", "served", "lateLocal", "lateRemote", "prefixRemote", "prefixRemoteRev", "prefixLocal", "prefixLocalRev"}` // the late / prefix classes are few (210 cells) and carry their own nodes
	orders := `{"legitFirst", "reqFirst", "slowUsage", "closeAfter"}`
	genOrders := orders
	if os.Getenv("VERIF_C04_INFLIGHT") != "" || strings.Contains(strings.Join(os.Args, " "), "thorough") {
		// thorough tier (and VERIF_C04_INFLIGHT=1): also change the mapping while the earlier open is still
		// between the read and the write of its usage record (see spec/TunnelOpen_show_inflight.cfg); on the tree
		// as found this reproduces the open known finding */inflightUsage:* (lost update, no small repair)
		genOrders = `{"legitFirst", "reqFirst", "slowUsage", "closeAfter", "inflightUsage"}`
	}
	fw.Main(&fw.Property{
		ID:        "C04",
		DesignRef: "DESIGN.md §5 C04",
		ModelJobs: func(env *fw.Env) []fw.TLCJob {
			return []fw.TLCJob{
				{Name: "dispatcher, tunnox-core as found (invariants masked by the named deviations)", Module: "TunnelOpen", Cfg: "TunnelOpen_mc.cfg", Workers: 2,
					Consts: map[string]string{"FIXES": "{}", "MASKED": "TRUE", "EMIT": "FALSE", "TSTATES": all, "ORDERS": orders}},
				{Name: "dispatcher, with patches C04-1..3 (strict invariants, no deviation reachable)", Module: "TunnelOpen", Cfg: "TunnelOpen_mc.cfg", Workers: 2,
					Consts: map[string]string{"FIXES": patched, "MASKED": "FALSE", "EMIT": "FALSE", "TSTATES": all, "ORDERS": orders}},
				// model sanity (says nothing about the code): the as-found design and the patched design under
				// each named deviation (usageAsync, expirySkew, headerFirst, lookupCache, validityCache,
				// closeStaleCopy) must each reach an unauthorised attachment - POSTCONDITION AllShown. A
				// deviation the model could no longer express would make the run above vacuous. The single
				// configurations spec/TunnelOpen_show_<name>.cfg show them one by one.
				{Name: "every named deviation (as-found tree, usageAsync, expirySkew, headerFirst, lookupCache, validityCache, closeStaleCopy) is exhibited", Module: "TunnelOpen", Cfg: "TunnelOpen_show_all.cfg", Workers: 1},
			}
		},
		GenJobs: func(env *fw.Env) []fw.TLCJob {
			ts := local
			if env.Tier == "thorough" {
				ts = all
			}
			return []fw.TLCJob{{Name: "gen:cells", Module: "TunnelOpen", Cfg: "TunnelOpen_mc.cfg", Workers: 2,
				Consts: map[string]string{"FIXES": fixes, "MASKED": "TRUE", "EMIT": "TRUE", "TSTATES": ts, "ORDERS": genOrders}}}
		},
		ExtraBeh:    extra,
		Drive:       drive,
		Parallel:    24,
		JudgeModule: "TunnelOpenTrace",
		JudgeCfg:    "TunnelOpenTrace.cfg",
		SelfTest:    selfTest,
		PostDrive: func(env *fw.Env, ts []*fw.Trace) error {
			msg := ""
			if p := firstMismatch.Load(); p != nil {
				msg = ", first: " + *p
			}
			fmt.Printf("[binding] %d of %d requests left the prediction of the model with FIXES = %s%s\n", bindMismatch.Load(), bindSteps.Load(), fixes, msg)
			fmt.Printf("[legit] %d cells ran the plain legitimate flow (source creates, target joins with the secret, data crosses both ways) - all worked\n", legitOK.Load())
			return nil
		},
		NonTrivial: func(t *fw.Trace) bool { return len(t.Events) >= 3 },
		Rule: "one behaviour per cell of identity x credential x mapping state (incl. boundary / natural expiry) x tunnel state at arrival (incl. late and prefix-related ids) x arrival order / history class (complete product, printed by TLC), " +
			"replayed on the real server assembly; non-trivial = the requester's TunnelOpen was dispatched and the final attachment / marker snapshot taken",
		Assumptions: []string{
			"the protocol adapter's read loop is emulated: HandlePacket per packet; transports are fake sockets whose inbound side the driver feeds (TCP-like: the transport does not know its client id)",
			"quick tier: single node (no cross-node managers); thorough tier adds the 'remote' cells on two SessionManagers over one store with a loopback CrossNodeListener and TunnelConnectionManager",
			"mapping M always has a non-empty secret except in the driver-made 'keyless' cells; resume tokens are bogus (the wired cloud control offers no resume validation)",
			"mapping states error / suspended are status strings stored through UpdatePortMappingStatus; mapping shapes noListen / noTarget (ListenClientID / TargetClientID = 0) are crossed with identity x credential x mapping state at tunnel state none only (no client can legitimately create their bridge)",
			"identity none = no handshake at all, noneHs = a handshake that announced the listen client's id and failed the challenge",
			"mapping state expiredJust = ExpiresAt written 20 ms into the past; lapsed = an ExpiresAt 300 ms ahead set before the first request, the script waits until it has passed (no store write); the driver waits for the written record, never for the validity the code computes from it",
			"order slowUsage: the connection-code service talks to the mapping service through a gate that holds the next whole-record write; a write issued by the request's own goroutine is released at once (it is part of the open), any other is held until after the mapping was changed; order closeAfter: data crosses the served tunnel, the mapping is changed, both ends hang up and the bridge's final traffic report is awaited before the requester arrives",
			"prefix classes: T = first 16 bytes of the stock-shaped tunnel id, T+ = the full id; the requester always names T+ (only a long id is truncated by a 16-byte field)",
		},
		TrustedBase: []string{"TLC", "spec/TunnelOpenTrace.tla as the reading of the C04 statement", "srvkit fake transports (Duplex) and server assembly (tunnels.go)"},
	})
}
