// C04 driver: replays every cell of the open-tunnel product (spec/TunnelOpen.tla: identity x
// credential x mapping state x tunnel state at arrival x arrival order, printed by TLC) on the
// real SessionManager + ServerAuthHandler + ServerTunnelHandler + conncode.Service assembled by
// srvkit (one server per cell; two nodes over one store with a loopback cross-node listener for
// the "remote" cells), with clients authenticated through the real handshake, mappings created
// and revoked / expired / deactivated / deleted through the real services and real TunnelOpen
// packets through HandlePacket. It logs, per request, the TunnelOpenAck received, and after the
// script which connection objects the bridge holds and whether a marker written by the other
// ends is readable on each connection. The judge (spec/TunnelOpenTrace.tla) computes the
// property's "entitled" predicate from the logged cell and decides.
//
// Late cells (tunnel states lateLocal / lateRemote): the requester's TunnelOpen is served in its
// own goroutine; once it is past the dispatch the legitimate source registers the tunnel (same /
// other node), so that the request's routing-table poll (handleTargetBridge ->
// lookupTunnelRouting) finds it - the branch on which only processCrossNodeForward compares the
// presented mapping with the tunnel's mapping.
package main

import (
	"bytes"
	"encoding/json"
	"fmt"
	"os"
	"strings"
	"sync/atomic"
	"time"

	"tunnox-core/internal/packet"
	"tunnox-core/verifharness/fw"
	"tunnox-core/verifharness/srvkit"
)

const (
	settle   = 5 * time.Second                        // upper bound for an expected asynchronous effect (bridge start, marker delivery)
	grace    = 40 * time.Millisecond                  // extra time after the expected effects before the final snapshot
	lateGap  = 120 * time.Millisecond                 // late cells: the tunnel is registered this long after the request passed the dispatch
	tunnelID = "tcp-tunnel-1758990000000000000-18080" // the shape client/mapping generateTunnelID produces
)

// the tree the generation model describes: tunnox-core with patches/C04-1..3.
// VERIF_C04_MODEL=asfound generates from the as-found model instead (development aid: the
// [binding] line then compares the real code with the model of the tree before the patches).
const patched = `{"validateJoin", "secretValidity", "bindMapping", "bindMappingPoll"}`

var fixes = func() string {
	if os.Getenv("VERIF_C04_MODEL") == "asfound" {
		return "{}"
	}
	return patched
}()

type cellT struct {
	ID      string `json:"id"`
	Cred    string `json:"cred"`
	MS      string `json:"ms"`
	TS      string `json:"ts"`
	Ord     string `json:"ord"`
	Shape   string `json:"shape,omitempty"` // "std" (default) | "noListen" | "noTarget": M without a listen / target client
	Keyless bool   `json:"keyless,omitempty"`
}

type expT struct {
	Ack string `json:"ack"`
	Att string `json:"att"`
}

type stepT struct {
	Op   string          `json:"op"`
	Who  string          `json:"who,omitempty"`
	Node string          `json:"node,omitempty"`
	ID   string          `json:"id,omitempty"`
	Cred string          `json:"cred,omitempty"`
	MS   string          `json:"ms,omitempty"`
	Via  string          `json:"via,omitempty"`
	Exp  json.RawMessage `json:"exp,omitempty"`
	Must bool            `json:"must,omitempty"` // a legitimate flow that has to work (else the kit is broken: exit 2)
}

type behT struct {
	Cell  cellT    `json:"cell"`
	Steps []stepT  `json:"steps"`
	Dev   []string `json:"dev,omitempty"`
}

type client struct {
	id     int64
	secret string
}

type party struct {
	who  string
	node string
	c    *srvkit.Conn
	d    *srvkit.Duplex
	ack  string
	mark string
	// a request whose HandlePacket is still running (late cells: it polls the routing table)
	pending chan error
	ev      fw.Event
	st      stepT
	before  srvkit.BridgeView
}

type world struct {
	nodes   map[string]*srvkit.Server
	tun     map[string]*srvkit.Tunnels
	xn      []*srvkit.CrossNode
	cl      map[string]client // L, T, X, X2
	m, m2   string            // mapping ids: M (L -> T), M2 (X -> X2)
	m3      string            // M3 (X2 -> X): the stranger is its target
	secret  string
	secret3 string
	parties map[string]*party
	order   []string
	nconn   int
}

func (w *world) close() {
	for _, x := range w.xn {
		x.Close()
	}
	for _, s := range w.nodes {
		s.Close()
	}
}

func newWorld(twoNodes, crossNode, keyless bool, shape string) (*world, error) {
	w := &world{nodes: map[string]*srvkit.Server{}, tun: map[string]*srvkit.Tunnels{}, cl: map[string]client{}, parties: map[string]*party{}}
	a, err := srvkit.NewServer(srvkit.Options{NodeID: "node-A"})
	if err != nil {
		return nil, err
	}
	w.nodes["A"] = a
	w.tun["A"] = a.EnableTunnels()
	if twoNodes {
		b, err := srvkit.NewPeer(a, srvkit.Options{NodeID: "node-B"})
		if err != nil {
			w.close()
			return nil, err
		}
		w.nodes["B"] = b
		w.tun["B"] = b.EnableTunnels()
	}
	if twoNodes || crossNode {
		for _, n := range []string{"A", "B"} {
			if w.nodes[n] == nil {
				continue
			}
			x, err := w.nodes[n].EnableCrossNode()
			if err != nil {
				w.close()
				return nil, err
			}
			w.xn = append(w.xn, x)
		}
	}
	// four clients, identities issued by a real first connect on node A. The connections are of
	// the tunnel type on purpose: a control-type login starts `go pushConfigToClient`, which may
	// still be writing when the cell is over and the server closes (StreamProcessor.WritePacket
	// dereferences the writer Close has just cleared - a crash of the whole check, not a C04 matter)
	for i, name := range []string{"L", "T", "X", "X2"} {
		c, err := a.NewConn(fmt.Sprintf("10.4.0.%d", i+1))
		if err != nil {
			w.close()
			return nil, err
		}
		id, sec, _, err := c.FirstConnect("tunnel")
		if err != nil || id == 0 || sec == "" {
			w.close()
			return nil, fmt.Errorf("first connect of %s failed: %v", name, err)
		}
		w.cl[name] = client{id, sec}
	}
	w.secret = srvkit.NewSecret()
	if keyless {
		w.secret = ""
	}
	lid, tid := w.cl["L"].id, w.cl["T"].id
	switch shape {
	case "noListen": // server-ingress / HTTP-domain mappings have no listen client
		lid = 0
	case "noTarget":
		tid = 0
	}
	m, err := w.tun["A"].CreateMapping(lid, tid, w.secret)
	if err != nil {
		w.close()
		return nil, err
	}
	m2, err := w.tun["A"].CreateMapping(w.cl["X"].id, w.cl["X2"].id, srvkit.NewSecret())
	if err != nil {
		w.close()
		return nil, err
	}
	w.secret3 = srvkit.NewSecret()
	m3, err := w.tun["A"].CreateMapping(w.cl["X2"].id, w.cl["X"].id, w.secret3)
	if err != nil {
		w.close()
		return nil, err
	}
	w.m, w.m2, w.m3 = m.ID, m2.ID, m3.ID
	return w, nil
}

func (w *world) setMap(ms string) error {
	t := w.tun["A"]
	switch ms {
	case "active":
		return nil
	case "revoked":
		if err := t.Revoke(w.m, w.cl["L"].id); err != nil { // a party of the mapping revokes it
			return t.Revoke(w.m, w.cl["T"].id)
		}
		return nil
	case "expired":
		return t.Expire(w.m)
	case "inactive":
		return t.Deactivate(w.m)
	case "missing":
		return t.Delete(w.m)
	case "":
		return fmt.Errorf("empty mapping state")
	}
	// any other status string: models.MappingStatusError ("error"), a free-form one ("suspended")
	return t.SetStatus(w.m, ms)
}

// login brings the connection to the identity of the cell through the real handshake.
func (w *world) login(c *srvkit.Conn, id string) error {
	var cl client
	switch id {
	case "none":
		return nil
	case "noneHs": // announces the listen client's id, answers the challenge without the key
		l := w.cl["L"]
		ch, _, err := c.Phase1(l.id, "tunnel")
		if err != nil || ch == "" {
			return fmt.Errorf("phase1: %v", err)
		}
		r, err := c.Phase2(l.id, srvkit.HMAC("not-the-key", ch), "tunnel")
		if err != nil {
			return err
		}
		if r != nil && r.Success {
			return fmt.Errorf("handshake with a wrong key succeeded")
		}
		return nil
	case "listen":
		cl = w.cl["L"]
	case "target":
		cl = w.cl["T"]
	case "stranger":
		cl = w.cl["X"]
	default:
		return fmt.Errorf("identity %q?", id)
	}
	ok, err := c.Login(cl.id, cl.secret, "tunnel")
	if err != nil || !ok {
		return fmt.Errorf("login as %s failed: ok=%v err=%v", id, ok, err)
	}
	return nil
}

func (w *world) request(cred string) *packet.TunnelOpenRequest {
	r := &packet.TunnelOpenRequest{TunnelID: tunnelID}
	switch cred {
	case "idOnly":
		r.MappingID = w.m
	case "rightSecret":
		r.MappingID, r.SecretKey = w.m, w.secret
	case "wrongSecret":
		r.MappingID, r.SecretKey = w.m, "not-"+w.secret
	case "resume":
		r.MappingID, r.ResumeToken = w.m, "bogus.resume.token"
	case "nothing":
	case "otherId":
		r.MappingID = w.m2
	case "otherSecret":
		r.MappingID, r.SecretKey = w.m3, w.secret3
	}
	return r
}

// bridge finds the bridge of the tunnel id, whichever mapping / node it belongs to.
func (w *world) bridge() (node, mapping string, v srvkit.BridgeView) {
	for _, n := range []string{"A", "B"} {
		s := w.nodes[n]
		if s == nil {
			continue
		}
		for _, m := range []struct{ name, id string }{{"M", w.m}, {"M2", w.m2}, {"M3", w.m3}} {
			if b := s.Bridge(m.id); b.Exists && b.TunnelID == tunnelID {
				return n, m.name, b
			}
		}
	}
	return "", "-", srvkit.BridgeView{}
}

func (w *world) arrival(node string) (ts, tm string) {
	n, m, b := w.bridge()
	switch {
	case n == "":
		return "none", "-"
	case n != node:
		return "remote", m
	case b.TargetReady:
		return "served", m
	}
	return "waiting", m
}

// attachment of a party as the servers' books have it.
func (w *world) attachment(p *party) string {
	n, _, b := w.bridge()
	if n == "" || p.d == nil {
		return "none"
	}
	switch {
	case b.Source == p.d:
		return "src"
	case b.Target == p.d:
		return "tgt"
	case p.node != n && p.ack == "ok" && b.CrossNode:
		return "fwd"
	}
	return "none"
}

func waitFor(cond func() bool) bool {
	deadline := time.Now().Add(settle)
	for i := 0; ; i++ {
		if cond() {
			return true
		}
		if time.Now().After(deadline) {
			return false
		}
		if i < 200 {
			time.Sleep(200 * time.Microsecond)
		} else {
			time.Sleep(2 * time.Millisecond)
		}
	}
}

func (w *world) duplexOf(c interface{}) *srvkit.Duplex {
	for _, p := range w.parties {
		if p.d != nil && c == interface{}(p.d) {
			return p.d
		}
	}
	return nil
}

var bindSteps, bindMismatch atomic.Int64
var firstMismatch atomic.Pointer[string]

func (w *world) open(st stepT, cell cellT, t *fw.Trace) (err error) {
	s := w.nodes[st.Node]
	if s == nil {
		return fmt.Errorf("node %q not assembled", st.Node)
	}
	if st.Who == "T" {
		if n, _, _ := w.bridge(); n == "" {
			return nil // the target is told to connect only once a bridge exists
		}
	}
	w.nconn++
	c, d, err := s.NewDuplexConn(fmt.Sprintf("10.4.1.%d", w.nconn))
	if err != nil {
		return err
	}
	if err := w.login(c, st.ID); err != nil {
		return err
	}
	p := &party{who: st.Who, node: st.Node, c: c, d: d, ack: "none", mark: fmt.Sprintf("<<MARK-%s-%d>>", st.Who, time.Now().UnixNano())}
	w.parties[st.Who] = p
	w.order = append(w.order, st.Who)
	ts, tm := w.arrival(st.Node)
	_, _, p.before = w.bridge()
	late := strings.HasPrefix(cell.TS, "late") && st.Who == "R"
	if late {
		ts = cell.TS // nothing registered at arrival; the tunnel appears while the request is served
	}
	ms := cell.MS
	if st.MS != "" {
		ms = st.MS
	}
	p.st = st
	p.ev = fw.Event{"ev": "Open", "who": st.Who, "id": st.ID, "cred": st.Cred, "ms": ms, "ts": ts, "tm": tm, "node": st.Node, "via": st.Via}
	if cell.Keyless {
		p.ev["keyless"] = true
	}
	if cell.Shape != "" && cell.Shape != "std" {
		p.ev["shape"] = cell.Shape
	}
	req := w.request(st.Cred)
	send := func() error {
		ack, _, _, err := c.TunnelOpen(req)
		if err != nil {
			return err
		}
		if ack != nil {
			p.ack = "fail"
			if ack.Success {
				p.ack = "ok"
			}
		}
		return nil
	}
	if late {
		// the request is served in its own goroutine (as the connection's read loop would); the
		// script goes on once it is past the dispatch - the acknowledgement is on the wire, or
		// HandlePacket has returned - so that what the next step registers is found by the
		// request's routing-table poll, not by the dispatcher's look at arrival
		p.pending = make(chan error, 1)
		go func() { p.pending <- send() }()
		waitFor(func() bool { return len(c.T.Peek()) > 0 || len(p.pending) > 0 })
		time.Sleep(lateGap)
		return nil
	}
	if err := send(); err != nil {
		return err
	}
	return w.finish(p, cell, t, st.Exp)
}

// resolve waits for a request that was left running (late cells) and takes its outcome.
func (w *world) resolve(st stepT, cell cellT, t *fw.Trace) error {
	p := w.parties[st.Who]
	if p == nil || p.pending == nil {
		return fmt.Errorf("nothing pending for %s", st.Who)
	}
	select {
	case err := <-p.pending:
		if err != nil {
			return err
		}
	case <-time.After(15 * time.Second): // lookupTunnelRouting gives up after 10 s
		return inconclusiveErr("pending TunnelOpen did not return")
	}
	return w.finish(p, cell, t, st.Exp)
}

// finish records the request's outcome and lets the asynchronous part of a successful open
// finish, so that the next step meets a definite tunnel state: a joiner that made the bridge
// ready => the copy loops (or the cross-node forwarders) have taken both sockets over.
func (w *world) finish(p *party, cell cellT, t *fw.Trace, exp json.RawMessage) error {
	st := p.st
	st.Exp = exp
	p.ev["ack"], p.ev["closed"] = p.ack, p.c.Closed()
	t.Events = append(t.Events, p.ev)
	if p.ack != "ok" {
		w.bind(st, p, cell)
		return nil
	}
	bn, _, after := w.bridge()
	if bn != "" && bn != st.Node && !p.before.CrossNode {
		waitFor(func() bool { _, _, b := w.bridge(); return b.CrossNode }) // TargetReady frame handled on the source node
		_, _, after = w.bridge()
	}
	if bn != "" && !p.before.TargetReady && after.TargetReady && (after.Target == p.d || after.CrossNode) {
		src := w.duplexOf(after.Source)
		ok := waitFor(func() bool { return p.d.Waiting() > 0 && (src == nil || src.Waiting() > 0) })
		if !ok {
			return inconclusiveErr("bridge did not take the sockets over within the margin")
		}
	}
	w.bind(st, p, cell)
	if st.Must && w.attachment(p) == "none" {
		return fmt.Errorf("legitimate flow does not work: %s (%s, %s) acknowledged but not attached", st.Who, st.ID, st.Cred)
	}
	return nil
}

type inconclusiveErr string

func (e inconclusiveErr) Error() string { return string(e) }

// bind compares what the real code did with what the implementation-shaped model predicted
// (informational: it keeps the model honest on the tree it describes; never a verdict).
func (w *world) bind(st stepT, p *party, cell cellT) {
	if len(st.Exp) == 0 {
		return
	}
	var e expT
	if json.Unmarshal(st.Exp, &e) != nil {
		return
	}
	bindSteps.Add(1)
	got := expT{Ack: p.ack, Att: w.attachment(p)}
	if got != e {
		bindMismatch.Add(1)
		s := fmt.Sprintf("%s %s:%s:%s:%s:%s via %s: model %+v, code %+v", st.Who, cell.ID, cell.Cred, cell.MS, cell.TS, cell.Ord, st.Via, e, got)
		firstMismatch.CompareAndSwap(nil, &s)
	}
}

// markers: every acknowledged end writes its marker into its socket; then the final snapshot.
func (w *world) markers(t *fw.Trace, legitServed bool) error {
	var writers []*party
	for _, who := range w.order {
		if p := w.parties[who]; p.ack == "ok" && !p.c.Closed() {
			writers = append(writers, p)
			p.d.Feed([]byte(p.mark))
		}
	}
	seen := func(p *party) (marker bool) {
		raw := p.c.T.Peek()
		for _, q := range writers {
			if q != p && bytes.Contains(raw, []byte(q.mark)) {
				return true
			}
		}
		return false
	}
	// expected deliveries, from the servers' own books: a ready bridge forwards the source's bytes
	// to somebody and somebody's bytes to the source
	_, _, b := w.bridge()
	if b.Exists && b.TargetReady {
		src := w.duplexOf(b.Source)
		var sp *party
		for _, p := range w.parties {
			if p.d == src && src != nil {
				sp = p
			}
		}
		if sp != nil && sp.ack == "ok" {
			ok := waitFor(func() bool {
				if !seen(sp) {
					return false
				}
				for _, p := range w.parties {
					if p != sp && bytes.Contains(p.c.T.Peek(), []byte(sp.mark)) {
						return true
					}
				}
				return false
			})
			if !ok {
				return inconclusiveErr("markers did not cross a ready bridge within the margin")
			}
		}
	}
	time.Sleep(grace)
	att, marker, stray := map[string]any{}, map[string]any{}, map[string]any{}
	for who, p := range w.parties {
		att[who] = w.attachment(p)
		marker[who] = seen(p)
		stray[who] = len(p.c.T.Peek()) > 0 // Send drained the acknowledgement; anything here came later
	}
	_, bm, _ := w.bridge()
	t.Events = append(t.Events, fw.Event{"ev": "Obs", "bm": bm, "att": att, "marker": marker, "stray": stray})
	if legitServed {
		s, tg := w.parties["S"], w.parties["T"]
		if s == nil || tg == nil || marker["S"] != true || marker["T"] != true {
			return fmt.Errorf("legitimate flow does not work: no data between the legitimate source and target (att=%v marker=%v)", att, marker)
		}
	}
	return nil
}

var legitOK atomic.Int64

func drive(env *fw.Env, b fw.Behaviour) *fw.Trace {
	var beh behT
	if err := json.Unmarshal(b.Data, &beh); err != nil {
		return &fw.Trace{Status: fw.DriverError, Note: err.Error()}
	}
	two := false
	for _, st := range beh.Steps {
		if st.Node == "B" {
			two = true
		}
	}
	w, err := newWorld(two, strings.HasPrefix(beh.Cell.TS, "late"), beh.Cell.Keyless, beh.Cell.Shape)
	if err != nil {
		return &fw.Trace{Status: fw.DriverError, Note: "world: " + err.Error()}
	}
	defer w.close()
	t := &fw.Trace{Status: fw.Realised}
	t.Events = append(t.Events, fw.Event{"ev": "Cell", "id": beh.Cell.ID, "cred": beh.Cell.Cred, "ms": beh.Cell.MS, "ts": beh.Cell.TS, "ord": beh.Cell.Ord})
	cur := "active"
	legit := beh.Cell.Ord == "legitFirst"
	for _, st := range beh.Steps {
		var err error
		switch st.Op {
		case "Skip":
		case "SetMap":
			err = w.setMap(st.MS)
			cur = st.MS
			legit = false
		case "Open":
			st.MS = cur
			// the plain legitimate flows on an untouched active mapping have to work
			st.Must = st.Must || (legit && st.Who != "R")
			err = w.open(st, beh.Cell, t)
		case "Resolve":
			err = w.resolve(st, beh.Cell, t)
		case "Marker":
			err = w.markers(t, beh.Cell.Ord == "legitFirst" && beh.Cell.TS == "served")
		default:
			err = fmt.Errorf("step %q?", st.Op)
		}
		if ie, ok := err.(inconclusiveErr); ok {
			return &fw.Trace{Status: fw.Inconclusive, Note: string(ie)}
		}
		if err != nil {
			return &fw.Trace{Status: fw.DriverError, Note: fmt.Sprintf("cell %+v step %s %s: %v", beh.Cell, st.Op, st.Who, err)}
		}
	}
	if beh.Cell.Ord == "legitFirst" && beh.Cell.TS == "served" {
		legitOK.Add(1)
	}
	return t
}

// ---- driver-made cells: a mapping without a secret (what connection-code activation creates) --
func extra(env *fw.Env) []json.RawMessage {
	open := func(who, node, id, cred string, must bool) stepT {
		return stepT{Op: "Open", Who: who, Node: node, ID: id, Cred: cred, Must: must}
	}
	mk := func(id, cred, ms string, must bool) json.RawMessage {
		return fw.MustJSON(behT{Cell: cellT{ID: id, Cred: cred, MS: ms, TS: "waiting", Ord: "legitFirst", Keyless: true},
			Steps: []stepT{open("S", "A", "listen", "idOnly", true), {Op: "SetMap", MS: ms}, open("R", "A", id, cred, must), {Op: "Marker"}}})
	}
	return []json.RawMessage{
		mk("target", "idOnly", "active", true), // the server's own TunnelOpenRequest command carries secret_key ""
		mk("stranger", "idOnly", "active", false),
		mk("target", "idOnly", "revoked", false),
		mk("none", "idOnly", "active", false),
	}
}

// ---- self-test: corrupted copies of accepted traces -------------------------------------------
func clone(t *fw.Trace, id int) *fw.Trace {
	var evs []fw.Event
	if err := json.Unmarshal(fw.MustJSON(t.Events), &evs); err != nil {
		panic(err)
	}
	return &fw.Trace{Beh: fw.Behaviour{ID: id, Src: "selftest", Data: t.Beh.Data}, Status: fw.Realised, Events: evs}
}

func selfTest(env *fw.Env, acc []*fw.Trace) []*fw.Trace {
	var out []*fw.Trace
	id := 7000000
	kinds := [5]int{}
	for _, t := range acc {
		var open, obs fw.Event
		for _, e := range t.Events {
			if e["ev"] == "Open" && e["who"] == "R" {
				open = e
			}
			if e["ev"] == "Obs" {
				obs = e
			}
		}
		if open == nil || obs == nil {
			continue
		}
		att := obs["att"].(map[string]any)["R"]
		refused := open["ack"] == "fail" && att == "none"
		attached := open["ack"] == "ok" && att != "none" && open["ms"] == "active"
		mut := func(k int, f func(o, b fw.Event)) {
			if kinds[k] >= 8 {
				return
			}
			kinds[k]++
			id++
			c := clone(t, id)
			var o, b fw.Event
			for _, e := range c.Events {
				if e["ev"] == "Open" && e["who"] == "R" {
					o = e
				}
				if e["ev"] == "Obs" {
					b = e
				}
			}
			f(o, b)
			out = append(out, c)
		}
		if refused {
			mut(0, func(o, b fw.Event) { b["att"].(map[string]any)["R"] = "tgt" })   // the bridge holds a refused connection
			mut(1, func(o, b fw.Event) { b["marker"].(map[string]any)["R"] = true }) // a refused connection reads the marker
			mut(2, func(o, b fw.Event) { o["ack"] = "ok" })                          // a refused request is acknowledged as success
			mut(3, func(o, b fw.Event) { o["ack"] = "none" })                        // ... or not acknowledged at all
		}
		if attached {
			mut(4, func(o, b fw.Event) { o["ms"] = "revoked" }) // the same attachment on a revoked mapping
		}
	}
	return out
}

func main() {
	all := `{"none", "waiting", "served", "remote", "lateLocal", "lateRemote"}`
	local := `{"none", "waiting", "served", "lateLocal", "lateRemote"}` // the late classes are few (70 cells) and carry their own nodes
	fw.Main(&fw.Property{
		ID:        "C04",
		DesignRef: "DESIGN.md §5 C04",
		ModelJobs: func(env *fw.Env) []fw.TLCJob {
			return []fw.TLCJob{
				{Name: "dispatcher, tunnox-core as found (invariants masked by the named deviations)", Module: "TunnelOpen", Cfg: "TunnelOpen_mc.cfg", Workers: 2,
					Consts: map[string]string{"FIXES": "{}", "MASKED": "TRUE", "EMIT": "FALSE", "TSTATES": all}},
				{Name: "dispatcher, with patches C04-1..3 (strict invariants, no deviation reachable)", Module: "TunnelOpen", Cfg: "TunnelOpen_mc.cfg", Workers: 2,
					Consts: map[string]string{"FIXES": patched, "MASKED": "FALSE", "EMIT": "FALSE", "TSTATES": all}},
			}
		},
		GenJobs: func(env *fw.Env) []fw.TLCJob {
			ts := local
			if env.Tier == "thorough" {
				ts = all
			}
			return []fw.TLCJob{{Name: "gen:cells", Module: "TunnelOpen", Cfg: "TunnelOpen_mc.cfg", Workers: 2,
				Consts: map[string]string{"FIXES": fixes, "MASKED": "TRUE", "EMIT": "TRUE", "TSTATES": ts}}}
		},
		ExtraBeh:    extra,
		Drive:       drive,
		Parallel:    24,
		JudgeModule: "TunnelOpenTrace",
		JudgeCfg:    "TunnelOpenTrace.cfg",
		SelfTest:    selfTest,
		PostDrive: func(env *fw.Env, ts []*fw.Trace) error {
			msg := ""
			if p := firstMismatch.Load(); p != nil {
				msg = ", first: " + *p
			}
			fmt.Printf("[binding] %d of %d requests left the prediction of the model with FIXES = %s%s\n", bindMismatch.Load(), bindSteps.Load(), fixes, msg)
			fmt.Printf("[legit] %d cells ran the plain legitimate flow (source creates, target joins with the secret, data crosses both ways) - all worked\n", legitOK.Load())
			// the as-found design with strict invariants must exhibit the unauthorised attachment
			r, err := fw.RunTLC(fw.TLCJob{Name: "show:as-found strict", Module: "TunnelOpen", Cfg: "TunnelOpen_show_asis.cfg", Workers: 1})
			if err != nil {
				return err
			}
			if r.OK || !strings.Contains(r.Violation, "AttachedEntitled") {
				return fmt.Errorf("the as-found model no longer exhibits the unauthorised attachment (ok=%v violation=%q)", r.OK, r.Violation)
			}
			fmt.Printf("[model] as-found design, strict invariants: TLC exhibits %s violated (expected)\n", r.Violation)
			return nil
		},
		NonTrivial: func(t *fw.Trace) bool { return len(t.Events) >= 3 },
		Rule: "one behaviour per cell of identity x credential x mapping state x tunnel state at arrival x arrival order (complete product, printed by TLC), " +
			"replayed on the real server assembly; non-trivial = the requester's TunnelOpen was dispatched and the final attachment / marker snapshot taken",
		Assumptions: []string{
			"the protocol adapter's read loop is emulated: HandlePacket per packet; transports are fake sockets whose inbound side the driver feeds (TCP-like: the transport does not know its client id)",
			"quick tier: single node (no cross-node managers); thorough tier adds the 'remote' cells on two SessionManagers over one store with a loopback CrossNodeListener and TunnelConnectionManager",
			"mapping M always has a non-empty secret except in the driver-made 'keyless' cells; resume tokens are bogus (the wired cloud control offers no resume validation)",
			"mapping states error / suspended are status strings stored through UpdatePortMappingStatus; mapping shapes noListen / noTarget (ListenClientID / TargetClientID = 0) are crossed with identity x credential x mapping state at tunnel state none only (no client can legitimately create their bridge)",
			"identity none = no handshake at all, noneHs = a handshake that announced the listen client's id and failed the challenge",
		},
		TrustedBase: []string{"TLC", "spec/TunnelOpenTrace.tla as the reading of the C04 statement", "srvkit fake transports (Duplex) and server assembly (tunnels.go)"},
	})
}
