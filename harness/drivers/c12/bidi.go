package main

import (
	"fmt"
	"io"
	"net"
	"sync"
	"time"

	"tunnox-core/internal/utils/iocopy"
	"tunnox-core/verifharness/fw"
)

const (
	tagA byte = 3
	tagB byte = 101
)

func otherEnd(e string) string {
	if e == "A" {
		return "B"
	}
	return "A"
}
func srcOf(d string) string { return d[:1] }
func dstOf(d string) string { return d[1:] }
func dirInto(e string) string {
	if e == "B" {
		return "AB"
	}
	return "BA"
}
func tagOf(e string) byte {
	if e == "A" {
		return tagA
	}
	return tagB
}

// gconn is the relay-side conn of a scripted endpoint (local application socket "A" or tunnel "B").
// Every Read/Write/CloseWrite of the relay passes the gate; the endpoint itself is driven by
// send/halfClose/closeEp/errorEp.
type gconn struct {
	name string
	rec  *recorder
	g    *gate
	unit int

	mu          sync.Mutex
	cond        *sync.Cond
	out         []byte // written by the endpoint, not yet read by the relay
	sentTotal   int
	wr          string // open | shut | err
	rdClosed    bool
	gotOff      int
	relayClosed bool
	toldEnd     bool // the relay has half-closed or closed this conn: the endpoint sees end-of-stream
	readEnded   bool
	fault       string
	// deadlines set by the relay (SetReadDeadline / SetWriteDeadline / SetDeadline) and the
	// behaviour's scripted clock: the conn's "now" is time.Now()+*skew; a deadline in the past
	// fails every Read (Write) with a timeout
	deadline  time.Time
	wdeadline time.Time
	skew      *time.Duration
}

type timeoutErr struct{}

func (timeoutErr) Error() string   { return "scripted: i/o timeout" }
func (timeoutErr) Timeout() bool   { return true }
func (timeoutErr) Temporary() bool { return true }

// SetReadDeadline makes the scripted conns deadline-capable like a net.Conn (conns handed to the
// relay directly; the iocopy adapter does not forward it).
func (c *gconn) SetReadDeadline(t time.Time) error {
	c.mu.Lock()
	defer c.mu.Unlock()
	c.deadline = c.onClock(t)
	if !t.IsZero() {
		c.rec.add(fw.Event{"ev": "RelayDeadline", "e": c.name, "op": "read", "inMs": time.Until(t).Milliseconds()})
	}
	c.cond.Broadcast()
	return nil
}

// onClock converts a deadline the relay computed from the real time.Now() into the conn's
// scripted clock (real time + skew): "d from now" stays "d from now".
func (c *gconn) onClock(t time.Time) time.Time {
	if t.IsZero() || c.skew == nil {
		return t
	}
	return t.Add(*c.skew)
}

// SetWriteDeadline / SetDeadline: the rest of net.Conn's deadline family (same scripted clock).
func (c *gconn) SetWriteDeadline(t time.Time) error {
	c.mu.Lock()
	defer c.mu.Unlock()
	c.wdeadline = c.onClock(t)
	if !t.IsZero() {
		c.rec.add(fw.Event{"ev": "RelayDeadline", "e": c.name, "op": "write", "inMs": time.Until(t).Milliseconds()})
	}
	return nil
}

func (c *gconn) SetDeadline(t time.Time) error {
	c.SetReadDeadline(t)
	return c.SetWriteDeadline(t)
}

// LocalAddr / RemoteAddr make the directly handed conns a full net.Conn (a relay may probe for it).
func (c *gconn) LocalAddr() net.Addr  { return scriptedAddr("local-" + c.name) }
func (c *gconn) RemoteAddr() net.Addr { return scriptedAddr("peer-" + c.name) }

type scriptedAddr string

func (a scriptedAddr) Network() string { return "scripted" }
func (a scriptedAddr) String() string  { return string(a) }

func (c *gconn) past(dl time.Time) bool {
	if dl.IsZero() || c.skew == nil {
		return false
	}
	return !time.Now().Add(*c.skew).Before(dl)
}

func (c *gconn) expired() bool { return c.past(c.deadline) }

// advance moves the scripted clock of both conns (they share skew) and wakes blocked Reads.
func advance(d time.Duration, conns ...*gconn) {
	for _, c := range conns {
		c.mu.Lock()
	}
	*conns[0].skew += d
	for _, c := range conns {
		c.cond.Broadcast()
		c.mu.Unlock()
	}
}

func newGconn(name string, rec *recorder, g *gate, unit int) *gconn {
	c := &gconn{name: name, rec: rec, g: g, unit: unit, wr: "open", skew: new(time.Duration)}
	c.cond = sync.NewCond(&c.mu)
	return c
}

func (c *gconn) readEnd(kind string) {
	if kind == "timeout" {
		// a deadline the relay set itself has passed: the Read fails, the stream has NOT ended (a
		// relay may go on reading); may happen more than once
		c.rec.add(fw.Event{"ev": "ReadTimeout", "d": c.name + otherEnd(c.name)})
		return
	}
	if !c.readEnded {
		c.readEnded = true
		c.rec.add(fw.Event{"ev": "ReadEnd", "d": c.name + otherEnd(c.name), "kind": kind})
	}
}

func (c *gconn) Read(p []byte) (int, error) {
	tk, free, arr := c.g.enter(c.name + ".Read")
	defer arr.finish()
	c.mu.Lock()
	defer c.mu.Unlock()
	if !free {
		n := tk.n * c.unit
		if n > len(c.out) || n > len(p) {
			c.fault = fmt.Sprintf("%s.Read: ticket wants %d bytes, have %d, buffer %d", c.name, n, len(c.out), len(p))
			if n > len(c.out) {
				n = len(c.out)
			}
			if n > len(p) {
				n = len(p)
			}
		}
		copy(p, c.out[:n])
		c.out = c.out[n:]
		switch tk.end {
		case "eof":
			c.readEnd("eof")
			return n, io.EOF
		case "err":
			c.readEnd("err")
			return n, errReset
		}
		return n, nil
	}
	for {
		switch {
		case c.relayClosed:
			return 0, errClosed
		case c.expired():
			c.readEnd("timeout")
			return 0, timeoutErr{}
		case c.wr == "err":
			c.readEnd("err")
			return 0, errReset
		case len(c.out) > 0:
			n := copy(p, c.out)
			c.out = c.out[n:]
			return n, nil
		case c.wr == "shut":
			c.readEnd("eof")
			return 0, io.EOF
		}
		c.cond.Wait()
	}
}

func (c *gconn) Write(p []byte) (int, error) {
	_, _, arr := c.g.enter(c.name + ".Write")
	defer arr.finish()
	c.mu.Lock()
	defer c.mu.Unlock()
	if c.rdClosed || c.relayClosed {
		c.rec.add(fw.Event{"ev": "WriteErr", "d": dirInto(c.name)})
		return 0, errPipe
	}
	if c.past(c.wdeadline) {
		c.rec.add(fw.Event{"ev": "WriteTimeout", "d": dirInto(c.name)})
		return 0, timeoutErr{}
	}
	ok := check(p, tagOf(otherEnd(c.name)), c.gotOff)
	c.rec.add(fw.Event{"ev": "Deliver", "e": c.name, "off": c.gotOff, "len": len(p), "ok": ok})
	c.gotOff += len(p)
	return len(p), nil
}

func (c *gconn) Close() error {
	c.mu.Lock()
	defer c.mu.Unlock()
	c.toldEnd = true
	if !c.relayClosed {
		c.relayClosed = true
		c.rec.add(fw.Event{"ev": "RelayClose", "e": c.name})
		c.cond.Broadcast()
	}
	return nil
}

// gconnCW is a gconn that also offers CloseWrite (what tryCloseWrite probes for).
type gconnCW struct{ *gconn }

func (c gconnCW) CloseWrite() error {
	_, _, arr := c.g.enter(c.name + ".CloseWrite")
	defer arr.finish()
	c.rec.add(fw.Event{"ev": "RelayCloseWrite", "e": c.name})
	c.mu.Lock()
	c.toldEnd = true
	c.mu.Unlock()
	return nil
}

// Objects of the other shapes a conn can have (spec/Relay.tla, AllShapes). They are put behind the
// REAL adapter constructor iocopy.NewReadWriteCloser, the way base.go / target_handler.go /
// socks5_tunnel.go wrap the tunnel: "same-*" = one full-duplex object as Reader and Writer,
// "split-*" = separate reader and writer objects.
type rOnly struct{ c *gconn }

func (x rOnly) Read(p []byte) (int, error) { return x.c.Read(p) }

type wOnly struct{ c *gconn }

func (x wOnly) Write(p []byte) (int, error) { return x.c.Write(p) }

type rwOnly struct{ c *gconn }

func (x rwOnly) Read(p []byte) (int, error)  { return x.c.Read(p) }
func (x rwOnly) Write(p []byte) (int, error) { return x.c.Write(p) }

type wCW struct{ c *gconn }

func (x wCW) Write(p []byte) (int, error) { return x.c.Write(p) }
func (x wCW) CloseWrite() error           { return gconnCW{x.c}.CloseWrite() }

// wCloser: a writer object of its own whose Close ends the write half only (io.PipeWriter-like)
type wCloser struct{ c *gconn }

func (x wCloser) Write(p []byte) (int, error) { return x.c.Write(p) }
func (x wCloser) Close() error                { return gconnCW{x.c}.CloseWrite() }

func shaped(c *gconn, shape string) io.ReadWriteCloser {
	var r io.Reader
	var w io.Writer
	switch shape {
	case "", "direct-cw":
		return gconnCW{c}
	case "direct-closer":
		return c
	case "same-cw":
		r, w = gconnCW{c}, gconnCW{c}
	case "same-closer":
		r, w = c, c
	case "same-none":
		r, w = rwOnly{c}, rwOnly{c}
	case "split-cw":
		r, w = rOnly{c}, wCW{c}
	case "split-closer":
		r, w = rOnly{c}, wCloser{c}
	case "split-none":
		r, w = rOnly{c}, wOnly{c}
	default:
		panic("unknown conn shape " + shape)
	}
	rwc, err := iocopy.NewReadWriteCloser(r, w, c.Close)
	if err != nil {
		panic(err)
	}
	return rwc
}

// halfCloseReaches: tryCloseWrite on a conn of that shape reaches a CloseWrite
func halfCloseReaches(shape string) bool {
	return shape == "" || len(shape) > 3 && shape[len(shape)-3:] == "-cw"
}

// ---- endpoint side ---------------------------------------------------------------------------
func (c *gconn) send(n int) {
	c.mu.Lock()
	defer c.mu.Unlock()
	if c.wr != "open" {
		return
	}
	c.rec.add(fw.Event{"ev": "Send", "e": c.name, "n": n})
	c.out = append(c.out, fill(tagOf(c.name), c.sentTotal, n)...)
	c.sentTotal += n
	c.cond.Broadcast()
}

func (c *gconn) end(how string) {
	c.mu.Lock()
	defer c.mu.Unlock()
	c.rec.add(fw.Event{"ev": "EpEnd", "e": c.name, "how": how})
	switch how {
	case "halfclose":
		if c.wr == "open" {
			c.wr = "shut"
		}
	case "close":
		if c.wr == "open" {
			c.wr = "shut"
		}
		c.rdClosed = true
	case "error":
		c.wr = "err"
		c.rdClosed = true
	}
	c.cond.Broadcast()
}

func (c *gconn) told() bool {
	c.mu.Lock()
	defer c.mu.Unlock()
	return c.toldEnd
}

func (c *gconn) isOpen() bool {
	c.mu.Lock()
	defer c.mu.Unlock()
	return c.wr == "open"
}

// kill makes every pending and future operation fail (clean-up after a hang / abort).
func (c *gconn) kill() {
	c.mu.Lock()
	c.wr = "err"
	c.rdClosed = true
	c.cond.Broadcast()
	c.mu.Unlock()
}

// flow keeps traffic going on every direction that is still live while (scripted) time passes:
// `steps` times { the clock advances by one second; every endpoint that is still open sends a
// unit; wait until it has arrived }.  A relay must deliver all of it - idle time-outs are never
// hit (there is traffic every second), an absolute deadline armed earlier is.
func flow(steps, unit int, a, b *gconn) {
	eps := map[string]endpoint{"A": a, "B": b}
	for i := 0; i < steps; i++ {
		advance(time.Second, a, b)
		sent := false
		for _, c := range []*gconn{a, b} {
			if c.isOpen() {
				c.send(unit)
				sent = true
			}
		}
		if !sent {
			return
		}
		if !settleFor(eps, 500*time.Millisecond) {
			return // not arriving any more (the judge will see what was sent and not delivered)
		}
	}
}

// ---- gated replay of a TLC behaviour (spec/Relay.tla, BNext) ---------------------------------
type bstep struct {
	A   string `json:"a"`
	E   string `json:"e,omitempty"`
	D   string `json:"d,omitempty"`
	N   int    `json:"n,omitempty"`
	End string `json:"end,omitempty"`
	ShA string `json:"shA,omitempty"`
	ShB string `json:"shB,omitempty"`
}

type bidiSpec struct {
	Kind  string  `json:"kind"`
	Via   string  `json:"via"`
	Unit  int     `json:"unit"`
	Flow  int     `json:"flow,omitempty"` // completion: this many seconds of scripted time with continued traffic first
	// completion with peers that react (reactPhase) instead of the driver half-closing both endpoints;
	// Cause/Who: if no endpoint has ended in the behaviour, endpoint Who ends by Cause first
	React bool    `json:"react,omitempty"`
	Cause string  `json:"cause,omitempty"`
	Who   string  `json:"who,omitempty"`
	Steps []bstep `json:"steps"`
}

func driveBidi(env *fw.Env, sp bidiSpec) *fw.Trace {
	if len(sp.Steps) == 0 || sp.Steps[0].A != "Init" {
		return &fw.Trace{Status: fw.DriverError, Note: "bidi behaviour without Init"}
	}
	rec := &recorder{}
	g := newGate("A.Read", "A.Write", "A.CloseWrite", "B.Read", "B.Write", "B.CloseWrite")
	conns := map[string]*gconn{"A": newGconn("A", rec, g, sp.Unit), "B": newGconn("B", rec, g, sp.Unit)}
	conns["B"].skew = conns["A"].skew
	shA, shB := sp.Steps[0].ShA, sp.Steps[0].ShB
	cw := map[string]bool{"A": halfCloseReaches(shA), "B": halfCloseReaches(shB)}
	sc := ""
	if sp.React {
		sc = "reactivePeers"
	}
	rec.add(fw.Event{"ev": "BStart", "conn": "fake", "via": sp.Via, "shA": shA, "shB": shB, "sc": sc, "cwA": cw["A"], "cwB": cw["B"]})
	done, cleanup := startRelay(sp.Via, "tcp", shaped(conns["A"], shA), shaped(conns["B"], shB))
	abort := func(status, note string) *fw.Trace {
		conns["A"].kill()
		conns["B"].kill()
		g.free()
		select {
		case <-done:
		case <-time.After(time.Second):
		}
		cleanup()
		rec.seal()
		return &fw.Trace{Status: status, Note: note}
	}
	var ret fw.Event
	for i, st := range sp.Steps[1:] {
		ok := true
		switch st.A {
		case "Send":
			conns[st.E].send(sp.Unit)
		case "HalfClose":
			conns[st.E].end("halfclose")
		case "Close":
			conns[st.E].end("close")
		case "Error":
			conns[st.E].end("error")
		case "Read":
			ok = g.step(srcOf(st.D)+".Read", ticket{n: st.N, end: st.End}, stepWait)
		case "Write":
			ok = g.step(dstOf(st.D)+".Write", ticket{}, stepWait)
		case "CloseWrite":
			if cw[dstOf(st.D)] {
				ok = g.step(dstOf(st.D)+".CloseWrite", ticket{}, stepWait)
			}
		case "Return":
			select {
			case ret = <-done:
			case <-time.After(watchdog):
				ok = false
			}
		default:
			return abort(fw.DriverError, "unknown step "+st.A)
		}
		if !ok {
			return abort(fw.Unrealisable, fmt.Sprintf("step %d (%s %s%s) did not happen on the real code", i+1, st.A, st.D, st.E))
		}
	}
	// completion: both endpoints finish sending (gently: half-close), the relay runs freely
	if ret == nil {
		if sp.Flow > 0 {
			g.free()
			flow(sp.Flow, sp.Unit, conns["A"], conns["B"])
		}
		if sp.React {
			g.free()
			if conns["A"].isOpen() && conns["B"].isOpen() {
				conns[sp.Who].end(sp.Cause)
			}
			ret = reactPhase(map[string]endpoint{"A": conns["A"], "B": conns["B"]}, cw, done)
		} else {
			for _, e := range []string{"A", "B"} {
				if conns[e].isOpen() {
					conns[e].end("halfclose")
				}
			}
			g.free()
			select {
			case ret = <-done:
			case <-time.After(watchdog):
			}
		}
	}
	for _, e := range []string{"A", "B"} {
		if f := conns[e].fault; f != "" {
			return abort(fw.DriverError, f)
		}
	}
	if ret == nil {
		rec.add(fw.Event{"ev": "Hung"})
		ev := rec.seal()
		conns["A"].kill()
		conns["B"].kill()
		cleanup()
		return &fw.Trace{Status: fw.Realised, Events: ev}
	}
	rec.add(ret)
	cleanup()
	return &fw.Trace{Status: fw.Realised, Events: rec.seal()}
}

// ---- free-running scripts on scripted conns ("bfree") and on real loopback TCP ("tcp") ----------
type sop struct {
	E  string `json:"e,omitempty"`
	Op string `json:"op"` // send | halfclose | close | error | settle | flow (N seconds of scripted time with traffic) | rflow (N real-time steps with traffic)
	N  int    `json:"n,omitempty"`
}

type scriptSpec struct {
	Kind string `json:"kind"`
	Via  string `json:"via"`
	ShA  string `json:"shA"` // conn shapes (scripted conns); "" = direct-cw
	ShB  string `json:"shB"`
	Pipe bool   `json:"pipe,omitempty"` // kind tcp: the tunnel is a net.Pipe end behind the real adapter (no CloseWrite, is a Closer)
	Ops  []sop  `json:"ops"`
	// real-time scripts (op rflow): IdleMs = idle timeout given to tunnel.Tunnel (0: the code's own
	// 5 minutes), GapMs = pause between two rounds of traffic, Sc = scenario tag for the judge
	IdleMs int    `json:"idleMs,omitempty"`
	GapMs  int    `json:"gapMs,omitempty"`
	Sc     string `json:"sc,omitempty"`
	// React: after the ops the endpoints that are still open are peers that react (reactPhase) instead
	// of being half-closed by the driver
	React bool `json:"react,omitempty"`
}

// rflow keeps traffic going in REAL time: `steps` times { pause gap; every endpoint that is still
// open sends a unit; wait until it has arrived }.  There is never a pause of maxGap without data
// moving - unless this script itself was too slow (loaded machine): then paced = false and the
// behaviour must be discarded, not judged.
func rflow(steps int, gap, maxGap time.Duration, eps map[string]endpoint) (paced bool) {
	last := time.Now()
	for i := 0; i < steps; i++ {
		time.Sleep(gap)
		sent := false
		for _, e := range []string{"A", "B"} {
			if _, _, open, _ := eps[e].progress(); open {
				eps[e].send(1000)
				sent = true
			}
		}
		if !sent {
			return true
		}
		if time.Since(last) > maxGap {
			return false
		}
		if !settleFor(eps, 2*time.Second) {
			return true // not arriving any more (the judge will see what was sent and not delivered)
		}
		last = time.Now()
	}
	return true
}

type endpoint interface {
	send(n int)
	end(how string)
	progress() (sent, got int, wrOpen, rdClosed bool)
	told() bool // the endpoint has seen end-of-stream / its conn closed by the relay
}

// reactPhase plays peers that REACT to what the relay tells them: an endpoint whose conn can be
// half-closed only waits; once it has been told that the other side is over (it sees end-of-stream
// or its conn closed) it closes. An endpoint whose conn cannot be half-closed cannot be told before
// the final Close: the driver ends it (gently) right away. At least one endpoint has ended before.
// Returns the relay's Returned event, or nil when the watchdog expired.
func reactPhase(eps map[string]endpoint, cw map[string]bool, done <-chan fw.Event) fw.Event {
	for _, e := range []string{"A", "B"} {
		if _, _, open, _ := eps[e].progress(); open && !cw[e] {
			eps[e].end("halfclose")
		}
	}
	deadline := time.After(watchdog)
	tick := time.NewTicker(time.Millisecond)
	defer tick.Stop()
	for {
		select {
		case ret := <-done:
			return ret
		case <-deadline:
			return nil
		case <-tick.C:
		}
		for _, e := range []string{"A", "B"} {
			if _, _, _, closed := eps[e].progress(); !closed && eps[e].told() {
				eps[e].end("close")
			}
		}
	}
}

func (c *gconn) progress() (int, int, bool, bool) {
	c.mu.Lock()
	defer c.mu.Unlock()
	return c.sentTotal, c.gotOff, c.wr == "open", c.rdClosed
}

// settle waits (bounded) until everything sent towards a still-reading endpoint has arrived.
func settle(eps map[string]endpoint) bool { return settleFor(eps, 2*time.Second) }

func settleFor(eps map[string]endpoint, max time.Duration) bool {
	deadline := time.Now().Add(max)
	for time.Now().Before(deadline) {
		okAll := true
		for _, e := range []string{"A", "B"} {
			sent, _, _, _ := eps[e].progress()
			_, got, _, closed := eps[otherEnd(e)].progress()
			if !closed && got < sent {
				okAll = false
			}
		}
		if okAll {
			return true
		}
		time.Sleep(time.Millisecond)
	}
	return false
}

// errUnsettled: a scripted pause did not see the data arrive in time (loaded machine); the rest of
// the script would race with in-flight data (real TCP: close with unread data => RST), so the
// behaviour is discarded instead of judged.
var errUnsettled = fw.Event{"ev": "unsettled"}

func runScript(sp scriptSpec, rec *recorder, eps map[string]endpoint, done <-chan fw.Event) fw.Event {
	for _, o := range sp.Ops {
		switch o.Op {
		case "flow":
			a, okA := eps["A"].(*gconn)
			b, okB := eps["B"].(*gconn)
			if okA && okB {
				flow(o.N, 1000, a, b)
			}
		case "rflow":
			gap := time.Duration(sp.GapMs) * time.Millisecond
			maxGap := time.Duration(sp.IdleMs) * time.Millisecond / 2
			if sp.IdleMs == 0 {
				maxGap = 150 * time.Second // the code's own idle timeout: 5 minutes
			}
			if !rflow(o.N, gap, maxGap, eps) {
				return errUnsettled
			}
		case "send":
			eps[o.E].send(o.N)
		case "settle":
			if !settle(eps) && sp.Kind == "tcp" {
				return errUnsettled
			}
		default:
			eps[o.E].end(o.Op)
		}
	}
	settle(eps)
	if sp.React {
		cw := map[string]bool{"A": true, "B": true}
		if sp.Kind != "tcp" {
			cw = map[string]bool{"A": halfCloseReaches(sp.ShA), "B": halfCloseReaches(sp.ShB)}
		}
		return reactPhase(eps, cw, done)
	}
	for _, e := range []string{"A", "B"} {
		if _, _, open, _ := eps[e].progress(); open {
			eps[e].end("halfclose")
		}
	}
	select {
	case ret := <-done:
		return ret
	case <-time.After(watchdog):
		return nil
	}
}

func driveFree(env *fw.Env, sp scriptSpec) *fw.Trace {
	rec := &recorder{}
	g := newGate()
	g.free()
	a, b := newGconn("A", rec, g, 1), newGconn("B", rec, g, 1)
	b.skew = a.skew
	rec.add(fw.Event{"ev": "BStart", "conn": "fake", "via": sp.Via, "shA": sp.ShA, "shB": sp.ShB, "sc": sp.Sc,
		"cwA": halfCloseReaches(sp.ShA), "cwB": halfCloseReaches(sp.ShB)})
	done, cleanup := startRelayIdle(sp.Via, "tcp", shaped(a, sp.ShA), shaped(b, sp.ShB), time.Duration(sp.IdleMs)*time.Millisecond)
	ret := runScript(sp, rec, map[string]endpoint{"A": a, "B": b}, done)
	if ret != nil && ret["ev"] == "unsettled" {
		rec.seal()
		a.kill()
		b.kill()
		cleanup()
		return &fw.Trace{Status: fw.Inconclusive, Note: "real-time script: this machine was too slow to keep the traffic going"}
	}
	if ret == nil {
		rec.add(fw.Event{"ev": "Hung"})
	} else {
		rec.add(ret)
	}
	ev := rec.seal()
	a.kill()
	b.kill()
	cleanup()
	return &fw.Trace{Status: fw.Realised, Events: ev}
}

// tcpEnd is a real loopback TCP endpoint: peer is the application's socket, relay the conn that
// is handed to the relay (a *net.TCPConn, so tryCloseWrite takes its first branch).
type tcpEnd struct {
	name  string
	rec   *recorder
	peer  net.Conn
	relay io.ReadWriteCloser

	mu       sync.Mutex
	sent     int
	got      int
	wrOpen   bool
	rdClosed bool
	sawEnd   bool // the peer socket has read end-of-stream / an error: the endpoint has been told
	fault    string
}

func (t *tcpEnd) told() bool {
	t.mu.Lock()
	defer t.mu.Unlock()
	return t.sawEnd
}

func tcpPair() (peer, relay *net.TCPConn, err error) {
	ln, err := net.ListenTCP("tcp4", &net.TCPAddr{IP: net.IPv4(127, 0, 0, 1)})
	if err != nil {
		return nil, nil, err
	}
	defer ln.Close()
	ch := make(chan *net.TCPConn, 1)
	go func() {
		c, _ := ln.AcceptTCP()
		ch <- c
	}()
	p, err := net.DialTCP("tcp4", nil, ln.Addr().(*net.TCPAddr))
	if err != nil {
		return nil, nil, err
	}
	r := <-ch
	if r == nil {
		p.Close()
		return nil, nil, fmt.Errorf("accept failed")
	}
	return p, r, nil
}

func (t *tcpEnd) reader() {
	buf := make([]byte, 64<<10)
	for {
		n, err := t.peer.Read(buf)
		if n > 0 {
			t.mu.Lock()
			ok := check(buf[:n], tagOf(otherEnd(t.name)), t.got)
			t.rec.add(fw.Event{"ev": "Deliver", "e": t.name, "off": t.got, "len": n, "ok": ok})
			t.got += n
			t.mu.Unlock()
		}
		if err != nil {
			t.mu.Lock()
			if !t.rdClosed { // (not the echo of the endpoint's own close)
				t.sawEnd = true
				t.rec.add(fw.Event{"ev": "PeerEOF", "e": t.name})
			}
			t.mu.Unlock()
			return
		}
	}
}

func (t *tcpEnd) send(n int) {
	t.mu.Lock()
	if !t.wrOpen {
		t.mu.Unlock()
		return
	}
	t.rec.add(fw.Event{"ev": "Send", "e": t.name, "n": n})
	data := fill(tagOf(t.name), t.sent, n)
	t.sent += n
	t.mu.Unlock()
	t.peer.SetWriteDeadline(time.Now().Add(3 * time.Second))
	if _, err := t.peer.Write(data); err != nil {
		// a timeout is a stalled script (harness problem); any other error means the relay has
		// closed / reset its side: the bytes stay "sent but not delivered" for the judge
		if ne, ok := err.(net.Error); ok && ne.Timeout() {
			t.mu.Lock()
			t.fault = fmt.Sprintf("endpoint %s could not write its payload: %v", t.name, err)
			t.mu.Unlock()
		}
	}
}

func (t *tcpEnd) end(how string) {
	t.mu.Lock()
	t.rec.add(fw.Event{"ev": "EpEnd", "e": t.name, "how": how})
	t.wrOpen = false
	if how != "halfclose" {
		t.rdClosed = true
	}
	t.mu.Unlock()
	tc, isTCP := t.peer.(*net.TCPConn)
	switch {
	case how == "halfclose" && isTCP:
		tc.CloseWrite()
	case how == "error" && isTCP:
		tc.SetLinger(0)
		tc.Close()
	default:
		t.peer.Close()
	}
}

func (t *tcpEnd) progress() (int, int, bool, bool) {
	t.mu.Lock()
	defer t.mu.Unlock()
	return t.sent, t.got, t.wrOpen, t.rdClosed
}

func driveTCP(env *fw.Env, sp scriptSpec) *fw.Trace {
	rec := &recorder{}
	ends := map[string]*tcpEnd{}
	for _, e := range []string{"A", "B"} {
		if e == "B" && sp.Pipe {
			p1, p2 := net.Pipe()
			rwc, err := iocopy.NewReadWriteCloser(p1, p1, p1.Close) // Reader = Writer = the same conn, as the callers do
			if err != nil {
				panic(err)
			}
			ends[e] = &tcpEnd{name: e, rec: rec, peer: p2, relay: rwc, wrOpen: true}
			continue
		}
		p, r, err := tcpPair()
		if err != nil {
			for _, x := range ends {
				x.peer.Close()
				x.relay.Close()
			}
			return &fw.Trace{Status: fw.Inconclusive, Note: "no loopback TCP here: " + err.Error()}
		}
		ends[e] = &tcpEnd{name: e, rec: rec, peer: p, relay: r, wrOpen: true}
	}
	rec.add(fw.Event{"ev": "BStart", "conn": "tcp", "via": sp.Via, "pipe": sp.Pipe, "sc": sp.Sc, "cwA": true, "cwB": !sp.Pipe})
	for _, t := range ends {
		go t.reader()
	}
	done, cleanup := startRelayIdle(sp.Via, "tcp", ends["A"].relay, ends["B"].relay, time.Duration(sp.IdleMs)*time.Millisecond)
	ret := runScript(sp, rec, map[string]endpoint{"A": ends["A"], "B": ends["B"]}, done)
	if ret != nil && ret["ev"] == "unsettled" {
		rec.seal()
		for _, t := range ends {
			t.peer.Close()
			t.relay.Close()
		}
		cleanup()
		return &fw.Trace{Status: fw.Inconclusive, Note: "scripted pause: data did not arrive within 2 s / real-time script too slow"}
	}
	if ret != nil {
		// bytes the relay wrote before returning are in the peers' socket buffers: let the readers drain them
		settle(map[string]endpoint{"A": ends["A"], "B": ends["B"]})
		rec.add(ret)
	} else {
		rec.add(fw.Event{"ev": "Hung"})
	}
	ev := rec.seal()
	for _, t := range ends {
		t.peer.Close()
		t.relay.Close()
	}
	cleanup()
	for _, t := range ends {
		if t.fault != "" {
			return &fw.Trace{Status: fw.DriverError, Note: t.fault}
		}
	}
	return &fw.Trace{Status: fw.Realised, Events: ev}
}
