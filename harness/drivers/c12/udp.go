package main

import (
	"fmt"
	"io"
	"net"
	"sync"
	"sync/atomic"
	"time"

	"tunnox-core/internal/client/mapping"
	"tunnox-core/internal/config"
	"tunnox-core/verifharness/fw"
)

const (
	tagT byte = 40 // datagrams tunnel -> UDP socket
	tagU byte = 90 // datagrams UDP socket -> tunnel
)

var hungUDP atomic.Int64

// datagram idx (1-based) of a direction: byte 0 carries idx, the rest is the counter pattern.
func mkDatagram(tag byte, idx, size int) []byte {
	b := fill(tag+byte(idx%7), idx*1000, size)
	b[0] = byte(idx)
	return b
}

func checkDatagram(p []byte, tag byte) (idx int, ok bool) {
	if len(p) == 0 {
		return 0, false
	}
	idx = int(p[0])
	want := mkDatagram(tag, idx, len(p))
	for i := range p {
		if p[i] != want[i] {
			return idx, false
		}
	}
	return idx, true
}

func encode(tag byte, sizes []int) []byte {
	var out []byte
	for i, s := range sizes {
		out = append(out, byte(s>>8), byte(s))
		out = append(out, mkDatagram(tag, i+1, s)...)
	}
	return out
}

// sclock is the scripted clock of a UDP behaviour: the conns' "now" is real time + skew. Deadlines the
// relay computes from the real time.Now() are converted when they are set ("d from now" stays so).
type sclock struct{ skew atomic.Int64 }

func (k *sclock) onClock(t time.Time) time.Time {
	if t.IsZero() || k == nil {
		return t
	}
	return t.Add(time.Duration(k.skew.Load()))
}

func (k *sclock) past(dl time.Time) bool {
	if dl.IsZero() || k == nil {
		return false
	}
	return !time.Now().Add(time.Duration(k.skew.Load())).Before(dl)
}

// ftun is the scripted tunnel stream: Read serves the encoded stream chunk by chunk up to the
// cut, then EOF or an error, for ever after. Writes are captured.
type ftun struct {
	rec    *recorder
	mu     sync.Mutex
	cond   *sync.Cond
	stream []byte
	cut    int
	how    string
	bounds []int
	pos    int
	held   bool
	limit  int // flow phase: only stream[:limit] can be read yet (limit >= cut: no restriction)
	clk    *sclock
	rdl    time.Time // deadlines set by the relay (via "direct": the relay holds this object itself)
	wdl    time.Time
	ended  bool
	after  int // Reads after the end was reported
	drain  []byte
	drainM bool
	wbuf   []byte
	closed bool
	// slow / failing tunnel writes (scripted)
	holdNext bool          // the next Write blocks until release; it takes its bytes when it completes
	entered  chan struct{} // closed when the held Write has been entered
	relCh    chan struct{}
	failing  bool // Writes fail (transiently) while set
}

func (t *ftun) Read(p []byte) (int, error) {
	t.mu.Lock()
	defer t.mu.Unlock()
	for (t.held || (t.pos >= t.limit && t.limit < t.cut)) && !t.closed && !t.drainM && !t.clk.past(t.rdl) {
		t.cond.Wait()
	}
	if t.closed {
		return 0, errClosed
	}
	if !t.drainM && t.clk.past(t.rdl) {
		t.rec.add(fw.Event{"ev": "UTimeout", "side": "tunnel", "op": "read"})
		return 0, timeoutErr{}
	}
	if t.drainM { // clean-up after a hang: complete the stream, then an illegal length ends the de-framer
		if len(t.drain) > 0 {
			n := copy(p, t.drain)
			t.drain = t.drain[n:]
			return n, nil
		}
		return 0, io.EOF
	}
	if t.pos < t.cut {
		end := t.cut
		for _, b := range t.bounds {
			if b > t.pos {
				end = b
				break
			}
		}
		if t.limit < end && t.limit > t.pos {
			end = t.limit
		}
		n := copy(p, t.stream[t.pos:end])
		t.pos += n
		return n, nil
	}
	if !t.ended {
		t.ended = true
		t.rec.add(fw.Event{"ev": "TunnelEnd"})
	} else {
		t.after++
		if t.after > 2 { // a spinning reader must not eat the machine
			t.mu.Unlock()
			time.Sleep(time.Millisecond)
			t.mu.Lock()
		}
	}
	if t.how == "err" {
		return 0, errTunnel
	}
	return 0, io.EOF
}

func (t *ftun) Write(p []byte) (int, error) {
	t.mu.Lock()
	if t.closed {
		t.mu.Unlock()
		return 0, errClosed
	}
	if (t.how == "err" && t.ended) || t.failing {
		t.mu.Unlock()
		return 0, errTunnel
	}
	if t.clk.past(t.wdl) {
		t.rec.add(fw.Event{"ev": "UTimeout", "side": "tunnel", "op": "write"})
		t.mu.Unlock()
		return 0, timeoutErr{}
	}
	hold := t.holdNext
	if hold {
		t.holdNext = false
		close(t.entered)
	}
	t.mu.Unlock()
	if hold {
		// a slow tunnel (peer not draining, net.Pipe-like writer): the bytes of p are taken
		// when the write completes - p belongs to the callee for the whole call
		select {
		case <-t.relCh:
		case <-time.After(watchdog):
		}
	}
	t.mu.Lock()
	defer t.mu.Unlock()
	t.wbuf = append(t.wbuf, p...)
	t.cond.Broadcast()
	return len(p), nil
}

func (t *ftun) set(f func()) {
	t.mu.Lock()
	f()
	t.mu.Unlock()
}

func (t *ftun) CloseWrite() error { return nil }

func (t *ftun) SetReadDeadline(d time.Time) error {
	t.set(func() { t.rdl = t.clk.onClock(d); t.cond.Broadcast() })
	return nil
}
func (t *ftun) SetWriteDeadline(d time.Time) error {
	t.set(func() { t.wdl = t.clk.onClock(d) })
	return nil
}
func (t *ftun) SetDeadline(d time.Time) error {
	t.SetReadDeadline(d)
	return t.SetWriteDeadline(d)
}

// setLimit lets the stream flow up to byte offset n.
func (t *ftun) setLimit(n int) { t.set(func() { t.limit = n; t.cond.Broadcast() }) }

func (t *ftun) Close() error {
	t.mu.Lock()
	t.closed = true
	t.cond.Broadcast()
	t.mu.Unlock()
	return nil
}

func (t *ftun) release() {
	t.mu.Lock()
	t.held = false
	t.limit = t.cut
	t.cond.Broadcast()
	t.mu.Unlock()
}

// records decodes what was written to the tunnel.
func (t *ftun) records() (evs []fw.Event, whole int) {
	t.mu.Lock()
	b := append([]byte(nil), t.wbuf...)
	t.mu.Unlock()
	for len(b) >= 2 {
		n := int(b[0])<<8 | int(b[1])
		if n == 0 || len(b) < 2+n {
			break
		}
		idx, ok := checkDatagram(b[2:2+n], tagU)
		evs = append(evs, fw.Event{"ev": "TRecord", "idx": idx, "len": n, "ok": ok})
		whole++
		b = b[2+n:]
	}
	if len(b) > 0 {
		evs = append(evs, fw.Event{"ev": "TJunk", "n": len(b)})
	}
	return evs, whole
}

// udpSide is the UDP socket handed to the relay plus the peer that talks to it.
type udpSide interface {
	conn() io.ReadWriteCloser
	peerSend(p []byte) error
	readerParked() bool
	drained() bool // everything the peer sent has been taken by the relay (unknown => false)
	delivered() int
	shutdown()
}

// fsock: scripted UDP socket (behaves like mapping.UDPVirtualConn: Read blocks until a datagram
// arrives or the conn is closed, then io.EOF).
type fsock struct {
	rec    *recorder
	mu     sync.Mutex
	cond   *sync.Cond
	in     [][]byte
	closed bool
	parked bool
	count  int
	slow   time.Duration // the first Write is slow: it takes its bytes this much later
	clk    *sclock
	rdl    time.Time // deadlines set by the relay (scripted clock)
	wdl    time.Time
}

func (s *fsock) SetReadDeadline(d time.Time) error {
	s.mu.Lock()
	s.rdl = s.clk.onClock(d)
	s.cond.Broadcast()
	s.mu.Unlock()
	return nil
}
func (s *fsock) SetWriteDeadline(d time.Time) error {
	s.mu.Lock()
	s.wdl = s.clk.onClock(d)
	s.mu.Unlock()
	return nil
}
func (s *fsock) SetDeadline(d time.Time) error {
	s.SetReadDeadline(d)
	return s.SetWriteDeadline(d)
}

func newFsock(rec *recorder) *fsock {
	s := &fsock{rec: rec}
	s.cond = sync.NewCond(&s.mu)
	return s
}
func (s *fsock) conn() io.ReadWriteCloser { return s }
func (s *fsock) Read(p []byte) (int, error) {
	s.mu.Lock()
	defer s.mu.Unlock()
	for len(s.in) == 0 && !s.closed && !s.clk.past(s.rdl) {
		s.parked = true
		s.cond.Wait()
	}
	s.parked = false
	if s.closed {
		return 0, io.EOF
	}
	if len(s.in) == 0 {
		s.rec.add(fw.Event{"ev": "UTimeout", "side": "sock", "op": "read"})
		return 0, timeoutErr{}
	}
	n := copy(p, s.in[0])
	s.in = s.in[1:]
	return n, nil
}
func (s *fsock) Write(p []byte) (int, error) {
	s.mu.Lock()
	if d := s.slow; d > 0 && !s.closed {
		s.slow = 0
		s.mu.Unlock()
		time.Sleep(d)
		s.mu.Lock()
	}
	defer s.mu.Unlock()
	if s.closed {
		return 0, io.ErrClosedPipe
	}
	if s.clk.past(s.wdl) {
		s.rec.add(fw.Event{"ev": "UTimeout", "side": "sock", "op": "write"})
		return 0, timeoutErr{}
	}
	idx, ok := checkDatagram(p, tagT)
	s.rec.add(fw.Event{"ev": "UDeliver", "idx": idx, "len": len(p), "ok": ok})
	s.count++
	return len(p), nil
}
func (s *fsock) Close() error {
	s.mu.Lock()
	s.closed = true
	s.cond.Broadcast()
	s.mu.Unlock()
	return nil
}
func (s *fsock) peerSend(p []byte) error {
	s.mu.Lock()
	s.in = append(s.in, p)
	s.cond.Broadcast()
	s.mu.Unlock()
	return nil
}
func (s *fsock) readerParked() bool { s.mu.Lock(); defer s.mu.Unlock(); return s.parked }
func (s *fsock) drained() bool      { s.mu.Lock(); defer s.mu.Unlock(); return len(s.in) == 0 }
func (s *fsock) delivered() int     { s.mu.Lock(); defer s.mu.Unlock(); return s.count }
func (s *fsock) shutdown()          { s.Close() }

// rsock: a real connected *net.UDPConn on loopback (the relay's sendmmsg path) and its peer.
type rsock struct {
	rec   *recorder
	relay *net.UDPConn
	peer  *net.UDPConn
	mu    sync.Mutex
	count int
}

func newRsock(rec *recorder) (*rsock, error) {
	peer, err := net.ListenUDP("udp4", &net.UDPAddr{IP: net.IPv4(127, 0, 0, 1)})
	if err != nil {
		return nil, err
	}
	peer.SetReadBuffer(4 << 20)
	relay, err := net.DialUDP("udp4", nil, peer.LocalAddr().(*net.UDPAddr))
	if err != nil {
		peer.Close()
		return nil, err
	}
	relay.SetReadBuffer(4 << 20)
	s := &rsock{rec: rec, relay: relay, peer: peer}
	go func() {
		buf := make([]byte, 70000)
		for {
			n, _, err := peer.ReadFromUDP(buf)
			if err != nil {
				return
			}
			idx, ok := checkDatagram(buf[:n], tagT)
			s.mu.Lock()
			s.rec.add(fw.Event{"ev": "UDeliver", "idx": idx, "len": n, "ok": ok})
			s.count++
			s.mu.Unlock()
		}
	}()
	return s, nil
}
func (s *rsock) conn() io.ReadWriteCloser { return s.relay }
func (s *rsock) peerSend(p []byte) error {
	_, err := s.peer.WriteToUDP(p, s.relay.LocalAddr().(*net.UDPAddr))
	return err
}
func (s *rsock) readerParked() bool { return false }
func (s *rsock) drained() bool      { return false }
func (s *rsock) delivered() int     { s.mu.Lock(); defer s.mu.Unlock(); return s.count }
func (s *rsock) shutdown()          { s.relay.Close(); s.peer.Close() }

// vsock: the REAL mapping.UDPVirtualConn of a real mapping.UDPMappingAdapter listening on a
// loopback port. The peer's first datagram creates the session (and is datagram 1 of the
// UDP -> tunnel direction); what the relay writes goes through UDPVirtualConn.Write -> writeChan
// -> writeLoop -> the listener socket, and is observed on the peer's socket.
type vsock struct {
	rec     *recorder
	adapter *mapping.UDPMappingAdapter
	vconn   io.ReadWriteCloser
	peer    *net.UDPConn
	to      *net.UDPAddr
	mu      sync.Mutex
	count   int
}

var vsockMu sync.Mutex // one adapter start at a time (free-port probing)

func newVsock(rec *recorder, first []byte) (*vsock, error) {
	vsockMu.Lock()
	defer vsockMu.Unlock()
	var lastErr error
	for attempt := 0; attempt < 5; attempt++ {
		probe, err := net.ListenUDP("udp4", &net.UDPAddr{IP: net.IPv4(127, 0, 0, 1)})
		if err != nil {
			return nil, err
		}
		port := probe.LocalAddr().(*net.UDPAddr).Port
		probe.Close()
		ad := mapping.NewUDPMappingAdapter()
		if err := ad.StartListener(config.MappingConfig{MappingID: "m-c12", Protocol: "udp", LocalPort: port}); err != nil {
			lastErr = err
			continue
		}
		peer, err := net.ListenUDP("udp4", &net.UDPAddr{IP: net.IPv4(127, 0, 0, 1)})
		if err != nil {
			ad.Close()
			return nil, err
		}
		peer.SetReadBuffer(4 << 20)
		s := &vsock{rec: rec, adapter: ad, peer: peer, to: &net.UDPAddr{IP: net.IPv4(127, 0, 0, 1), Port: port}}
		if _, err := peer.WriteToUDP(first, s.to); err != nil {
			s.shutdown()
			return nil, err
		}
		acc := make(chan io.ReadWriteCloser, 1)
		go func() {
			c, _ := ad.Accept()
			acc <- c
		}()
		select {
		case c := <-acc:
			if c == nil {
				s.shutdown()
				lastErr = fmt.Errorf("adapter closed")
				continue
			}
			s.vconn = c
		case <-time.After(2 * time.Second):
			s.shutdown()
			lastErr = fmt.Errorf("no session within 2 s")
			continue
		}
		go func() {
			buf := make([]byte, 70000)
			for {
				n, _, err := peer.ReadFromUDP(buf)
				if err != nil {
					return
				}
				idx, ok := checkDatagram(buf[:n], tagT)
				s.mu.Lock()
				s.rec.add(fw.Event{"ev": "UDeliver", "idx": idx, "len": n, "ok": ok})
				s.count++
				s.mu.Unlock()
			}
		}()
		return s, nil
	}
	return nil, lastErr
}
func (s *vsock) conn() io.ReadWriteCloser { return s.vconn }
func (s *vsock) peerSend(p []byte) error  { _, err := s.peer.WriteToUDP(p, s.to); return err }
func (s *vsock) readerParked() bool       { return false }
func (s *vsock) drained() bool            { return false }
func (s *vsock) delivered() int           { s.mu.Lock(); defer s.mu.Unlock(); return s.count }
func (s *vsock) shutdown() {
	if s.vconn != nil {
		s.vconn.Close()
	}
	s.adapter.Close()
	s.peer.Close()
}

type udpSpec struct {
	Kind   string `json:"kind"`
	Via    string `json:"via"`
	Sock   string `json:"sock"`
	T      []int  `json:"t"`   // concrete datagram sizes tunnel -> UDP
	U      []int  `json:"u"`   // concrete datagram sizes UDP -> tunnel
	Cut    int    `json:"cut"` // concrete byte offset where the tunnel stream ends
	How    string `json:"how"`
	Bounds []int  `json:"bounds"` // chunk ends of the tunnel Reads
	Pace   string `json:"pace"`
	// Slow: "" | "tunnelWrite" (the first tunnel Write is held while the remaining datagrams
	// arrive) | "tunnelWriteAfterFailures" (tunnel Writes fail while the first Fail datagrams
	// arrive - the batch grows to the batch-full flush -, then the next Write is held) |
	// "sockWrite" (the first UDP socket write is slow while more of the stream is available)
	Slow  string `json:"slow,omitempty"`
	Fail  int    `json:"fail,omitempty"`
	Model any    `json:"model,omitempty"`
	// flow phase (after the first len(U)-FlowU datagrams of the peer, before the rest of the stream is
	// released): Flow steps of { one second passes on the scripted clock (and GapMs of real time); the
	// peer sends its next datagram; the next datagram of the tunnel stream becomes readable; wait until
	// both have arrived }.  IdleMs = idle timeout given to tunnel.Tunnel (via "tunnel"), Sc = scenario tag.
	Flow   int    `json:"flow,omitempty"`
	StepS  int    `json:"stepS,omitempty"` // scripted seconds per flow step (default 1)
	FlowU  int    `json:"flowU,omitempty"`
	GapMs  int    `json:"gapMs,omitempty"`
	IdleMs int    `json:"idleMs,omitempty"`
	Sc     string `json:"sc,omitempty"`
}

func wholeBefore(sizes []int, cut int) int {
	off, k := 0, 0
	for _, s := range sizes {
		off += 2 + s
		if off <= cut {
			k++
		}
	}
	return k
}

func driveUDP(env *fw.Env, sp udpSpec) *fw.Trace {
	if hungUDP.Load() >= maxHung {
		return &fw.Trace{Status: fw.Inconclusive, Note: fmt.Sprintf("skipped: %d UDP relay calls already hung in this run", maxHung)}
	}
	rec := &recorder{}
	stream := encode(tagT, sp.T)
	if sp.Cut > len(stream) {
		return &fw.Trace{Status: fw.DriverError, Note: "cut beyond stream"}
	}
	if len(sp.T) > 255 || len(sp.U) > 255 {
		return &fw.Trace{Status: fw.DriverError, Note: "datagram index does not fit the payload's index byte"}
	}
	clk := &sclock{}
	tun := &ftun{rec: rec, stream: stream, cut: sp.Cut, how: sp.How, bounds: sp.Bounds, held: true, clk: clk,
		entered: make(chan struct{}), relCh: make(chan struct{})}
	tun.cond = sync.NewCond(&tun.mu)
	lossy := sp.Slow == "tunnelWriteAfterFailures"
	switch sp.Slow {
	case "tunnelWrite":
		tun.holdNext = true
	case "tunnelWriteAfterFailures":
		tun.failing = true
	}
	var side udpSide
	firstSent := false
	if sp.Sock == "vconn" {
		if len(sp.U) == 0 {
			return &fw.Trace{Status: fw.DriverError, Note: "vconn behaviour needs a first datagram from the peer"}
		}
		vs, err := newVsock(rec, mkDatagram(tagU, 1, sp.U[0]))
		if err != nil {
			return &fw.Trace{Status: fw.Inconclusive, Note: "no UDP mapping adapter here: " + err.Error()}
		}
		side, firstSent = vs, true
	} else if sp.Sock == "real" {
		rs, err := newRsock(rec)
		if err != nil {
			return &fw.Trace{Status: fw.Inconclusive, Note: "no loopback UDP here: " + err.Error()}
		}
		side = rs
	} else {
		fs := newFsock(rec)
		fs.clk = clk
		if sp.Slow == "sockWrite" {
			fs.slow = 40 * time.Millisecond
		}
		side = fs
	}
	t := orEmpty(sp.T)
	u := orEmpty(sp.U)
	sc := sp.Slow
	if sp.Sc != "" {
		sc = sp.Sc
	}
	rec.add(fw.Event{"ev": "UStart", "sock": sp.Sock, "via": sp.Via, "t": t, "u": u, "cut": sp.Cut, "how": sp.How, "sc": sc, "lossy": lossy})
	done, cleanup := startRelayIdle(sp.Via, "udp", side.conn(), tun, time.Duration(sp.IdleMs)*time.Millisecond)
	nInit := len(sp.U) - sp.FlowU // datagrams of the peer sent before the flow phase
	if nInit < 0 {
		nInit = 0
	}

	// UDP peer -> tunnel
	// waitTaken: the relay has read everything the peer sent so far (+ a grace period in which a
	// writer that is not excluded by the batch mutex would touch the batch buffer)
	waitTaken := func() {
		for dl := time.Now().Add(300 * time.Millisecond); !side.drained() && time.Now().Before(dl); {
			time.Sleep(time.Millisecond)
		}
		time.Sleep(30 * time.Millisecond)
	}
	released := false
	for i, s := range sp.U[:nInit] {
		rec.add(fw.Event{"ev": "USent", "idx": i + 1})
		if i == 0 && firstSent {
			continue // it created the session
		}
		if err := side.peerSend(mkDatagram(tagU, i+1, s)); err != nil {
			side.shutdown()
			tun.Close()
			cleanup()
			return &fw.Trace{Status: fw.DriverError, Note: "peer send: " + err.Error()}
		}
		switch {
		case sp.Slow == "tunnelWrite" && i == 0:
			// datagram 1 -> a flush starts and its tunnel Write is held -> the other datagrams arrive
			select {
			case <-tun.entered:
			case <-time.After(flushWait):
			}
		case sp.Slow == "tunnelWriteAfterFailures" && i+1 == sp.Fail:
			// the tunnel recovers; the next flush (batch-full or ticker) is the held Write
			waitTaken()
			tun.set(func() { tun.failing = false; tun.holdNext = true })
		case sp.Slow == "tunnelWriteAfterFailures" && i+1 == sp.Fail+1:
			select {
			case <-tun.entered:
			case <-time.After(flushWait):
			}
		}
		if sp.Pace == "spaced" {
			time.Sleep(35 * time.Millisecond)
		}
	}
	if sp.Slow == "tunnelWrite" || sp.Slow == "tunnelWriteAfterFailures" {
		waitTaken()
		close(tun.relCh)
		released = true
	}
	_ = released
	if nInit > 0 {
		deadline := time.Now().Add(flushWait)
		for {
			_, have := tun.records()
			if have >= nInit {
				break
			}
			if time.Now().After(deadline) {
				if !lossy { // after tunnel write errors the statement does not demand delivery
					rec.add(fw.Event{"ev": "UFlushTimeout", "have": have})
				}
				break
			}
			time.Sleep(2 * time.Millisecond)
		}
	}
	// flow phase: time passes while both directions keep exchanging one datagram per step
	if sp.Flow > 0 {
		gap := time.Duration(sp.GapMs) * time.Millisecond
		maxGap := time.Duration(sp.IdleMs) * time.Millisecond / 2
		if sp.IdleMs == 0 {
			maxGap = 150 * time.Second // the code's own idle timeout: 5 minutes
		}
		whole, ends, off := wholeBefore(sp.T, sp.Cut), []int{}, 0
		for _, s := range sp.T {
			off += 2 + s
			ends = append(ends, off)
		}
		tun.set(func() { tun.held = false; tun.cond.Broadcast() })
		last := time.Now()
	flow:
		for i := 0; i < sp.Flow; i++ {
			clk.skew.Add(int64(time.Second) * int64(max(sp.StepS, 1)))
			tun.set(func() { tun.cond.Broadcast() })
			if fs, ok := side.(*fsock); ok {
				fs.mu.Lock()
				fs.cond.Broadcast()
				fs.mu.Unlock()
			}
			time.Sleep(gap)
			if gap > 0 && time.Since(last) > maxGap {
				side.shutdown()
				tun.Close()
				cleanup()
				rec.seal()
				return &fw.Trace{Status: fw.Inconclusive, Note: "real-time flow: this machine was too slow to keep the traffic going"}
			}
			if k := nInit + i; k < len(sp.U) {
				rec.add(fw.Event{"ev": "USent", "idx": k + 1})
				if !(k == 0 && firstSent) {
					if err := side.peerSend(mkDatagram(tagU, k+1, sp.U[k])); err != nil {
						break flow // the relay has closed the socket: the judge sees what is missing
					}
				}
				for dl := time.Now().Add(flushWait); ; {
					if _, have := tun.records(); have >= k+1 {
						break
					}
					if time.Now().After(dl) {
						_, have := tun.records()
						rec.add(fw.Event{"ev": "UFlushTimeout", "have": have})
						break flow
					}
					time.Sleep(time.Millisecond)
				}
			}
			if i < whole {
				tun.setLimit(ends[i])
				for dl := time.Now().Add(flushWait); side.delivered() < i+1; {
					if time.Now().After(dl) {
						break flow // not arriving any more: Complete decides at the end
					}
					time.Sleep(time.Millisecond)
				}
			}
			last = time.Now()
		}
	}
	// tunnel -> UDP: let the stream flow up to its cut
	tun.release()
	var ret fw.Event
	select {
	case ret = <-done:
	case <-time.After(watchdog):
	}
	if ret != nil && sp.Sock != "fake" && sp.How == "eof" {
		want := wholeBefore(sp.T, sp.Cut)
		for dl := time.Now().Add(3 * time.Second); side.delivered() < want && time.Now().Before(dl); {
			time.Sleep(time.Millisecond)
		}
	}
	recs, _ := tun.records()
	for _, e := range recs {
		rec.add(e)
	}
	if ret != nil {
		rec.add(ret)
	} else {
		hungUDP.Add(1)
		why := ""
		tun.mu.Lock()
		spins := tun.after
		tun.mu.Unlock()
		if spins > 3 {
			why = "deframerSpins"
		} else if side.readerParked() {
			why = "socketReaderBlocked"
		}
		rec.add(fw.Event{"ev": "Hung", "why": why, "tunnelReadsAfterEnd": spins})
	}
	ev := rec.seal()
	// clean-up: wake and end both goroutines of the relay whatever state they are in
	side.shutdown()
	tun.mu.Lock()
	tun.drainM = true
	tun.drain = append(append([]byte(nil), stream[tun.pos:]...), 0, 0)
	tun.mu.Unlock()
	if ret == nil {
		select {
		case <-done:
		case <-time.After(200 * time.Millisecond):
		}
	}
	tun.Close()
	cleanup()
	return &fw.Trace{Status: fw.Realised, Events: ev}
}

func orEmpty(x []int) []int {
	if x == nil {
		return []int{}
	}
	return x
}
