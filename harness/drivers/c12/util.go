package main

import (
	"errors"
	"hash/fnv"
	"sync"
	"time"

	"tunnox-core/verifharness/fw"
)

const (
	watchdog  = 5 * time.Second // DESIGN.md Appendix B: "bounded time"/"promptly" = 5 s
	stepWait  = 2 * time.Second // a modelled step of the relay must arrive at its gate within this
	flushWait = 2 * time.Second // 100x the 20 ms flush interval of the batching writer
	maxHung   = 150             // after this many hung UDP calls the remaining UDP behaviours are skipped
)

var (
	errReset  = errors.New("scripted: connection reset by peer")
	errPipe   = errors.New("scripted: broken pipe")
	errTunnel = errors.New("scripted: tunnel failed")
	errClosed = errors.New("scripted: use of closed connection")
)

// recorder collects the observable events of one behaviour in real-time order.
type recorder struct {
	mu     sync.Mutex
	ev     []fw.Event
	sealed bool
}

func (r *recorder) add(e fw.Event) {
	r.mu.Lock()
	if !r.sealed {
		r.ev = append(r.ev, e)
	}
	r.mu.Unlock()
}

// seal stops recording (events of goroutines that outlive the behaviour are dropped).
func (r *recorder) seal() []fw.Event {
	r.mu.Lock()
	defer r.mu.Unlock()
	r.sealed = true
	return r.ev
}

// pat is the counter payload: byte i of the stream with the given tag.
func pat(tag byte, i int) byte { return byte((i*7 + (i>>8)*13 + int(tag)) % 251) }

func fill(tag byte, off, n int) []byte {
	b := make([]byte, n)
	for i := range b {
		b[i] = pat(tag, off+i)
	}
	return b
}

func check(p []byte, tag byte, off int) bool {
	for i, x := range p {
		if x != pat(tag, off+i) {
			return false
		}
	}
	return true
}

func hash64(s string, seed int64) uint64 {
	h := fnv.New64a()
	h.Write([]byte(s))
	var b [8]byte
	for i := 0; i < 8; i++ {
		b[i] = byte(seed >> (8 * i))
	}
	h.Write(b[:])
	x := h.Sum64()
	// final avalanche (fnv alone is weak in the low bits for similar strings)
	x ^= x >> 33
	x *= 0xff51afd7ed558ccd
	x ^= x >> 33
	return x
}

// ---- gate: forces the TLC-chosen order of the relay's conn operations -----------------------

type ticket struct {
	n   int    // Read: payload units to return
	end string // Read: "none" | "eof" | "err"
}

type arrival struct {
	grant chan ticket
	done  chan struct{}
}

func (a *arrival) finish() {
	if a != nil {
		close(a.done)
	}
}

type gate struct {
	ch     map[string]chan *arrival
	freeCh chan struct{}
	once   sync.Once
}

func newGate(keys ...string) *gate {
	g := &gate{ch: map[string]chan *arrival{}, freeCh: make(chan struct{})}
	for _, k := range keys {
		g.ch[k] = make(chan *arrival, 4)
	}
	return g
}

// enter is called by the scripted conn at the start of an operation. It parks until the driver
// grants the step, or returns free=true once the gate has been opened.
func (g *gate) enter(key string) (ticket, bool, *arrival) {
	select {
	case <-g.freeCh:
		return ticket{}, true, nil
	default:
	}
	a := &arrival{grant: make(chan ticket, 1), done: make(chan struct{})}
	select {
	case g.ch[key] <- a:
	case <-g.freeCh:
		return ticket{}, true, nil
	}
	select {
	case tk := <-a.grant:
		return tk, false, a
	case <-g.freeCh:
		return ticket{}, true, nil
	}
}

// step releases the operation `key` with the given ticket and waits until it has taken effect.
func (g *gate) step(key string, tk ticket, wait time.Duration) bool {
	t := time.NewTimer(wait)
	defer t.Stop()
	select {
	case a := <-g.ch[key]:
		a.grant <- tk
		select {
		case <-a.done:
			return true
		case <-t.C:
			return false
		}
	case <-t.C:
		return false
	}
}

func (g *gate) free() { g.once.Do(func() { close(g.freeCh) }) }

func errClass(err error) string {
	switch {
	case err == nil:
		return "none"
	case err.Error() == "EOF":
		return "eof"
	default:
		return "other"
	}
}
