package main

import (
	"context"
	"fmt"
	"io"
	"reflect"
	"sync/atomic"
	"time"

	"tunnox-core/internal/client/tunnel"
	"tunnox-core/internal/utils/iocopy"
	"tunnox-core/verifharness/fw"
)

var tunSeq atomic.Int64

// startRelay runs the real relay on (local, tun): iocopy.Bidirectional / iocopy.UDP directly, or
// through tunnel.Tunnel (Start -> runDataCopy -> Close -> OnClosed). The returned channel yields
// the Returned event; cleanup releases whatever the tunnel variant holds.
func startRelay(via, proto string, local, tun io.ReadWriteCloser) (<-chan fw.Event, func()) {
	return startRelayIdle(via, proto, local, tun, 0)
}

// idleConfigurable: tunnel.TunnelConfig has the IdleTimeout field (patch C12-4). Looked up by
// reflection so that the driver also builds against a tree without it; there the idle timeout
// is the fixed 5 minutes and the idle-monitor behaviours run in real time (thorough tier only).
func idleConfigurable() bool {
	f, ok := reflect.TypeOf(tunnel.TunnelConfig{}).FieldByName("IdleTimeout")
	return ok && f.Type == reflect.TypeOf(time.Duration(0))
}

// startRelayIdle: as startRelay; idle > 0 sets the tunnel's idle timeout (via "tunnel" only).
func startRelayIdle(via, proto string, local, tun io.ReadWriteCloser, idle time.Duration) (<-chan fw.Event, func()) {
	done := make(chan fw.Event, 4)
	if via != "tunnel" {
		go func() {
			var r *iocopy.Result
			if proto == "udp" {
				r = iocopy.UDP(local, tun, &iocopy.Options{LogPrefix: "c12"})
			} else {
				r = iocopy.Bidirectional(local, tun, &iocopy.Options{LogPrefix: "c12"})
			}
			done <- fw.Event{"ev": "Returned", "sendErr": errClass(r.SendError), "recvErr": errClass(r.ReceiveError),
				"sent": r.BytesSent, "recv": r.BytesReceived}
		}()
		return done, func() {}
	}
	ctx, cancel := context.WithCancel(context.Background())
	mgr := tunnel.NewTunnelManager(ctx, tunnel.TunnelRoleListen)
	id := fmt.Sprintf("c12-%d", tunSeq.Add(1))
	var t *tunnel.Tunnel
	cfg := &tunnel.TunnelConfig{
		ID: id, MappingID: "m-c12", Role: tunnel.TunnelRoleListen, Protocol: proto,
		LocalConn: local, TunnelRWC: tun, Manager: mgr,
		OnClosed: func(reason tunnel.CloseReason, err error) {
			st := t.GetStats()
			select {
			case done <- fw.Event{"ev": "Returned", "reason": reason.String(), "sendErr": errClass(err), "recvErr": "none",
				"sent": st.BytesSent, "recv": st.BytesRecv}:
			default:
			}
		},
	}
	if idle > 0 && idleConfigurable() {
		reflect.ValueOf(cfg).Elem().FieldByName("IdleTimeout").SetInt(int64(idle))
	}
	t = tunnel.NewTunnel(cfg)
	if err := mgr.RegisterTunnel(t); err != nil {
		panic(err)
	}
	if err := t.Start(); err != nil {
		panic(err)
	}
	return done, func() {
		t.Close(tunnel.CloseReasonError, nil)
		mgr.Close()
		cancel()
	}
}
