// C12 driver: client-side relays deliver everything and always terminate.
//
// Replays TLC-generated behaviours of spec/Relay.tla on the real iocopy.Bidirectional and
// iocopy.UDP (directly and through tunnel.Tunnel.runDataCopy):
//   - "bidi": a gated interleaving of the two copier goroutines' Read/Write/CloseWrite steps with
//     the endpoints' send/half-close/close/error actions (scripted conns, every conn operation
//     of the relay parks at a gate until the behaviour says it happens), then both endpoints
//     finish and the relay must return within the watchdog;
//   - "udp": datagram size sequences in both directions, the tunnel stream cut at a byte offset
//     by EOF or by an error, a Read chunking; scripted or real loopback UDP socket;
//   - driver-made extras: free-running scripts with payloads around the 32 KiB copy buffer, real
//     loopback TCP (tryCloseWrite's *net.TCPConn branch), a literal every-offset cut sweep, more
//     than 32 datagrams (batch flush), more than 256 KiB buffered (refill threshold).
//
// The recorded endpoint observations are judged by spec/RelayTrace.tla.
package main

import (
	"encoding/json"
	"fmt"
	"math/rand"
	"os"
	"strings"
	"sync"
	"time"

	corelog "tunnox-core/internal/core/log"
	"tunnox-core/verifharness/fw"
)

// ---- model -> concrete ------------------------------------------------------------------------
func classSize(c int, real bool) int {
	switch c {
	case 1, 2:
		return c
	case 3:
		return 255
	default:
		if real {
			return 65507 // largest UDP payload over IPv4
		}
		return 65535
	}
}

// mapPos maps a byte position r inside a model record (2+s bytes) to the concrete record (2+S).
func mapPos(r, s, S int) int {
	if r <= 2 {
		return r
	}
	d := r - 2 // data bytes included, 1..s-1 (or s when r is the end of the record)
	switch {
	case d >= s:
		return 2 + S
	case d == 1:
		return 3
	case d == s-1:
		return 2 + S - 1
	default:
		return 2 + S/2
	}
}

func mapOff(ms, cs []int, off int) int {
	mo, co := 0, 0
	for i, s := range ms {
		if off < mo+2+s {
			return co + mapPos(off-mo, s, cs[i])
		}
		mo += 2 + s
		co += 2 + cs[i]
	}
	return co
}

type udpModel struct {
	T     []int  `json:"t"`
	U     []int  `json:"u"`
	Cut   int    `json:"cut"`
	How   string `json:"how"`
	Chunk int    `json:"chunk"`
	Pace  string `json:"pace"`
}

func count(xs []int, v int) int {
	n := 0
	for _, x := range xs {
		if x == v {
			n++
		}
	}
	return n
}

func concretise(m udpModel, h uint64) udpSpec {
	sp := udpSpec{Kind: "udp", Via: "direct", Sock: "fake", How: m.How, Pace: m.Pace, Model: m}
	if h%5 == 0 {
		sp.Via = "tunnel"
	}
	if (h>>8)%4 == 0 && count(m.T, 4) <= 1 && count(m.U, 4) <= 1 {
		sp.Sock = "real"
	} else if (h>>8)%4 == 1 && len(m.U) > 0 && count(m.T, 4) <= 1 && count(m.U, 4) <= 1 {
		sp.Sock = "vconn" // the real mapping.UDPVirtualConn (needs the peer's first datagram to exist)
	}
	// burst variant: every model datagram stands for `mult` datagrams of its size class, so that
	// more datagrams than the batch writer has slots (32) are complete in one parse pass
	mult := 1
	if count(m.T, 4) == 0 && len(m.T) > 0 && (h>>28)%4 == 0 {
		mult = []int{11, 16, 17, 33}[(h>>32)%4]
		if (h>>36)%2 == 0 {
			sp.Sock = "real" // the sendmmsg batch writer is only used for a real *net.UDPConn
		}
	}
	var mT []int // model sizes, replicated
	for _, c := range m.T {
		for k := 0; k < mult; k++ {
			mT = append(mT, c)
		}
	}
	modelOff := func(off int) int { // offset in the model stream -> offset in the replicated model stream
		if mult == 1 {
			return off
		}
		mo, ro := 0, 0
		for _, c := range m.T {
			if off < mo+2+c {
				r := off - mo
				if r <= 2 {
					return ro + r // boundary / inside the first length prefix of the group
				}
				return ro + (mult-1)*(2+c) + r // inside the data of the last datagram of the group
			}
			mo += 2 + c
			ro += mult * (2 + c)
		}
		return ro
	}
	for _, c := range mT {
		sp.T = append(sp.T, classSize(c, sp.Sock != "fake"))
	}
	for _, c := range m.U {
		sp.U = append(sp.U, classSize(c, sp.Sock != "fake"))
	}
	sp.Cut = mapOff(mT, sp.T, modelOff(m.Cut))
	switch {
	case m.Chunk == 99 && (h>>16)%2 == 0 && sp.Cut > 1:
		// the "everything at once" policy alternates with a seeded random chunking
		r := rand.New(rand.NewSource(int64(h >> 3)))
		for p := 0; p < sp.Cut; {
			step := 1 + r.Intn(5)
			if r.Intn(3) == 0 {
				step = 1 + r.Intn(70000)
			}
			p += step
			if p < sp.Cut {
				sp.Bounds = append(sp.Bounds, p)
			}
		}
	case m.Chunk != 99 && m.Chunk > 0:
		last := 0
		for o := m.Chunk; o < m.Cut; o += m.Chunk {
			if b := mapOff(mT, sp.T, modelOff(o)); b > last && b < sp.Cut {
				sp.Bounds = append(sp.Bounds, b)
				last = b
			}
		}
	}
	sp.Bounds = append(sp.Bounds, sp.Cut)
	switch {
	case m.Pace == "heldwrite":
		sp.Pace, sp.Slow = "burst", "tunnelWrite"
	case sp.Sock == "fake" && len(sp.T) > 1 && (h>>24)%6 == 0:
		sp.Slow = "sockWrite"
	}
	return sp
}

func keep(raw json.RawMessage, seed int64, num, den uint64) (uint64, bool) {
	h := hash64(string(raw), seed)
	return h, (h>>20)%den < num
}

func expand(env *fw.Env, src string, raw json.RawMessage) []json.RawMessage {
	quick := env.Tier == "quick"
	switch src {
	case "gen:bidi", "gen:bidi2":
		num, den := uint64(1), uint64(10)
		if quick {
			den = 60
		}
		if src == "gen:bidi2" {
			den = 20
		}
		h, ok := keep(raw, env.Seed, num, den)
		if !ok {
			return nil
		}
		var steps []bstep
		if err := json.Unmarshal(raw, &steps); err != nil {
			panic(err)
		}
		sp := bidiSpec{Kind: "bidi", Via: "direct", Unit: []int{1, 3, 1024, 4096}[h%4], Steps: steps}
		if (h>>12)%3 == 0 {
			sp.Flow = 12 // seconds of scripted time with continued traffic before the endpoints finish
		}
		if (h>>8)%5 == 0 {
			sp.Via = "tunnel"
		}
		if (h>>16)%3 == 0 {
			// peers that react to what they are told; if nobody has ended yet, one side ends first - by a
			// clean half-close, a close or a failure
			sp.React = true
			sp.Who = []string{"A", "B"}[(h>>18)%2]
			sp.Cause = []string{"error", "halfclose", "close", "error"}[(h>>19)%4]
		}
		return []json.RawMessage{fw.MustJSON(sp)}
	case "gen:udp-t", "gen:udp-u":
		num, den := uint64(1), uint64(1)
		if quick && src == "gen:udp-t" {
			den = 2
		}
		h, ok := keep(raw, env.Seed, num, den)
		if !ok {
			return nil
		}
		var m udpModel
		if err := json.Unmarshal(raw, &m); err != nil {
			panic(err)
		}
		return []json.RawMessage{fw.MustJSON(concretise(m, h))}
	}
	panic("unknown generation job " + src)
}

// ---- driver-made behaviours ---------------------------------------------------------------------
func extras(env *fw.Env) []json.RawMessage {
	var out []json.RawMessage
	add := func(v any) { out = append(out, fw.MustJSON(v)) }
	S := func(e string, n int) sop { return sop{E: e, Op: "send", N: n} }
	E := func(e, how string) sop { return sop{E: e, Op: how} }
	W := sop{Op: "settle"}
	scripts := [][]sop{
		{S("A", 100000), W, E("A", "halfclose"), W, S("B", 70000), S("B", 40000), W, E("B", "halfclose")},
		{S("B", 100000), W, E("B", "halfclose"), W, S("A", 70000), S("A", 40000), W, E("A", "halfclose")},
		{S("A", 32768), S("B", 32769), S("A", 32767), S("B", 32768), S("A", 1), E("A", "halfclose"), S("B", 65537), E("B", "halfclose")},
		{S("A", 50000), S("B", 900), W, E("A", "close"), S("B", 500), W, E("B", "halfclose")},
		{S("A", 900), S("B", 50000), W, E("B", "close"), S("A", 500), W, E("A", "close")},
		{S("A", 3000), S("B", 3000), W, E("B", "error"), S("A", 100), E("A", "halfclose")},
		{S("A", 3000), S("B", 3000), W, E("A", "error"), S("B", 100), E("B", "halfclose")},
		{E("A", "halfclose"), W, S("B", 200000), W, E("B", "halfclose")},
		{E("B", "halfclose"), W, S("A", 200000), W, E("A", "close")},
		{S("A", 1 << 20), S("B", 1 << 20), W, E("A", "halfclose"), E("B", "halfclose")},
	}
	shapesB := []string{"same-closer", "same-cw", "same-none", "split-none", "split-closer", "split-cw", "direct-closer"}
	for i, ops := range scripts {
		via := "direct"
		if i%3 == 2 {
			via = "tunnel"
		}
		add(scriptSpec{Kind: "tcp", Via: via, Ops: ops})
		add(scriptSpec{Kind: "bfree", Via: via, ShA: "direct-cw", ShB: "direct-cw", Ops: ops})
		// the tunnel the way the callers build it: the real adapter around one full-duplex conn
		add(scriptSpec{Kind: "bfree", Via: via, ShA: []string{"direct-cw", "direct-closer"}[i%2], ShB: "same-closer", Ops: ops})
		add(scriptSpec{Kind: "bfree", Via: "direct", ShA: "direct-cw", ShB: shapesB[i%len(shapesB)], Ops: ops})
	}
	// END CAUSE x PEER BEHAVIOUR: one side ends by a clean half-close, a close or a failure (scripted: Read
	// error; real TCP: RST via SO_LINGER 0) - at the start, after data both ways, with much data in flight -
	// while the other side only waits, is still sending, or has half-closed already.  The peers REACT: they
	// close when they are told; the relay must tell them and return.
	for ci, cause := range []string{"error", "halfclose", "close"} {
		for wi, who := range []string{"A", "B"} {
			oth := otherEnd(who)
			variants := [][]sop{
				{E(who, cause)}, // passive peer, nothing sent at all
				{S("A", 700), S("B", 900), W, E(who, cause)},                              // passive peer after data both ways
				{S(who, 300000), S(oth, 5), E(who, cause)},                               // much data in flight when the side ends
				{S("A", 700), S("B", 900), W, E(who, cause), S(oth, 40000), S(oth, 1)},  // the other side is still sending
				{S("A", 700), S("B", 900), W, E(oth, "halfclose"), W, E(who, cause)},     // the other side has half-closed already
			}
			for vi, ops := range variants {
				shB := []string{"direct-cw", "same-cw", "split-cw"}[(ci+wi+vi)%3]
				via := []string{"direct", "tunnel"}[(ci+vi)%2]
				add(scriptSpec{Kind: "bfree", Via: via, ShA: "direct-cw", ShB: shB, React: true, Sc: "reactivePeers", Ops: ops})
				if vi != 2 || cause == "halfclose" { // (real TCP: a reset - also the one a close with unread data provokes - discards what is in flight: not judgeable)
					add(scriptSpec{Kind: "tcp", Via: via, React: true, Sc: "reactivePeers", Ops: ops})
				}
			}
			// a conn that cannot be half-closed on the other side: the driver ends that peer itself
			add(scriptSpec{Kind: "bfree", Via: "direct", ShA: []string{"direct-cw", "direct-closer"}[wi], ShB: "same-closer", React: true, Sc: "reactivePeers",
				Ops: []sop{S("A", 700), S("B", 900), W, E(who, cause)}})
		}
	}
	// time passes while one direction is finished and the other keeps sending (scripted clock)
	F := func(n int) sop { return sop{Op: "flow", N: n} }
	for _, sh := range [][2]string{{"direct-cw", "direct-cw"}, {"direct-closer", "direct-cw"}, {"direct-cw", "same-closer"}, {"direct-cw", "direct-closer"}} {
		for _, via := range []string{"direct", "tunnel"} {
			add(scriptSpec{Kind: "bfree", Via: via, ShA: sh[0], ShB: sh[1], Ops: []sop{S("A", 500), S("B", 500), W, E("B", "halfclose"), W, F(15), E("A", "halfclose")}})
			add(scriptSpec{Kind: "bfree", Via: via, ShA: sh[0], ShB: sh[1], Ops: []sop{S("A", 500), W, E("A", "halfclose"), W, F(15), E("B", "halfclose")}})
			add(scriptSpec{Kind: "bfree", Via: via, ShA: sh[0], ShB: sh[1], Ops: []sop{F(13), E("A", "halfclose"), F(13), E("B", "close")}})
		}
	}
	// ... for longer than any plausible "drain" / lifetime deadline (5.5 minutes of scripted time, traffic
	// every second), with a read-, write- or both-ways deadline-capable conn on either side
	for i, sh := range [][2]string{{"direct-cw", "direct-cw"}, {"direct-closer", "same-closer"}, {"direct-cw", "direct-closer"}} {
		via := []string{"direct", "tunnel"}[i%2]
		add(scriptSpec{Kind: "bfree", Via: via, ShA: sh[0], ShB: sh[1], Sc: "longFlow", Ops: []sop{S("A", 500), S("B", 500), W, E("B", "halfclose"), W, F(330), E("A", "halfclose")}})
		add(scriptSpec{Kind: "bfree", Via: via, ShA: sh[0], ShB: sh[1], Sc: "longFlow", Ops: []sop{S("A", 500), W, E("A", "halfclose"), W, F(330), E("B", "halfclose")}})
		add(scriptSpec{Kind: "bfree", Via: via, ShA: sh[0], ShB: sh[1], Sc: "longFlow", Ops: []sop{F(330), E("A", "halfclose"), F(20), E("B", "close")}})
	}
	// the idle monitor of tunnel.Tunnel (REAL time): traffic every gap for 2.5 idle timeouts - in both
	// directions, only local -> tunnel (tunnel Writes), only tunnel -> local (tunnel Reads).  With the
	// IdleTimeout field of patch C12-4 the timeout is 2 s; without it the code's own 5 minutes are waited
	// for (thorough tier only).
	R := func(n int) sop { return sop{Op: "rflow", N: n} }
	monitor := func(idleMs, gapMs, steps int) {
		for i, sh := range [][2]string{{"direct-cw", "same-closer"}, {"direct-cw", "split-cw"}, {"direct-closer", "direct-cw"}} {
			if idleMs == 0 && i > 0 {
				break
			}
			add(scriptSpec{Kind: "bfree", Via: "tunnel", ShA: sh[0], ShB: sh[1], IdleMs: idleMs, GapMs: gapMs, Sc: "idleMonitor", Ops: []sop{S("A", 500), S("B", 500), W, R(steps), E("A", "halfclose"), E("B", "halfclose")}})
			add(scriptSpec{Kind: "bfree", Via: "tunnel", ShA: sh[0], ShB: sh[1], IdleMs: idleMs, GapMs: gapMs, Sc: "idleMonitor", Ops: []sop{S("A", 500), S("B", 500), W, E("B", "halfclose"), W, R(steps), E("A", "halfclose")}})
			add(scriptSpec{Kind: "bfree", Via: "tunnel", ShA: sh[0], ShB: sh[1], IdleMs: idleMs, GapMs: gapMs, Sc: "idleMonitor", Ops: []sop{E("A", "halfclose"), W, R(steps), E("B", "close")}})
		}
		add(scriptSpec{Kind: "tcp", Via: "tunnel", Pipe: true, IdleMs: idleMs, GapMs: gapMs, Sc: "idleMonitor", Ops: []sop{S("A", 3000), S("B", 500), W, R(steps), E("A", "halfclose"), W, E("B", "close")}})
		// UDP: one datagram per step and direction; the datagram index must fit one byte
		if steps > 245 {
			gapMs = gapMs*steps/245 + 1
			steps = 245
		}
		var t, u []int
		tot := 0
		for i := 0; i < steps; i++ {
			t = append(t, []int{100, 2, 1400}[i%3])
			u = append(u, []int{64, 1200, 3}[i%3])
			tot += 2 + t[i]
		}
		u = append([]int{33}, u...)
		for _, sock := range []string{"fake", "vconn", "real"} {
			if idleMs == 0 && sock != "fake" {
				break
			}
			add(udpSpec{Kind: "udp", Via: "tunnel", Sock: sock, T: t, U: u, Cut: tot, How: "eof", Pace: "burst", Bounds: []int{tot},
				Flow: steps, FlowU: steps, GapMs: gapMs, IdleMs: idleMs, Sc: "idleMonitor"})
		}
	}
	if idleConfigurable() {
		monitor(2000, 200, 25)
	} else if env.Tier == "thorough" {
		monitor(0, 1000, 312)
	}
	// real time on real loopback TCP (a deadline reachable only through the concrete *net.TCPConn): 12 s
	// with traffic every second after one side has half-closed
	if env.Tier == "thorough" {
		add(scriptSpec{Kind: "tcp", Via: "direct", GapMs: 1000, Sc: "realTime", Ops: []sop{S("A", 3000), S("B", 500), W, E("B", "halfclose"), W, R(12), E("A", "halfclose")}})
		add(scriptSpec{Kind: "tcp", Via: "direct", GapMs: 1000, Sc: "realTime", Ops: []sop{S("A", 3000), W, E("A", "halfclose"), W, R(12), E("B", "halfclose")}})
		// (a net.Pipe end cannot half-close: the tunnel peer keeps sending and closes at the end)
		add(scriptSpec{Kind: "tcp", Via: "direct", Pipe: true, GapMs: 1000, Sc: "realTime", Ops: []sop{S("A", 3000), S("B", 500), W, E("A", "halfclose"), W, R(12), W, E("B", "close")}})
	}
	// a net.Pipe tunnel (no CloseWrite, is a Closer) behind the real adapter, local side real TCP:
	// the local application half-closes first, the tunnel peer answers afterwards
	for _, via := range []string{"direct", "tunnel"} {
		add(scriptSpec{Kind: "tcp", Via: via, Pipe: true, Ops: []sop{S("A", 3000), E("A", "halfclose"), W, S("B", 200000), W, E("B", "close")}})
		add(scriptSpec{Kind: "tcp", Via: via, Pipe: true, Ops: []sop{S("A", 3000), S("B", 500), W, E("A", "halfclose"), W, S("B", 70000), S("B", 1), W, E("B", "close")}})
		add(scriptSpec{Kind: "tcp", Via: via, Pipe: true, Ops: []sop{S("B", 40000), W, E("B", "close"), W, S("A", 90000), W, E("A", "halfclose")}})
	}
	// literal sweep: every byte offset of the stream (1, 2, 255), cut by EOF and by error
	sweep := []int{1, 2, 255}
	total := 0
	for _, s := range sweep {
		total += 2 + s
	}
	r := rand.New(rand.NewSource(env.Seed))
	for cut := 0; cut <= total; cut++ {
		for _, how := range []string{"eof", "err"} {
			if env.Tier == "quick" && r.Intn(8) != 0 {
				continue
			}
			sp := udpSpec{Kind: "udp", Via: "direct", Sock: "fake", T: sweep, Cut: cut, How: how, Pace: "burst", Bounds: []int{cut}}
			if cut%3 == 1 {
				sp.Bounds = nil
				for p := 1; p < cut; p++ {
					sp.Bounds = append(sp.Bounds, p)
				}
				sp.Bounds = append(sp.Bounds, cut)
			}
			add(sp)
		}
	}
	// more than batchSize (32) datagrams pending at once; more than 256 KiB buffered at once
	var many []int
	for i := 0; i < 40; i++ {
		many = append(many, []int{1, 2, 255}[i%3])
	}
	manyLen := 0
	for _, s := range many {
		manyLen += 2 + s
	}
	big := []int{65535, 65535, 65535, 65535, 65535}
	bigLen := 5 * 65537
	// more complete datagrams in one tunnel read than the batch writer of a real *net.UDPConn has slots
	for _, n := range []int{31, 32, 33, 40, 64, 65, 100} {
		var t []int
		tot := 0
		for i := 0; i < n; i++ {
			t = append(t, []int{1, 2, 255, 17}[i%4])
			tot += 2 + t[i]
		}
		for _, sock := range []string{"real", "fake", "vconn"} {
			add(udpSpec{Kind: "udp", Via: []string{"direct", "tunnel"}[n%2], Sock: sock, T: t, U: []int{9}, Cut: tot, How: "eof", Pace: "burst", Bounds: []int{tot}})
		}
		add(udpSpec{Kind: "udp", Via: "direct", Sock: "real", T: t, Cut: tot - 1, How: "err", Pace: "burst", Bounds: []int{tot - 1}})
	}
	for _, how := range []string{"eof", "err"} {
		add(udpSpec{Kind: "udp", Via: "direct", Sock: "fake", T: many, Cut: manyLen, How: how, Pace: "burst", Bounds: []int{manyLen}})
		add(udpSpec{Kind: "udp", Via: "direct", Sock: "fake", T: many, Cut: manyLen - 100, How: how, Pace: "burst", Bounds: []int{manyLen - 100}})
		add(udpSpec{Kind: "udp", Via: "tunnel", Sock: "fake", T: big, U: []int{65535, 65535, 65535}, Cut: bigLen, How: how, Pace: "burst", Bounds: []int{bigLen}})
		add(udpSpec{Kind: "udp", Via: "direct", Sock: "fake", T: big, Cut: bigLen - 7, How: how, Pace: "burst", Bounds: []int{300000, bigLen - 7}})
	}
	// time passes (scripted clock: deadline-capable scripted socket / tunnel conn) while both directions
	// keep exchanging one datagram per second: nothing may be lost, the relay may not give up
	for _, n := range []int{15, 240} {
		stepS := 1
		if n > 15 {
			stepS = 2 // 8 minutes of scripted time
		}
		var t, u []int
		tot := 0
		for i := 0; i < n; i++ {
			t = append(t, []int{100, 2, 255, 1}[i%4])
			u = append(u, []int{64, 255, 3}[i%3])
			tot += 2 + t[i]
		}
		u = append([]int{33}, u...)
		for _, via := range []string{"direct", "tunnel"} {
			add(udpSpec{Kind: "udp", Via: via, Sock: "fake", T: t, U: u, Cut: tot, How: "eof", Pace: "burst", Bounds: []int{tot}, Flow: n, FlowU: n, StepS: stepS, Sc: "flow"})
			add(udpSpec{Kind: "udp", Via: via, Sock: "fake", T: t, U: u, Cut: tot - 1, How: "err", Pace: "burst", Bounds: []int{tot - 1}, Flow: n, FlowU: n, StepS: stepS, Sc: "flow"})
		}
		if n == 15 {
			add(udpSpec{Kind: "udp", Via: "direct", Sock: "vconn", T: t, U: u, Cut: tot, How: "eof", Pace: "burst", Bounds: []int{tot}, Flow: n, FlowU: n, StepS: stepS, Sc: "flow"})
			add(udpSpec{Kind: "udp", Via: "tunnel", Sock: "real", T: t, U: u, Cut: tot, How: "eof", Pace: "burst", Bounds: []int{tot}, Flow: n, FlowU: n, StepS: stepS, Sc: "flow"})
		}
	}
	// slow tunnel Writes while more datagrams arrive (ticker path, more-than-half path, batch-full
	// path after transient write failures) and a slow UDP socket write while more stream is there
	for _, via := range []string{"direct", "tunnel"} {
		for _, u := range [][]int{{200, 100}, {100, 200, 50}, {1, 2}, {65535, 2, 255}, {65535, 65535, 65535}, {40000, 65535, 65535, 1}} {
			add(udpSpec{Kind: "udp", Via: via, Sock: "fake", T: []int{2}, U: u, Cut: 4, How: "eof", Pace: "burst", Bounds: []int{4}, Slow: "tunnelWrite"})
		}
		add(udpSpec{Kind: "udp", Via: via, Sock: "real", T: []int{2}, U: []int{200, 100, 65507}, Cut: 4, How: "eof", Pace: "burst", Bounds: []int{4}, Slow: "tunnelWrite"})
		add(udpSpec{Kind: "udp", Via: via, Sock: "fake", T: []int{2}, U: []int{65535, 65535, 65535, 65535, 300, 7}, Fail: 3, Cut: 4, How: "eof", Pace: "burst", Bounds: []int{4}, Slow: "tunnelWriteAfterFailures"})
		add(udpSpec{Kind: "udp", Via: via, Sock: "fake", T: []int{200, 100, 255, 1}, Cut: 564, How: "eof", Pace: "burst", Bounds: []int{202, 304, 561, 564}, Slow: "sockWrite"})
		add(udpSpec{Kind: "udp", Via: via, Sock: "fake", T: many, Cut: manyLen, How: "eof", Pace: "burst", Bounds: []int{5, manyLen}, Slow: "sockWrite"})
	}
	// tunnel -> UDP through the REAL mapping.UDPVirtualConn: bursts of datagrams of distinct sizes
	// and contents arriving back to back, read after read, so that the conn's writeLoop is still
	// sending queued datagrams while the relay refills its read buffer
	burst := func(n, base, step int) []int {
		var out []int
		for i := 0; i < n; i++ {
			out = append(out, base+step*i)
		}
		return out
	}
	reps := 6
	if env.Tier == "quick" {
		reps = 3
	}
	for r := 0; r < reps; r++ {
		for _, t := range [][]int{
			append(burst(30, 200, 37), burst(30, 1400, -29)...),
			append(append(burst(3, 100, 0), 60), burst(20, 900, 11)...),
			append(burst(31, 1200, 3), append(burst(31, 64, 5), burst(31, 700, -7)...)...),
		} {
			total, bounds := 0, []int{}
			for i, sz := range t {
				total += 2 + sz
				if (i+1)%(10+5*r) == 0 || (len(t) < 30 && i == 1) {
					bounds = append(bounds, total)
				}
			}
			via := []string{"direct", "tunnel"}[r%2]
			how := []string{"eof", "eof", "err"}[r%3]
			if len(bounds) == 0 || bounds[len(bounds)-1] != total {
				bounds = append(bounds, total)
			}
			add(udpSpec{Kind: "udp", Via: via, Sock: "vconn", T: t, U: []int{33}, Cut: total, How: how, Pace: "burst", Bounds: bounds})
		}
	}
	return out
}

func drive(env *fw.Env, b fw.Behaviour) *fw.Trace {
	var k struct {
		Kind string `json:"kind"`
	}
	if err := json.Unmarshal(b.Data, &k); err != nil {
		return &fw.Trace{Status: fw.DriverError, Note: err.Error()}
	}
	switch k.Kind {
	case "bidi":
		var sp bidiSpec
		if err := json.Unmarshal(b.Data, &sp); err != nil {
			return &fw.Trace{Status: fw.DriverError, Note: err.Error()}
		}
		return driveBidi(env, sp)
	case "bfree", "tcp":
		var sp scriptSpec
		if err := json.Unmarshal(b.Data, &sp); err != nil {
			return &fw.Trace{Status: fw.DriverError, Note: err.Error()}
		}
		if k.Kind == "tcp" {
			return driveTCP(env, sp)
		}
		return driveFree(env, sp)
	case "udp":
		var sp udpSpec
		if err := json.Unmarshal(b.Data, &sp); err != nil {
			return &fw.Trace{Status: fw.DriverError, Note: err.Error()}
		}
		return driveUDP(env, sp)
	}
	return &fw.Trace{Status: fw.DriverError, Note: "unknown behaviour kind " + k.Kind}
}

// ---- TLC jobs -------------------------------------------------------------------------------------
func udpConsts(tseqs, useqs string, maxt, maxu int, batch int, devSpin, devNoUnblock bool, live string) map[string]string {
	return udpConstsA(tseqs, useqs, maxt, maxu, batch, devSpin, devNoUnblock, false, live)
}

func udpConstsA(tseqs, useqs string, maxt, maxu int, batch int, devSpin, devNoUnblock, alias bool, live string) map[string]string {
	b := func(x bool) string {
		if x {
			return "TRUE"
		}
		return "FALSE"
	}
	return map[string]string{"CLASSES": "{1, 2, 3, 4}", "BATCHSIZE": fmt.Sprint(batch), "TSEQS": tseqs, "USEQS": useqs,
		"MAXT": fmt.Sprint(maxt), "MAXU": fmt.Sprint(maxu), "DEVSPIN": b(devSpin), "DEVNOUNBLOCK": b(devNoUnblock), "ALIAS": b(alias), "LIVE": live,
		"SOCKQ": "FALSE", "QREFS": "FALSE", "DROP": "FALSE", "SOCKB": "FALSE", "NOINNER": "FALSE"}
}

// devExtrasOnly (VERIF_C12_DEV=extras): development aid - no TLC model/generation jobs, only the
// driver-made behaviours are driven and judged. Not for verdicts that are recorded.
func devExtrasOnly() bool { return os.Getenv("VERIF_C12_DEV") == "extras" }

func modelJobs(env *fw.Env) []fw.TLCJob {
	if devExtrasOnly() {
		fmt.Println("[dev] VERIF_C12_DEV=extras: model and generation jobs skipped")
		return nil
	}
	startBackground(env)
	udp := func(name string, c map[string]string) fw.TLCJob {
		return fw.TLCJob{Name: name, Module: "Relay", Cfg: "Relay_udp_tmpl.cfg", Consts: c, Workers: 8, Timeout: 20 * time.Minute}
	}
	if env.Tier == "quick" {
		return []fw.TLCJob{
			{Name: "bidi:MaxSend=1:safety+liveness", Module: "Relay", Cfg: "Relay_bidi.cfg", Workers: 8},
			func() fw.TLCJob {
				c := udpConsts("TAll", "USmall", 2, 1, 32, false, false, "UTermination")
				c["CLASSES"] = "{1, 2, 4}"
				return udp("udp:patched:T<=2xUSmall(classes 1,2,4):strict-liveness", c)
			}(),
			func() fw.TLCJob {
				c := udpConsts("TTiny", "UAll", 1, 2, 32, false, false, "UTermination")
				c["CLASSES"] = "{1, 2, 4}"
				return udp("udp:patched:TTinyxU<=2(classes 1,2,4):strict-liveness", c)
			}(),
		}
	}
	return []fw.TLCJob{
		{Name: "bidi:MaxSend=2:safety+liveness", Module: "Relay", Cfg: "Relay_bidi_thorough.cfg", Workers: 8, Timeout: 40 * time.Minute},
		{Name: "udp:patched(default cfg):T<=2xUSmall:strict-liveness", Module: "Relay", Cfg: "Relay_udp.cfg", Workers: 8},
		udp("udp:patched:T<=3xUSmall:strict-liveness", udpConsts("TAll", "USmall", 3, 1, 32, false, false, "UTermination")),
		udp("udp:patched:TSmallxU<=2:strict-liveness", udpConsts("TSmall", "UAll", 1, 2, 32, false, false, "UTermination")),
		udp("udp:patched:T<=3:BatchSize=2:strict-liveness", udpConsts("TAll", "UNone", 3, 1, 2, false, false, "UTermination")),
		udp("udp:as-found:T<=3xUSmall:liveness-modulo-deviations", udpConsts("TAll", "USmall", 3, 1, 32, true, true, "UTerminationExcused")),
	}
}

// Background TLC runs on the model of the code as found: with both deviations switched on the
// liveness property holds only modulo the deviation flags, and the strict property MUST fail
// (TLC exhibits the lasso). They run concurrently with generation/driving and are joined in
// PostDrive; a surprise is a model problem (exit 2), never a verdict.
type bgRun struct {
	name     string
	job      fw.TLCJob
	mustFail bool
	expect   []string // a must-fail run has to report one of these
	res      *fw.TLCResult
	err      error
}

var (
	bgRuns []*bgRun
	bgWG   sync.WaitGroup
)

func startBackground(env *fw.Env) {
	mk := func(name, cfg string, c map[string]string, mustFail bool) *bgRun {
		return &bgRun{name: name, mustFail: mustFail,
			expect: []string{"Temporal property UTermination was violated", "Temporal properties were violated"},
			job: fw.TLCJob{Name: name, Module: "Relay", Cfg: cfg, Consts: c, Workers: 2, Timeout: 10 * time.Minute}}
	}
	bgRuns = []*bgRun{
		mk("udp:as-found(lasso cfg):both deviations, strict liveness", "Relay_udp_lasso.cfg", nil, true),
	}
	if env.Tier == "thorough" {
		bgRuns = append(bgRuns,
			mk("udp:as-found:only the de-framer re-read, strict liveness", "Relay_udp_tmpl.cfg", udpConsts("TTiny", "UNone", 1, 1, 32, true, false, "UTermination"), true),
			mk("udp:as-found:only the missing wake-up, strict liveness", "Relay_udp_tmpl.cfg", udpConsts("TTiny", "UNone", 1, 1, 32, false, true, "UTermination"), true),
			mk("udp:as-found(seeded cfg):T<=2xUSmall:liveness-modulo-deviations", "Relay_udp_seeded.cfg", nil, false))
	} else {
		bgRuns = append(bgRuns,
			mk("udp:as-found:T<=1xUSmall:liveness-modulo-deviations", "Relay_udp_tmpl.cfg", udpConsts("TAll", "USmall", 1, 1, 32, true, true, "UTerminationExcused"), false))
	}
	alias := mk("udp:seeded-fault(alias cfg):ticker writes an aliased batch slice after Unlock", "Relay_udp_alias.cfg", nil, true)
	alias.expect = []string{"Invariant UEncoded is violated"}
	qrefs := mk("udp:seeded-fault(queuerefs cfg):UDPVirtualConn queues a reference into the relay's read buffer", "Relay_udp_queuerefs.cfg", nil, true)
	qrefs.expect = []string{"Invariant UDatagrams is violated"}
	cfb := mk("bidi:seeded-fault(closefallback cfg):adapter CloseWrite closes a Closer-only writer", "Relay_bidi_closefallback.cfg", nil, true)
	cfb.expect = []string{"Invariant BReverseKeepsFlowing is violated"}
	bgRuns = append(bgRuns, alias, qrefs, cfb,
		mk("udp:virtual conn(vconn cfg):write queue + writeLoop, copies, drained after close", "Relay_udp_vconn.cfg", nil, false))
	dlr := mk("bidi:seeded-fault(show_deadline cfg):absolute read deadline on the surviving direction", "Relay_bidi_show_deadline.cfg", nil, true)
	dlr.expect = []string{"Invariant BNoSpuriousEnd is violated", "Invariant BNoDeadline is violated"}
	wdl := mk("bidi:deviation(show_wdeadline cfg):absolute write deadline on the surviving direction", "Relay_bidi_show_wdeadline.cfg", nil, true)
	wdl.expect = []string{"Invariant BNoSpuriousWriteEnd is violated"}
	sdl := mk("bidi:deviation(show_startdeadline cfg):lifetime deadline set when the relay starts", "Relay_bidi_show_startdeadline.cfg", nil, true)
	sdl.expect = []string{"Invariant BNoSpuriousEnd is violated", "Invariant BNoSpuriousWriteEnd is violated"}
	mnf := mk("bidi:as-found(show_monnofeed cfg):tunnel idle monitor never told about traffic", "Relay_bidi_show_monnofeed.cfg", nil, true)
	mnf.expect = []string{"Invariant BMonitorOnlyIdle is violated"}
	usd := mk("udp:deviation(show_sockdeadline cfg):absolute read deadline on the UDP socket", "Relay_udp_show_sockdeadline.cfg", nil, true)
	usd.expect = []string{"Invariant UNoSpuriousEnd is violated"}
	nsg := mk("bidi:seeded-fault(show_nosignal cfg):half-close only after a clean end of the direction", "Relay_bidi_show_nosignal.cfg", nil, true)
	nsg.expect = []string{"Invariant BToldSafe is violated"}
	nsl := mk("bidi:seeded-fault(show_nosignal_live cfg):the passive peer is never told, the relay never returns", "Relay_bidi_show_nosignal_live.cfg", nil, true)
	nsl.expect = []string{"Temporal propert"}
	bgRuns = append(bgRuns, nsg, nsl,
		mk("bidi:end cause x reacting peers(told cfg):the other side is told whatever ended a direction; one side ending suffices to return", "Relay_bidi_told.cfg", nil, false))
	bgRuns = append(bgRuns, wdl, sdl, mnf, usd,
		mk("bidi:tunnel idle monitor(monitor cfg):closes only after IdleMax ticks without data movement", "Relay_bidi_monitor.cfg", nil, false))
	nif := mk("udp:seeded-fault(show_noinnerflush cfg):no flush inside the unpack loop, batch writer with BatchSize slots", "Relay_udp_show_noinnerflush.cfg", nil, true)
	nif.expect = []string{"Invariant UBatchFits is violated", "Invariant UCompleteAny is violated", "Invariant UComplete is violated"}
	bgRuns = append(bgRuns, dlr, nif,
		mk("udp:real socket(batch cfg):udpBatchWriter with BatchSize=2 slots, flush inside the unpack loop", "Relay_udp_batch.cfg", nil, false))
	drop := mk("udp:as-found(droponclose_strict cfg):writeLoop abandons its queue on Close", "Relay_udp_droponclose_strict.cfg", nil, true)
	drop.expect = []string{"Invariant UNoDrop is violated"}
	bgRuns = append(bgRuns, drop)
	if env.Tier == "thorough" {
		bgRuns = append(bgRuns, mk("udp:as-found(droponclose cfg):complete modulo the named deviation", "Relay_udp_droponclose.cfg", nil, false))
	}
	lanes := make(chan struct{}, 4) // at most four background JVMs at a time
	for _, r := range bgRuns {
		bgWG.Add(1)
		go func(r *bgRun) {
			defer bgWG.Done()
			lanes <- struct{}{}
			defer func() { <-lanes }()
			r.res, r.err = fw.RunTLC(r.job)
		}(r)
	}
}

func joinBackground() error {
	bgWG.Wait()
	for _, r := range bgRuns {
		if r.err != nil {
			return fmt.Errorf("%s: %v", r.name, r.err)
		}
		found := false
		for _, e := range r.expect {
			found = found || strings.Contains(r.res.Out, e)
		}
		if r.mustFail {
			fmt.Printf("[model] %s: generated=%d distinct=%d expected_violation_found=%v (%s) (%.1fs)\n", r.name, r.res.Generated, r.res.Distinct, found, r.expect[0], r.res.WallS)
			if !found {
				return fmt.Errorf("%s: TLC did not report the expected violation:\n%s", r.name, tailStr(r.res.Out, 2000))
			}
		} else {
			fmt.Printf("[model] %s: generated=%d distinct=%d ok=%v (%.1fs)\n", r.name, r.res.Generated, r.res.Distinct, r.res.OK, r.res.WallS)
			if !r.res.OK {
				return fmt.Errorf("%s failed:\n%s", r.name, tailStr(r.res.Out, 2000))
			}
		}
	}
	return nil
}

func tailStr(s string, n int) string {
	if len(s) > n {
		return s[len(s)-n:]
	}
	return s
}

func genJobs(env *fw.Env) []fw.TLCJob {
	if devExtrasOnly() {
		return nil
	}
	mt, mu := "3", "3"
	if env.Tier == "quick" {
		mt, mu = "2", "2"
	}
	ugen := func(name string, c map[string]string) fw.TLCJob {
		c["EMIT"] = "TRUE"
		return fw.TLCJob{Name: name, Module: "Relay", Cfg: "Relay_udp_gen.cfg", Consts: c, Workers: 8}
	}
	jobs := []fw.TLCJob{
		{Name: "gen:bidi", Module: "Relay", Cfg: "Relay_bidi_gen.cfg", Consts: map[string]string{"MAXSEND": "1", "SHAPESB": "AllShapes", "EMIT": "TRUE"}, Workers: 1},
		ugen("gen:udp-t", map[string]string{"MAXT": mt, "MAXU": "1", "TSEQS": "TAll", "USEQS": "USmall", "CUTS": `"all"`, "CHUNKS": "{99, 1, 2, 3}", "PACES": `{"burst"}`}),
		ugen("gen:udp-u", map[string]string{"MAXT": "1", "MAXU": mu, "TSEQS": "TTiny", "USEQS": "UAll", "CUTS": `"end"`, "CHUNKS": "{99}", "PACES": `{"burst", "spaced", "heldwrite"}`}),
	}
	if env.Tier == "thorough" {
		jobs = append(jobs, fw.TLCJob{Name: "gen:bidi2", Module: "Relay", Cfg: "Relay_bidi_gen.cfg",
			Consts: map[string]string{"MAXSEND": "2", "SHAPESB": "TwoShapes", "EMIT": "TRUE"}, Workers: 1})
	}
	return jobs
}

// ---- self test: corrupted copies of accepted traces must be rejected --------------------------------
func cloneEvents(evs []fw.Event) []fw.Event {
	out := make([]fw.Event, len(evs))
	for i, e := range evs {
		c := fw.Event{}
		for k, v := range e {
			c[k] = v
		}
		out[i] = c
	}
	return out
}

func num(v any) int {
	switch x := v.(type) {
	case int:
		return x
	case int64:
		return int(x)
	case float64:
		return int(x)
	}
	return 0
}

func selfTest(env *fw.Env, accepted []*fw.Trace) []*fw.Trace {
	var out []*fw.Trace
	id := 900000
	per := map[string]int{}
	emit := func(kind string, t *fw.Trace, evs []fw.Event) {
		if per[kind] >= 6 {
			return
		}
		per[kind]++
		id++
		out = append(out, &fw.Trace{Beh: fw.Behaviour{ID: id, Src: "selftest:" + kind, Data: t.Beh.Data}, Status: fw.Realised, Events: evs})
	}
	for _, t := range accepted {
		evs := t.Events
		if len(evs) == 0 {
			continue
		}
		first, last := evs[0]["ev"], evs[len(evs)-1]["ev"]
		idx := func(kind string) []int {
			var r []int
			for i, e := range evs {
				if e["ev"] == kind {
					r = append(r, i)
				}
			}
			return r
		}
		if first == "BStart" {
			if d := idx("Deliver"); len(d) > 0 {
				c := cloneEvents(evs)
				c[d[0]]["off"] = num(c[d[0]]["off"]) + 1
				emit("deliver-offset", t, c)
				c = cloneEvents(evs)
				c[d[len(d)-1]]["ok"] = false
				emit("deliver-content", t, c)
				if last == "Returned" && len(idx("WriteErr")) == 0 {
					ends := map[any]any{}
					for _, i := range idx("EpEnd") {
						ends[evs[i]["e"]] = evs[i]["how"]
					}
					if ends["A"] == "halfclose" && ends["B"] == "halfclose" {
						c = append(cloneEvents(evs[:d[len(d)-1]]), cloneEvents(evs[d[len(d)-1]+1:])...)
						emit("deliver-dropped", t, c)
					}
				}
			}
			ended := map[any]bool{}
			for _, i := range idx("EpEnd") {
				ended[evs[i]["e"]] = true
			}
			if last == "Returned" && ended["A"] && ended["B"] {
				c := cloneEvents(evs)
				c[len(c)-1] = fw.Event{"ev": "Hung"}
				emit("bidi-hung", t, c)
			}
			if cwv := idx("RelayCloseWrite"); len(cwv) > 0 && evs[0]["sc"] == "reactivePeers" {
				// the passive peer is never told: cut the trace before the relay's first half-close; the call hangs
				k := cwv[0]
				e, _ := evs[k]["e"].(string)
				open, otherOver := true, false
				for _, ev := range evs[:k] {
					if ev["ev"] == "EpEnd" {
						if ev["e"] == e {
							open = false
						} else {
							otherOver = true
						}
					}
				}
				if open && otherOver {
					c := append(cloneEvents(evs[:k]), fw.Event{"ev": "Hung"})
					emit("never-told", t, c)
				}
			}
			if rc := idx("RelayClose"); len(rc) > 0 && len(idx("ReadEnd"))+len(idx("WriteErr")) > 0 {
				// the relay closing a conn before the directions are over
				c := cloneEvents(evs)
				mv := c[rc[0]]
				c = append(c[:rc[0]], c[rc[0]+1:]...)
				c = append([]fw.Event{c[0], mv}, c[1:]...)
				emit("early-close", t, c)
			}
		}
		if first == "UStart" && last == "Returned" {
			c := cloneEvents(evs)
			c[len(c)-1] = fw.Event{"ev": "Hung", "why": ""}
			emit("udp-hung", t, c)
			if d := idx("UDeliver"); len(d) > 0 {
				c = cloneEvents(evs)
				c[d[0]]["len"] = num(c[d[0]]["len"]) + 1
				emit("udeliver-len", t, c)
				if len(d) > 1 {
					c = append(cloneEvents(evs[:d[0]]), cloneEvents(evs[d[0]+1:])...)
					emit("udeliver-dropped", t, c)
					c = cloneEvents(evs)
					c[d[0]], c[d[1]] = c[d[1]], c[d[0]]
					emit("udeliver-swapped", t, c)
				}
				if evs[0]["how"] == "eof" {
					c = append(cloneEvents(evs[:d[len(d)-1]]), cloneEvents(evs[d[len(d)-1]+1:])...)
					emit("udeliver-last-dropped", t, c)
				}
			}
			if r := idx("TRecord"); len(r) > 0 {
				c = cloneEvents(evs)
				c[r[0]]["ok"] = false
				emit("trecord-content", t, c)
				c = cloneEvents(evs)
				c[r[0]] = fw.Event{"ev": "TJunk", "n": 3}
				emit("trecord-partial", t, c)
			}
		}
	}
	return out
}

func postDrive(env *fw.Env, traces []*fw.Trace) error {
	replay := bgRuns == nil || devExtrasOnly() // ModelJobs is not called for --replay
	if err := joinBackground(); err != nil {
		return err
	}
	kinds := map[string][2]int{}
	for _, t := range traces {
		var k struct {
			Kind string `json:"kind"`
		}
		json.Unmarshal(t.Beh.Data, &k)
		c := kinds[k.Kind]
		c[0]++
		if t.Status == fw.Realised {
			c[1]++
		}
		kinds[k.Kind] = c
	}
	fmt.Printf("[drive] by kind (driven/realised): %v; hung UDP calls: %d\n", kinds, hungUDP.Load())
	for _, k := range []string{"bidi", "udp", "bfree"} {
		if c := kinds[k]; (c[0] == 0 && !replay) || c[1]*2 < c[0] {
			if k == "udp" && hungUDP.Load() >= maxHung {
				continue
			}
			return fmt.Errorf("only %d of %d %q behaviours could be realised on the real code (model out of date?)", c[1], c[0], k)
		}
	}
	return nil
}

func main() {
	corelog.SetDefault(corelog.NewNopLogger())
	fw.Main(&fw.Property{
		ID:          "C12",
		DesignRef:   "DESIGN.md §5 C12, §6 row 9, Appendix B (C02/C12)",
		ModelJobs:   modelJobs,
		GenJobs:     genJobs,
		Expand:      expand,
		ExtraBeh:    extras,
		Drive:       drive,
		Parallel:    64,
		JudgeModule: "RelayTrace",
		JudgeCfg:    "RelayTrace.cfg",
		SelfTest:    selfTest,
		PostDrive:   postDrive,
		NonTrivial:  func(t *fw.Trace) bool { return len(t.Events) >= 4 },
		Rule: "bidi: one behaviour per sampled transition (state, action) of the Bidirectional state graph (shortest history + gentle completion); " +
			"udp: one behaviour per initial state (size sequences x cut offset x eof|err x chunking) of the UDP model; plus driver-made scripts; non-trivial = at least 4 observed events",
		Assumptions: []string{
			"'returns promptly' / 'bounded time' = the call has returned 5 s after both endpoints finished / the tunnel stream ended (DESIGN.md Appendix B)",
			"model size classes 1,2,3,4 stand for datagrams of 1, 2, 255 and 65535 bytes (65507 on a real loopback socket); model cut offsets are mapped to first/middle/last byte of the concrete field",
			"scripted conns implement the io.Reader/io.Writer contracts; the scripted UDP socket behaves like mapping.UDPVirtualConn (Read returns io.EOF once closed)",
			"after an error cut or a close/error of a destination, loss of in-flight data is accepted; completeness is demanded for cleanly ended sources with a reading destination",
		},
		TrustedBase: []string{"TLC", "spec/RelayTrace.tla as the reading of the C12 statement", "scripted conns and payload checks in drivers/c12"},
	})
}
