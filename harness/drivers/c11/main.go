// C11 driver: control commands act with the connection's proven identity only.
//
// Every TLC-generated behaviour of spec/Commands.tla (a handshake prefix on the actor connection
// c1, then commands of every policy row x packet type x claimed identity fields x named object)
// is replayed on a fresh in-process server (srvkit: real SessionManager, ServerAuthHandler,
// BuiltinCloudControl, CommandExecutor and the server's own command handlers). Clients A, B, C
// are online on their own control connections and own real objects created through the real
// services: mapping m1 (listen A, target B), connection code k1 (owner B), HTTP domain d1
// (owner B); besides those the already used code k0 (owner B, behind m1), and C's own code k2 /
// self-mapping m3, which exist so that every client has a mapping: every control-type login then
// triggers exactly one asynchronous configuration push, which the driver waits for - nothing the
// server writes on its own is in flight when a command is sent. For each command the driver logs the response class, the objects identified in the
// response, a semantic diff of the store and every packet that reached another connection; for
// packets that carry identity fields the same steps are replayed on a twin server without them.
// spec/CommandsTrace.tla judges the trace with the policy table of spec/CommandsPolicy.tla.
//
// Further dimensions: client-id fields claimed inside the JSON body (bf), the state of the named objects
// when the behaviour starts (wv: expired-but-stored / revoked / inactive), mappings one side of which is
// client id 0 (m0: listened on by the server, mz: no target client) - the id an unauthenticated connection has.
// spec/CommandsConc.tla adds two duplex commands in flight: their handlers are parked in the storage call in
// front of CheckSubdomainAvailable (srvkit CommandOptions.DomainGate), the executor's duplex wait (shortened
// with Commands.SetDuplexTimeout) times out or not, and effect attribution / response routing are judged
// per command like the sequential cases (clauses EffId, NotParty, Misrouted).
//
// Round 3: histories that re-own mappings (wv migrated / migratedT: CloudControl.MigrateClientMappings leaves the former
// listen client's per-client index naming a mapping it is no party of any more), a command id that another client's
// command just carried (step "Prime" on that client's own connection, then cid "reused" on c1 - same type, or any type
// after B's MappingGet; judged against the twin run with a fresh id), and failing storage reads of the named object's
// main record while the command runs (flt read1 / read2 / readAll: srvkit CommandOptions.StorageFault for the handlers'
// repositories, Server.SetCloudReadFault for the session layer's own read of a mapping). spec/CommandsExec.tla has a
// duplex command step by step (replay lookup, identity, record read, party check, effect, response) and generates the
// two-connection behaviours that combine those dimensions; its deviations (response cache keyed without the connection,
// fail-open on a read fault) and Commands.tla's Devs are what Commands*_show_*.cfg make TLC reject.
//
// The command-type table is read from the REAL registry (CommandRegistry.ListHandlers) and, for
// the types handleCommandPacket handles before the executor, by probing a server whose executor
// has an empty registry (a type that does not come back as "no handler registered" never reached
// it). A dispatched type without a policy row is a driver error (exit 2).
package main

import (
	"context"
	"crypto/sha256"
	"encoding/hex"
	"encoding/json"
	"fmt"
	"os"
	"sort"
	"strconv"
	"strings"
	"sync"
	"sync/atomic"
	"time"

	"tunnox-core/internal/cloud/models"
	"tunnox-core/internal/cloud/repos"
	"tunnox-core/internal/cloud/services"
	"tunnox-core/internal/constants"
	coretypes "tunnox-core/internal/core/types"
	"tunnox-core/internal/packet"
	"tunnox-core/verifharness/fw"
	"tunnox-core/verifharness/srvkit"
)

// ---------------------------------------------------------------------------------------------
// command type names (the policy table is keyed by the name of the packet.CommandType constant)

var typeNames = map[packet.CommandType]string{
	packet.Connect: "Connect", packet.Disconnect: "Disconnect", packet.Reconnect: "Reconnect", packet.HeartbeatCmd: "HeartbeatCmd",
	packet.KickClient: "KickClient", packet.ServerShutdown: "ServerShutdown",
	packet.TcpMapCreate: "TcpMapCreate", packet.TcpMapDelete: "TcpMapDelete", packet.TcpMapUpdate: "TcpMapUpdate", packet.TcpMapList: "TcpMapList", packet.TcpMapStatus: "TcpMapStatus",
	packet.HttpMapCreate: "HttpMapCreate", packet.HttpMapDelete: "HttpMapDelete", packet.HttpMapUpdate: "HttpMapUpdate", packet.HttpMapList: "HttpMapList", packet.HttpMapStatus: "HttpMapStatus",
	packet.SocksMapCreate: "SocksMapCreate", packet.SocksMapDelete: "SocksMapDelete", packet.SocksMapUpdate: "SocksMapUpdate", packet.SocksMapList: "SocksMapList", packet.SocksMapStatus: "SocksMapStatus",
	packet.TunnelOpenRequestCmd: "TunnelOpenRequestCmd", packet.TunnelMigrate: "TunnelMigrate", packet.TunnelMigrateAck: "TunnelMigrateAck", packet.TunnelStateSync: "TunnelStateSync",
	packet.DataTransferStart: "DataTransferStart", packet.DataTransferStop: "DataTransferStop", packet.DataTransferStatus: "DataTransferStatus", packet.ProxyForward: "ProxyForward", packet.DataTransferOut: "DataTransferOut",
	packet.ConfigGet: "ConfigGet", packet.ConfigSet: "ConfigSet", packet.StatsGet: "StatsGet", packet.LogGet: "LogGet", packet.HealthCheck: "HealthCheck",
	packet.RpcInvoke: "RpcInvoke", packet.RpcRegister: "RpcRegister", packet.RpcUnregister: "RpcUnregister", packet.RpcList: "RpcList",
	packet.ConnectionCodeGenerate: "ConnectionCodeGenerate", packet.ConnectionCodeList: "ConnectionCodeList", packet.ConnectionCodeActivate: "ConnectionCodeActivate", packet.ConnectionCodeRevoke: "ConnectionCodeRevoke",
	packet.MappingList: "MappingList", packet.MappingGet: "MappingGet", packet.MappingDelete: "MappingDelete",
	packet.HTTPProxyRequest: "HTTPProxyRequest", packet.HTTPProxyResponse: "HTTPProxyResponse",
	packet.HTTPDomainGetBaseDomains: "HTTPDomainGetBaseDomains", packet.HTTPDomainCheckSubdomain: "HTTPDomainCheckSubdomain", packet.HTTPDomainGenSubdomain: "HTTPDomainGenSubdomain",
	packet.HTTPDomainCreate: "HTTPDomainCreate", packet.HTTPDomainDelete: "HTTPDomainDelete", packet.HTTPDomainList: "HTTPDomainList",
	packet.SOCKS5TunnelRequestCmd: "SOCKS5TunnelRequestCmd", packet.TunnelTrafficReport: "TunnelTrafficReport",
	packet.NotifyClient: "NotifyClient", packet.NotifyClientAck: "NotifyClientAck", packet.SendNotifyToClient: "SendNotifyToClient",
	packet.DNSResolve: "DNSResolve", packet.DNSQuery: "DNSQuery",
}

func typeName(t packet.CommandType) string {
	if n, ok := typeNames[t]; ok {
		return n
	}
	return fmt.Sprintf("T%d", byte(t))
}

func typeByName(n string) (packet.CommandType, bool) {
	n = strings.TrimSuffix(n, ":resp")
	for t, x := range typeNames {
		if x == n {
			return t, true
		}
	}
	return 0, false
}

// ---------------------------------------------------------------------------------------------
// behaviours

type effT struct {
	K  string   `json:"k"`
	O  string   `json:"o"`
	Ps []string `json:"ps"`
	ID string   `json:"id"`
	To string   `json:"to"`
}

type stepT struct {
	Op     string `json:"op"`
	P      string `json:"p"`
	K      string `json:"k"`
	ID     string `json:"id"`
	Resp   string `json:"resp"`
	Type   string `json:"type"`
	Ty     string `json:"ty"`
	Pt     string `json:"pt"`
	Claims string `json:"claims"`
	Bf     string `json:"bf"`
	Cid    string `json:"cid"`
	Flt    string `json:"flt"`
	By     string `json:"by"`
	Obj    string `json:"obj"`
	Hc     string `json:"hc"`
	Exp    *struct {
		Out  string `json:"out"`
		Effs []effT `json:"effs"`
	} `json:"exp"`
}

type behT struct {
	Reg    string                     `json:"reg"`
	Wv     string                     `json:"wv"`
	Conc   bool                       `json:"conc"`
	Who    string                     `json:"who"`
	Sid    bool                       `json:"sid"` // concurrent scenarios: both commands carry the same command id
	Steps  []stepT                    `json:"steps"`
	Policy map[string]json.RawMessage `json:"policy"`
}

var clientNames = []string{"A", "B", "C"}

// thirdOf: a client that is neither the actor nor its victim.
func thirdOf(a string) string {
	for _, n := range clientNames {
		if n != a && n != victimOf(a) {
			return n
		}
	}
	return "C"
}

func victimOf(a string) string {
	if a == "B" {
		return "A"
	}
	return "B"
}

// ---------------------------------------------------------------------------------------------
// one server with its world

type obj struct {
	Label   string // domains: the subdomain
	Tgt     string // mappings: the target client
	Kind    string
	Ps      []string // parties (client names)
	Own     string   // listen client (mapping) / owner (code, domain, client config)
	Attrs   string   // canonical non-traffic attributes
	Traffic string   // mappings only
	keys    []string // identifiers by which the object can be recognised in a response
}

type run struct {
	s         *srvkit.Server
	cm        *srvkit.Commands
	ids       map[string]int64
	secret    map[string]string
	nameOf    map[int64]string
	v         map[string]*srvkit.Conn // victims' control connections by client name
	c1        *srvkit.Conn
	chal      string            // latest challenge received on c1
	objn      map[string]string // real identifier -> abstract object name
	oneway    map[packet.CommandType]bool
	tag       string
	ncmd      int
	lastCmdID string
	faultMu   sync.Mutex
	faultKey  string // suffix of the storage key whose reads fail ("" = disarmed)
	faultSkip int    // reads of it that still succeed first
	faultLeft int    // failures still to inject (< 0: every read fails until disarmed)
	m1ID      string
	mapID     map[string]string // m0, mz
	k0Code    string
	k1Code    string
	d1ID      string
}

var cmdSeq atomic.Int64

func (r *run) clientName(id int64) string {
	if id == 0 {
		return "none"
	}
	if n, ok := r.nameOf[id]; ok {
		return n
	}
	return fmt.Sprintf("?%d", id)
}

type inconclusive string

var tNewRun, tCmd, tSnap, nRuns atomic.Int64

func newRun(reg, wv string, gate func(sub, base string), faults bool) (r *run, err error) {
	t0 := time.Now()
	defer func() { tNewRun.Add(int64(time.Since(t0))); nRuns.Add(1) }()
	s, err := srvkit.NewServer(srvkit.Options{HeartbeatTimeout: time.Hour, CleanupInterval: time.Hour})
	if err != nil {
		return nil, err
	}
	r = &run{s: s, ids: map[string]int64{}, secret: map[string]string{}, nameOf: map[int64]string{}, v: map[string]*srvkit.Conn{},
		objn: map[string]string{}, oneway: map[packet.CommandType]bool{}, mapID: map[string]string{}}
	defer func() {
		if err != nil {
			s.SetCloudReadFault(nil)
			s.Close()
		}
	}()
	opts := srvkit.CommandOptions{Library: reg == "library", DomainGate: gate}
	if faults {
		// the handlers' repositories read through a fault point; so does the session layer's own read of a mapping
		opts.StorageFault = r.storageFault
		s.SetCloudReadFault(r.storageFault)
	}
	if r.cm, err = s.EnableCommands(opts); err != nil {
		return nil, err
	}
	for _, rc := range r.cm.Listing() {
		r.oneway[rc.Type] = !rc.Duplex
	}
	// identities: what a first connect does inside (GenerateAnonymousCredentials), without a connection -
	// every successful control handshake starts an asynchronous configuration push, and the set-up must
	// be able to wait for each of them (nothing may be in flight when the behaviour starts)
	for _, n := range clientNames {
		cl, err := s.Cloud.GenerateAnonymousCredentials()
		if err != nil || cl == nil || cl.ID == 0 || cl.SecretKeyPlaintext == "" {
			return nil, fmt.Errorf("credentials for %s: %v", n, err)
		}
		r.ids[n], r.secret[n], r.nameOf[cl.ID] = cl.ID, cl.SecretKeyPlaintext, n
	}
	// objects, through the real services
	k0, err := r.cm.ConnCodes.CreateConnectionCode(&services.CreateConnectionCodeRequest{TargetClientID: r.ids["B"], TargetAddress: "socks://127.0.0.1:1080", CreatedBy: "verif"})
	if err != nil {
		return nil, fmt.Errorf("create k0: %w", err)
	}
	m1, err := r.cm.ConnCodes.ActivateConnectionCode(&services.ActivateConnectionCodeRequest{Code: k0.Code, ListenClientID: r.ids["A"], ListenAddress: "0.0.0.0:9100"})
	if err != nil {
		return nil, fmt.Errorf("activate k0: %w", err)
	}
	k1, err := r.cm.ConnCodes.CreateConnectionCode(&services.CreateConnectionCodeRequest{TargetClientID: r.ids["B"], TargetAddress: "tcp://127.0.0.1:8080", CreatedBy: "verif"})
	if err != nil {
		return nil, fmt.Errorf("create k1: %w", err)
	}
	d1, err := r.cm.Domains.CreateMapping(context.Background(), r.ids["B"], "vic", "tunnox.net", "localhost", 3000)
	if err != nil {
		return nil, fmt.Errorf("create d1: %w", err)
	}
	// C's own mapping m3 (C -> C): every client has a mapping, so every control login pushes a configuration
	k2, err := r.cm.ConnCodes.CreateConnectionCode(&services.CreateConnectionCodeRequest{TargetClientID: r.ids["C"], TargetAddress: "tcp://127.0.0.1:8081", CreatedBy: "verif"})
	if err != nil {
		return nil, fmt.Errorf("create k2: %w", err)
	}
	m3, err := r.cm.ConnCodes.ActivateConnectionCode(&services.ActivateConnectionCodeRequest{Code: k2.Code, ListenClientID: r.ids["C"], ListenAddress: "0.0.0.0:9101"})
	if err != nil {
		return nil, fmt.Errorf("activate k2: %w", err)
	}
	r.m1ID, r.k0Code, r.k1Code, r.d1ID = m1.ID, k0.Code, k1.Code, d1.ID
	r.objn[m1.ID], r.objn[k0.ID], r.objn[k0.Code], r.objn[k1.ID], r.objn[k1.Code], r.objn[d1.ID], r.objn[d1.FullDomain] = "m1", "k0", "k0", "k1", "k1", "d1", "d1"
	r.objn[m3.ID], r.objn[k2.ID], r.objn[k2.Code] = "m3", "k2", "k2"
	// mappings one side of which is client id 0 - the id an unauthenticated connection has: m0 is listened on by
	// the server itself (what the management API creates for HTTP mappings), mz has no target client
	m0, err := s.Cloud.CreatePortMapping(&models.PortMapping{ListenClientID: 0, TargetClientID: r.ids["B"], Protocol: models.ProtocolHTTP,
		SourcePort: 0, TargetHost: "127.0.0.1", TargetPort: 8088, ListenAddress: "0.0.0.0:80", TargetAddress: "http://127.0.0.1:8088",
		Status: models.MappingStatusActive, Type: models.MappingTypeAnonymous, Description: "verif m0"})
	if err != nil {
		return nil, fmt.Errorf("create m0: %w", err)
	}
	mz, err := s.Cloud.CreatePortMapping(&models.PortMapping{ListenClientID: r.ids["A"], TargetClientID: 0, Protocol: models.ProtocolTCP,
		SourcePort: 9102, TargetHost: "127.0.0.1", TargetPort: 8089, ListenAddress: "0.0.0.0:9102", TargetAddress: "tcp://127.0.0.1:8089",
		Status: models.MappingStatusActive, Type: models.MappingTypeAnonymous, Description: "verif mz"})
	if err != nil {
		return nil, fmt.Errorf("create mz: %w", err)
	}
	r.objn[m0.ID], r.objn[mz.ID] = "m0", "mz"
	r.mapID["m0"], r.mapID["mz"] = m0.ID, mz.ID
	if err := r.applyWorldVariant(wv, m1.ID, k1.ID, k1.Code, d1.ID); err != nil {
		return nil, fmt.Errorf("world variant %s: %w", wv, err)
	}
	// the clients come online on their control connections; wait for each configuration push
	for i, n := range clientNames {
		c, err := s.NewConn(fmt.Sprintf("10.11.1.%d", i+1))
		if err != nil {
			return nil, err
		}
		if why := r.login(c, n); why != "" {
			return nil, fmt.Errorf("login of %s failed: %s", n, why)
		}
		r.v[n] = c
	}
	s.Reap()
	if r.c1, err = s.NewConn("10.11.2.1"); err != nil {
		return nil, err
	}
	time.Sleep(200 * time.Microsecond)
	for _, c := range r.v {
		r.cm.Drain(c)
	}
	return r, nil
}

// applyWorldVariant puts the named objects into the state the behaviour starts from, through the real
// services / repositories (spec/Commands.tla, constant WVs):
//
//	expired   m1, k1, d1 are past their expiry but still stored (nothing has swept them yet)
//	revoked   m1 revoked (ConnectionCodeService.RevokeMapping), k1 revoked (RevokeConnectionCode)
//	migrated  CloudControl.MigrateClientMappings(A, C): C is now the listen client of m1 and mz
//	migratedT CloudControl.MigrateClientMappings(B, C): C is now the listen client of m1 and m0
//	inactive  m1 status inactive (UpdatePortMappingStatus), d1 status inactive
func (r *run) applyWorldVariant(wv, m1ID, k1ID, k1Code, d1ID string) error {
	ctx := context.Background()
	switch wv {
	case "", "base":
		return nil
	case "expired":
		past := time.Now().Add(-time.Hour)
		m, err := r.s.Cloud.GetPortMapping(m1ID)
		if err != nil {
			return err
		}
		m.ExpiresAt = &past
		if err := r.s.Cloud.UpdatePortMapping(m); err != nil {
			return err
		}
		// a connection code lives in the store under a TTL equal to its activation window, so "expired but
		// still stored" is the instant before the TTL fires: written directly, with the expiry in the past
		k, err := r.cm.CodeRepo.GetByID(k1ID)
		if err != nil {
			return err
		}
		k.ActivationExpiresAt = past
		data := string(fw.MustJSON(k))
		if err := r.s.Storage.Set(constants.KeyPrefixRuntimeConnectionCodeByCode+k1Code, data, time.Hour); err != nil {
			return err
		}
		if err := r.s.Storage.Set(constants.KeyPrefixRuntimeConnectionCodeByID+k1ID, data, time.Hour); err != nil {
			return err
		}
		d, err := r.cm.Domains.GetMapping(ctx, d1ID)
		if err != nil {
			return err
		}
		d.ExpiresAt = past.Unix()
		return r.cm.Domains.UpdateMapping(ctx, d)
	case "revoked":
		if err := r.cm.ConnCodes.RevokeMapping(m1ID, r.ids["B"], "verif"); err != nil {
			return err
		}
		return r.cm.ConnCodes.RevokeConnectionCode(k1Code, "verif")
	case "migrated":
		// a real history that re-owns mappings: the CloudControl API moves A's mappings to C (the records now say
		// listen = C; A's per-client index still names them). A gets a fresh self-mapping m4 so that it still has
		// a configuration to be pushed.
		if err := r.s.Cloud.MigrateClientMappings(r.ids["A"], r.ids["C"]); err != nil {
			return err
		}
		k4, err := r.cm.ConnCodes.CreateConnectionCode(&services.CreateConnectionCodeRequest{TargetClientID: r.ids["A"], TargetAddress: "tcp://127.0.0.1:8084", CreatedBy: "verif"})
		if err != nil {
			return err
		}
		m4, err := r.cm.ConnCodes.ActivateConnectionCode(&services.ActivateConnectionCodeRequest{Code: k4.Code, ListenClientID: r.ids["A"], ListenAddress: "0.0.0.0:9104"})
		if err != nil {
			return err
		}
		r.objn[m4.ID], r.objn[k4.ID], r.objn[k4.Code] = "m4", "k4", "k4"
		return nil
	case "migratedT":
		// the same API for the client on the TARGET side: every mapping filed under B (m1, m0) gets listen client C;
		// A keeps mz and B stays the target of m1 / m0, so every client still has a configuration to be pushed
		return r.s.Cloud.MigrateClientMappings(r.ids["B"], r.ids["C"])
	case "inactive":
		if err := r.s.Cloud.UpdatePortMappingStatus(m1ID, models.MappingStatusInactive); err != nil {
			return err
		}
		d, err := r.cm.Domains.GetMapping(ctx, d1ID)
		if err != nil {
			return err
		}
		d.Status = repos.HTTPDomainMappingStatusInactive
		return r.cm.Domains.UpdateMapping(ctx, d)
	}
	return fmt.Errorf("unknown world variant")
}

// login runs the client's two-phase control handshake with the right key and waits for the
// configuration push it triggers.
func (r *run) login(c *srvkit.Conn, n string) string {
	resp, _, err := r.cm.Handshake(c, srvkit.HandshakeRequest(r.ids[n], "control", ""))
	if err != nil || resp == nil || resp.Challenge == "" {
		return fmt.Sprintf("no challenge (%v)", err)
	}
	resp, rest, err := r.cm.Handshake(c, srvkit.HandshakeRequest(r.ids[n], "control", srvkit.HMAC(r.secret[n], resp.Challenge)))
	if err != nil || resp == nil || !resp.Success {
		return fmt.Sprintf("refused (%v)", err)
	}
	r.awaitPush(c, "control", resp, rest)
	return ""
}

// awaitPush: handleHandshake ends with "go pushConfigToClient" whenever the handler returned no error
// and the (control-type) connection is authenticated - also for a mere challenge on an already
// authenticated connection. Every client of the world has a mapping, so each push writes one
// ConfigSet packet: wait for it, so that no write of the server is in flight afterwards.
func (r *run) awaitPush(c *srvkit.Conn, connType string, resp *packet.HandshakeResponse, already []*packet.TransferPacket) {
	if connType != "control" || resp == nil || resp.Error != "" {
		return
	}
	if v := r.s.View(c); !v.InControl || !v.Authd || v.ClientID == 0 {
		return
	}
	isPush := func(ps []*packet.TransferPacket) bool {
		for _, p := range ps {
			if p.CommandPacket != nil && p.CommandPacket.CommandType == packet.ConfigSet {
				return true
			}
		}
		return false
	}
	if isPush(already) {
		return
	}
	deadline := time.Now().Add(3 * time.Second)
	for time.Now().Before(deadline) {
		if isPush(r.cm.Drain(c)) {
			return
		}
		time.Sleep(50 * time.Microsecond)
	}
	panic(inconclusive("a configuration push did not arrive within 3 s"))
}

// ---- semantic snapshot of the store ---------------------------------------------------------

func (r *run) snapshot() map[string]*obj {
	t0 := time.Now()
	defer func() { tSnap.Add(int64(time.Since(t0))) }()
	out := map[string]*obj{}
	type fresh struct {
		kind, own, sortKey string
		o                  *obj
	}
	var news []fresh
	put := func(realID string, o *obj, sortKey string) {
		if n, ok := r.objn[realID]; ok {
			out[n] = o
			return
		}
		news = append(news, fresh{o.Kind, o.Own, sortKey, o})
	}
	// mappings
	seen := map[string]bool{}
	var maps []*models.PortMapping
	if all, err := r.cm.MappingRepo.ListAllMappings(); err == nil {
		maps = append(maps, all...)
	}
	for _, id := range append([]int64{0}, r.ids["A"], r.ids["B"], r.ids["C"]) {
		if ms, err := r.cm.MappingRepo.GetClientPortMappings(strconv.FormatInt(id, 10)); err == nil {
			maps = append(maps, ms...)
		}
	}
	for _, m := range maps {
		if m == nil || seen[m.ID] {
			continue
		}
		seen[m.ID] = true
		// the authoritative record
		if cur, err := r.s.Cloud.GetPortMapping(m.ID); err == nil && cur != nil {
			m = cur
		} else {
			continue
		}
		l, t := r.clientName(m.ListenClientID), r.clientName(m.TargetClientID)
		put(m.ID, &obj{Kind: "mapping", Tgt: t, Ps: parties(l, t), Own: l,
			Attrs:   fmt.Sprintf("l=%s t=%s st=%s rev=%v exp=%v la=%s ta=%s proto=%s", l, t, m.Status, m.IsRevoked, m.IsExpired(), m.ListenAddress, m.TargetAddress, m.Protocol),
			Traffic: fmt.Sprintf("%d/%d/%d", m.TrafficStats.BytesSent, m.TrafficStats.BytesReceived, m.TrafficStats.Connections),
			keys:    []string{m.ID}}, m.CreatedAt.Format(time.RFC3339Nano)+m.ID)
	}
	// connection codes
	seenC := map[string]bool{}
	for _, id := range append([]int64{0}, r.ids["A"], r.ids["B"], r.ids["C"]) {
		cs, err := r.cm.CodeRepo.ListByTargetClient(id)
		if err != nil {
			continue
		}
		for _, c := range cs {
			if c == nil || seenC[c.ID] {
				continue
			}
			seenC[c.ID] = true
			o := r.clientName(c.TargetClientID)
			by, mp := "none", "none"
			if c.ActivatedBy != nil {
				by = r.clientName(*c.ActivatedBy)
			}
			if c.MappingID != nil && *c.MappingID != "" {
				mp = "set"
			}
			put(c.ID, &obj{Kind: "code", Ps: []string{o}, Own: o,
				Attrs: fmt.Sprintf("o=%s act=%v by=%s rev=%v exp=%v map=%s ta=%s", o, c.IsActivated, by, c.IsRevoked, c.IsExpired(), mp, c.TargetAddress),
				keys:  []string{c.ID, c.Code}}, c.CreatedAt.Format(time.RFC3339Nano)+c.ID)
		}
	}
	// HTTP domains
	if ds, err := r.cm.Domains.ListAllMappings(context.Background()); err == nil {
		for _, d := range ds {
			o := r.clientName(d.ClientID)
			put(d.ID, &obj{Kind: "domain", Label: d.Subdomain, Ps: parties(o), Own: o,
				Attrs: fmt.Sprintf("o=%s dom=%s st=%s exp=%v tgt=%s:%d", o, d.FullDomain, d.Status, d.IsExpired(), d.TargetHost, d.TargetPort),
				keys:  []string{d.ID, d.FullDomain}}, fmt.Sprintf("%020d%s", d.CreatedAt, d.ID))
		}
	}
	// client configs (credentials, type, ownership - not timestamps / last address)
	for _, n := range clientNames {
		cfg, err := r.s.Cloud.GetClientConfig(r.ids[n])
		if err != nil || cfg == nil {
			out["cfg"+n] = &obj{Kind: "client", Ps: []string{n}, Own: n, Attrs: "missing"}
			continue
		}
		h := sha256.Sum256([]byte(fmt.Sprintf("%d|%s|%s|%s|%s|%d|%s|%v", cfg.ID, cfg.UserID, cfg.Name, cfg.AuthCode, cfg.SecretKeyEncrypted, cfg.SecretKeyVersion, cfg.Type, fw.MustJSON(cfg.Config))))
		exp := "never"
		if cfg.ExpiresAt != nil {
			exp = cfg.ExpiresAt.Format(time.RFC3339)
		}
		out["cfg"+n] = &obj{Kind: "client", Ps: []string{n}, Own: n, Attrs: hex.EncodeToString(h[:8]) + " exp=" + exp}
	}
	// objects this run did not create at set-up: named by kind, owner and creation order
	sort.Slice(news, func(i, j int) bool { return news[i].sortKey < news[j].sortKey })
	cnt := map[string]int{}
	for _, f := range news {
		k := f.kind + ":" + f.own
		cnt[k]++
		out[fmt.Sprintf("new:%s:%d", k, cnt[k])] = f.o
	}
	return out
}

// parties: the clients among the given ids' names ("none" = client id 0 is nobody)
func parties(a ...string) []string {
	out := []string{}
	for _, x := range uniq(a...) {
		if x != "none" {
			out = append(out, x)
		}
	}
	return out
}

func uniq(a ...string) []string {
	m := map[string]bool{}
	var out []string
	for _, x := range a {
		if !m[x] {
			m[x] = true
			out = append(out, x)
		}
	}
	sort.Strings(out)
	return out
}

func diffOf(pre, post map[string]*obj) []map[string]any {
	var names []string
	seen := map[string]bool{}
	for n := range pre {
		names, seen[n] = append(names, n), true
	}
	for n := range post {
		if !seen[n] {
			names = append(names, n)
		}
	}
	sort.Strings(names)
	out := []map[string]any{}
	ent := func(op, kind, n string, o *obj) {
		out = append(out, map[string]any{"op": op, "kind": kind, "o": n, "ps": o.Ps, "own": o.Own})
	}
	for _, n := range names {
		a, b := pre[n], post[n]
		switch {
		case a == nil:
			ent("add", b.Kind, n, b)
		case b == nil:
			ent("del", a.Kind, n, a)
		default:
			if a.Attrs != b.Attrs {
				ent("mod", a.Kind, n, a)
			}
			if a.Traffic != b.Traffic {
				ent("mod", "traffic", n, a)
			}
		}
	}
	return out
}

// ---- sending one command --------------------------------------------------------------------

func (r *run) body(st stepT, actor, bf string) string {
	mappingID, domainID, codeStr := "pmap_absent00", "hdm_999999", "zzz-zzz-zzz"
	switch st.Obj {
	case "m1":
		mappingID = r.m1ID
	case "m0", "mz":
		mappingID = r.mapID[st.Obj]
	case "m2": // the mapping created by activating k1
		for id := range r.liveNew("mapping") {
			mappingID = id
		}
	case "d1":
		domainID = r.d1ID
	case "d2":
		for id := range r.liveNew("domain") {
			domainID = id
		}
	case "k1":
		codeStr = r.k1Code
	case "k0":
		codeStr = r.k0Code
	}
	target := int64(-1)
	if st.Obj == "explicit" {
		target = r.ids[victimOf(actor)]
	}
	// client-id fields claimed inside the body: "own" = the caller, "victim" = another party, "third" = neither.
	// Every request gets the generic ones; target_client_id is added where it is not the command's argument
	// (for the SOCKS5 tunnel request it is a field the client copies from the pushed mapping configuration).
	var claimed int64
	switch bf {
	case "own":
		claimed = 900000001
		if actor != "none" {
			claimed = r.ids[actor]
		}
	case "victim":
		claimed = r.ids[victimOf(actor)]
	case "third":
		claimed = r.ids[thirdOf(actor)]
	}
	j := func(v any) string {
		b := fw.MustJSON(v)
		if claimed == 0 {
			return string(b)
		}
		var m map[string]any
		if json.Unmarshal(b, &m) != nil {
			return string(b)
		}
		for _, f := range []string{"client_id", "listen_client_id", "sender_client_id", "source_client_id", "owner_client_id", "target_client_id"} {
			if _, argument := m[f]; !argument {
				m[f] = claimed
			}
		}
		m["user_id"] = strconv.FormatInt(claimed, 10)
		return string(fw.MustJSON(m))
	}
	switch strings.TrimSuffix(st.Ty, ":resp") {
	case "ConnectionCodeGenerate":
		return j(map[string]any{"target_address": "tcp://127.0.0.1:2222", "activation_ttl": 600, "mapping_ttl": 3600})
	case "ConnectionCodeActivate":
		return j(map[string]any{"code": codeStr, "listen_address": "0.0.0.0:9300"})
	case "MappingGet", "MappingDelete":
		return j(map[string]any{"mapping_id": mappingID})
	case "MappingList":
		if st.Obj == "inbound" || st.Obj == "outbound" {
			return j(map[string]any{"direction": st.Obj})
		}
		return j(map[string]any{})
	case "HTTPDomainCheckSubdomain":
		return j(packet.HTTPDomainCheckSubdomainRequest{Subdomain: "vic", BaseDomain: "tunnox.net"})
	case "HTTPDomainGenSubdomain":
		return j(packet.HTTPDomainGenSubdomainRequest{BaseDomain: "tunnox.net"})
	case "HTTPDomainCreate":
		return j(packet.HTTPDomainCreateRequest{TargetURL: "http://localhost:3000", Subdomain: "act", BaseDomain: "tunnox.net"})
	case "HTTPDomainDelete":
		return j(packet.HTTPDomainDeleteRequest{MappingID: domainID})
	case "SOCKS5TunnelRequestCmd":
		return j(map[string]any{"tunnel_id": "t-" + r.tag, "mapping_id": mappingID, "target_host": "example.com", "target_port": 80})
	case "TunnelTrafficReport":
		return j(packet.TrafficReportRequest{MappingID: mappingID, BytesSent: 5, BytesReceived: 7, Connections: 1, Timestamp: 1})
	case "DNSResolve":
		if st.Pt == "resp" {
			return j(packet.DNSResolveResponse{Success: true, IPs: []string{"192.0.2.7"}, TTL: 1})
		}
		return j(packet.DNSResolveRequest{Domain: "example.com", QType: 1, TargetClientID: target})
	case "DNSQuery":
		if st.Pt == "resp" {
			return j(packet.DNSQueryResponse{QueryID: "q-" + r.tag, Success: true, RawAnswer: []byte{0, 1}})
		}
		return j(packet.DNSQueryRequest{QueryID: "q-" + r.tag, TargetClientID: target, DNSServer: "192.0.2.53:53", RawQuery: []byte{0, 1}})
	case "HTTPProxyResponse":
		return j(map[string]any{"request_id": "no-such-request-" + r.tag, "status_code": 200})
	case "SendNotifyToClient":
		return j(packet.C2CNotifyRequest{TargetClientID: target, Type: 1, Payload: "{}"})
	case "NotifyClientAck":
		return j(packet.NotifyAckRequest{NotifyID: "n-" + r.tag, Received: true})
	case "RpcInvoke":
		return j(map[string]any{"method": "verif"})
	}
	return j(map[string]any{})
}

// armFault arms (or, with "", disarms) read faults for the named object's main record:
// mode "read1" = the next read fails once, "read2" = the read after the next fails once, "readAll" = every read fails.
func (r *run) armFault(objName, mode string) {
	id := ""
	switch objName {
	case "":
	case "m1":
		id = r.m1ID
	case "m0", "mz":
		id = r.mapID[objName]
	case "m2":
		for x := range r.liveNew("mapping") {
			id = x
		}
	case "k1":
		id = r.k1Code
	case "k0":
		id = r.k0Code
	case "d1":
		id = r.d1ID
	case "d2":
		for x := range r.liveNew("domain") {
			id = x
		}
	}
	r.faultMu.Lock()
	r.faultKey, r.faultSkip, r.faultLeft = id, 0, 1
	switch mode {
	case "read2":
		r.faultSkip = 1
	case "readAll":
		r.faultLeft = -1
	}
	r.faultMu.Unlock()
}

var errInjected = fmt.Errorf("verif: injected transient storage read failure")

func (r *run) storageFault(key string) error {
	r.faultMu.Lock()
	defer r.faultMu.Unlock()
	if r.faultKey == "" || !strings.HasSuffix(key, r.faultKey) {
		return nil
	}
	if r.faultSkip > 0 {
		r.faultSkip--
		return nil
	}
	if r.faultLeft == 0 {
		return nil
	}
	if r.faultLeft > 0 {
		r.faultLeft--
	}
	return errInjected
}

// liveNew lists the real ids of objects of a kind that were not created at set-up (m2 / d2 of the model).
func (r *run) liveNew(kind string) map[string]bool {
	out := map[string]bool{}
	switch kind {
	case "mapping":
		if all, err := r.cm.MappingRepo.ListAllMappings(); err == nil {
			for _, m := range all {
				if _, known := r.objn[m.ID]; !known {
					out[m.ID] = true
				}
			}
		}
	case "domain":
		if ds, err := r.cm.Domains.ListAllMappings(context.Background()); err == nil {
			for _, d := range ds {
				if _, known := r.objn[d.ID]; !known {
					out[d.ID] = true
				}
			}
		}
	}
	return out
}

type cmdResult struct {
	ev  fw.Event
	sum string
}

func (r *run) actorIdentity() string {
	v := r.s.View(r.c1)
	if v.InControl && v.ClientID != 0 {
		return r.clientName(v.ClientID)
	}
	return "none"
}

// cmd sends one command on c1 and observes everything the statement talks about.
// cmdOpts: which connection sends, the variant of the command
type cmdOpts struct {
	claims, bf string
	cmdID      string       // "" = a fresh one
	snd        *srvkit.Conn // nil = the actor connection c1
	sndName    string
	flt        string // "" / "none", or read faults of the named object's main record during the command (see armFault)
}

func (r *run) identityOf(c *srvkit.Conn) string {
	v := r.s.View(c)
	if v.InControl && v.ClientID != 0 {
		return r.clientName(v.ClientID)
	}
	return "none"
}

func (r *run) cmd(st stepT, o cmdOpts) (*cmdResult, string) {
	claims, bf := o.claims, o.bf
	snd, sndName := o.snd, o.sndName
	if snd == nil {
		snd, sndName = r.c1, "c1"
	}
	t0 := time.Now()
	defer func() { tCmd.Add(int64(time.Since(t0))) }()
	ct, ok := typeByName(st.Ty)
	if !ok {
		return nil, "policy row " + st.Ty + " names no packet.CommandType"
	}
	if snd.Closed() {
		return nil, sndName + " is closed"
	}
	actor := r.identityOf(snd)
	r.ncmd++
	r.tag = fmt.Sprintf("%d", cmdSeq.Add(1))
	cp := &packet.CommandPacket{CommandType: ct, CommandId: "c11-" + r.tag, CommandBody: r.body(st, actor, bf)}
	if o.cmdID != "" {
		cp.CommandId = o.cmdID
	}
	r.lastCmdID = cp.CommandId
	switch claims {
	case "own":
		id := int64(900000001) // unauthenticated: an id no server issues
		if actor != "none" {
			id = r.ids[actor]
		}
		cp.SenderId, cp.ReceiverId, cp.Token = strconv.FormatInt(id, 10), "0", "token-"+strconv.FormatInt(id, 10)
	case "victim":
		v := victimOf(actor)
		cp.SenderId, cp.ReceiverId, cp.Token = strconv.FormatInt(r.ids[v], 10), strconv.FormatInt(r.ids[v], 10), r.secret[v]
	}
	pt := packet.JsonCommand
	if st.Pt == "resp" {
		pt = packet.CommandResp
	}
	pre := r.snapshot()
	objp, objo, objt := []string{}, "none", "none"
	if o := pre[r.modelObj(st.Obj, pre)]; o != nil {
		objp, objo = o.Ps, o.Own
		if o.Tgt != "" {
			objt = o.Tgt
		}
	}
	for _, c := range r.v {
		r.cm.Drain(c)
	}
	r.cm.Drain(r.c1)
	faulty := o.flt != "" && o.flt != "none"
	if faulty {
		fobj := st.Obj
		if strings.TrimSuffix(st.Ty, ":resp") == "MappingList" {
			fobj = "m1" // the argument of a list command is a direction; the unreadable record is m1's
		}
		r.armFault(fobj, o.flt)
		defer r.armFault("", "")
	}

	type sendRes struct {
		out  []*packet.TransferPacket
		herr error
		err  error
	}
	done := make(chan sendRes, 1)
	go func() {
		out, herr, err := r.cm.Send(snd, &packet.TransferPacket{PacketType: pt, CommandPacket: cp})
		done <- sendRes{out, herr, err}
	}()
	deliv := []map[string]any{}
	var own []*packet.TransferPacket // what arrived on the sending connection itself while the command was running
	poll := func(withSender bool) {
		conns := []*srvkit.Conn{r.v["A"], r.v["B"], r.v["C"], r.c1}
		for i, c := range conns {
			if c.Closed() || (c == snd && !withSender) {
				continue
			}
			n := ""
			if i < len(clientNames) {
				n = clientNames[i]
			} else if c != snd {
				n = r.identityOf(c) // the actor connection as a receiver: whoever the server says it is
			}
			for _, p := range r.cm.Drain(c) {
				if c == snd {
					own = append(own, p)
				}
				d := map[string]any{"to": n, "ty": fmt.Sprintf("packet-%d", byte(p.PacketType)), "snd": "none",
					"resp": p.CommandPacket != nil && p.PacketType&0x3F == packet.CommandResp && p.CommandPacket.CommandId == cp.CommandId}
				if p.CommandPacket != nil {
					d["ty"] = typeName(p.CommandPacket.CommandType)
					var b struct {
						Sender *int64 `json:"sender_client_id"`
					}
					// the sender the SERVER states in a notification (a relayed request body is the caller's own payload)
					if p.CommandPacket.CommandType == packet.NotifyClient && json.Unmarshal([]byte(p.CommandPacket.CommandBody), &b) == nil && b.Sender != nil {
						d["snd"] = r.clientName(*b.Sender)
					}
					// the fake client answers forwarded DNS requests so that the duplex wait ends at once
					if p.PacketType&0x3F == packet.JsonCommand && (p.CommandPacket.CommandType == packet.DNSResolve || p.CommandPacket.CommandType == packet.DNSQuery) {
						var body string
						if p.CommandPacket.CommandType == packet.DNSResolve {
							body = string(fw.MustJSON(packet.DNSResolveResponse{Success: true, IPs: []string{"192.0.2.9"}, TTL: 1}))
						} else {
							body = string(fw.MustJSON(packet.DNSQueryResponse{QueryID: "q", Success: true, RawAnswer: []byte{1}}))
						}
						_ = r.s.SM.HandlePacket(&coretypes.StreamPacket{ConnectionID: c.ID, Timestamp: time.Now(), Packet: &packet.TransferPacket{PacketType: packet.CommandResp,
							CommandPacket: &packet.CommandPacket{CommandType: p.CommandPacket.CommandType, CommandId: p.CommandPacket.CommandId, CommandBody: body}}})
					}
				}
				if c != snd {
					deliv = append(deliv, d)
				}
			}
		}
	}
	var res sendRes
	deadline := time.After(8 * time.Second)
	tick := time.NewTicker(150 * time.Microsecond)
wait:
	for {
		select {
		case res = <-done:
			break wait
		case <-tick.C:
			poll(true)
		case <-deadline:
			tick.Stop()
			panic(inconclusive("command " + st.Ty + " did not return within 8 s"))
		}
	}
	tick.Stop()
	r.armFault("", "") // a fault the command did not consume must not hit the driver's own snapshot reads
	if res.err != nil {
		return nil, res.err.Error()
	}
	if r.oneway[ct] {
		time.Sleep(1500 * time.Microsecond) // oneway handlers run on their own goroutine
	} else {
		time.Sleep(100 * time.Microsecond)
	}
	poll(false)
	late := append(own, r.cm.Drain(snd)...)
	post := r.snapshot()

	// response class
	out, respBody := "none", ""
	for _, p := range append(res.out, late...) {
		if p.CommandPacket == nil || p.PacketType&0x3F != packet.CommandResp || p.CommandPacket.CommandId != cp.CommandId {
			continue
		}
		var b struct {
			Success *bool `json:"success"`
		}
		if json.Unmarshal([]byte(p.CommandPacket.CommandBody), &b) == nil && b.Success != nil {
			respBody = p.CommandPacket.CommandBody
			if *b.Success {
				out = "ok"
			} else {
				out = "fail"
			}
		}
	}
	if out == "none" && res.herr != nil {
		out = "fail"
	}
	// objects identified in a success response
	ret := []map[string]any{}
	if out == "ok" {
		all := map[string]*obj{}
		for n, o := range pre {
			all[n] = o
		}
		for n, o := range post {
			all[n] = o
		}
		var names []string
		for n := range all {
			names = append(names, n)
		}
		sort.Strings(names)
		for _, n := range names {
			o := all[n]
			for _, k := range o.keys {
				if k != "" && strings.Contains(respBody, `"`+k+`"`) {
					ret = append(ret, map[string]any{"kind": o.Kind, "o": n, "ps": o.Ps, "own": o.Own})
					break
				}
			}
		}
	}
	diff := diffOf(pre, post)
	sort.Slice(deliv, func(i, j int) bool { return fmt.Sprint(deliv[i]) < fmt.Sprint(deliv[j]) })
	sum := summary(out, ret, diff, deliv)
	cid, flt := "fresh", "none"
	if o.cmdID != "" && o.snd == nil {
		cid = "reused"
	}
	if faulty {
		flt = o.flt
	}
	ev := fw.Event{"ev": "Cmd", "c": sndName, "ty": st.Ty, "pt": st.Pt, "claims": claims, "bf": bf, "cid": cid, "flt": flt, "obj": st.Obj, "hc": st.Hc, "actor": actor,
		"out": out, "objp": objp, "objo": objo, "objt": objt, "ret": ret, "diff": diff, "deliv": deliv, "sum": sum}
	if res.herr != nil {
		e := res.herr.Error()
		if len(e) > 120 {
			e = e[:120]
		}
		ev["herr"] = e
	}
	return &cmdResult{ev: ev, sum: sum}, ""
}

// modelObj maps the model's object name to the snapshot's name (m2 / d2 are the run's new objects).
func (r *run) modelObj(name string, snap map[string]*obj) string {
	switch name {
	case "m2", "d2":
		kind := map[string]string{"m2": "mapping", "d2": "domain"}[name]
		for n, o := range snap {
			if strings.HasPrefix(n, "new:"+kind+":") && o != nil {
				return n
			}
		}
	}
	return name
}

func summary(out string, ret, diff, deliv []map[string]any) string {
	var a, b, c []string
	for _, x := range ret {
		a = append(a, fmt.Sprint(x["o"]))
	}
	for _, x := range diff {
		b = append(b, fmt.Sprintf("%v:%v:%v:%v", x["op"], x["kind"], x["o"], x["own"]))
	}
	for _, x := range deliv {
		c = append(c, fmt.Sprintf("%v:%v:%v", x["to"], x["ty"], x["snd"]))
	}
	sort.Strings(a)
	sort.Strings(b)
	sort.Strings(c)
	return out + " ret=" + strings.Join(a, ",") + " diff=" + strings.Join(b, ",") + " deliv=" + strings.Join(c, ",")
}

var (
	discoverMu  sync.Mutex
	discovered  = map[string]map[string]bool{} // registry option -> dispatched row names
	discoverErr = map[string]string{}
)

// ---- handshake step on c1 -------------------------------------------------------------------

const garbage = "00112233445566778899aabbccddeeff00112233445566778899aabbccddeeff"

func (r *run) hs(st stepT) (fw.Event, string) {
	if r.c1.Closed() {
		return nil, "c1 is closed"
	}
	id := r.ids[st.ID]
	ev := fw.Event{"ev": "Hs", "c": "c1", "k": st.K, "id": st.ID, "type": st.Type, "valid": false, "ok": false}
	var resp *packet.HandshakeResponse
	var rest []*packet.TransferPacket
	var err error
	switch st.K {
	case "P1":
		resp, rest, err = r.cm.Handshake(r.c1, srvkit.HandshakeRequest(id, st.Type, ""))
		if resp != nil && resp.Challenge != "" {
			r.chal = resp.Challenge
		}
	case "P2":
		answer := garbage
		if st.Resp == "valid" {
			if r.chal == "" {
				return nil, "no challenge to answer (model and server disagree)"
			}
			answer = srvkit.HMAC(r.secret[st.ID], r.chal)
			ev["valid"] = true
		}
		r.chal = ""
		resp, rest, err = r.cm.Handshake(r.c1, srvkit.HandshakeRequest(id, st.Type, answer))
	default:
		return nil, "unknown handshake message " + st.K
	}
	if err != nil {
		return nil, err.Error()
	}
	ev["ok"] = resp != nil && resp.Success
	r.s.Reap()
	r.awaitPush(r.c1, st.Type, resp, rest)
	ev["srv"] = r.actorIdentity()
	return ev, ""
}

// ---------------------------------------------------------------------------------------------
// replay of one behaviour (once, or twice for the claims twin)

func replay(beh *behT, twin bool, logAll bool) (evs []fw.Event, sums []string, bind []bool, note string, err error) {
	faults := false
	for _, st := range beh.Steps {
		faults = faults || (st.Flt != "" && st.Flt != "none")
	}
	r, err := newRun(beh.Reg, beh.Wv, nil, faults)
	if err != nil {
		return nil, nil, nil, "", err
	}
	defer r.s.Close()
	defer r.s.SetCloudReadFault(nil)
	for _, n := range clientNames {
		if logAll {
			evs = append(evs, fw.Event{"ev": "Hs", "c": "v" + n, "k": "Login", "id": n, "type": "control", "valid": true, "ok": true, "srv": n})
		}
	}
	primeID := ""
	for i, st := range beh.Steps {
		switch st.Op {
		case "Hs":
			ev, why := r.hs(st)
			if ev == nil {
				return evs, sums, bind, fmt.Sprintf("stopped before step %d: %s", i+1, why), nil
			}
			evs = append(evs, ev)
		case "Prime":
			// a party sends the command on its own control connection; its command id is the one the actor reuses
			pst := st
			pst.Pt, pst.Claims, pst.Bf, pst.Hc = "cmd", "absent", "absent", "primer"
			res, why := r.cmd(pst, cmdOpts{claims: "absent", bf: "absent", snd: r.v[st.By], sndName: "v" + st.By})
			if res == nil {
				return evs, sums, bind, fmt.Sprintf("stopped before step %d: %s", i+1, why), nil
			}
			primeID = r.lastCmdID
			res.ev["reg"], res.ev["wv"] = beh.Reg, beh.Wv
			evs = append(evs, res.ev)
		case "Cmd":
			claims, bf := st.Claims, st.Bf
			if bf == "" {
				bf = "absent"
			}
			if twin { // the twin run: same steps, no identity fields anywhere in the packets
				claims, bf = "absent", "absent"
			}
			o := cmdOpts{claims: claims, bf: bf, flt: st.Flt}
			if st.Cid == "reused" && !twin {
				o.cmdID = primeID // the command id another client's command of this type just carried
			}
			res, why := r.cmd(st, o)
			if res == nil {
				return evs, sums, bind, fmt.Sprintf("stopped before step %d: %s", i+1, why), nil
			}
			res.ev["reg"], res.ev["wv"] = beh.Reg, beh.Wv
			evs = append(evs, res.ev)
			sums = append(sums, res.sum)
			bind = append(bind, binding(st, res.ev))
		default:
			return nil, nil, nil, "", fmt.Errorf("unknown step %q", st.Op)
		}
	}
	return evs, sums, bind, "", nil
}

// binding: does the real outcome equal what the implementation-shaped model predicts? (informational)
func binding(st stepT, ev fw.Event) bool {
	if st.Exp == nil {
		return true
	}
	if st.Exp.Out != ev["out"] {
		return false
	}
	canon := func(o string) string {
		switch {
		case o == "m2" || strings.HasPrefix(o, "new:mapping:"):
			return "m2"
		case o == "d2" || strings.HasPrefix(o, "new:domain:"):
			return "d2"
		case strings.HasPrefix(o, "g") && len(o) == 2, strings.HasPrefix(o, "new:code:"):
			return "g"
		}
		return o
	}
	want, got := map[string]bool{}, map[string]bool{}
	for _, e := range st.Exp.Effs {
		if e.K == "deliv" {
			if e.To != ev["actor"] { // a delivery to the actor's own identity may arrive on c1 itself
				want["deliv:"+e.To] = true
			}
		} else {
			want[e.K+":"+canon(e.O)] = true
		}
	}
	for _, x := range ev["ret"].([]map[string]any) {
		if st.Ty == "HTTPDomainCheckSubdomain" {
			break // names the probed domain (no demand row)
		}
		if o := x["o"].(string); o != "k0" && o != "k2" && o != "m3" && o != "k4" && o != "m4" {
			got["ret:"+canon(o)] = true
		}
	}
	for _, x := range ev["diff"].([]map[string]any) {
		got[x["op"].(string)+":"+canon(x["o"].(string))] = true
	}
	for _, x := range ev["deliv"].([]map[string]any) {
		if x["to"] != ev["actor"] {
			got["deliv:"+x["to"].(string)] = true
		}
	}
	if st.Ty == "ConnectionCodeList" {
		delete(got, "del:k1") // listing sweeps an expired, never activated code of the caller - asynchronously
	}
	// what a command creates is also named in its response
	for k := range got {
		if strings.HasPrefix(k, "ret:") && (got["add:"+k[4:]] || want["add:"+k[4:]]) {
			delete(got, k)
		}
	}
	if len(want) != len(got) {
		return false
	}
	for k := range want {
		if !got[k] {
			return false
		}
	}
	return true
}

var bindSteps, bindMismatch atomic.Int64
var bindSample atomic.Value
var bindBy sync.Map // policy row -> *atomic.Int64

func drive(env *fw.Env, b fw.Behaviour) (t *fw.Trace) {
	defer func() {
		if x := recover(); x != nil {
			if m, ok := x.(inconclusive); ok {
				t = &fw.Trace{Status: fw.Inconclusive, Note: string(m)}
				return
			}
			panic(x)
		}
	}()
	var beh behT
	if err := json.Unmarshal(b.Data, &beh); err != nil {
		return &fw.Trace{Status: fw.DriverError, Note: err.Error()}
	}
	if beh.Policy != nil {
		return driveTable(&beh)
	}
	if beh.Conc {
		return driveConc(env, &beh)
	}
	if len(beh.Steps) == 0 {
		return &fw.Trace{Status: fw.DriverError, Note: "empty behaviour"}
	}
	evs, sums, bind, note, err := replay(&beh, false, true)
	if err != nil {
		return &fw.Trace{Status: fw.DriverError, Note: err.Error()}
	}
	if len(sums) == 0 {
		return &fw.Trace{Status: fw.Unrealisable, Note: note}
	}
	for i, ok := range bind {
		bindSteps.Add(1)
		if !ok {
			bindMismatch.Add(1)
			k := 0
			for _, st := range beh.Steps {
				if st.Op == "Cmd" {
					if k == i {
						c, _ := bindBy.LoadOrStore(st.Ty, new(atomic.Int64))
						c.(*atomic.Int64).Add(1)
					}
					k++
				}
			}
			if bindSample.Load() == nil {
				bindSample.Store(fmt.Sprintf("command %d of %s", i+1, string(b.Data)))
			}
		}
	}
	// twin run without identity fields, when any command carried some
	twin := false
	for _, st := range beh.Steps {
		if st.Op == "Cmd" && (st.Claims != "absent" || (st.Bf != "" && st.Bf != "absent") || st.Cid == "reused") {
			twin = true
		}
	}
	if twin {
		_, ref, _, _, err := replay(&beh, true, false)
		if err != nil {
			return &fw.Trace{Status: fw.DriverError, Note: "twin: " + err.Error()}
		}
		k := 0
		for _, ev := range evs {
			if ev["ev"] == "Cmd" {
				if ev["c"] != "c1" {
					continue // the priming command
				}
				if k < len(ref) && (ev["claims"] != "absent" || ev["bf"] != "absent" || ev["cid"] == "reused") {
					ev["ref"] = ref[k]
				}
				k++
			}
		}
	}
	return &fw.Trace{Status: fw.Realised, Note: note, Events: evs}
}

// ---------------------------------------------------------------------------------------------
// concurrent scenarios (spec/CommandsConc.tla): two duplex commands in flight, their handlers parked in the
// storage call that precedes any use of the caller's identity, the executor's wait timing out or not

const shortDuplexTimeout = 150 * time.Millisecond

type concProc struct {
	conn    *srvkit.Conn
	cname   string // connection name in the trace
	ty      string
	sub     string
	cmdID   string
	reached chan struct{}
	release chan struct{}
	done    chan struct{} // Send returned
	herr    error
	parked  bool
	sent    bool
}

func driveConc(env *fw.Env, beh *behT) *fw.Trace {
	var mu sync.Mutex
	gates := map[string]*concProc{}
	gate := func(sub, base string) {
		mu.Lock()
		p := gates[sub]
		mu.Unlock()
		if p == nil {
			return
		}
		close(p.reached)
		<-p.release
	}
	r, err := newRun("server", "base", gate, false)
	if err != nil {
		return &fw.Trace{Status: fw.DriverError, Note: err.Error()}
	}
	defer r.s.Close()
	timeouts := false
	for _, st := range beh.Steps {
		timeouts = timeouts || st.Op == "T"
	}
	if timeouts {
		if err := r.cm.SetDuplexTimeout(shortDuplexTimeout); err != nil {
			if env.Tier != "thorough" {
				return &fw.Trace{Status: fw.Unrealisable, Note: "duplex timeout not configurable (" + err.Error() + "): driven with the real 30 s in the thorough tier only"}
			}
		}
	}
	tag := fmt.Sprintf("%d", cmdSeq.Add(1))
	mk := func(name string, conn *srvkit.Conn, cname, ty string) *concProc {
		return &concProc{conn: conn, cname: cname, ty: ty, sub: "cc" + name + tag, cmdID: "c11c-" + name + "-" + tag,
			reached: make(chan struct{}), release: make(chan struct{}), done: make(chan struct{})}
	}
	procs := map[string]*concProc{"pa": mk("pa", r.v["A"], "vA", "HTTPDomainCreate")}
	switch beh.Who {
	case "vB:create":
		procs["pb"] = mk("pb", r.v["B"], "vB", "HTTPDomainCreate")
	case "vB:check":
		procs["pb"] = mk("pb", r.v["B"], "vB", "HTTPDomainCheckSubdomain")
	case "c1:check":
		procs["pb"] = mk("pb", r.c1, "c1", "HTTPDomainCheckSubdomain")
	default:
		return &fw.Trace{Status: fw.DriverError, Note: "unknown scenario " + beh.Who}
	}
	if beh.Sid {
		procs["pb"].cmdID = procs["pa"].cmdID // the id is chosen by the client: nothing keeps two clients from choosing the same
	}
	mu.Lock()
	for _, p := range procs {
		gates[p.sub] = p
	}
	mu.Unlock()
	// whose response is this packet? By command id; when both commands carry the same id, by the subdomain the
	// body names (both response types state the full domain), else the command of the connection it arrived on.
	owner := func(x *packet.TransferPacket, cn string) *concProc {
		if x.CommandPacket == nil || x.PacketType&0x3F != packet.CommandResp {
			return nil
		}
		var cands []*concProc
		for _, n := range []string{"pa", "pb"} {
			if procs[n].cmdID == x.CommandPacket.CommandId {
				cands = append(cands, procs[n])
			}
		}
		switch len(cands) {
		case 0:
			return nil
		case 1:
			return cands[0]
		}
		for _, c := range cands {
			if strings.Contains(x.CommandPacket.CommandBody, c.sub) {
				return c
			}
		}
		for _, c := range cands {
			if c.cname == cn {
				return c
			}
		}
		return cands[0]
	}
	conns := map[string]*srvkit.Conn{"vA": r.v["A"], "vB": r.v["B"], "vC": r.v["C"], "c1": r.c1}
	clientOf := map[string]string{"vA": "A", "vB": "B", "vC": "C", "c1": "none"}
	got := map[string][]*packet.TransferPacket{}
	collect := func() {
		for n, c := range conns {
			got[n] = append(got[n], r.cm.Drain(c)...)
		}
	}
	collect()
	for n := range got {
		got[n] = nil
	}
	pre := r.snapshot()
	// commands are sent by worker goroutines; a worker whose previous Send has returned (its Execute timed
	// out) sends the next command too - the same goroutine continues, as a busy server's reader would
	type worker struct {
		ch   chan func()
		busy atomic.Bool
	}
	var workers []*worker
	send := func(f func()) {
		for _, w := range workers {
			if w.busy.CompareAndSwap(false, true) {
				w.ch <- f
				return
			}
		}
		w := &worker{ch: make(chan func(), 1)}
		w.busy.Store(true)
		workers = append(workers, w)
		go func() {
			for g := range w.ch {
				g()
				w.busy.Store(false)
			}
		}()
		w.ch <- f
	}
	defer func() {
		for _, p := range procs {
			select {
			case <-p.release:
			default:
				close(p.release)
			}
		}
		for _, w := range workers {
			close(w.ch)
		}
	}()
	waitFor := func(ch chan struct{}, d time.Duration) bool {
		deadline := time.After(d)
		tick := time.NewTicker(200 * time.Microsecond)
		defer tick.Stop()
		for {
			select {
			case <-ch:
				return true
			case <-tick.C:
				collect()
			case <-deadline:
				return false
			}
		}
	}
	sawResponse := func(p *concProc) bool {
		for cn, ps := range got {
			for _, x := range ps {
				if owner(x, cn) == p {
					return true
				}
			}
		}
		return false
	}
	diverged := ""
	releaseAll := func() {
		for _, p := range procs {
			select {
			case <-p.release:
			default:
				close(p.release)
			}
		}
	}
steps:
	for i, st := range beh.Steps {
		p := procs[st.P]
		if p == nil {
			return &fw.Trace{Status: fw.DriverError, Note: "unknown process " + st.P}
		}
		switch st.Op {
		case "D":
			var body string
			if p.ty == "HTTPDomainCreate" {
				body = string(fw.MustJSON(packet.HTTPDomainCreateRequest{TargetURL: "http://localhost:3000", Subdomain: p.sub, BaseDomain: "tunnox.net"}))
			} else {
				body = string(fw.MustJSON(packet.HTTPDomainCheckSubdomainRequest{Subdomain: p.sub, BaseDomain: "tunnox.net"}))
			}
			ct, _ := typeByName(p.ty)
			pkt := &packet.TransferPacket{PacketType: packet.JsonCommand, CommandPacket: &packet.CommandPacket{CommandType: ct, CommandId: p.cmdID, CommandBody: body}}
			send(func() {
				p.herr = r.s.SM.HandlePacket(&coretypes.StreamPacket{ConnectionID: p.conn.ID, Packet: pkt, Timestamp: time.Now()})
				close(p.done)
			})
			p.sent = true
			if !waitFor(p.reached, 5*time.Second) {
				// the code left the model's schedule (the handler of a dispatched command never got to its storage call -
				// or the machine is too slow): let everything run freely; what happened is a real execution and is judged
				diverged = fmt.Sprintf("step %d: the handler of %s did not reach the storage call within 5 s; the rest ran unscheduled", i+1, st.P)
				releaseAll()
				break steps
			}
			p.parked = true
		case "T":
			wait := 40 * shortDuplexTimeout
			if r.cm.SetDuplexTimeout(shortDuplexTimeout) != nil {
				wait = 40 * time.Second
			}
			if !waitFor(p.done, wait) {
				return &fw.Trace{Status: fw.Inconclusive, Note: fmt.Sprintf("step %d: Execute of %s did not time out in time", i+1, st.P)}
			}
		case "R":
			select {
			case <-p.release:
			default:
				close(p.release)
			}
			deadline := time.Now().Add(5 * time.Second)
			for !sawResponse(p) {
				if time.Now().After(deadline) {
					break // the response may have been lost with a closed stream; the store is judged anyway
				}
				time.Sleep(200 * time.Microsecond)
				collect()
			}
		default:
			return &fw.Trace{Status: fw.DriverError, Note: "unknown step " + st.Op}
		}
	}
	for _, p := range procs {
		if p.sent && !waitFor(p.done, 45*time.Second) {
			return &fw.Trace{Status: fw.Inconclusive, Note: "a command did not return"}
		}
	}
	if diverged != "" {
		// late responses of handlers that outlived their Execute
		for end := time.Now().Add(300 * time.Millisecond); time.Now().Before(end); time.Sleep(2 * time.Millisecond) {
			collect()
		}
	}
	time.Sleep(300 * time.Microsecond)
	collect()
	post := r.snapshot()
	diff := diffOf(pre, post)
	evs := []fw.Event{}
	for _, n := range clientNames {
		evs = append(evs, fw.Event{"ev": "Hs", "c": "v" + n, "k": "Login", "id": n, "type": "control", "valid": true, "ok": true, "srv": n})
	}
	for _, name := range []string{"pa", "pb"} {
		p := procs[name]
		if !p.sent {
			continue
		}
		actor := clientOf[p.cname]
		// what this command changed: the domain carrying its subdomain; anything else is attributed to both
		mine := []map[string]any{}
		for _, d := range diff {
			o := post[d["o"].(string)]
			if o == nil {
				o = pre[d["o"].(string)]
			}
			other := false
			for _, q := range procs {
				if q != p && o != nil && o.Label == q.sub {
					other = true
				}
			}
			if !other {
				mine = append(mine, d)
			}
		}
		out, respBody := "none", ""
		deliv := []map[string]any{}
		for cn, ps := range got {
			for _, x := range ps {
				own := owner(x, cn)
				isResp := own == p
				if cn == p.cname {
					if isResp {
						var b struct {
							Success *bool `json:"success"`
						}
						if json.Unmarshal([]byte(x.CommandPacket.CommandBody), &b) == nil && b.Success != nil {
							out, respBody = map[bool]string{true: "ok", false: "fail"}[*b.Success], x.CommandPacket.CommandBody
						}
					}
					continue
				}
				// on another connection: this command's response, or a packet that is nobody's response
				foreign := own != nil && own != p
				if isResp || (!foreign && !(x.CommandPacket != nil && x.PacketType&0x3F == packet.CommandResp)) {
					ty := fmt.Sprintf("packet-%d", byte(x.PacketType))
					if x.CommandPacket != nil {
						ty = typeName(x.CommandPacket.CommandType)
					}
					if isResp {
						ty = "CommandResp"
					}
					deliv = append(deliv, map[string]any{"to": clientOf[cn], "ty": ty, "snd": "none", "resp": isResp})
				}
			}
		}
		if out == "none" && p.herr != nil {
			out = "fail"
		}
		ret := []map[string]any{}
		if out == "ok" {
			for n, o := range post {
				for _, k := range o.keys {
					if k != "" && strings.Contains(respBody, `"`+k+`"`) {
						ret = append(ret, map[string]any{"kind": o.Kind, "o": n, "ps": o.Ps, "own": o.Own})
						break
					}
				}
			}
		}
		sort.Slice(deliv, func(i, j int) bool { return fmt.Sprint(deliv[i]) < fmt.Sprint(deliv[j]) })
		sort.Slice(ret, func(i, j int) bool { return fmt.Sprint(ret[i]["o"]) < fmt.Sprint(ret[j]["o"]) })
		ev := fw.Event{"ev": "Cmd", "c": p.cname, "ty": p.ty, "pt": "cmd", "claims": "absent", "bf": "absent", "obj": "none", "hc": "concurrent:" + beh.Who + map[bool]string{true: ":sameid", false: ""}[beh.Sid],
			"actor": actor, "out": out, "objp": []string{}, "objo": "none", "objt": "none", "ret": ret, "diff": mine, "deliv": deliv,
			"sum": summary(out, ret, mine, deliv), "reg": "server", "wv": "base", "conc": true}
		evs = append(evs, ev)
	}
	if diverged != "" {
		return &fw.Trace{Status: fw.Diverged, Note: diverged, Events: evs}
	}
	return &fw.Trace{Status: fw.Realised, Events: evs}
}

func othersReached(ev fw.Event) bool {
	for _, d := range ev["deliv"].([]map[string]any) {
		if d["to"] != ev["actor"] {
			return true
		}
	}
	return false
}

// ---------------------------------------------------------------------------------------------
// the command table of the real server vs. the policy table of the spec

var (
	freeRows   = map[string]bool{}
	policyRows = map[string]bool{}
	policyMu   sync.Mutex
)

func discover(reg string) (map[string]bool, string) {
	discoverMu.Lock()
	defer discoverMu.Unlock()
	if d, ok := discovered[reg]; ok {
		return d, discoverErr[reg]
	}
	found := map[string]bool{}
	fail := func(msg string) (map[string]bool, string) {
		discovered[reg], discoverErr[reg] = found, msg
		return found, msg
	}
	if d := srvkit.ServerCommandSetupDrift(); d != "" {
		return fail(d)
	}
	// registry listing of the real assembly
	s, err := srvkit.NewServer(srvkit.Options{HeartbeatTimeout: time.Hour, CleanupInterval: time.Hour})
	if err != nil {
		return fail(err.Error())
	}
	cm, err := s.EnableCommands(srvkit.CommandOptions{Library: reg == "library"})
	if err != nil {
		s.Close()
		return fail(err.Error())
	}
	listing := cm.Listing()
	s.Close()
	// special cases: a server whose executor has an empty registry answers "no handler registered"
	// exactly for the types that reach the executor
	p, err := srvkit.NewServer(srvkit.Options{HeartbeatTimeout: time.Hour, CleanupInterval: time.Hour})
	if err != nil {
		return fail(err.Error())
	}
	defer p.Close()
	if _, err := p.EnableCommands(srvkit.CommandOptions{EmptyOnly: true}); err != nil {
		return fail(err.Error())
	}
	shadow := map[packet.CommandType]bool{}
	for t := 1; t < 256; t++ {
		for _, pt := range []packet.Type{packet.JsonCommand, packet.CommandResp} {
			c, err := p.NewConn("10.12.0.1")
			if err != nil {
				return fail(err.Error())
			}
			_, herr, err := c.Send(&packet.TransferPacket{PacketType: pt, CommandPacket: &packet.CommandPacket{CommandType: packet.CommandType(t), CommandId: fmt.Sprintf("probe-%d-%d", t, pt), CommandBody: "{}"}})
			c.Disconnect()
			if err != nil {
				return fail(err.Error())
			}
			if herr != nil && strings.Contains(herr.Error(), "no handler registered") {
				continue
			}
			n := typeName(packet.CommandType(t))
			if pt == packet.CommandResp {
				n += ":resp"
			} else {
				shadow[packet.CommandType(t)] = true
			}
			found[n] = true
		}
	}
	for _, rc := range listing {
		if shadow[rc.Type] {
			continue // never reaches the executor (Disconnect)
		}
		found[typeName(rc.Type)] = true
	}
	discovered[reg], discoverErr[reg] = found, ""
	return found, ""
}

func driveTable(beh *behT) *fw.Trace {
	policyMu.Lock()
	for n, raw := range beh.Policy {
		var row struct {
			Need bool   `json:"need"`
			Cls  string `json:"cls"`
		}
		if err := json.Unmarshal(raw, &row); err != nil {
			policyMu.Unlock()
			return &fw.Trace{Status: fw.DriverError, Note: "policy row " + n + ": " + err.Error()}
		}
		policyRows[n] = true
		if !row.Need {
			freeRows[n] = true
		}
	}
	policyMu.Unlock()
	found, msg := discover(beh.Reg)
	if msg != "" {
		return &fw.Trace{Status: fw.DriverError, Note: "command table of the real server: " + msg}
	}
	names, missing := []string{}, []string{}
	for n := range found {
		names = append(names, n)
		if _, ok := beh.Policy[n]; !ok {
			missing = append(missing, n)
		}
	}
	sort.Strings(names)
	sort.Strings(missing)
	if len(missing) > 0 {
		return &fw.Trace{Status: fw.DriverError, Note: fmt.Sprintf("the server dispatches command types the policy table (spec/CommandsPolicy.tla) does not classify: %v", missing)}
	}
	stale := []string{}
	for n := range beh.Policy {
		if !found[n] {
			stale = append(stale, n)
		}
	}
	sort.Strings(stale)
	return &fw.Trace{Status: fw.Realised, Events: []fw.Event{{"ev": "Table", "reg": beh.Reg, "dispatched": names, "rows_not_dispatched_here": stale}}}
}

// ---------------------------------------------------------------------------------------------
// self-test: corrupted copies of accepted traces; every corruption contradicts the statement

func contains(xs []string, x string) bool {
	for _, y := range xs {
		if y == x {
			return true
		}
	}
	return false
}

func clone(t *fw.Trace, id int) *fw.Trace {
	var evs []fw.Event
	if err := json.Unmarshal(fw.MustJSON(t.Events), &evs); err != nil {
		panic(err)
	}
	return &fw.Trace{Beh: fw.Behaviour{ID: id, Src: "selftest", Data: t.Beh.Data}, Status: fw.Realised, Events: evs}
}

func selfTest(env *fw.Env, acc []*fw.Trace) []*fw.Trace {
	var out []*fw.Trace
	id := 9000000
	count := map[string]int{}
	add := func(kind string, t *fw.Trace, f func(evs []fw.Event) []fw.Event) {
		if count[kind] >= 3 {
			return
		}
		count[kind]++
		id++
		c := clone(t, id)
		c.Events = f(c.Events)
		out = append(out, c)
	}
	strs := func(v any) []string {
		var out []string
		switch x := v.(type) {
		case []string:
			return x
		case []any:
			for _, e := range x {
				out = append(out, fmt.Sprint(e))
			}
		}
		return out
	}
	for _, t := range acc {
		for i, e := range t.Events {
			if e["ev"] != "Cmd" || !policyRows[fmt.Sprint(e["ty"])] || freeRows[fmt.Sprint(e["ty"])] {
				continue
			}
			actor := fmt.Sprint(e["actor"])
			nret := len(fw.MustJSON(e["ret"])) > 2
			switch {
			case actor == "none" && e["out"] != "ok":
				// 1. a refusal turned into an acceptance; 2. an unauthenticated command that changed a victim's object;
				// 3. ... that reached another client
				add("unauth-accepted", t, func(evs []fw.Event) []fw.Event { evs[i]["out"] = "ok"; return evs })
				add("unauth-changed", t, func(evs []fw.Event) []fw.Event {
					evs[i]["diff"] = []any{map[string]any{"op": "mod", "kind": "traffic", "o": "m1", "ps": []string{"A", "B"}, "own": "A"}}
					return evs
				})
				add("unauth-delivered", t, func(evs []fw.Event) []fw.Event {
					evs[i]["deliv"] = []any{map[string]any{"to": "B", "ty": "NotifyClient", "snd": "none"}}
					return evs
				})
			case actor != "none" && e["out"] == "ok" && nret && e["ty"] == "MappingGet":
				// 4. the object returned belongs to two other clients; 5. the login that proved the identity never happened
				add("stranger-returned", t, func(evs []fw.Event) []fw.Event {
					other := []string{}
					for _, n := range clientNames {
						if n != actor {
							other = append(other, n)
						}
					}
					for _, r := range evs[i]["ret"].([]any) {
						r.(map[string]any)["ps"] = other
					}
					evs[i]["objp"], evs[i]["objo"] = other, other[0]
					return evs
				})
				add("login-dropped", t, func(evs []fw.Event) []fw.Event {
					var keep []fw.Event
					for _, x := range evs {
						if x["ev"] == "Hs" && x["c"] == "c1" && x["ok"] == true {
							continue
						}
						keep = append(keep, x)
					}
					return keep
				})
			case actor != "none" && e["out"] == "ok" && (e["ty"] == "ConnectionCodeGenerate" || e["ty"] == "HTTPDomainCreate"):
				// 6. what was created belongs to somebody else
				add("created-for-other", t, func(evs []fw.Event) []fw.Event {
					for _, d := range evs[i]["diff"].([]any) {
						m := d.(map[string]any)
						if m["op"] == "add" {
							m["own"], m["ps"] = victimOf(actor), []string{victimOf(actor)}
						}
					}
					return evs
				})
			}
			if actor != "none" && e["out"] == "fail" && e["ty"] == "MappingGet" && e["obj"] == "m1" && !contains(strs(e["objp"]), actor) {
				// 9. a stranger's refused inspection nevertheless removed the mapping from the store
				add("refused-but-deleted", t, func(evs []fw.Event) []fw.Event {
					evs[i]["diff"] = []any{map[string]any{"op": "del", "kind": "mapping", "o": "m1", "ps": evs[i]["objp"], "own": evs[i]["objo"]}}
					return evs
				})
			}
			if actor != "none" && e["ty"] == "SOCKS5TunnelRequestCmd" && len(fw.MustJSON(e["deliv"])) > 2 && e["bf"] == "third" {
				// 10. the tunnel request went to the client named in the body instead of the mapping's target
				add("redirected", t, func(evs []fw.Event) []fw.Event {
					for _, d := range evs[i]["deliv"].([]any) {
						d.(map[string]any)["to"] = thirdOf(actor)
					}
					evs[i]["ref"] = evs[i]["sum"] // even if the twin run had agreed
					return evs
				})
			}
			if e["conc"] == true && actor != "none" && e["ty"] == "HTTPDomainCreate" && e["out"] == "ok" {
				// 11. the response of a command that was overtaken by another one went to the other connection
				add("misrouted", t, func(evs []fw.Event) []fw.Event {
					evs[i]["deliv"] = []any{map[string]any{"to": victimOf(actor), "ty": "CommandResp", "snd": "none", "resp": true}}
					evs[i]["out"] = "none"
					return evs
				})
			}
			if e["cid"] == "reused" && e["out"] == "fail" && e["ty"] == "MappingGet" && e["obj"] == "m1" && !contains(strs(e["objp"]), actor) {
				// 12. a command that repeats the command id of B's answered MappingGet is answered with B's response
				// (on an unauthenticated connection, or a stranger's)
				add("replayed-"+map[bool]string{true: "unauth", false: "stranger"}[actor == "none"], t, func(evs []fw.Event) []fw.Event {
					evs[i]["out"] = "ok"
					evs[i]["ret"] = []any{map[string]any{"kind": "mapping", "o": "m1", "ps": evs[i]["objp"], "own": evs[i]["objo"]}}
					return evs
				})
			}
			if e["flt"] != nil && e["flt"] != "none" && actor != "none" && e["out"] == "fail" && e["ty"] == "MappingDelete" && e["obj"] == "m1" && !contains(strs(e["objp"]), actor) {
				// 13. the storage read for the party check failed and the stranger's delete went through
				add("fault-open", t, func(evs []fw.Event) []fw.Event {
					evs[i]["out"] = "ok"
					evs[i]["diff"] = []any{map[string]any{"op": "del", "kind": "mapping", "o": "m1", "ps": evs[i]["objp"], "own": evs[i]["objo"]}}
					return evs
				})
			}
			if (e["wv"] == "migrated" || e["wv"] == "migratedT") && actor == "A" && e["out"] == "ok" && e["ty"] == "MappingList" {
				// 14. the former listen client still lists the mapping that was migrated away from it
				add("stale-listed", t, func(evs []fw.Event) []fw.Event {
					evs[i]["ret"] = append(evs[i]["ret"].([]any), map[string]any{"kind": "mapping", "o": "m1", "ps": []string{"B", "C"}, "own": "C"})
					return evs
				})
			}
			if e["claims"] != "absent" && e["ref"] != nil {
				// 7. the identity fields changed the outcome
				add("claims-matter", t, func(evs []fw.Event) []fw.Event {
					evs[i]["ref"] = fmt.Sprint(evs[i]["ref"]) + " diff=del:mapping:m1:A"
					return evs
				})
			}
			if actor != "none" && len(strs(e["objp"])) == 2 && e["ty"] == "SOCKS5TunnelRequestCmd" && len(fw.MustJSON(e["deliv"])) > 2 {
				// 8. a tunnel request relayed although the caller is the mapping's target, not its listen client
				add("not-listen", t, func(evs []fw.Event) []fw.Event { evs[i]["objo"] = victimOf(actor); return evs })
			}
		}
		if len(out) >= 60 {
			break
		}
	}
	var kinds []string
	for k, n := range count {
		kinds = append(kinds, fmt.Sprintf("%s=%d", k, n))
	}
	sort.Strings(kinds)
	fmt.Printf("[selftest] corruptions: %s\n", strings.Join(kinds, " "))
	return out
}

// ---------------------------------------------------------------------------------------------

const allFixes = `{"trafficParty", "dnsAuth", "domainAuth", "notifyAuth", "socksAuth"}`

// genFixes: the tree whose predicted outcomes travel with the behaviours (binding statistics only; the
// judge never sees them). Development knob: C11_MODEL_FIXES='{}' predicts the tree before patches/C11-*.
func genFixes() string {
	if f := os.Getenv("C11_MODEL_FIXES"); f != "" {
		return f
	}
	return allFixes
}

func job(name, sets, fixes string, cmds int, resp, emit bool) fw.TLCJob {
	b := map[bool]string{true: "TRUE", false: "FALSE"}
	j := fw.TLCJob{Name: name, Module: "Commands", Cfg: "Commands_mc.cfg", Workers: 4,
		Consts: map[string]string{"WVS": `{"base", "expired", "revoked", "inactive", "migrated", "migratedT"}`, "SETS": sets, "FIXES": fixes, "DEVS": "{}", "CMDS": strconv.Itoa(cmds), "RESP": b[resp], "EMIT": b[emit]}}
	if cmds >= 4 && !emit { // the exhaustive thorough-tier runs (about 13 million transitions): minutes, more on a loaded machine
		j.Workers, j.Timeout = 6, 25*time.Minute
	}
	return j
}

func concJob(name string, emit bool) fw.TLCJob {
	return fw.TLCJob{Name: name, Module: "CommandsConc", Cfg: "CommandsConc.cfg", Workers: 2,
		Consts: map[string]string{"POOLED": "FALSE", "EMIT": map[bool]string{true: "TRUE", false: "FALSE"}[emit]}}
}

// execJob: spec/CommandsExec.tla - one duplex command step by step. replay "none" is the code as it is,
// "conn+type+id" a per-connection response cache (accepted by the property: model-checked only).
func execJob(name, replay string, emit bool) fw.TLCJob {
	return fw.TLCJob{Name: name, Module: "CommandsExec", Cfg: "CommandsExec.cfg", Workers: 2,
		Consts: map[string]string{"REPLAY": strconv.Quote(replay), "EMIT": map[bool]string{true: "TRUE", false: "FALSE"}[emit]}}
}

const (
	serverSets  = `{"server", "special"}`
	librarySets = `{"library"}`
)

func main() {
	fw.Main(&fw.Property{
		ID:        "C11",
		DesignRef: "DESIGN.md §5 C11",
		ModelJobs: func(env *fw.Env) []fw.TLCJob {
			if env.Tier == "thorough" {
				return []fw.TLCJob{
					job("mc: server+special rows, 4 commands, CommandResp too, patched tree", serverSets, allFixes, 4, true, false),
					// (the tree before patches/C11-*: about twice the states of the patched one per command - 3 commands)
				job("mc: server+special rows, 3 commands, CommandResp too, unpatched tree (deviations masked)", serverSets, "{}", 3, true, false),
					job("mc: library rows, 4 commands, CommandResp too, patched tree", librarySets, allFixes, 4, true, false),
					job("mc: library rows, 4 commands, CommandResp too, unpatched tree (deviations masked)", librarySets, "{}", 4, true, false),
					concJob("mc: two duplex commands in flight, per-call contexts", false),
					execJob("mc: a duplex command step by step (replay lookup / identity / read / check / effect), nothing remembered", "none", false),
					execJob("mc: a duplex command step by step, responses remembered per connection", "conn+type+id", false),
				}
			}
			unp := job("mc: server+special rows, 2 commands, base world, unpatched tree (deviations masked)", serverSets, "{}", 2, false, false)
			unp.Consts["WVS"] = `{"base"}` // all world variants: thorough tier
			pat := job("mc: server+special rows, 2 commands, base and migrated world, patched tree", serverSets, allFixes, 2, false, false)
			pat.Consts["WVS"] = `{"base", "migrated"}`
			return []fw.TLCJob{
				pat,
				unp,
				job("mc: library rows, 3 commands, patched tree", librarySets, allFixes, 3, false, false),
				concJob("mc: two duplex commands in flight, per-call contexts", false),
				execJob("mc: a duplex command step by step (replay lookup / identity / read / check / effect), nothing remembered", "none", false),
				execJob("mc: a duplex command step by step, responses remembered per connection", "conn+type+id", false),
			}
		},
		GenJobs: func(env *fw.Env) []fw.TLCJob {
			thorough := env.Tier == "thorough"
			jobs := []fw.TLCJob{
				job("gen: server+special rows x auth states", serverSets, genFixes(), 1, thorough, true),
				job("gen: library rows x auth states", librarySets, genFixes(), 1, thorough, true),
			}
			// command sequences (the store evolves: generate / activate / delete / report ...), drawn at random
			num, depth := "num=150", 8
			if thorough {
				num, depth = "num=3000", 10
			}
			seq := job("gen: random command sequences", serverSets, genFixes(), 4, false, true)
			seq.Simulate, seq.Depth, seq.Seed, seq.Workers = num, depth, env.Seed, 1
			jobs = append(jobs, seq, concJob("gen: interleavings of two duplex commands (dispatch / timeout / storage return)", true),
				execJob("gen: two commands on two connections step by step (command id reused or not, across types, failing reads)", "none", true))
			if thorough {
				lib := job("gen: random command sequences, library rows", librarySets, genFixes(), 4, false, true)
				lib.Simulate, lib.Depth, lib.Seed, lib.Workers = "num=500", depth, env.Seed+1, 1
				jobs = append(jobs, lib)
			}
			return jobs
		},
		Expand: func(env *fw.Env, src string, raw json.RawMessage) []json.RawMessage {
			if !strings.Contains(src, "sequences") {
				return []json.RawMessage{raw}
			}
			// a simulation run prints every prefix; keep the sequences with at least two commands
			if strings.Count(string(raw), `"op":"Cmd"`) < 2 {
				return nil
			}
			return []json.RawMessage{raw}
		},
		MaxBehSrc: func(env *fw.Env, src string) int {
			if strings.Contains(src, "sequences") {
				if env.Tier == "thorough" {
					return 6000
				}
				return 300
			}
			return 0
		},
		Drive:       drive,
		Parallel:    48,
		JudgeModule: "CommandsTrace",
		JudgeCfg:    "CommandsTrace.cfg",
		SelfTest:    selfTest,
		PostDrive: func(env *fw.Env, ts []*fw.Trace) error {
			fmt.Printf("[binding] %d of %d driven commands differ from the outcome the implementation-shaped model predicts for Fixes = %s", bindMismatch.Load(), bindSteps.Load(), genFixes())
			if s := bindSample.Load(); s != nil && os.Getenv("VERIF_DEBUG") != "" {
				fmt.Printf("; e.g. %v", s)
			}
			fmt.Println()
			{
				var rows []string
				bindBy.Range(func(k, v any) bool {
					rows = append(rows, fmt.Sprintf("%v=%d", k, v.(*atomic.Int64).Load()))
					return true
				})
				sort.Strings(rows)
				if len(rows) > 0 {
					fmt.Printf("[binding] differing commands by policy row: %s\n", strings.Join(rows, " "))
				}
			}
			if os.Getenv("VERIF_DEBUG") != "" {
				fmt.Printf("[timing] runs=%d newRun=%v cmd=%v (snapshots %v)\n", nRuns.Load(), time.Duration(tNewRun.Load()), time.Duration(tCmd.Load()), time.Duration(tSnap.Load()))
			}
			for _, t := range ts {
				if t.Status == fw.DriverError {
					return fmt.Errorf("%s", t.Note)
				}
			}
			// every dispatched row must have been driven at least once
			driven := map[string]bool{}
			tables := 0
			for _, t := range ts {
				if t.Status != fw.Realised {
					continue
				}
				for _, e := range t.Events {
					switch e["ev"] {
					case "Cmd":
						driven[fmt.Sprint(e["ty"])] = true
					case "Table":
						tables++
					}
				}
			}
			if tables == 0 && len(ts) < 50 {
				return nil // replay of a few behaviours: no table comparison in this run
			}
			if tables < 2 {
				return fmt.Errorf("the command table of the real server was compared with the policy table for %d of 2 registry configurations", tables)
			}
			// a row classified "no demand" that nevertheless changed client-owned state or reached another
			// client is a stale row of the policy table: say so instead of staying silent
			for _, t := range ts {
				if t.Status != fw.Realised {
					continue
				}
				for _, ev := range t.Events {
					if ev["ev"] == "Cmd" && ev["conc"] == nil && freeRows[fmt.Sprint(ev["ty"])] && (len(ev["diff"].([]map[string]any)) > 0 || othersReached(ev)) {
						return fmt.Errorf("policy row %v is classified 'no demand' but the command changed client-owned state or reached another client: %v %v",
							ev["ty"], ev["diff"], ev["deliv"])
					}
				}
			}
			var miss []string
			for _, d := range discovered {
				for n := range d {
					if !driven[n] {
						miss = append(miss, n)
					}
				}
			}
			sort.Strings(miss)
			if len(miss) > 0 {
				return fmt.Errorf("dispatched command types without any driven behaviour: %v", miss)
			}
			return nil
		},
		NonTrivial: func(t *fw.Trace) bool {
			for _, e := range t.Events {
				if e["ev"] == "Cmd" {
					return true
				}
			}
			return false
		},
		Rule: "one behaviour per (authentication state of the actor connection, policy row, packet type, claimed identity fields / reused command id / failing storage read, named object, world history) transition of spec/Commands.tla " +
			"plus random command sequences, every interleaving of spec/CommandsConc.tla and every two-connection behaviour of spec/CommandsExec.tla, each replayed on a fresh real server assembly (and on a twin without identity fields); non-trivial = contains a command",
		Assumptions: []string{
			"the in-process server registers the same command handlers as Server.setupConnectionCodeCommands (srvkit.EnableCommands mirrors it and checks the source for drift); " +
				"the 'library' configuration additionally wires internal/command's own server-side handlers, which the server does not register today",
			"the policy table (spec/CommandsPolicy.tla) is our reading of the statement: server-wide read-only commands, replies matched by request id, stubs and the connection's own disconnect carry no demand",
			"who is a party to an object is read from the real store (ListenClientID / TargetClientID / owner fields)",
			"storage faults are injected in front of the reads (Get) of the named object's main record made by the command handlers' repositories and by the session layer's cloud-control adapter; other storage operations do not fail",
			"forwarded DNS requests are answered by the fake client at once; a command that does not return within 8 s makes the behaviour inconclusive",
		},
		TrustedBase: []string{"TLC", "spec/CommandsTrace.tla + CommandsPolicy.tla as the reading of the C11 statement", "srvkit fake transport and command wiring", "the driver's semantic store snapshot and delivery observation"},
	})
}
