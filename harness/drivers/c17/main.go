// C17 driver: "configured limits and quotas hold under concurrency".
//
// TLC-generated interleavings of n racing admissions at occupancy limit-1 (spec/Limits.tla) are
// forced on the real tunnox-core objects with the gate scheduler:
//
//	conncap    session.SessionManager.CreateConnection   gate = GetConnectionID() on the supplied reader
//	                                                      (called between the cap check and the map insert)
//	ctrlcap    session.ClientRegistry.Register           one lock section: one step per request
//	tuncap     session.TunnelRegistry.Register           one lock section: one step per request
//	maplimit   mapping.BaseMappingHandler (Start/acceptLoop/handleConnection) with a fake adapter and client
//	                                                      gate = verifhook.Point("mapping.quota.checked"),
//	                                                      slot held inside adapter.PrepareConnection
//	codequota  conncode.Service.CreateConnectionCode     gates = the storage operations of the store double
//	mapquota   conncode.Service.ActivateConnectionCode   (index read, record write, index append)
//
// Next to the racing admissions run the things that are not admissions but touch what the limit is counted on:
// list requests of the quota's owner (codequota: ListConnectionCodesByTargetClient, which prunes index entries;
// mapquota: ListOutboundMappings), closes of absent ids, and closes of a mapping connection's tunnel from outside the
// handler (fatal TunnelError / TunnelClosed notification / CloseTunnel) between RegisterTunnel and Tunnel.Start (seam:
// the tunnel manager's "registered tunnel" log line) and while it relays. Occupancy at the start is limit-slack
// (slack 1..3), so requests also race with more than one slot free.
//
// After every refusal: (a) the complete diff of what the refused request did to the store - every key it wrote
// (attributed by goroutine through the store double's Fault hook), not only the counted ones - resp. the registries,
// streams and the id manager's storage; (b) once everything has ended, room is made (an occupant closes, a counted code
// or mapping is revoked) and the same request is issued again - for a refused activation also by another client -
// and must not be turned away for any reason but the limit (model tail MakeRoom / Retry / RetryOther).
//
// plus a seeded free-running variant (all n released at once, jitter at the same gates). The recorded
// Admit/Refuse/Release/Obs events are judged by spec/LimitsTrace.tla.
package main

import (
	"context"
	"encoding/json"
	"errors"
	"fmt"
	"hash/fnv"
	"io"
	"net"
	"runtime"
	"sort"
	"strings"
	"sync"
	"sync/atomic"
	"time"

	"tunnox-core/internal/client/mapping"
	"tunnox-core/internal/client/tunnel"
	"tunnox-core/internal/cloud/models"
	"tunnox-core/internal/cloud/repos"
	"tunnox-core/internal/cloud/services"
	"tunnox-core/internal/config"
	coreerrors "tunnox-core/internal/core/errors"
	"tunnox-core/internal/core/idgen"
	corelog "tunnox-core/internal/core/log"
	"tunnox-core/internal/packet"
	"tunnox-core/internal/protocol/session"
	"tunnox-core/internal/stream"
	"tunnox-core/internal/verifhook"
	"tunnox-core/verifharness/doubles"
	"tunnox-core/verifharness/fw"
	"tunnox-core/verifharness/sched"
)

// ---- behaviours ---------------------------------------------------------------------------

type mstep struct {
	P int    `json:"p"`
	A string `json:"a"`
	W bool   `json:"w"` // model: after this step the request waits for the per-client quota mutex
	G int    `json:"g"` // model: request that obtained a quota mutex in this step (0 = nobody)
}

type mcfg struct {
	K     string `json:"k"`
	N     int    `json:"n"`
	Lim   int    `json:"lim"`
	Nodes int    `json:"nodes"`
	Tg    string `json:"tg,omitempty"`    // mapquota: the n activated codes were issued by the "same" target client or by n "distinct" ones
	Slack int    `json:"slack,omitempty"` // free slots at the start (occupancy = limit - slack); 0 = 1
	Var   string `json:"var,omitempty"`   // which code the model describes: none | asis | a faulty variant
	Key   string `json:"key,omitempty"`   // model only: client id the modelled code keys its quota mutex on ("owner" | "issuer")
}

type behaviour struct {
	Cfg    mcfg    `json:"cfg"`
	Over   bool    `json:"over"` // the model exceeds the limit in this behaviour
	Steps  []mstep `json:"steps"`
	Legacy bool    `json:"legacy,omitempty"` // generated from the model of the code as it was before the repairs
	Via    string  `json:"via,omitempty"`    // maplimit: limit configured on the "mapping" or through the "userquota"
	Free   bool    `json:"free,omitempty"`   // free-running variant
	Live   bool    `json:"live,omitempty"`   // free-running maplimit: admitted connections get a tunnel and stay open for a while
	Seed   int     `json:"seed,omitempty"`

	prefOver, prefSet bool // driver: the real occupancy exceeded the limit within the scheduled steps (before the drain)
}

// label names the limit in verdict details (and known-finding keys): quotas raced from two service
// instances are "-xnode"; mapping-handler behaviours in which a connection outlives handleConnection
// (it got its tunnel) are "maplive".
// tag = input class appended to the verdict detail
func (b *behaviour) tag() string {
	var t []string
	if b.Cfg.K == "mapquota" && b.Cfg.Tg == "distinct" {
		t = append(t, "distinctTargets")
	}
	if b.Cfg.Slack > 1 {
		t = append(t, fmt.Sprintf("slack=%d", b.Cfg.Slack)) // occupancy limit-slack at the start, requests arriving at different times
	}
	seen := map[string]bool{}
	for _, st := range b.Steps {
		switch {
		case st.A == "ReRelease" && !seen["reclose"]:
			seen["reclose"] = true
			t = append(t, "reclose") // history with a removal of an id that is not registered
		case st.A == "LList" && !seen["listed"]:
			seen["listed"] = true
			t = append(t, "listed") // a list request runs next to the creates
		case st.A == "PeerClose" && !seen["peerclose"]:
			seen["peerclose"] = true
			t = append(t, "peerclose") // a peer notification closes a tunnel between its registration and its start
		case st.A == "PeerCloseLive" && !seen["livepeerclose"]:
			seen["livepeerclose"] = true
			t = append(t, "livepeerclose") // a peer notification closes a tunnel that is relaying
		}
	}
	return strings.Join(t, ":")
}
func (b *behaviour) statKey() string {
	if t := b.tag(); t != "" {
		return b.label() + ":" + t
	}
	return b.label()
}
func (b *behaviour) label() string {
	if b.Cfg.Nodes > 1 {
		return b.Cfg.K + "-xnode"
	}
	if b.Cfg.K == "maplimit" {
		if b.Live {
			return "maplive"
		}
		for _, st := range b.Steps {
			if st.A == "GoLive" || st.A == "Detach" || st.A == "Register" {
				return "maplive"
			}
		}
	}
	return b.Cfg.K
}

type outcome struct {
	Admitted bool
	Refused  bool // refused because of the limit
	Err      string
}

// tracer: events are appended under one mutex, so file order is a real-time order.
type tracer struct {
	mu sync.Mutex
	ev []fw.Event
}

func (t *tracer) add(e fw.Event) {
	t.mu.Lock()
	t.ev = append(t.ev, e)
	t.mu.Unlock()
}

func (t *tracer) snapshot() []fw.Event {
	t.mu.Lock()
	defer t.mu.Unlock()
	return append([]fw.Event(nil), t.ev...)
}

func pname(p int) string { return fmt.Sprintf("p%d", p) }

// rig = the real object under test for one kind, plus the doubles around it.
type rig interface {
	preload(k int) error   // k occupants present before the race
	request(p int) outcome // the real API call of racing request p
	release(p int)         // an admitted request ends (kinds with direct release)
	rerelease(p int)       // removal of the id of request p although it is not registered (closed before, or never seen)
	occ() int              // occupancy read from the real object now (-1: not observable)
	snap(p int) []string   // semantic state, without what the other racing requests own
	probe() (want, got int, ok bool)
	// retry: everything has ended; make room (close an occupant / revoke a counted code or mapping) and issue the
	// refused request p again - mode "same": the same client, mode "other" (mapquota): another client whose own quota
	// is empty. tried = false: this kind has no such retry (or no room can be made).
	retry(p int, mode string) (ok bool, why string, tried bool)
	close()
}

// goid: id of the calling goroutine (test-only trick, as in harness/sched)
func goid() int64 {
	var buf [64]byte
	n := runtime.Stack(buf[:], false)
	f := strings.Fields(string(buf[:n]))
	if len(f) < 2 {
		return -1
	}
	var id int64
	fmt.Sscan(f[1], &id)
	return id
}

func whyOf(err error) string {
	if err == nil {
		return ""
	}
	if coreerrors.IsCode(err, coreerrors.CodeQuotaExceeded) || coreerrors.IsCode(err, coreerrors.CodeResourceExhausted) || strings.Contains(err.Error(), "limit reached") {
		return "limit"
	}
	if c := string(coreerrors.GetCode(err)); c != "" {
		return c
	}
	return "error"
}

const (
	clientT = int64(77777777) // target client (owner of the connection codes)
	clientL = int64(11111111) // listen client (owner of the mappings)
)

func racerOf(tag string) (int, bool) { // "p3" -> 3
	if len(tag) >= 2 && tag[0] == 'p' {
		n := 0
		for _, c := range tag[1:] {
			if c < '0' || c > '9' {
				return 0, false
			}
			n = n*10 + int(c-'0')
		}
		return n, true
	}
	return 0, false
}

// keep: is an item tagged `tag` part of the snapshot of request p? (everything but other racers' own items)
func keep(tag string, p int) bool {
	q, ok := racerOf(tag)
	return !ok || q == p
}

// ---- fake stream / conn ---------------------------------------------------------------------

type fakeStream struct {
	id      string
	closed  atomic.Bool
	onClose func(id string)
}

func (f *fakeStream) GetReader() io.Reader { return nil }
func (f *fakeStream) GetWriter() io.Writer { return nil }
func (f *fakeStream) ReadPacket() (*packet.TransferPacket, int, error) {
	return nil, 0, io.EOF
}
func (f *fakeStream) WritePacket(*packet.TransferPacket, bool, int64) (int, error) { return 0, nil }
func (f *fakeStream) ReadExact(int) ([]byte, error)                                { return nil, io.EOF }
func (f *fakeStream) WriteExact([]byte) error                                      { return nil }
func (f *fakeStream) Close() {
	if f.closed.CompareAndSwap(false, true) && f.onClose != nil {
		f.onClose(f.id)
	}
}

var _ stream.PackageStreamer = (*fakeStream)(nil)

// idConn is the reader/writer handed to CreateConnection: GetConnectionID is the seam between the
// cap check and the map insert.
type idConn struct {
	id     string
	s      *sched.Sched
	closed chan struct{}
	once   sync.Once
}

func newIDConn(id string, s *sched.Sched) *idConn {
	return &idConn{id: id, s: s, closed: make(chan struct{})}
}
func (c *idConn) Read(b []byte) (int, error)  { <-c.closed; return 0, io.EOF }
func (c *idConn) Write(b []byte) (int, error) { return len(b), nil }
func (c *idConn) Close() error                { c.once.Do(func() { close(c.closed) }); return nil }
func (c *idConn) GetConnectionID() string {
	c.s.Gate("conn.id", nil)
	return c.id
}

// ---- conncap ----------------------------------------------------------------------------------

type connRig struct {
	s      *sched.Sched
	sm     *session.SessionManager
	cancel context.CancelFunc
	ids    *doubles.Store // storage of the id manager
}

func newConnRig(b *behaviour, s *sched.Sched) *connRig {
	ctx, cancel := context.WithCancel(context.Background())
	ids := doubles.NewStore("ids", nil)
	idm := idgen.NewIDManager(ids, ctx)
	sm := session.NewSessionManagerWithConfig(idm, ctx, &session.SessionConfig{
		HeartbeatTimeout: time.Hour, CleanupInterval: time.Hour, MaxConnections: b.Cfg.Lim})
	return &connRig{s: s, sm: sm, cancel: cancel, ids: ids}
}
func (r *connRig) preload(k int) error {
	for i := 1; i <= k; i++ {
		c := newIDConn(fmt.Sprintf("o%d", i), nil)
		if _, err := r.sm.CreateConnection(c, c); err != nil {
			return err
		}
	}
	return nil
}
func (r *connRig) request(p int) outcome {
	c := newIDConn(pname(p), r.s)
	_, err := r.sm.CreateConnection(c, c)
	switch {
	case err == nil:
		return outcome{Admitted: true}
	case coreerrors.IsCode(err, coreerrors.CodeQuotaExceeded):
		return outcome{Refused: true, Err: err.Error()}
	}
	return outcome{Err: err.Error()}
}
func (r *connRig) release(p int)   { r.sm.CloseConnection(pname(p)) }
func (r *connRig) rerelease(p int) { r.sm.CloseConnection(pname(p)) }

// occ: the live connections, read two ways (ListConnections, GetConnectionStats)
func (r *connRig) occ() int {
	n := len(r.sm.ListConnections())
	if t := r.sm.GetConnectionStats().TotalConnections; t > n {
		n = t
	}
	return n
}
func (r *connRig) snap(p int) []string {
	var out []string
	for _, c := range r.sm.ListConnections() {
		if keep(c.ID, p) {
			out = append(out, "conn:"+c.ID)
		}
	}
	for _, id := range r.sm.GetStreamManager().ListStreams() {
		if keep(id, p) {
			out = append(out, "stream:"+id)
		}
	}
	// everything else a refused CreateConnection could leave behind: the two registries, the id manager's storage
	st := r.sm.GetConnectionStats()
	out = append(out, fmt.Sprintf("registries:control=%d:tunnel=%d", st.ControlConnections, st.TunnelConnections))
	for k := range r.ids.Snapshot("") {
		out = append(out, "idstore:"+k)
	}
	sort.Strings(out)
	return out
}
func (r *connRig) probe() (int, int, bool) { return 0, 0, false }
func (r *connRig) retry(p int, mode string) (bool, string, bool) {
	if r.sm.GetConnectionStats().MaxConnections <= 0 {
		return false, "", false
	}
	lim := r.sm.GetConnectionStats().MaxConnections
	for _, c := range r.sm.ListConnections() { // room: live connections close until one slot is free
		if len(r.sm.ListConnections()) < lim {
			break
		}
		r.sm.CloseConnection(c.ID)
	}
	c := newIDConn(pname(p), nil)
	_, err := r.sm.CreateConnection(c, c)
	return err == nil, whyOf(err), true
}
func (r *connRig) close() {
	r.cancel()
	r.sm.Close()
}

// ---- ctrlcap / tuncap -------------------------------------------------------------------------

type regRig struct {
	tr      *tracer
	s       *sched.Sched
	ctrl    *session.ClientRegistry
	tun     *session.TunnelRegistry
	mu      sync.Mutex
	streams map[string]*fakeStream
	base    time.Time
	seq     int
	lim     int
}

func newRegRig(b *behaviour, s *sched.Sched, tr *tracer) *regRig {
	r := &regRig{tr: tr, s: s, streams: map[string]*fakeStream{}, base: time.Now().Add(-time.Hour), lim: b.Cfg.Lim}
	if b.Cfg.K == "ctrlcap" {
		r.ctrl = session.NewClientRegistry(&session.ClientRegistryConfig{MaxConnections: b.Cfg.Lim})
	} else {
		r.tun = session.NewTunnelRegistry(&session.TunnelRegistryConfig{MaxTunnels: b.Cfg.Lim})
	}
	return r
}

// ClientRegistry closes the stream of a connection it evicts or removes: the one call into an object
// of ours that Register makes inside its lock section, hence a seam (a racing request evicting the
// oldest connection parks here, holding the registry lock; free-running: a random delay).
// Occupancy of the control registry is judged on Count() readings only (Obs): the instant at which
// the evicted connection leaves the map is not observable from here.
func (r *regRig) onClose(id string) {
	r.s.Gate(closeGate, nil)
}
func (r *regRig) register(id string) error {
	r.mu.Lock()
	fs := &fakeStream{id: id}
	if r.ctrl != nil {
		fs.onClose = r.onClose
	}
	r.streams[id] = fs
	r.seq++
	created := r.base.Add(time.Duration(r.seq) * time.Second) // distinct ages: registration order
	r.mu.Unlock()
	if r.ctrl != nil {
		c := session.NewControlConnection(id, fs, nil, "tcp")
		c.CreatedAt = created
		return r.ctrl.Register(c)
	}
	c := session.NewTunnelConnection(id, fs, nil, "tcp")
	c.TunnelID = "t-" + id // the by-tunnel-id index is part of the registry's state
	return r.tun.Register(c)
}
func (r *regRig) preload(k int) error {
	for i := 1; i <= k; i++ {
		if err := r.register(fmt.Sprintf("o%d", i)); err != nil {
			return err
		}
	}
	return nil
}
func (r *regRig) request(p int) outcome {
	err := r.register(pname(p))
	switch {
	case err == nil:
		return outcome{Admitted: true}
	case coreerrors.IsCode(err, coreerrors.CodeResourceExhausted) || strings.Contains(err.Error(), "limit reached"):
		return outcome{Refused: true, Err: err.Error()}
	}
	return outcome{Err: err.Error()}
}
func (r *regRig) release(p int) {
	if r.ctrl != nil {
		r.ctrl.Remove(pname(p))
		return
	}
	r.tr.add(fw.Event{"ev": "Release", "p": pname(p), "old": false})
	r.tun.Remove(pname(p))
}
func (r *regRig) rerelease(p int) {
	if r.ctrl != nil {
		r.ctrl.Remove(pname(p))
		return
	}
	r.tun.Remove(pname(p))
}
func (r *regRig) occ() int {
	if r.ctrl != nil {
		return r.ctrl.Count()
	}
	return r.tun.Count()
}
func (r *regRig) snap(p int) []string {
	var out []string
	if r.ctrl != nil {
		for _, c := range r.ctrl.List() {
			if keep(c.ConnID, p) {
				out = append(out, "ctrl:"+c.ConnID)
			}
		}
	} else {
		for _, c := range r.tun.List() {
			if keep(c.ConnID, p) {
				out = append(out, "tunnel:"+c.ConnID)
			}
		}
		r.mu.Lock()
		for id := range r.streams {
			if keep(id, p) && r.tun.GetByTunnelID("t-"+id) != nil {
				out = append(out, "bytunnel:"+id)
			}
		}
		r.mu.Unlock()
	}
	r.mu.Lock()
	for id, fs := range r.streams {
		if keep(id, p) && fs.closed.Load() {
			out = append(out, "closed:"+id)
		}
	}
	r.mu.Unlock()
	sort.Strings(out)
	return out
}
func (r *regRig) probe() (int, int, bool) { return 0, 0, false }
func (r *regRig) retry(p int, mode string) (bool, string, bool) {
	if r.tun == nil || r.lim <= 0 { // the control registry evicts instead of refusing
		return false, "", false
	}
	for _, c := range r.tun.List() {
		if r.tun.Count() < r.lim {
			break
		}
		r.tun.Remove(c.ConnID)
	}
	err := r.register(pname(p))
	return err == nil, whyOf(err), true
}
func (r *regRig) close() {}

// evictedGone: an evicted control connection must really be gone (lookup) and closed. Returns a
// description of what is wrong, or "".
func (r *regRig) evictedGone() string {
	if r.ctrl == nil {
		return ""
	}
	r.mu.Lock()
	defer r.mu.Unlock()
	for id, fs := range r.streams {
		if fs.closed.Load() && r.ctrl.GetByConnID(id) != nil {
			return "closed connection " + id + " still registered"
		}
	}
	return ""
}

// ---- maplimit ---------------------------------------------------------------------------------

// The verifhook handler is process-global: behaviours of kind maplimit run one at a time (hookMu)
// and the handler routes to the rig of the running one.
var (
	hookMu         sync.Mutex
	curMapRig      atomic.Pointer[mapRig]
	leaksConfirmed atomic.Int32
	hookSeen       atomic.Int64 // times the hook point was reached (0 = the point is absent from this tree)
	closeGate      = "stream.Close"
	hookPoint      = "mapping.quota.checked"
	prepareGat     = "adapter.Prepare"
	regGate        = "tunnel.registered"
)

type fconn struct {
	r        *mapRig
	p        int    // racer number, 0 for occupants / probes
	name     string // sched process name
	hold     chan struct{}
	done     chan struct{}
	reading  chan struct{} // closed at the first Read: the tunnel's copy loop runs, handleConnection is returning
	once     sync.Once
	readOnce sync.Once
	relOnce  sync.Once
	prepared atomic.Bool
	goLive   atomic.Bool   // leave PrepareConnection successfully: the connection gets a tunnel and stays open
	atReg    atomic.Bool   // its handler reached the point "tunnel registered, not started yet"
	regLeft  chan struct{} // closed when the handler goes on from there
	regOnce  sync.Once
	tunnelID atomic.Value // string: id of its tunnel (known once registered)
	touched  atomic.Int32 // reads/writes by the handler
}

func (r *mapRig) newConn(p int) *fconn {
	c := &fconn{r: r, p: p, done: make(chan struct{}), reading: make(chan struct{}), regLeft: make(chan struct{})}
	if p > 0 {
		c.name = pname(p)
	}
	return c
}
func (c *fconn) Read(b []byte) (int, error) {
	c.touched.Add(1)
	c.readOnce.Do(func() { close(c.reading) })
	<-c.done
	return 0, io.EOF
}
func (c *fconn) Write(b []byte) (int, error) { c.touched.Add(1); return len(b), nil }

// logRelease: the connection is about to end (logged before its slot can be freed)
func (c *fconn) logRelease() {
	if c.p > 0 && c.prepared.Load() {
		c.relOnce.Do(func() { c.r.tr.add(fw.Event{"ev": "Release", "p": c.name, "old": false}) })
	}
}
func (c *fconn) Close() error {
	c.logRelease()
	c.once.Do(func() { close(c.done) })
	return nil
}

// ftunnel is the tunnel a successful DialTunnel hands out: the peer sends nothing and closes when it
// sees our half-close.
type ftunnel struct {
	fakeStream
	eof  chan struct{}
	once sync.Once
}

func (t *ftunnel) end()                        { t.once.Do(func() { close(t.eof) }) }
func (t *ftunnel) Read(b []byte) (int, error)  { <-t.eof; return 0, io.EOF }
func (t *ftunnel) Write(b []byte) (int, error) { return len(b), nil }
func (t *ftunnel) CloseWrite() error           { t.end(); return nil }
func (t *ftunnel) GetReader() io.Reader        { return t }
func (t *ftunnel) GetWriter() io.Writer        { return t }
func (t *ftunnel) Close()                      { t.end() }

type timeoutErr struct{}

func (timeoutErr) Error() string { return "accept timeout" }
func (timeoutErr) Timeout() bool { return true }

type mapRig struct {
	b       *behaviour
	s       *sched.Sched
	tr      *tracer
	free    bool
	h       *mapping.BaseMappingHandler
	ctx     context.Context
	cancel  context.CancelFunc
	accept  chan *fconn
	stop    chan struct{}
	stopOne sync.Once
	feeding atomic.Pointer[string]
	cur     atomic.Pointer[fconn] // scheduled mode: the connection whose handler is being stepped
	inPrep  atomic.Int32
	holders []*fconn
	cmu     sync.Mutex
	conns   map[int]*fconn
	dials   atomic.Int32
	jitter  func()
	quota   int
}

// adapter
func (r *mapRig) StartListener(config.MappingConfig) error { return nil }
func (r *mapRig) Accept() (io.ReadWriteCloser, error) {
	select {
	case c := <-r.accept:
		return c, nil
	case <-r.stop:
		return nil, errors.New("listener closed")
	case <-time.After(200 * time.Millisecond):
		return nil, timeoutErr{}
	}
}
func (r *mapRig) PrepareConnection(conn io.ReadWriteCloser) error {
	c := conn.(*fconn)
	c.prepared.Store(true)
	r.inPrep.Add(1) // the handler holds its slot from before this call until after it returns
	if c.p > 0 {
		r.tr.add(fw.Event{"ev": "Admit", "p": c.name})
	}
	switch {
	case c.hold != nil:
		<-c.hold
	case r.free:
		r.jitter()
	default:
		r.s.Alias(c.name)
		r.s.Gate(prepareGat, nil)
	}
	if c.goLive.Load() || (r.free && r.b.Live && c.p > 0) {
		r.inPrep.Add(-1)
		return nil // on to CheckMappingQuota, DialTunnel, Tunnel.Start; handleConnection then returns
	}
	c.logRelease()
	r.inPrep.Add(-1)
	return errors.New("verif: connection ends here")
}
func (r *mapRig) GetProtocol() string { return "tcp" }
func (r *mapRig) Close() error        { r.stopOne.Do(func() { close(r.stop) }); return nil }

// client
func (r *mapRig) DialTunnel(string, string, string) (net.Conn, stream.PackageStreamer, error) {
	r.dials.Add(1)
	return nil, &ftunnel{eof: make(chan struct{})}, nil
}
func (r *mapRig) DialTunnelPooled(string, string) (mapping.PooledTunnelConnInterface, error) {
	return nil, nil
}
func (r *mapRig) ReturnTunnelToPool(mapping.PooledTunnelConnInterface)  {}
func (r *mapRig) CloseTunnelFromPool(mapping.PooledTunnelConnInterface) {}
func (r *mapRig) IsTunnelPoolEnabled() bool                             { return false }
func (r *mapRig) GetContext() context.Context                           { return r.ctx }
func (r *mapRig) CheckMappingQuota(string) error                        { return nil }
func (r *mapRig) TrackTraffic(string, int64, int64) error               { return nil }
func (r *mapRig) GetUserQuota() (*models.UserQuota, error) {
	return &models.UserQuota{MaxConnections: r.quota}, nil
}
func (r *mapRig) GetServerProtocol() string                                 { return "tcp" }
func (r *mapRig) SendTunnelCloseNotify(int64, string, string, string) error { return nil }

// atRegistered: the handler of a connection has registered its tunnel with the tunnel manager and is about
// to start it (seam: the tunnel manager's log line, written through the logger the driver installed).
func (r *mapRig) atRegistered(args []interface{}) {
	if r.free {
		r.jitter()
		r.jitter()
		return
	}
	c := r.cur.Load()
	if c == nil {
		return
	}
	if len(args) >= 2 {
		c.tunnelID.Store(fmt.Sprint(args[1]))
	}
	c.atReg.Store(true)
	r.s.Alias(c.name)
	r.s.Gate(regGate, nil)
	c.regOnce.Do(func() { close(c.regLeft) })
}

// peerClose closes the tunnel of connection p from outside the handler, through one of the routes the client
// has for it: a fatal TunnelError notification, a TunnelClosed notification, or CloseTunnel on the manager.
func (r *mapRig) peerClose(p int, route int) bool {
	c := r.conn(p)
	if c == nil {
		return false
	}
	id, _ := c.tunnelID.Load().(string)
	if id == "" {
		return false
	}
	closeVia(r.h.GetTunnelManager(), id, route)
	return true
}

func closeVia(tm tunnel.TunnelManager, id string, route int) {
	switch route % 3 {
	case 0:
		tm.OnTunnelError(id, "pmap_verif", "TARGET_UNREACHABLE", "verif: target unreachable", false)
	case 1:
		tm.OnTunnelClosed(id, "pmap_verif", "peer_closed", 0, 0, 1)
	default:
		_ = tm.CloseTunnel(id, tunnel.CloseReasonPeerClosed)
	}
}

func (r *mapRig) atHook() {
	hookSeen.Add(1)
	if r.free {
		r.jitter()
		return
	}
	if n := r.feeding.Load(); n != nil && *n != "" {
		r.s.Alias(*n)
		r.s.Gate(hookPoint, nil)
	}
}

func newMapRig(b *behaviour, s *sched.Sched, tr *tracer, free bool, jitter func()) *mapRig {
	r := &mapRig{b: b, s: s, tr: tr, free: free, accept: make(chan *fconn), stop: make(chan struct{}), jitter: jitter, conns: map[int]*fconn{}}
	r.ctx, r.cancel = context.WithCancel(context.Background())
	mc := config.MappingConfig{MappingID: "pmap_verif", Protocol: "tcp", LocalPort: 18080, TargetHost: "127.0.0.1", TargetPort: 80}
	if b.Via == "userquota" {
		r.quota = b.Cfg.Lim
	} else {
		mc.MaxConnections = b.Cfg.Lim
	}
	r.h = mapping.NewBaseMappingHandler(r, mc, r)
	return r
}
func (r *mapRig) start() error { return r.h.Start() }

// feed hands a connection to the accept loop and waits until the handler is inside
// PrepareConnection (admitted) or has closed it (refused).
func (r *mapRig) feedHeld(timeout time.Duration) (*fconn, bool) {
	c := r.newConn(0)
	c.hold = make(chan struct{})
	select {
	case r.accept <- c:
	case <-time.After(timeout):
		return c, false
	}
	deadline := time.Now().Add(timeout)
	for time.Now().Before(deadline) {
		if c.prepared.Load() {
			return c, true
		}
		select {
		case <-c.done:
			return c, false
		default:
		}
		time.Sleep(50 * time.Microsecond)
	}
	return c, false
}
func (r *mapRig) preload(k int) error {
	for i := 0; i < k; i++ {
		c, ok := r.feedHeld(2 * time.Second)
		if !ok {
			return fmt.Errorf("occupant %d was not admitted", i+1)
		}
		r.holders = append(r.holders, c)
	}
	return nil
}
func (r *mapRig) request(p int) outcome {
	c := r.newConn(p)
	r.cmu.Lock()
	r.conns[p] = c
	r.cmu.Unlock()
	select {
	case r.accept <- c:
	case <-time.After(5 * time.Second):
		return outcome{Err: "accept loop did not take the connection"}
	}
	select {
	case <-c.done:
		if c.atReg.Load() { // closed by a peer notification while its handler is parked before Tunnel.Start
			select {
			case <-c.regLeft:
				time.Sleep(100 * time.Microsecond) // Start fails, the handler returns, its deferred release runs
			case <-time.After(20 * time.Second):
				return outcome{Err: "handler did not leave the registered gate"}
			}
		}
	case <-c.reading: // relayed through its tunnel from now on
	case <-time.After(20 * time.Second):
		return outcome{Err: "handler did not finish"}
	}
	if c.prepared.Load() {
		return outcome{Admitted: true}
	}
	if c.touched.Load() != 0 {
		return outcome{Refused: true, Err: "touched"}
	}
	return outcome{Refused: true}
}
func (r *mapRig) conn(p int) *fconn {
	r.cmu.Lock()
	defer r.cmu.Unlock()
	return r.conns[p]
}

// release ends a connection that is being relayed: the local application closes it
func (r *mapRig) release(p int) {
	if c := r.conn(p); c != nil {
		c.Close()
	}
}
func (r *mapRig) rerelease(p int) {}
func (r *mapRig) endAll() {
	r.cmu.Lock()
	var cs []*fconn
	for _, c := range r.conns {
		cs = append(cs, c)
	}
	r.cmu.Unlock()
	for _, c := range cs {
		if c.prepared.Load() {
			c.Close()
		}
	}
}
func (r *mapRig) occ() int { return -1 }

// snap: nothing a refused connection may leave behind is readable from outside the handler except
// through its own connection object (request reports reads/writes on it) and the slot count (probe).
func (r *mapRig) snap(p int) []string { return []string{} }

// probe: once every racing request has ended, exactly the slots not held by the occupants are free.
func (r *mapRig) probe() (int, int, bool) {
	if r.b.Cfg.Lim == 0 {
		return 0, 0, false
	}
	r.endAll()
	want := r.b.Cfg.Lim - len(r.holders)
	var held []*fconn
	// a slot may come back a little after the connection ended (deferred decrement, tunnel close callback):
	// wait generously. Once a few leaks were confirmed with the full margin the verdict cannot change any
	// more, and waiting 3 s for every further leaking behaviour would only burn the time budget.
	wait := 3 * time.Second
	if leaksConfirmed.Load() >= 3 {
		wait = 30 * time.Millisecond
	}
	defer func() {
		if len(held) < want && wait > time.Second {
			leaksConfirmed.Add(1)
		}
	}()
	deadline := time.Now().Add(wait)
	for len(held) < want && time.Now().Before(deadline) {
		c, ok := r.feedHeld(time.Second)
		if ok {
			held = append(held, c)
			continue
		}
		time.Sleep(500 * time.Microsecond) // the deferred decrement of a finished handler may lag its Close
	}
	got := len(held)
	if got == want {
		// ... and not one more: the occupants, these and a further connection would be inside PrepareConnection
		// at the same time (a counter that ended up too low admits it)
		if c, ok := r.feedHeld(300 * time.Millisecond); ok {
			held = append(held, c)
			r.tr.add(fw.Event{"ev": "Obs", "n": len(r.holders) + len(held), "why": "probe: connections held simultaneously"})
		}
	}
	for _, c := range held {
		close(c.hold)
	}
	return want, got, true
}

// retry: the probe above is this kind's retry (after every connection ended, exactly the free slots are admitted again)
func (r *mapRig) retry(p int, mode string) (bool, string, bool) { return false, "", false }
func (r *mapRig) close() {
	r.endAll()
	for _, c := range r.holders {
		close(c.hold)
	}
	r.h.Stop()
	r.cancel()
}

// ---- codequota / mapquota ---------------------------------------------------------------------

type quotaRig struct {
	b      *behaviour
	st     *doubles.Store
	svc    []*services.ConnectionCodeService
	ccRepo *repos.ConnectionCodeRepository
	cancel context.CancelFunc
	codes  map[int]string
	wmu    sync.Mutex
	writes []wrec // every mutating storage operation, with the goroutine that issued it
}

// wrec: one mutating storage operation (recorded through the store double's Fault hook, which runs in the caller's
// goroutine right before the operation executes)
type wrec struct {
	g   int64
	op  string
	key string
	arg string // JSON of the argument
}

const clientL2 = int64(22222222) // another listen client, with no mappings of its own

func js(v any) string {
	b, err := json.Marshal(v)
	if err != nil {
		return fmt.Sprint(v)
	}
	return string(b)
}

// keyClass: a storage key without its last segment (the id) - the key class named in verdict details
func keyClass(k string) string {
	if i := strings.LastIndex(k, ":"); i > 0 {
		return k[:i]
	}
	return k
}

func (r *quotaRig) mark() int {
	r.wmu.Lock()
	defer r.wmu.Unlock()
	return len(r.writes)
}

// leftovers: the complete diff of the store for one request. The request ran in goroutine g between the full
// snapshots before and after; since `from` it issued the mutating operations mine, other goroutines (racing requests,
// list requests) issued others. Every key the request wrote to is compared - not only the counted ones:
//   - a plain key nobody else wrote in that window: value before vs value after (a key that came or went counts);
//   - a list: the items this request appended that are still there / removed that are still gone (other requests
//     append to the same indexes). Removing an index entry that has no record is not a change (DESIGN.md appendix B).
// Returns the key classes of what was left behind.
func (r *quotaRig) leftovers(g int64, from int, before, after map[string]any) []string {
	r.wmu.Lock()
	ws := append([]wrec(nil), r.writes[from:]...)
	r.wmu.Unlock()
	mineKeys := map[string][]wrec{}
	others := map[string]bool{}
	for _, w := range ws {
		if w.g == g {
			mineKeys[w.key] = append(mineKeys[w.key], w)
		} else {
			others[w.key] = true
		}
	}
	isList := func(v any) ([]any, bool) { l, ok := v.([]any); return l, ok }
	has := func(l []any, item string) bool {
		for _, x := range l {
			if js(x) == item {
				return true
			}
		}
		return false
	}
	left := map[string]bool{}
	for k, ops := range mineKeys {
		bv, bok := before[k]
		av, aok := after[k]
		bl, bIsL := isList(bv)
		al, aIsL := isList(av)
		if bIsL || aIsL || ops[0].op == "AppendToList" || ops[0].op == "RemoveFromList" {
			for _, w := range ops {
				switch w.op {
				case "AppendToList":
					if has(al, w.arg) && !has(bl, w.arg) {
						left[keyClass(k)+"[+]"] = true
					}
				case "RemoveFromList":
					if has(bl, w.arg) && !has(al, w.arg) {
						var id string
						if json.Unmarshal([]byte(w.arg), &id) == nil && (k == idxCodes) {
							if _, rec := before[pfxCodeID+id]; !rec {
								continue // pruned a dangling index entry
							}
						}
						left[keyClass(k)+"[-]"] = true
					}
				default:
					if !others[k] && js(bv) != js(av) {
						left[keyClass(k)] = true
					}
				}
			}
			continue
		}
		if others[k] {
			continue
		}
		if bok != aok || js(bv) != js(av) {
			left[keyClass(k)] = true
		}
	}
	var out []string
	for k := range left {
		out = append(out, k)
	}
	sort.Strings(out)
	return out
}

var (
	idxCodes  = "tunnox:index:conncode:target:" + fmt.Sprint(clientT)
	idxMapL   = "tunnox:client_mappings:" + fmt.Sprint(clientL)
	pfxCode   = "tunnox:runtime:conncode:code:"
	pfxCodeID = "tunnox:runtime:conncode:id:"
	pfxMap    = "tunnox:port_mapping:"
)

func newQuotaRig(b *behaviour, s *sched.Sched) *quotaRig {
	ctx, cancel := context.WithCancel(context.Background())
	r := &quotaRig{b: b, cancel: cancel, codes: map[int]string{}}
	r.st = doubles.NewStore("sd", s)
	r.st.Fault = func(c *doubles.Call) error { // observer only: who writes what
		if c.Write {
			w := wrec{g: goid(), op: c.Op, key: c.Key, arg: js(c.Arg)}
			r.wmu.Lock()
			r.writes = append(r.writes, w)
			r.wmu.Unlock()
		}
		return nil
	}
	if b.Cfg.K == "codequota" {
		r.st.GateOn = func(op, key string) bool {
			return (op == "GetList" && key == idxCodes) || (op == "Set" && strings.HasPrefix(key, pfxCode)) || (op == "AppendToList" && key == idxCodes) ||
				(op == "RemoveFromList" && key == idxCodes)
		}
	} else {
		r.st.GateOn = func(op, key string) bool {
			return (op == "GetList" && key == idxMapL) || (op == "Set" && strings.HasPrefix(key, pfxMap)) || (op == "AppendToList" && key == idxMapL) ||
				(op == "RemoveFromList" && key == idxMapL)
		}
	}
	cfg := &services.ConnectionCodeServiceConfig{MaxActiveCodesPerClient: 1000, MaxActiveMappingsPerClient: 1000}
	if b.Cfg.K == "codequota" {
		cfg.MaxActiveCodesPerClient = b.Cfg.Lim
	} else {
		cfg.MaxActiveMappingsPerClient = b.Cfg.Lim
	}
	for i := 0; i < b.Cfg.Nodes; i++ { // service instances ("nodes") over one shared store
		repo := repos.NewRepository(r.st)
		cc := repos.NewConnectionCodeRepository(repo)
		pm := repos.NewPortMappingRepo(repo)
		idm := idgen.NewIDManager(r.st, ctx)
		pms := services.NewPortMappingService(pm, idm, nil, ctx)
		c := *cfg
		r.svc = append(r.svc, services.NewConnectionCodeService(cc, pms, pm, &c, ctx))
		if i == 0 {
			r.ccRepo = cc
		}
	}
	return r
}
func (r *quotaRig) node(p int) *services.ConnectionCodeService {
	if len(r.svc) == 1 {
		return r.svc[0]
	}
	return r.svc[p%2] // Limits.tla: Node(p) = 1 + (p % 2)
}

// issuer of the code racing request p activates. The mapping quota belongs to the LISTEN client; the
// codes come from one target client or from n different ones whose ids differ modulo any shard count
// up to 64 and beyond (consecutive ids).
func (r *quotaRig) issuer(p int) int64 {
	if r.b.Cfg.K == "mapquota" && r.b.Cfg.Tg == "distinct" {
		return clientT + int64(p)
	}
	return clientT
}
func (r *quotaRig) putCode(tag string, target int64) (string, error) {
	now := time.Now()
	code := "vc-" + tag
	err := r.ccRepo.Create(&models.TunnelConnectionCode{ID: "conncode_" + tag, Code: code, TargetClientID: target,
		TargetAddress: fmt.Sprintf("tcp://10.0.0.5:%d", 8000+len(tag)+int(target%7)), ActivationTTL: time.Hour, MappingDuration: time.Hour, CreatedAt: now,
		ActivationExpiresAt: now.Add(time.Hour), CreatedBy: "verif", Description: tag})
	return code, err
}
func portOf(tag string) int {
	if p, ok := racerOf(tag); ok {
		return 9000 + p
	}
	n := 0
	fmt.Sscanf(tag, "o%d", &n)
	return 8000 + n
}
func tagOfPort(port int) string {
	if port >= 9000 {
		return pname(port - 9000)
	}
	return fmt.Sprintf("o%d", port-8000)
}
func (r *quotaRig) preload(k int) error {
	// a dangling index entry: counting prunes it, which is not a semantic change (DESIGN.md appendix B)
	if r.b.Cfg.K == "codequota" {
		if r.b.Free { // (scheduled runs: pruning is a gated step of the list request, keep the index clean)
			if err := r.st.AppendToList(idxCodes, "conncode_gone"); err != nil {
				return err
			}
		}
		for i := 1; i <= k; i++ {
			if _, err := r.putCode(fmt.Sprintf("o%d", i), clientT); err != nil {
				return err
			}
		}
		return nil
	}
	for i := 1; i <= k; i++ {
		tag := fmt.Sprintf("o%d", i)
		code, err := r.putCode(tag, clientT+100+int64(i)) // occupants: mappings of the listen client from yet other issuers
		if err != nil {
			return err
		}
		if _, err := r.svc[0].ActivateConnectionCode(&services.ActivateConnectionCodeRequest{Code: code, ListenClientID: clientL,
			ListenAddress: fmt.Sprintf("0.0.0.0:%d", portOf(tag))}); err != nil {
			return err
		}
	}
	for p := 1; p <= r.b.Cfg.N; p++ {
		code, err := r.putCode(pname(p), r.issuer(p))
		if err != nil {
			return err
		}
		r.codes[p] = code
	}
	return nil
}
// call: the request of racer p (mapquota: issued by listen client `as`)
func (r *quotaRig) call(p int, as int64) error {
	var err error
	if r.b.Cfg.K == "codequota" {
		// the quota is the target client's: the same client in every racing request, everything else differs
		_, err = r.node(p).CreateConnectionCode(&services.CreateConnectionCodeRequest{TargetClientID: clientT,
			TargetAddress: fmt.Sprintf("tcp://10.0.%d.5:%d", p, 8080+p), ActivationTTL: time.Duration(p) * time.Hour,
			MappingDuration: time.Duration(24*p) * time.Hour, Description: pname(p), CreatedBy: "user-" + pname(p)})
	} else {
		_, err = r.node(p).ActivateConnectionCode(&services.ActivateConnectionCodeRequest{Code: r.codes[p], ListenClientID: as,
			ListenAddress: fmt.Sprintf("0.0.0.0:%d", portOf(pname(p)))})
	}
	return err
}

// retry: room is made by revoking counted codes / mappings of the quota's owner until one slot is free; then the
// same request again. mapquota, mode "other": the same code activated by another client (no room needed).
func (r *quotaRig) retry(p int, mode string) (bool, string, bool) {
	lim := r.b.Cfg.Lim
	if lim <= 0 {
		return false, "", false // limit 0 refuses everything: no room can be made
	}
	if r.b.Cfg.K == "mapquota" && mode == "other" {
		err := r.call(p, clientL2+int64(p)) // a different other client per request: each has an empty quota
		return err == nil, whyOf(err), true
	}
	if r.b.Cfg.K == "codequota" {
		for _, c := range r.codesNow() {
			if r.occ() < lim {
				break
			}
			if c.TargetClientID == clientT && c.IsValidForActivation() {
				if err := r.svc[0].RevokeConnectionCode(c.Code, "verif"); err != nil {
					return false, "", false
				}
			}
		}
	} else {
		for _, m := range r.mapsNow() {
			if r.occ() < lim {
				break
			}
			if m.ListenClientID == clientL && m.Status == models.MappingStatusActive && !m.IsRevoked && !m.IsExpired() {
				if err := r.svc[0].RevokeMapping(m.ID, clientL, "verif"); err != nil {
					return false, "", false
				}
			}
		}
	}
	if r.occ() >= lim {
		return false, "", false
	}
	err := r.call(p, clientL)
	return err == nil, whyOf(err), true
}

func (r *quotaRig) request(p int) outcome {
	err := r.call(p, clientL)
	switch {
	case err == nil:
		return outcome{Admitted: true}
	case coreerrors.IsCode(err, coreerrors.CodeQuotaExceeded):
		return outcome{Refused: true, Err: err.Error()}
	}
	return outcome{Err: err.Error()}
}

// list = the read-only "list my codes" / "list my mappings" query of the client that owns the quota (no quota mutex);
// the former prunes index entries whose record it does not find
func (r *quotaRig) list() {
	if r.b.Cfg.K == "codequota" {
		r.svc[0].ListConnectionCodesByTargetClient(clientT)
		return
	}
	r.svc[0].ListOutboundMappings(clientL)
}

func (r *quotaRig) release(p int)   {}
func (r *quotaRig) rerelease(p int) {}

type codeRec = models.TunnelConnectionCode

func (r *quotaRig) codesNow() map[string]*codeRec { // by id
	out := map[string]*codeRec{}
	for _, v := range r.st.Snapshot(pfxCode) {
		var c codeRec
		if s, ok := v.(string); ok && json.Unmarshal([]byte(s), &c) == nil {
			out[c.ID] = &c
		}
	}
	return out
}
func (r *quotaRig) mapsNow() []*models.PortMapping {
	var out []*models.PortMapping
	for _, v := range r.st.Snapshot(pfxMap) {
		var m models.PortMapping
		if s, ok := v.(string); ok && json.Unmarshal([]byte(s), &m) == nil {
			out = append(out, &m)
		}
	}
	return out
}
func (r *quotaRig) occ() int {
	n := 0
	if r.b.Cfg.K == "codequota" {
		for _, c := range r.codesNow() {
			if c.TargetClientID == clientT && c.IsValidForActivation() {
				n++
			}
		}
		return n
	}
	for _, m := range r.mapsNow() {
		if m.ListenClientID == clientL && m.Status == models.MappingStatusActive && !m.IsRevoked && !m.IsExpired() {
			n++
		}
	}
	return n
}
func (r *quotaRig) snap(p int) []string {
	var out []string
	byID := r.codesNow()
	for _, c := range byID {
		if keep(c.Description, p) {
			out = append(out, fmt.Sprintf("code:%s:target=%d:activated=%v:revoked=%v", c.Description, c.TargetClientID, c.IsActivated, c.IsRevoked))
		}
	}
	for _, v := range r.st.Snapshot(pfxCodeID) {
		var c codeRec
		if s, ok := v.(string); ok && json.Unmarshal([]byte(s), &c) == nil && keep(c.Description, p) {
			out = append(out, fmt.Sprintf("codeid:%s:activated=%v", c.Description, c.IsActivated))
		}
	}
	if l, ok := r.st.Peek(idxCodes); ok {
		if ids, ok := l.([]any); ok {
			for _, x := range ids {
				if c := byID[fmt.Sprint(x)]; c != nil && keep(c.Description, p) { // entries without a record are not semantic
					out = append(out, "codeidx:"+c.Description)
				}
			}
		}
	}
	for _, m := range r.mapsNow() {
		if tag := tagOfPort(m.SourcePort); keep(tag, p) {
			out = append(out, fmt.Sprintf("map:%s:listen=%d:status=%s:revoked=%v", tag, m.ListenClientID, m.Status, m.IsRevoked))
		}
	}
	keys := []string{idxMapL, "tunnox:mappings:list"}
	for q := 0; q <= r.b.Cfg.N; q++ { // the issuers' own indexes
		keys = append(keys, "tunnox:client_mappings:"+fmt.Sprint(clientT+int64(q)))
	}
	for _, key := range keys {
		if l, ok := r.st.Peek(key); ok {
			if items, ok := l.([]any); ok {
				for _, x := range items {
					var m models.PortMapping
					if s, ok := x.(string); ok && json.Unmarshal([]byte(s), &m) == nil {
						if tag := tagOfPort(m.SourcePort); keep(tag, p) {
							out = append(out, "mapidx:"+key[strings.LastIndex(key, ":")+1:]+":"+tag)
						}
					}
				}
			}
		}
	}
	sort.Strings(out)
	return out
}
func (r *quotaRig) probe() (int, int, bool) { return 0, 0, false }
func (r *quotaRig) close()                  { r.cancel() }

// ---- generic driving ----------------------------------------------------------------------------

func newRig(b *behaviour, s *sched.Sched, tr *tracer, free bool, jitter func()) rig {
	switch b.Cfg.K {
	case "conncap":
		return newConnRig(b, s)
	case "ctrlcap", "tuncap":
		return newRegRig(b, s, tr)
	case "maplimit":
		return newMapRig(b, s, tr, free, jitter)
	case "codequota", "mapquota":
		return newQuotaRig(b, s)
	}
	panic("kind " + b.Cfg.K)
}

func preOf(b *behaviour) int {
	if b.Cfg.Lim == 0 {
		return 0
	}
	sl := b.Cfg.Slack
	if sl < 1 {
		sl = 1
	}
	if sl > b.Cfg.Lim {
		sl = b.Cfg.Lim
	}
	return b.Cfg.Lim - sl
}

// run is the body of one racing request: the real call, bracketed by the semantic snapshots.
// Kinds that log Admit from inside the admitted region (maplimit) do not log it again here.
func run(r rig, tr *tracer, b *behaviour, p int) outcome {
	qr, _ := r.(*quotaRig)
	var full0 map[string]any
	from := 0
	if qr != nil {
		from, full0 = qr.mark(), qr.st.Snapshot("")
	}
	before := r.snap(p)
	out := r.request(p)
	after := r.snap(p)
	var left []string
	if qr != nil && out.Refused {
		left = qr.leftovers(goid(), from, full0, qr.st.Snapshot(""))
	}
	switch {
	case out.Admitted:
		if b.Cfg.K != "maplimit" && b.Cfg.K != "ctrlcap" {
			tr.add(fw.Event{"ev": "Admit", "p": pname(p)})
		}
	case out.Refused:
		if out.Err == "touched" {
			after = append(after, "conn-used:"+pname(p))
		}
		tr.add(fw.Event{"ev": "Refuse", "p": pname(p), "before": strs(before), "after": strs(after), "left": strs(left)})
	}
	return out
}

func strs(s []string) []any {
	out := make([]any, len(s))
	for i, x := range s {
		out[i] = x
	}
	return out
}

type kindStats struct{ n, realised, modelOver, realOver, agree int }

var (
	statMu sync.Mutex
	stats  = map[string]*kindStats{}
	genN   = map[string]int{} // generated behaviours per "class:kind" (before sampling)
	genOv  = map[string]int{} // ... of which the model exceeds the limit
)

func note(class string, b *behaviour, t *fw.Trace) {
	statMu.Lock()
	defer statMu.Unlock()
	k := class + ":" + b.statKey()
	st := stats[k]
	if st == nil {
		st = &kindStats{}
		stats[k] = st
	}
	st.n++
	if t.Status != fw.Realised {
		return
	}
	st.realised++
	over := overOf(b, t.Events)
	if b.prefSet {
		over = b.prefOver
	}
	if b.Over {
		st.modelOver++
	}
	if over {
		st.realOver++
	}
	if over == b.Over {
		st.agree++
	}
}

// overOf: did the real occupancy exceed the limit in these events (same bookkeeping as the judge)
func overOf(b *behaviour, evs []fw.Event) bool {
	over := false
	adm := map[string]bool{}
	gone := map[string]bool{}
	pre := preOf(b)
	for _, e := range evs {
		switch e["ev"] {
		case "Admit":
			p := e["p"].(string)
			if gone[p] {
				delete(gone, p)
				continue
			}
			adm[p] = true
			if b.Cfg.Lim > 0 && pre+len(adm) > b.Cfg.Lim {
				over = true
			}
		case "Release":
			p := e["p"].(string)
			if e["old"] == true {
				pre--
			} else if adm[p] {
				delete(adm, p)
			} else {
				gone[p] = true
			}
		case "Obs":
			if n, _ := e["n"].(int); b.Cfg.Lim > 0 && n > b.Cfg.Lim {
				over = true
			}
		}
	}
	return over
}

func classOf(src string, b *behaviour) string {
	switch {
	case b.Free:
		return "free"
	case b.Legacy:
		return "legacy"
	}
	return "gen"
}

var firstStep = map[string]string{"conncap": "Check", "maplimit": "Check", "ctrlcap": "Reg", "tuncap": "Reg", "codequota": "Call", "mapquota": "Call"}

// gate at which a request must be parked before the model step can be taken
func gateBefore(kind, a string) string {
	switch kind {
	case "conncap":
		return "conn.id"
	case "ctrlcap":
		return closeGate
	case "maplimit":
		switch a {
		case "Release", "Register":
			return prepareGat
		case "GoLive", "Detach", "StartFail":
			return regGate
		}
		return hookPoint
	default:
		switch a {
		case "LList":
			return "sd.GetList"
		case "LPrune":
			return "sd.RemoveFromList"
		case "Count":
			return "sd.GetList"
		case "Put":
			return "sd.Set"
		case "Index":
			return "sd.AppendToList"
		}
	}
	return "?"
}

func drive(env *fw.Env, fb fw.Behaviour) *fw.Trace {
	var b behaviour
	if err := json.Unmarshal(fb.Data, &b); err != nil {
		return &fw.Trace{Status: fw.DriverError, Note: err.Error()}
	}
	if b.Cfg.Nodes == 0 {
		b.Cfg.Nodes = 1
	}
	if b.Cfg.K == "maplimit" {
		hookMu.Lock()
		defer hookMu.Unlock()
	}
	var t *fw.Trace
	if b.Free {
		t = driveFree(env, &b)
	} else {
		t = driveSched(env, &b)
	}
	note(classOf(fb.Src, &b), &b, t)
	return t
}

// epilogue: everything has ended. For every request that was refused because of the limit: make room and issue the
// same request again (rig.retry). A refused request changed no state, so nothing but the limit can stand in its way.
// prefer: retry mode the behaviour itself names for a request (model steps Retry / RetryOther).
func epilogue(r rig, tr *tracer, b *behaviour, prefer map[int]string) {
	var refused []int
	for _, e := range tr.snapshot() {
		if e["ev"] == "Refuse" {
			if p, ok := racerOf(e["p"].(string)); ok {
				refused = append(refused, p)
			}
		}
	}
	sort.Ints(refused)
	for i, p := range refused {
		mode := "same"
		if b.Cfg.K == "mapquota" && (i+len(b.Steps)+b.Seed)%2 == 1 {
			mode = "other"
		}
		if m := prefer[p]; m != "" {
			mode = m
		}
		type res struct {
			ok, tried bool
			why       string
		}
		done := make(chan res, 1)
		go func() {
			ok, why, tried := r.retry(p, mode)
			done <- res{ok, tried, why}
		}()
		select {
		case x := <-done:
			if x.tried {
				tr.add(fw.Event{"ev": "Retry", "p": pname(p), "mode": mode, "ok": x.ok, "why": x.why})
			}
		case <-time.After(10 * time.Second):
			// nothing else runs any more: the retried request waits for something a request that ended still holds
			tr.add(fw.Event{"ev": "Retry", "p": pname(p), "mode": mode, "ok": false, "why": "blocked"})
			return
		}
	}
}

func driveSched(env *fw.Env, b *behaviour) *fw.Trace {
	s := sched.New(false)
	s.Watchdog = 400 * time.Millisecond
	if b.Legacy {
		s.Watchdog = 40 * time.Millisecond // on the repaired tree these mostly end in "blocked on the quota mutex"
	}
	wd := s.Watchdog
	tr := &tracer{}
	r := newRig(b, s, tr, false, func() {})
	defer r.close()
	kind := b.Cfg.K
	var mr *mapRig
	if kind == "maplimit" {
		mr = r.(*mapRig)
		curMapRig.Store(mr)
		defer curMapRig.Store(nil)
		if err := mr.start(); err != nil {
			return &fw.Trace{Status: fw.DriverError, Note: err.Error()}
		}
	}
	if err := r.preload(preOf(b)); err != nil {
		return &fw.Trace{Status: fw.DriverError, Note: "preload: " + err.Error()}
	}
	tr.add(fw.Event{"ev": "Cfg", "kind": b.label(), "tag": b.tag(), "n": b.Cfg.N, "lim": b.Cfg.Lim, "pre": preOf(b), "mode": "sched"})
	started := map[int]bool{}
	inLockSection := func() bool { // a request is parked inside Stream.Close: on the real code it holds the registry lock
		for p := range started {
			if st, at := s.State(pname(p)); st == sched.Parked && at.Point == closeGate {
				return true
			}
		}
		return false
	}
	obs := func() {
		if inLockSection() {
			return // reading the registry would wait for that lock
		}
		if n := r.occ(); n >= 0 {
			tr.add(fw.Event{"ev": "Obs", "n": n})
		}
	}
	obs()
	results := map[int]outcome{}
	var bad string
	finish := func(p int) { // the call of p has returned
		if _, ok := results[p]; ok {
			return
		}
		out, _ := s.Result(pname(p)).(outcome)
		results[p] = out
		if !out.Admitted && !out.Refused {
			bad = fmt.Sprintf("request %d failed for a reason other than the limit: %s", p, out.Err)
		}
	}
	unreal := func(format string, a ...any) *fw.Trace {
		s.Drain(3 * time.Second)
		return &fw.Trace{Status: fw.Unrealisable, Note: fmt.Sprintf(format, a...)}
	}
	live := map[int]bool{}
	admittedNow := func(p int) bool { // maplimit: inside PrepareConnection or relayed; others: call returned admitted
		if kind == "maplimit" {
			st, at := s.State(pname(p))
			return live[p] || (st == sched.Parked && at.Point == prepareGat)
		}
		return results[p].Admitted
	}
	settle := func() { // the handler's deferred decrement follows the event we waited for
		runtime.Gosched()
		time.Sleep(200 * time.Microsecond)
	}
	released := map[int]bool{}
	merged := map[int]bool{}
	listerDone := false
	prefer := map[int]string{}
	for i, st := range b.Steps {
		p, name := st.P, pname(st.P)
		if st.A == "MakeRoom" || st.A == "Retry" || st.A == "RetryOther" {
			// the model's tail: everything has ended, room is made, a refused request is issued again. Nothing runs
			// next to it, so there is no interleaving to force: the epilogue below does it for every refused request
			for _, t := range b.Steps[i:] {
				switch t.A {
				case "Retry":
					prefer[t.P] = "same"
				case "RetryOther":
					prefer[t.P] = "other"
				}
			}
			break
		}
		switch {
		case st.A == "LCall": // the list request (not a racing admission): takes no quota mutex
			qr := r.(*quotaRig)
			if state := s.Start("L", func() any { qr.list(); return nil }); state != sched.Parked {
				return unreal("step %d: list request is %s after its call", i, state)
			}
		case st.A == "LList" || st.A == "LPrune":
			if listerDone {
				continue // the real request found every record and returned earlier
			}
			state, at := s.State("L")
			if state != sched.Parked || at.Point != gateBefore(kind, st.A) {
				return unreal("step %d: list request is at %q (%s), model expects %s", i, at.Point, state, gateBefore(kind, st.A))
			}
			switch ns, _ := s.Step("L"); ns {
			case sched.Done:
				listerDone = true
			case sched.Parked:
			default:
				return unreal("step %d: list request %s after %s", i, ns, st.A)
			}
		case st.A == "PeerClose":
			if !started[p] || released[p] {
				continue
			}
			if st2, at := s.State(name); st2 != sched.Parked || at.Point != regGate {
				return unreal("step %d: %s is not between RegisterTunnel and Start (%s at %q)", i, name, st2, at.Point)
			}
			if !mr.peerClose(p, i+p) {
				return unreal("step %d: tunnel of %s unknown", i, name)
			}
			released[p] = true
		case st.A == "PeerCloseLive":
			if !started[p] || released[p] || !live[p] {
				continue // the real connection is not being relayed (it was refused, or ended earlier)
			}
			if !mr.peerClose(p, i+p) {
				return unreal("step %d: tunnel of %s unknown", i, name)
			}
			released[p] = true
			time.Sleep(300 * time.Microsecond) // Tunnel.Close ran in this goroutine; the copy loops end and close it again
			settle()
		case st.A == firstStep[kind]:
			if started[p] {
				return &fw.Trace{Status: fw.DriverError, Note: "request started twice"}
			}
			started[p] = true
			if mr != nil {
				mr.feeding.Store(&name)
			}
			if st.W {
				s.Watchdog = 3 * time.Millisecond // expected to wait for the quota mutex
			}
			state := s.Start(name, func() any { return run(r, tr, b, p) })
			s.Watchdog = wd
			if mr != nil {
				empty := ""
				mr.feeding.Store(&empty)
			}
			switch state {
			case sched.Done:
				finish(p)
				if st.W {
					return unreal("step %d: %s returned instead of waiting for the quota mutex", i, name)
				}
			case sched.Parked:
				_, at := s.State(name)
				if st.W {
					return unreal("step %d: %s did not wait for the quota mutex as the model of the repaired code expects", i, name)
				}
				if kind == "maplimit" && at.Point == prepareGat {
					// the hook point is absent from this tree: check and add happened in one go. That is the
					// model's behaviour only if the add of p is its very next step.
					if i+1 < len(b.Steps) && b.Steps[i+1].P == p && (b.Steps[i+1].A == "Insert" || b.Steps[i+1].A == "AddCmp") {
						merged[p] = true
					} else {
						return unreal("step %d: hook point %s absent: check and add cannot be separated", i, hookPoint)
					}
				}
			case sched.Blocked:
				if !st.W {
					return unreal("step %d: %s blocked in its first step", i, name)
				}
			default:
				return unreal("step %d: %s is %s after start", i, name, state)
			}
		case st.A == "Undo":
			// repaired maplimit: the undo follows the compare without a seam; it has happened already
		case st.A == "Release":
			if !started[p] || !admittedNow(p) || released[p] {
				continue // the real request was not admitted here (the code is stricter than this model): nothing to release
			}
			released[p] = true
			if kind == "maplimit" && live[p] {
				r.release(p)
				time.Sleep(300 * time.Microsecond) // copy loops end, tunnel closes, (repaired) its close callback frees the slot
				settle()
			} else if kind == "maplimit" {
				ns, _ := s.Step(name)
				if ns != sched.Done {
					return unreal("step %d: %s did not finish after release (%s)", i, name, ns)
				}
				finish(p)
				settle()
			} else {
				if kind == "conncap" {
					tr.add(fw.Event{"ev": "Release", "p": name, "old": false})
				}
				if inLockSection() {
					// the model (variant without the lock) removes a connection while another request is inside
					// Register: on the real code Remove waits for the registry lock
					done := make(chan struct{})
					go func() { r.release(p); close(done) }()
					select {
					case <-done:
					case <-time.After(s.Watchdog):
						return unreal("step %d: release of %s blocked (registry lock)", i, name)
					}
				} else {
					r.release(p)
				}
			}
		case st.A == "ReRelease":
			// the model removes an id that is not registered. Only do so if it is not registered in reality either
			// (otherwise this would be an unlogged release of a live connection).
			if _, fin := results[p]; started[p] && (!fin || results[p].Admitted) {
				continue
			}
			if inLockSection() {
				done := make(chan struct{})
				go func() { r.rerelease(p); close(done) }()
				select {
				case <-done:
				case <-time.After(s.Watchdog):
					return unreal("step %d: removal of %s blocked (registry lock)", i, name)
				}
			} else {
				r.rerelease(p)
			}
		default: // a later step of a request parked at a gate
			if !started[p] {
				return &fw.Trace{Status: fw.DriverError, Note: fmt.Sprintf("step %d before start", i)}
			}
			if _, done := results[p]; done {
				continue // the real call returned earlier than the model's (refused at a point where the model goes on)
			}
			if merged[p] && (st.A == "Insert" || st.A == "AddCmp") {
				merged[p] = false
				continue // done together with the check (no hook point)
			}
			state, at := s.State(name)
			if state != sched.Parked || at.Point != gateBefore(kind, st.A) {
				return unreal("step %d: %s is at %q (%s), model expects %s before %s", i, name, at.Point, state, gateBefore(kind, st.A), st.A)
			}
			goLive := st.A == "GoLive" || st.A == "Detach" || st.A == "Register"
			if st.A == "Register" {
				c := mr.conn(p)
				c.goLive.Store(true)
				mr.cur.Store(c)
			}
			ns, _ := s.Step(name)
			if st.A == "Register" {
				mr.cur.Store(nil)
			}
			switch ns {
			case sched.Done:
				finish(p)
				if st.A == "StartFail" {
					settle()
				}
				if goLive {
					if c := mr.conn(p); c != nil {
						select {
						case <-c.done: // the connection ended instead (its tunnel could not be started)
						default:
							live[p] = true
						}
					}
					settle()
				}
			case sched.Parked:
			default:
				return unreal("step %d: %s %s after %s", i, name, ns, st.A)
			}
			if st.G != 0 && st.G != p {
				if s.Await(pname(st.G)) != sched.Parked {
					return unreal("step %d: %s did not obtain the quota mutex", i, pname(st.G))
				}
			}
		}
		if bad != "" {
			s.Drain(3 * time.Second)
			return &fw.Trace{Status: fw.DriverError, Note: bad}
		}
		obs()
	}
	b.prefOver, b.prefSet = overOf(b, tr.snapshot()), true
	// let everything finish, then look at the quiescent state
	if !s.Drain(5 * time.Second) {
		return &fw.Trace{Status: fw.DriverError, Note: "requests did not finish after drain"}
	}
	for p := range started {
		finish(p)
	}
	if bad != "" {
		return &fw.Trace{Status: fw.DriverError, Note: bad}
	}
	if kind != "maplimit" {
		obs()
	}
	if rr, ok := r.(*regRig); ok {
		if msg := rr.evictedGone(); msg != "" {
			tr.add(fw.Event{"ev": "Obs", "n": b.Cfg.Lim + 1, "why": msg})
		}
	}
	if want, got, ok := r.probe(); ok {
		tr.add(fw.Event{"ev": "Probe", "want": want, "got": got})
	}
	epilogue(r, tr, b, prefer)
	return &fw.Trace{Status: fw.Realised, Events: tr.ev}
}

// driveFree: all n requests are released at once; every gate injects a seeded random delay. An
// observer samples the real occupancy (each sample is a real instant).
func driveFree(env *fw.Env, b *behaviour) *fw.Trace {
	rnd := fw.NewRand(env.Seed*100003 + int64(b.Seed))
	var rmu sync.Mutex
	jitter := func() {
		rmu.Lock()
		k := rnd.Intn(10)
		rmu.Unlock()
		switch {
		case k < 4:
			runtime.Gosched()
		case k < 7:
			time.Sleep(time.Duration(10+k*15) * time.Microsecond)
		}
	}
	s := sched.New(true)
	s.FreeDelay = func(string, sched.GateInfo) { jitter() }
	tr := &tracer{}
	r := newRig(b, s, tr, true, jitter)
	defer r.close()
	kind := b.Cfg.K
	if kind == "maplimit" {
		mr := r.(*mapRig)
		curMapRig.Store(mr)
		defer curMapRig.Store(nil)
		if err := mr.start(); err != nil {
			return &fw.Trace{Status: fw.DriverError, Note: err.Error()}
		}
	}
	if err := r.preload(preOf(b)); err != nil {
		return &fw.Trace{Status: fw.DriverError, Note: "preload: " + err.Error()}
	}
	tr.add(fw.Event{"ev": "Cfg", "kind": b.label(), "tag": b.tag(), "n": b.Cfg.N, "lim": b.Cfg.Lim, "pre": preOf(b), "mode": "free"})
	rel := make([]bool, b.Cfg.N+1)
	for p := 1; p <= b.Cfg.N; p++ {
		rel[p] = rnd.Intn(3) == 0
	}
	stopObs := make(chan struct{})
	obsDone := make(chan struct{})
	go func() {
		defer close(obsDone)
		max := -1
		for {
			if n := r.occ(); n > max {
				max = n
				tr.add(fw.Event{"ev": "Obs", "n": n})
			}
			select {
			case <-stopObs:
				return
			default:
				time.Sleep(15 * time.Microsecond)
			}
		}
	}()
	stopSide := make(chan struct{})
	sideDone := make(chan struct{})
	go func() { // side traffic that is not an admission: list requests / peer notifications
		defer close(sideDone)
		qr, _ := r.(*quotaRig)
		mr, _ := r.(*mapRig)
		seen := map[string]bool{}
		k := 0
		for {
			select {
			case <-stopSide:
				return
			default:
			}
			k++
			switch {
			case qr != nil:
				qr.list()
			case mr != nil && b.Live:
				for _, t := range mr.h.GetTunnelManager().ListTunnels() {
					if id := t.GetID(); !seen[id] {
						seen[id] = true
						if (k+len(seen)+b.Seed)%2 == 0 {
							closeVia(mr.h.GetTunnelManager(), id, k+len(seen))
						}
					}
				}
			default:
				return
			}
			time.Sleep(10 * time.Microsecond)
		}
	}()
	stopSideNow := func() {
		select {
		case <-stopSide:
		default:
			close(stopSide)
		}
		<-sideDone
	}
	defer stopSideNow()
	var wg sync.WaitGroup
	var bad atomic.Pointer[string]
	gate := make(chan struct{})
	for p := 1; p <= b.Cfg.N; p++ {
		wg.Add(1)
		go func(p int) {
			defer wg.Done()
			<-gate
			out := run(r, tr, b, p)
			if !out.Admitted && !out.Refused {
				m := fmt.Sprintf("request %d failed for a reason other than the limit: %s", p, out.Err)
				bad.Store(&m)
			}
			if out.Admitted && kind == "maplimit" && b.Live {
				for i := 0; i < 3; i++ {
					jitter()
				}
				r.release(p) // the local application closes its relayed connection
			}
			if out.Admitted && rel[p] && (kind == "conncap" || kind == "ctrlcap" || kind == "tuncap") {
				jitter()
				if kind == "conncap" {
					tr.add(fw.Event{"ev": "Release", "p": pname(p), "old": false})
				}
				r.release(p)
				if p%2 == 0 {
					jitter()
					r.rerelease(p) // torn down a second time (sweeper and read loop)
				}
			}
		}(p)
	}
	if b.Seed%2 == 0 {
		r.rerelease(99) // an id nobody registered
	}
	close(gate)
	fin := make(chan struct{})
	go func() { wg.Wait(); close(fin) }()
	select {
	case <-fin:
	case <-time.After(30 * time.Second):
		return &fw.Trace{Status: fw.DriverError, Note: "free-running requests did not finish"}
	}
	close(stopObs)
	<-obsDone
	if m := bad.Load(); m != nil {
		return &fw.Trace{Status: fw.DriverError, Note: *m}
	}
	if kind != "maplimit" {
		if n := r.occ(); n >= 0 {
			tr.add(fw.Event{"ev": "Obs", "n": n})
		}
	}
	if rr, ok := r.(*regRig); ok {
		if msg := rr.evictedGone(); msg != "" {
			tr.add(fw.Event{"ev": "Obs", "n": b.Cfg.Lim + 1, "why": msg})
		}
	}
	if want, got, ok := r.probe(); ok {
		tr.add(fw.Event{"ev": "Probe", "want": want, "got": got})
	}
	stopSideNow()
	epilogue(r, tr, b, nil)
	return &fw.Trace{Status: fw.Realised, Events: tr.ev}
}

// ---- wiring ---------------------------------------------------------------------------------

const (
	allKinds = `{"conncap", "ctrlcap", "tuncap", "maplimit", "codequota", "mapquota"}`
	allVars  = `{"none", "asis", "wrongkey", "ctrlsplit", "lockdrop", "indexfirst", "doublerelease", "lastslot", "claimbeforequota"}`
)

func job(name string, c map[string]string) fw.TLCJob {
	d := map[string]string{"KINDS": allKinds, "NS": "{2, 3, 4}", "LIMS": "{0, 1, 2, 3}", "NODES": "{1}", "VARIANTS": `{"none"}`, "SHAPE": "free",
		"RR": "2", "SLACKS": "{1, 2, 3}", "LISTERS": "1", "RETRIES": "1", "REL": "TRUE", "EMIT": "FALSE", "EMITMAXN": "4", "EMITALL": "FALSE", "VIEW": "VIEW view", "INVS": ""}
	for k, v := range c {
		d[k] = v
	}
	if d["EMITALL"] == "TRUE" {
		d["RETRIES"] = "0" // maximal behaviours end when every request has ended; the retry tail is driven for every refusal anyway
	}
	return fw.TLCJob{Name: name, Module: "Limits", Cfg: "Limits.cfg", Workers: 8, Consts: d}
}

func genNS(env *fw.Env) string {
	if env.Tier == "quick" {
		return "{2, 3}"
	}
	return "{2, 3, 4}"
}

// pick: deterministic sampling of generated behaviours inside Expand (per mille), seeded
func pick(raw []byte, seed int64, perMille int) bool {
	if perMille >= 1000 {
		return true
	}
	h := fnv.New32a()
	h.Write(raw)
	fmt.Fprint(h, seed)
	return int(h.Sum32()%1000) < perMille
}

func cloneTrace(t *fw.Trace, id int) *fw.Trace {
	c := &fw.Trace{Status: fw.Realised, Beh: t.Beh}
	c.Beh.ID = id
	for _, e := range t.Events {
		ne := fw.Event{}
		for k, v := range e {
			ne[k] = v
		}
		c.Events = append(c.Events, ne)
	}
	return c
}

// seamLogger is the logger the driver installs: silent, except that the tunnel manager's line "registered
// tunnel" - written between RegisterTunnel and Tunnel.Start of the mapping handler - is a seam.
type seamLogger struct{ corelog.Logger }

func (l seamLogger) Debugf(format string, args ...interface{}) {
	if strings.Contains(format, "registered tunnel") {
		if r := curMapRig.Load(); r != nil {
			r.atRegistered(args)
		}
	}
}

func main() {
	corelog.SetDefault(seamLogger{corelog.NewNopLogger()})
	verifhook.Set(func(name string, arg any) {
		if name != hookPoint {
			return
		}
		if r := curMapRig.Load(); r != nil {
			r.atHook()
		}
	})
	fw.Main(&fw.Property{
		ID:        "C17",
		DesignRef: "DESIGN.md §5 C17",
		GenJobs: func(env *fw.Env) []fw.TLCJob {
			// (few TLC runs: on a loaded machine every JVM start costs more than the model checking itself)
			maxN, ns := "4", "{2, 3, 4}"
			if env.Tier == "quick" {
				// 4 racing requests: quick tier = exhaustive check of the code as it is (job "mc:n4"), driven in the free-running
				// races; the thorough tier also checks the faulty variants with 4 requests and drives the behaviours
				maxN, ns = "3", "{2, 3}"
			}
			jobs := []fw.TLCJob{
				// one run over every modelled code, n in {2,3,4}, limit in {0,1,2} (+3: caps with separate check and insert,
				// 4 requests, 3 free slots), slack in {1,2,3}, with list requests (both quotas), peer closes and
				// removals of absent ids. Checked: the code as it is on one instance is strict (no overshoot, no deviation);
				// the code before the repairs, several instances and the faulty variants overshoot only through a named
				// deviation. Generated: one behaviour per transition - var = none: class "gen"; the others: class "legacy",
				// schedules that must be unrealisable on the right tree.
				job("legacy+gen+mc", map[string]string{"NS": ns, "VARIANTS": allVars, "NODES": "{1, 2}", "EMIT": "TRUE", "EMITMAXN": maxN,
					"INVS": "Strict Safe RefusedNoEffect RetryOK RetryAdmitted CounterExact"}),
				// every maximal behaviour of 2 requests at limit-1, of 3 requests at limit-2 and (the two caps with separate
				// check and insert) of 4 requests at limit-3 (var = none; asis: limit-1 only), of 3 and 4 registrations for ctrlsplit
				job("legacy-all+all", map[string]string{"VARIANTS": `{"none", "asis", "ctrlsplit"}`, "NODES": "{1, 2}", "SHAPE": "pairs", "RR": "1", "LISTERS": "0", "EMITALL": "TRUE", "VIEW": "", "INVS": "EmitMaximal"}),
			}
			if env.Tier == "quick" {
				jobs = append(jobs, job("mc:n4", map[string]string{"NS": "{4}", "NODES": "{1, 2}", "INVS": "Strict Safe RefusedNoEffect RetryOK RetryAdmitted CounterExact"}))
			}
			if env.Tier == "thorough" {
				jobs = append(jobs,
					// every maximal behaviour of 3 requests at limit-1. The mapping handler's connection lifetime (register, go live,
					// peer close, release) makes the number of maximal interleavings of 3 connections explode (> 10^7): for 3
					// connections only the admission race is enumerated (":map" jobs, WithRelease = FALSE); the lifetime steps are
					// enumerated for 2 connections above and covered per transition for up to 4.
					job("all:n3", map[string]string{"KINDS": `{"conncap", "ctrlcap", "tuncap", "codequota", "mapquota"}`, "NS": "{3}", "NODES": "{1, 2}", "SLACKS": "{1}", "RR": "1", "LISTERS": "0", "EMITALL": "TRUE", "VIEW": "", "INVS": "EmitMaximal"}),
					job("all:n3:map", map[string]string{"KINDS": `{"maplimit"}`, "NS": "{3}", "SLACKS": "{1}", "REL": "FALSE", "LISTERS": "0", "EMITALL": "TRUE", "VIEW": "", "INVS": "EmitMaximal"}),
					// (as-is quota behaviours block on the mutex of the repaired tree and are covered by "legacy"; here only the two caps)
					job("legacy-all:n3", map[string]string{"KINDS": `{"conncap"}`, "VARIANTS": `{"asis"}`, "NS": "{3}", "LIMS": "{1, 2}", "SLACKS": "{1}", "RR": "1", "LISTERS": "0", "EMITALL": "TRUE", "VIEW": "", "INVS": "EmitMaximal"}),
					job("legacy-all:n3:map", map[string]string{"KINDS": `{"maplimit"}`, "VARIANTS": `{"asis"}`, "NS": "{3}", "LIMS": "{1, 2}", "SLACKS": "{1}", "REL": "FALSE", "LISTERS": "0", "EMITALL": "TRUE", "VIEW": "", "INVS": "EmitMaximal"}))
			}
			return jobs
		},
		Expand: func(env *fw.Env, src string, raw json.RawMessage) []json.RawMessage {
			var b behaviour
			if err := json.Unmarshal(raw, &b); err != nil {
				panic(err)
			}
			v := b.Cfg.Var
			if v == "" {
				v = "none"
			}
			b.Legacy = v != "none"
			cls := "gen"
			if b.Legacy {
				cls = "legacy"
			}
			quick := env.Tier == "quick"
			pm := 1000 // per mille of the generated behaviours of this class that are driven
			switch v {
			case "lockdrop", "indexfirst", "doublerelease", "lastslot":
				if !b.Over {
					return nil // of these variants keep the behaviours in which the limit is exceeded
				}
				statMu.Lock()
				genOv[v]++
				statMu.Unlock()
				switch {
				case v == "lockdrop" && b.Cfg.N > 3:
					pm = 10
				case v == "doublerelease":
					pm = 300
				}
				if !quick {
					pm *= 4
				}
			default:
				statMu.Lock()
				genN[cls+":"+b.statKey()]++
				if b.Over {
					genOv[cls+":"+b.statKey()]++
				}
				statMu.Unlock()
				trans := strings.Contains(src, "+mc") // transition coverage (sampled) vs maximal behaviours (mostly complete)
				switch {
				case b.Cfg.Lim > 2: // 4 requests, 3 free slots: every maximal behaviour is generated, a sample is driven
					pm = 40
				case src == "all:n3":
					pm = 60
				case src == "legacy-all:n3":
					pm = 50
				case trans && v == "none":
					pm = 65
				case trans && v == "asis":
					pm = 30
				case trans && v == "wrongkey":
					pm = 100
				case trans && v == "claimbeforequota": // same steps and gates as the code as it is; they differ in what is left behind
					pm = 60
				case trans && v == "ctrlsplit":
					pm = 500
				case !trans && b.Cfg.K == "maplimit" && b.Cfg.N == 2 && v == "none":
					pm = 250
				case !trans && b.Cfg.K == "maplimit" && v == "asis":
					pm = 160
				}
				if !quick && trans {
					pm *= 5
					if v == "asis" || v == "wrongkey" {
						pm /= 4
					}
				}
				if !quick && !trans && !strings.HasSuffix(src, ":n3") {
					pm = 1000
				}
			}
			if !pick(raw, env.Seed, pm) {
				return nil
			}
			if b.Cfg.K == "maplimit" {
				b.Via = "mapping"
				out := []json.RawMessage{fw.MustJSON(b)}
				if !b.Legacy && b.Cfg.Lim > 0 && len(b.Steps)%2 == 0 { // the same limit reached through the user quota
					b.Via = "userquota"
					out = append(out, fw.MustJSON(b))
				}
				return out
			}
			return []json.RawMessage{fw.MustJSON(b)}
		},
		ExtraBeh: func(env *fw.Env) []json.RawMessage {
			reps := 6
			if env.Tier == "thorough" {
				reps = 60
			}
			var out []json.RawMessage
			for _, k := range []string{"conncap", "ctrlcap", "tuncap", "maplimit", "codequota", "mapquota"} {
				for _, n := range []int{2, 3, 4} {
					for _, lim := range []int{0, 1, 2} {
						for i := 0; i < reps; i++ {
							if lim == 0 && i >= 2 {
								break
							}
							b := behaviour{Cfg: mcfg{K: k, N: n, Lim: lim, Nodes: 1}, Free: true, Seed: i}
							if lim > 1 && n > lim && i%3 == 1 {
								b.Cfg.Slack = lim // every slot free at the start: n > limit requests race for all of them
							}
							if k == "maplimit" {
								b.Via = []string{"mapping", "userquota"}[i%2]
								b.Live = i%3 == 2
							}
							if k == "mapquota" {
								b.Cfg.Tg = []string{"distinct", "same"}[i%2]
							}
							out = append(out, fw.MustJSON(b))
							if (k == "codequota" || k == "mapquota") && lim > 0 && i%3 == 0 {
								b.Cfg.Nodes = 2
								out = append(out, fw.MustJSON(b))
							}
						}
					}
				}
			}
			// 4 requests racing for 3 free slots of the two caps whose check and insert are separate steps
			for _, k := range []string{"conncap", "maplimit"} {
				for i := 0; i < reps; i++ {
					b := behaviour{Cfg: mcfg{K: k, N: 4, Lim: 3, Nodes: 1, Slack: 1 + i%3}, Free: true, Seed: 100 + i}
					if k == "maplimit" {
						b.Via = []string{"mapping", "userquota"}[i%2]
					}
					out = append(out, fw.MustJSON(b))
				}
			}
			return out
		},
		Drive:    drive,
		Parallel: 12,
		PostDrive: func(env *fw.Env, traces []*fw.Trace) error {
			statMu.Lock()
			defer statMu.Unlock()
			var keys []string
			for k := range stats {
				keys = append(keys, k)
			}
			sort.Strings(keys)
			for _, k := range keys {
				st := stats[k]
				fmt.Printf("[c17]   %-24s driven=%d realised=%d model-overshoot=%d real-overshoot=%d model=real:%d\n", k, st.n, st.realised, st.modelOver, st.realOver, st.agree)
			}
			fmt.Printf("[c17]   hook point %s reached %d times\n", hookPoint, hookSeen.Load())
			// what followed the refusals: complete store diffs (quotas) and retries after room was made
			rt := map[string]int{}
			for _, t := range traces {
				kind := ""
				for _, e := range t.Events {
					switch e["ev"] {
					case "Cfg":
						kind, _ = e["kind"].(string)
					case "Refuse":
						rt[kind+" refused"]++
						if l, _ := e["left"].([]any); len(l) > 0 {
							rt[kind+" refused:left-behind"]++
						}
					case "Retry":
						res := "ok"
						if e["ok"] != true {
							res = fmt.Sprint("turned-away:", e["why"])
						}
						rt[fmt.Sprintf("%s retry-%v %s", kind, e["mode"], res)]++
					}
				}
			}
			var rk []string
			for k := range rt {
				rk = append(rk, k)
			}
			sort.Strings(rk)
			for _, k := range rk {
				fmt.Printf("[c17]   after refusal: %-44s %d\n", k, rt[k])
			}
			// the sources mix the code as it is ("gen") with schedules that must be unrealisable: the framework's
			// realisability floor is applied here, to the class it is meant for
			genAll, genReal := 0, 0
			for k, st := range stats {
				if strings.HasPrefix(k, "gen:") {
					genAll += st.n
					genReal += st.realised
				}
			}
			if genAll >= 20 && genReal*2 < genAll {
				return fmt.Errorf("the model no longer matches the code: only %d of %d behaviours of the model of the code as it is could be realised", genReal, genAll)
			}
			if len(genN) > 0 { // not a replay: the as-is model must still exhibit each race (vacuity guard)
				for _, v := range []string{"lockdrop", "indexfirst", "doublerelease", "lastslot"} {
					if genOv[v] == 0 {
						return fmt.Errorf("the %s variant of the model no longer exceeds the limit", v)
					}
				}
				for _, k := range []string{"conncap", "ctrlcap", "maplimit", "maplive", "codequota", "mapquota", "mapquota:distinctTargets"} {
					if genOv["legacy:"+k] == 0 {
						return fmt.Errorf("the as-is model no longer exhibits an overshoot for %s (%d behaviours generated)", k, genN["legacy:"+k])
					}
					if genOv["gen:"+k] != 0 {
						return fmt.Errorf("the repaired model exceeds the limit for %s", k)
					}
				}
			}
			return nil
		},
		SelfTest: func(env *fw.Env, acc []*fw.Trace) []*fw.Trace {
			// corrupt accepted traces: (a) an occupancy observation above the limit, (b) one admission too
			// many, (c) a refused request that left something behind, (d) a refused request that kept a slot
			var out []*fw.Trace
			id := 1 << 20
			var na, nb, nc, nd, ne, nf int
			for _, t := range acc {
				if len(t.Events) == 0 {
					continue
				}
				lim, _ := t.Events[0]["lim"].(int)
				if lim == 0 {
					continue
				}
				if na < 15 {
					for i, e := range t.Events {
						if e["ev"] == "Obs" {
							id++
							c := cloneTrace(t, id)
							c.Events[i]["n"] = lim + 1
							out = append(out, c)
							na++
							break
						}
					}
				}
				if nb < 15 {
					for i, e := range t.Events {
						if e["ev"] == "Admit" {
							id++
							c := cloneTrace(t, id)
							var extra []fw.Event
							for j := 0; j <= lim; j++ {
								extra = append(extra, fw.Event{"ev": "Admit", "p": fmt.Sprintf("x%d", j)})
							}
							c.Events = append(c.Events[:i+1], append(extra, c.Events[i+1:]...)...)
							out = append(out, c)
							nb++
							break
						}
					}
				}
				if nc < 15 {
					for i, e := range t.Events {
						if e["ev"] == "Refuse" {
							id++
							c := cloneTrace(t, id)
							after, _ := e["after"].([]any)
							c.Events[i]["after"] = append(append([]any{}, after...), "leftover")
							out = append(out, c)
							nc++
							break
						}
					}
				}
				if ne < 10 { // (e) a refused request left a key behind that is not part of the counted state
					for i, e := range t.Events {
						if e["ev"] == "Refuse" {
							id++
							c := cloneTrace(t, id)
							c.Events[i]["left"] = []any{"tunnox:runtime:conncode:claimed"}
							out = append(out, c)
							ne++
							break
						}
					}
				}
				if nf < 10 { // (f) the refused request, issued again after room was made, is turned away for another reason
					for i, e := range t.Events {
						if e["ev"] == "Retry" && e["ok"] == true {
							id++
							c := cloneTrace(t, id)
							c.Events[i]["ok"] = false
							c.Events[i]["why"] = "CONFLICT"
							out = append(out, c)
							nf++
							break
						}
					}
				}
				if nd < 10 {
					refused := false
					for i, e := range t.Events {
						if e["ev"] == "Refuse" {
							refused = true
						}
						if want, _ := e["want"].(int); e["ev"] == "Probe" && refused && want > 0 {
							id++
							c := cloneTrace(t, id)
							c.Events[i]["got"] = want - 1
							out = append(out, c)
							nd++
							break
						}
					}
				}
			}
			return out
		},
		JudgeModule: "LimitsTrace",
		JudgeCfg:    "LimitsTrace.cfg",
		Rule: "one behaviour per transition of Limits.tla (every kind, n in {2,3,4} racing requests at occupancy limit-1 and limit-2, limit in {0,1,2}; " +
			"list requests, peer closes and removals of absent ids next to them; the code as it is, the code before the repairs and seven faulty variants) " +
			"plus every maximal interleaving of 2 requests at limit-1, 3 at limit-2 and (caps with separate check and insert, sampled) 4 at limit-3, " +
			"forced on the real objects; plus seeded free-running races; every refused request is followed by a complete diff of what it wrote and, " +
			"after room was made, by the same request again; non-trivial = realised with at least two requests",
		Assumptions: []string{"one request per racing process; occupants present at the start stay (except evicted control connections)",
			"quota kinds: the store double is a correct linearizable map; gated operations are the per-client index read, the record write, the index append and the index removal",
			"maplimit: occupancy = handlers inside adapter.PrepareConnection (the handler holds its slot only until handleConnection returns)"},
		TrustedBase: []string{"TLC", "spec/LimitsTrace.tla as the reading of C17", "harness/sched gate scheduler", "harness/doubles store double"},
	})
}
