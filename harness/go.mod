module tunnox-core/verifharness

go 1.24.4

require (
	github.com/alicebob/miniredis/v2 v2.35.0
	tunnox-core v0.0.0
)

require (
	github.com/cespare/xxhash/v2 v2.3.0 // indirect
	github.com/dgryski/go-rendezvous v0.0.0-20200823014737-9f7001d12a5f // indirect
	github.com/redis/go-redis/v9 v9.11.0 // indirect
	github.com/yuin/gopher-lua v1.1.1 // indirect
)

replace tunnox-core => /repo
