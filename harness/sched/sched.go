// Package sched is the gate scheduler: it forces a TLC-chosen interleaving on real goroutines.
//
// Each modelled process is a goroutine started with Start. Code running in that goroutine calls
// Gate (through a double or a verifhook.Point handler) before each modelled atomic step; Gate
// parks the goroutine until the driver calls Step(name), which releases it and waits until it
// parks at its next gate or finishes. Goroutines the code under test spawns itself arrive at a
// gate unknown; they are adopted under a name chosen by the Adopt callback (e.g. "wb#1").
package sched

import (
	"bytes"
	"fmt"
	"runtime"
	"strconv"
	"sync"
	"time"
)

// State of a process.
const (
	Running = "running"
	Parked  = "parked"
	Done    = "done"
	Blocked = "blocked" // released but neither parked again nor finished within the watchdog
	Idle    = "idle"    // adopted goroutine finished the released operation and did not reach another gate
)

// GateInfo describes where a process is parked.
type GateInfo struct {
	Point string         `json:"point"`
	Info  map[string]any `json:"info,omitempty"`
}

type proc struct {
	name    string
	state   string
	at      GateInfo
	release chan struct{}
	changed chan struct{} // signalled on every state change
	result  any
	opsDone int // number of gated operations completed (After calls)
}

// Sched coordinates processes.
type Sched struct {
	mu       sync.Mutex
	procs    map[string]*proc
	order    []string
	gids     map[int64]string
	free     bool
	Watchdog time.Duration
	// Adopt names a goroutine not started through Start when it first reaches a gate;
	// return "" to let it pass ungated.
	Adopt   func(g GateInfo) string
	anonSeq map[string]int
	// FreeDelay, if set, is called at every gate in free-running mode (seeded jitter).
	FreeDelay func(name string, g GateInfo)
	Crossings []Crossing
}

// Crossing records that a process passed a gate (in release order).
type Crossing struct {
	Proc string   `json:"proc"`
	Gate GateInfo `json:"gate"`
}

// New creates a scheduler. free=true makes every gate a no-op (free-running mode).
func New(free bool) *Sched {
	return &Sched{procs: map[string]*proc{}, gids: map[int64]string{}, free: free, Watchdog: 300 * time.Millisecond, anonSeq: map[string]int{}}
}

func goid() int64 {
	var buf [64]byte
	n := runtime.Stack(buf[:], false)
	// "goroutine 123 [running]:"
	b := buf[:n]
	b = b[len("goroutine "):]
	i := bytes.IndexByte(b, ' ')
	id, _ := strconv.ParseInt(string(b[:i]), 10, 64)
	return id
}

func (s *Sched) newProc(name string) *proc {
	p := &proc{name: name, state: Running, release: make(chan struct{}, 1), changed: make(chan struct{}, 16)}
	s.procs[name] = p
	s.order = append(s.order, name)
	return p
}

func (p *proc) notify() {
	select {
	case p.changed <- struct{}{}:
	default:
	}
}

// Start runs fn as process `name` and waits until it parks at its first gate or finishes.
func (s *Sched) Start(name string, fn func() any) string {
	s.mu.Lock()
	p := s.newProc(name)
	s.mu.Unlock()
	ready := make(chan struct{})
	go func() {
		s.mu.Lock()
		s.gids[goid()] = name
		s.mu.Unlock()
		close(ready)
		r := fn()
		s.mu.Lock()
		p.result = r
		p.state = Done
		s.mu.Unlock()
		p.notify()
	}()
	<-ready
	if s.free {
		return Running
	}
	return s.await(p)
}

// Alias makes the calling goroutine count as process `name` (for goroutines spawned by fn).
func (s *Sched) Alias(name string) {
	s.mu.Lock()
	s.gids[goid()] = name
	s.mu.Unlock()
}

func (s *Sched) await(p *proc) string { return s.awaitFrom(p, -1) }

// awaitFrom: opsBefore >= 0 enables the adopted-goroutine rule (Idle once the released operation
// completed and no further gate was reached within a short grace period).
func (s *Sched) awaitFrom(p *proc, opsBefore int) string {
	deadline := time.NewTimer(s.Watchdog)
	defer deadline.Stop()
	for {
		s.mu.Lock()
		st := p.state
		ops := p.opsDone
		s.mu.Unlock()
		if st == Parked || st == Done {
			return st
		}
		if opsBefore >= 0 && ops > opsBefore {
			time.Sleep(2 * time.Millisecond)
			s.mu.Lock()
			st = p.state
			s.mu.Unlock()
			if st == Parked || st == Done {
				return st
			}
			return Idle
		}
		select {
		case <-p.changed:
		case <-deadline.C:
			s.mu.Lock()
			st := p.state
			s.mu.Unlock()
			if st == Parked || st == Done {
				return st
			}
			return Blocked
		}
	}
}

// Gate is called from code under test (via doubles/hooks) before a modelled step.
func (s *Sched) Gate(point string, info map[string]any) {
	if s == nil {
		return
	}
	g := GateInfo{Point: point, Info: info}
	id := goid()
	s.mu.Lock()
	name, ok := s.gids[id]
	if s.free {
		s.mu.Unlock()
		if s.FreeDelay != nil {
			s.FreeDelay(name, g)
		}
		return
	}
	var p *proc
	if ok {
		p = s.procs[name]
	} else {
		if s.Adopt == nil {
			s.mu.Unlock()
			return
		}
		base := s.Adopt(g)
		if base == "" {
			s.mu.Unlock()
			return
		}
		s.anonSeq[base]++
		name = fmt.Sprintf("%s#%d", base, s.anonSeq[base])
		s.gids[id] = name
		p = s.newProc(name)
	}
	p.state = Parked
	p.at = g
	s.mu.Unlock()
	p.notify()
	<-p.release
	s.mu.Lock()
	s.Crossings = append(s.Crossings, Crossing{Proc: name, Gate: g})
	s.mu.Unlock()
}

// Step releases process `name` from its gate and waits for it to park again or finish.
// It returns the new state (Parked, Done or Blocked) and the gate it was released from.
func (s *Sched) Step(name string) (string, GateInfo) {
	s.mu.Lock()
	p := s.procs[name]
	if p == nil {
		s.mu.Unlock()
		return "unknown", GateInfo{}
	}
	if p.state == Done {
		s.mu.Unlock()
		return Done, GateInfo{}
	}
	if p.state != Parked {
		s.mu.Unlock()
		// it may have been blocked earlier and progressed meanwhile
		st := s.await(p)
		if st != Parked {
			return st, GateInfo{}
		}
		s.mu.Lock()
	}
	from := p.at
	ops := -1
	if isAnon(p.name) {
		ops = p.opsDone
	}
	p.state = Running
	// drain stale notifications
	for len(p.changed) > 0 {
		<-p.changed
	}
	s.mu.Unlock()
	p.release <- struct{}{}
	return s.awaitFrom(p, ops), from
}

// After is called by doubles when a gated operation has completed.
func (s *Sched) After() {
	if s == nil {
		return
	}
	id := goid()
	s.mu.Lock()
	name, ok := s.gids[id]
	var p *proc
	if ok {
		p = s.procs[name]
	}
	if p != nil {
		p.opsDone++
	}
	s.mu.Unlock()
	if p != nil {
		p.notify()
	}
}

// Await waits (bounded by the watchdog) until a running process parks or finishes and returns its state.
func (s *Sched) Await(name string) string {
	s.mu.Lock()
	p := s.procs[name]
	s.mu.Unlock()
	if p == nil {
		return "unknown"
	}
	return s.await(p)
}

// State returns the current state and gate of a process.
func (s *Sched) State(name string) (string, GateInfo) {
	s.mu.Lock()
	defer s.mu.Unlock()
	p := s.procs[name]
	if p == nil {
		return "unknown", GateInfo{}
	}
	return p.state, p.at
}

// Result returns fn's return value once the process is done.
func (s *Sched) Result(name string) any {
	s.mu.Lock()
	defer s.mu.Unlock()
	if p := s.procs[name]; p != nil {
		return p.result
	}
	return nil
}

// Procs lists process names in creation order (adopted ones included).
func (s *Sched) Procs() []string {
	s.mu.Lock()
	defer s.mu.Unlock()
	return append([]string(nil), s.order...)
}

// WaitAdopted waits until an adopted process with the given name exists and is parked.
func (s *Sched) WaitAdopted(name string) bool {
	deadline := time.Now().Add(s.Watchdog)
	for time.Now().Before(deadline) {
		s.mu.Lock()
		p := s.procs[name]
		ok := p != nil && p.state == Parked
		s.mu.Unlock()
		if ok {
			return true
		}
		time.Sleep(200 * time.Microsecond)
	}
	return false
}

// Drain switches to free-running mode, releases everything parked and waits (bounded) for all
// started processes to finish. It returns false if some process did not finish.
func (s *Sched) Drain(timeout time.Duration) bool {
	s.mu.Lock()
	s.free = true
	var ps []*proc
	for _, n := range s.order {
		ps = append(ps, s.procs[n])
	}
	for _, p := range ps {
		if p.state == Parked {
			p.state = Running
			select {
			case p.release <- struct{}{}:
			default:
			}
		}
	}
	s.mu.Unlock()
	deadline := time.Now().Add(timeout)
	for {
		all := true
		s.mu.Lock()
		for _, p := range ps {
			if p.state == Parked { // parked after free switch cannot happen, but be safe
				p.state = Running
				select {
				case p.release <- struct{}{}:
				default:
				}
			}
			if p.state != Done && !isAnon(p.name) {
				all = false
			}
		}
		s.mu.Unlock()
		if all {
			return true
		}
		if time.Now().After(deadline) {
			return false
		}
		time.Sleep(500 * time.Microsecond)
	}
}

func isAnon(n string) bool {
	for i := 0; i < len(n); i++ {
		if n[i] == '#' {
			return true
		}
	}
	return false
}
