package srvkit

import (
	"fmt"
	"sort"
)

// World is driver-side bookkeeping that maps the abstract names of a TLA+ behaviour
// (connections "c1", "c2", ...; clients "A", "B", ...) to the concrete connections and client
// identities of one Server, and renders projections of the server state in those names.
type World struct {
	S           *Server
	ConnNames   []string // universe of connection names, in accept order
	ClientNames []string // universe of client names, in issue order

	conns      map[string]*Conn
	connByID   map[string]string
	creds      map[string]*Cred
	clientByID map[int64]string
}

// Cred is what a first connect handed out.
type Cred struct {
	ID     int64
	Secret string
}

// NewWorld wraps a server.
func NewWorld(s *Server, connNames, clientNames []string) *World {
	return &World{S: s, ConnNames: connNames, ClientNames: clientNames,
		conns: map[string]*Conn{}, connByID: map[string]string{}, creds: map[string]*Cred{}, clientByID: map[int64]string{}}
}

// IP is the remote address used for connection name (every connection has its own address).
func (w *World) IP(name string) string {
	for i, n := range w.ConnNames {
		if n == name {
			return fmt.Sprintf("10.9.%d.%d", i/200, i%200+1)
		}
	}
	return "10.9.250.1"
}

// Accept opens the named connection.
func (w *World) Accept(name string) (*Conn, error) {
	if w.conns[name] != nil {
		return nil, fmt.Errorf("srvkit: %s accepted twice", name)
	}
	c, err := w.S.NewConn(w.IP(name))
	if err != nil {
		return nil, err
	}
	w.conns[name] = c
	w.connByID[c.ID] = name
	return c, nil
}

// Conn returns the named connection (nil if not accepted).
func (w *World) Conn(name string) *Conn { return w.conns[name] }

// NextClientName is the name the next issued identity gets ("" when the universe is used up).
func (w *World) NextClientName() string {
	if len(w.creds) < len(w.ClientNames) {
		return w.ClientNames[len(w.creds)]
	}
	return ""
}

// AddClient records an identity the server issued under the next free name and returns the name.
func (w *World) AddClient(id int64, secret string) string {
	n := w.NextClientName()
	if n == "" {
		n = fmt.Sprintf("?%d", id)
	}
	w.creds[n] = &Cred{ID: id, Secret: secret}
	w.clientByID[id] = n
	return n
}

// Cred returns the credentials issued under name (nil if the name is not issued yet).
func (w *World) Cred(name string) *Cred { return w.creds[name] }

// ClientID is the id to put on the wire for name: the issued id, or a stable id no server
// issues (8-digit ids are generated; these have 9 digits) while the name is not issued.
func (w *World) ClientID(name string) int64 {
	if c := w.creds[name]; c != nil {
		return c.ID
	}
	for i, n := range w.ClientNames {
		if n == name {
			return 900000001 + int64(i)
		}
	}
	return 900000999
}

// ConnName / ClientName translate server values back ("none" for nothing, "?x" for strangers).
func (w *World) ConnName(id string) string {
	if id == "" {
		return "none"
	}
	if n, ok := w.connByID[id]; ok {
		return n
	}
	return "?" + id
}
func (w *World) ClientName(id int64) string {
	if id == 0 {
		return "none"
	}
	if n, ok := w.clientByID[id]; ok {
		return n
	}
	return fmt.Sprintf("?%d", id)
}

// Projection renders Server.Project in abstract names, JSON-ready:
//
//	lookup: X -> {c, cid, authd}      GetControlConnectionByClientID for every client name
//	ilookup: X -> {c, cid, authd}     GetControlConnectionInterface (c = "none" only for a real nil)
//	conns:  c -> {sess, reg, tun, authd, cid, tcl}  for every accepted connection
//	listed: [c...]                     ListAuthenticated
//	slist:  [c...]                     SessionManager.ListConnections
//	ctl, tun, total, count             GetConnectionStats / GetActiveChannels
func (w *World) Projection() map[string]any {
	ids := make([]int64, len(w.ClientNames))
	for i, n := range w.ClientNames {
		ids[i] = w.ClientID(n)
	}
	p := w.S.Project(ids)
	render := func(lv LookupView) map[string]any {
		if !lv.Found {
			return map[string]any{"c": "none", "cid": "none", "authd": false}
		}
		c := w.ConnName(lv.ConnID)
		if lv.ConnID == "" {
			c = "?no-connection" // something was returned (non-nil), but it is no connection
		}
		return map[string]any{"c": c, "cid": w.ClientName(lv.ClientID), "authd": lv.Authd}
	}
	lookup, ilookup := map[string]any{}, map[string]any{}
	for i, n := range w.ClientNames {
		lookup[n] = render(p.Lookup[ids[i]])
		ilookup[n] = render(p.LookupIface[ids[i]])
	}
	conns := map[string]any{}
	for name, c := range w.conns {
		v := p.Conns[c.ID]
		cid := "none"
		if v.InControl {
			cid = w.ClientName(v.ClientID)
		}
		conns[name] = map[string]any{"sess": v.InSession, "reg": v.InControl, "tun": v.InTunnel, "authd": v.Authd, "cid": cid, "tcl": v.Closed,
			"info": v.InfoFound, "cidof": w.ClientName(v.ClientOf)}
	}
	listed := []string{}
	for _, a := range p.Authenticated {
		listed = append(listed, w.ConnName(a.ConnID))
	}
	sort.Strings(listed)
	slist := []string{}
	for _, id := range p.SessionList {
		slist = append(slist, w.ConnName(id))
	}
	sort.Strings(slist)
	return map[string]any{"lookup": lookup, "conns": conns, "ilookup": ilookup, "listed": listed, "slist": slist,
		"ctl": p.Stats.ControlConnections, "tun": p.Stats.TunnelConnections, "total": p.Stats.TotalConnections, "count": p.Count}
}
